#!/bin/bash
# Offline build of the harness from files on disk: every registered check binary, the per-build
# evaluators of C19 and the Miri runner of C17 (warm caches so that quick checks are fast).
set -u
cd /verif || exit 2
export CARGO_NET_OFFLINE=true
export RUSTFLAGS="--cfg dashu_verif"
export CARGO_TERM_COLOR=never
mkdir -p /verif/target /verif/evidence /verif/replays
bins=$(python3 -c "
import json
m=json.load(open('/verif/MANIFEST.json'))
print(' '.join('--bin '+c['property_id'].lower() for c in m['checks']))")
(cd /verif/harness && cargo build --release $bins 2>&1 | tail -3) || exit 1
# warm-ups (failures here are not fatal: the checks build what they need themselves)
if echo "$bins" | grep -q c19; then
  for cfg in "native-std-assert::" "native-std-noassert::noassert" "w32-std-assert:32:" "g64-std-assert:64:" "native-nostd-assert::nostd"; do
    name=${cfg%%:*}; rest=${cfg#*:}; bits=${rest%%:*}; kind=${rest#*:}
    flags="--cfg dashu_verif"; [ -n "$bits" ] && flags="$flags --cfg force_bits=\"$bits\""
    extra=""; [ "$kind" = "nostd" ] && extra="--no-default-features"
    ( if [ "$kind" = "noassert" ]; then export CARGO_PROFILE_RELEASE_DEBUG_ASSERTIONS=false CARGO_PROFILE_RELEASE_OVERFLOW_CHECKS=false; fi
      RUSTFLAGS="$flags" cargo build --release --manifest-path /verif/harness/eval/Cargo.toml --target-dir /verif/target/c19/$name $extra >/dev/null 2>&1 ) &
  done
  wait
fi
if echo "$bins" | grep -q c17; then
  echo '[]' > /verif/target/empty-histories.json
  (cd /verif/miri && MIRIFLAGS="-Zmiri-disable-isolation" CARGO_TARGET_DIR=/verif/target/miri cargo +nightly miri run --quiet -- /verif/target/empty-histories.json >/dev/null 2>&1) || true
fi
echo "setup done"
