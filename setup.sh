#!/bin/bash
# Offline build of the whole harness (all check binaries) from files on disk.
set -u
cd /verif/harness || exit 2
export CARGO_NET_OFFLINE=true
export RUSTFLAGS="--cfg dashu_verif"
mkdir -p /verif/target /verif/evidence /verif/replays
cargo build --release --bins 2>&1 | tail -5
