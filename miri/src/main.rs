//! Runs histories (JSON file written by `c17 --tier thorough`) through dv::vm::run under Miri.
use dv::vm::{self, Op};
use dv::Nat;
use serde::Deserialize;

#[derive(Deserialize)]
struct History {
    init: Vec<(bool, Nat)>,
    ops: Vec<Op>,
}

fn main() {
    let path = std::env::args().nth(1).expect("usage: c17miri <histories.json>");
    let txt = std::fs::read_to_string(&path).expect("read histories");
    let hs: Vec<History> = serde_json::from_str(&txt).expect("parse histories");
    for (i, h) in hs.iter().enumerate() {
        println!("MIRI-START {i}");
        match vm::run(&h.init, &h.ops) {
            Ok(_) => println!("MIRI-OK {i}"),
            Err(e) => {
                println!("VM-VIOLATION {i}: {e}");
                std::process::exit(3);
            }
        }
    }
}
