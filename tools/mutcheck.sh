#!/bin/bash
# tools/mutcheck.sh <patch.diff> <Cnn> [Cnn ...]   (env: MUT_ARGS="--scale 0.3", MUT_KEEP=1)
# Runs checks against a scratch copy of /repo with <patch> applied, without touching /repo:
# a git worktree under /tmp/mut-$$/repo, a copy of the harness whose path dependencies point to it,
# its own target dir, and DV_OUT so that evidence/replays of the real tree are not overwritten.
# Prints one line per check: CAUGHT / MISSED / INFRA. Removes everything afterwards.
set -u
patch=$(readlink -f "$1"); shift
root=/tmp/mut-$$
mkdir -p $root/out
git -C /repo worktree add -q --detach $root/repo HEAD || exit 2
cleanup() { git -C /repo worktree remove --force $root/repo 2>/dev/null; [ "${MUT_KEEP:-0}" = 1 ] || rm -rf $root; }
trap cleanup EXIT
# carry over uncommitted changes of /repo (normally none)
if ! git -C $root/repo apply "$patch"; then echo "INFRA: patch does not apply"; exit 2; fi
cp -r ${MUT_HARNESS_SRC:-/verif/harness} $root/harness; rm -rf $root/harness/fuzz/target
cp -r ${MUT_MIRI_SRC:-/verif/miri} $root/miri
sed -i "s#/repo/#$root/repo/#g" $root/harness/dv/Cargo.toml $root/harness/checks/Cargo.toml $root/harness/eval/Cargo.toml $root/harness/fuzz/Cargo.toml 2>/dev/null
sed -i "s#^target-dir.*#target-dir = \"${MUT_TARGET:-/verif/target/mut}\"#" $root/harness/.cargo/config.toml
export CARGO_NET_OFFLINE=true RUSTFLAGS="--cfg dashu_verif" DV_OUT=$root/out DV_HARNESS=$root/harness DV_REPO=$root/repo
export DV_EVAL_TARGET=${MUT_TARGET:-/verif/target/mut}-eval DV_MACROGEN=${MUT_TARGET:-/verif/target/mut}-macrogen
export DV_MIRI=$root/miri DV_MIRI_TARGET=${MUT_TARGET:-/verif/target/mut}-miri DV_SCRATCH=$root/out
rc_all=0
for id in "$@"; do
  bin=$(echo "$id" | tr 'A-Z' 'a-z')
  if ! (cd $root/harness && cargo build --release --bin "$bin" >$root/build.log 2>&1); then
    echo "$id INFRA (build failed)"; grep -E "^error" -A6 $root/build.log | head -20; rc_all=2; continue
  fi
  timeout -k 5 ${MUT_TIMEOUT:-1500} ${MUT_TARGET:-/verif/target/mut}/release/$bin ${MUT_ARGS:-} > $root/out/$id.log 2>&1
  rc=$?
  case $rc in
    1) echo "$id CAUGHT: $(grep -m1 -A1 '^VIOLATION' $root/out/$id.log | tail -1 | cut -c1-300)";;
    0) echo "$id MISSED"; rc_all=1;;
    *) echo "$id INFRA rc=$rc $(tail -2 $root/out/$id.log | cut -c1-200)";;
  esac
done
exit $rc_all
