#!/usr/bin/env python3
"""Maintain /verif/known_findings.json (by hand, never at check run time).
  kf.py known <id> <property> <replay.json> "<what>" ["<class description>"]
  kf.py witness <id> <replay.json>          # additional witness (possibly of another property/sub)
  kf.py fixed <property> <commit> <replay.json|-> "<what>"   # also copies the replay into regress/
"""
import json, sys, os, shutil
P = os.environ.get("KF_FILE", "/verif/known_findings.json")
if not os.path.exists(P): json.dump({"findings": []}, open(P, "w"))
d = json.load(open(P))
cmd = sys.argv[1]
def wit(path):
    r = json.load(open(path))
    return {"property": r["property"], "sub": r["sub"], "case": r["case"]}
if cmd == "known":
    id, prop, path, what = sys.argv[2:6]
    cls = sys.argv[6] if len(sys.argv) > 6 else ""
    d["findings"] = [f for f in d["findings"] if f.get("id") != id]
    d["findings"].append({"id": id, "state": "known", "property": prop, "what": what, "class": cls, "witnesses": [wit(path)]})
elif cmd == "witness":
    id, path = sys.argv[2:4]
    f = [f for f in d["findings"] if f.get("id") == id][0]
    w = wit(path)
    if w not in f["witnesses"]:
        f["witnesses"].append(w)
elif cmd == "fixed":
    prop, commit, path, what = sys.argv[2:6]
    entry = {"state": "fixed", "property": prop, "commit": commit, "what": what,
             "line": f"fixed: property={prop} {commit} {what}"}
    if path != "-":
        r = json.load(open(path))
        os.makedirs(f"/verif/regress/{prop}", exist_ok=True)
        dst = f"/verif/regress/{prop}/{os.path.basename(path)}"
        json.dump(r, open(dst, "w"), indent=1)
        entry["regression_case"] = dst
    d["findings"].append(entry)
json.dump(d, open(P, "w"), indent=1)
print("ok", len(d["findings"]), "entries")
