#!/usr/bin/env python3
"""Maintain /verif/known_findings.json (by hand, never at check run time).
  kf.py known <id> <property> <replay.json> "<what>" ["<class description>"]
  kf.py witness <id> <replay.json>          # additional witness (possibly of another property/sub)
  kf.py fixed <property> <commit> <replay.json|-> "<what>"   # also copies the replay into regress/
"""
import json, sys, os, shutil
P = os.environ.get("KF_FILE", "/verif/known_findings.json")
if not os.path.exists(P): json.dump({"findings": []}, open(P, "w"))
d = json.load(open(P))
cmd = sys.argv[1]
def wit(path):
    r = json.load(open(path))
    return {"property": r["property"], "sub": r["sub"], "case": r["case"]}
if cmd == "known":
    id, prop, path, what = sys.argv[2:6]
    cls = sys.argv[6] if len(sys.argv) > 6 else ""
    d["findings"] = [f for f in d["findings"] if f.get("id") != id]
    d["findings"].append({"id": id, "state": "known", "property": prop, "what": what, "class": cls, "witnesses": [wit(path)]})
elif cmd == "witness":
    id, path = sys.argv[2:4]
    f = [f for f in d["findings"] if f.get("id") == id][0]
    w = wit(path)
    if w not in f["witnesses"]:
        f["witnesses"].append(w)
elif cmd == "fixed":
    prop, commit, path, what = sys.argv[2:6]
    entry = {"state": "fixed", "property": prop, "commit": commit, "what": what,
             "line": f"fixed: property={prop} {commit} {what}"}
    if path != "-":
        r = json.load(open(path))
        os.makedirs(f"/verif/regress/{prop}", exist_ok=True)
        dst = f"/verif/regress/{prop}/{os.path.basename(path)}"
        json.dump(r, open(dst, "w"), indent=1)
        entry["regression_case"] = dst
    d["findings"].append(entry)
elif cmd == "merge":
    # kf.py merge: move every entry of known_findings.d/*.json into the main file
    import glob
    MAIN = "/verif/known_findings.json"
    main = json.load(open(MAIN))
    for path in sorted(glob.glob("/verif/known_findings.d/*.json")):
        doc = json.load(open(path))
        for f in doc.get("findings", []):
            if f not in main["findings"]:
                main["findings"].append(f)
        os.remove(path)
    json.dump(main, open(MAIN, "w"), indent=1)
    print("merged;", len(main["findings"]), "entries")
    sys.exit(0)
elif cmd == "tofixed":
    # kf.py tofixed <id> <commit> ["<what override>"]: known entry (main file or a fragment) -> fixed entry in the main file
    import glob
    id, commit = sys.argv[2:4]
    MAIN = "/verif/known_findings.json"
    main = json.load(open(MAIN))
    found = None
    for path in [MAIN] + sorted(glob.glob("/verif/known_findings.d/*.json")):
        doc = json.load(open(path))
        keep = []
        for f in doc["findings"]:
            if f.get("id") == id and f.get("state") == "known":
                found = f
            else:
                keep.append(f)
        if len(keep) != len(doc["findings"]):
            doc["findings"] = keep
            if path == MAIN:
                main = doc
            elif keep:
                json.dump(doc, open(path, "w"), indent=1)
            else:
                os.remove(path)
    assert found, "no such known entry"
    what = sys.argv[4] if len(sys.argv) > 4 else found["what"]
    regs = []
    for i, w in enumerate(found.get("witnesses", [])):
        os.makedirs(f"/verif/regress/{w['property']}", exist_ok=True)
        dst = f"/verif/regress/{w['property']}/{id.replace('/', '_')}-{i}.json"
        json.dump({"property": w["property"], "sub": w["sub"], "case": w["case"], "note": f"regression witness of fixed defect {id} ({commit})"}, open(dst, "w"), indent=1)
        regs.append(dst)
    prop = found["property"]
    main["findings"].append({"state": "fixed", "property": prop, "commit": commit, "former_id": id, "what": what,
                             "line": f"fixed: property={prop} {commit} {what}", "regression_cases": regs})
    json.dump(main, open(MAIN, "w"), indent=1)
    print("fixed", id, regs)
    sys.exit(0)
json.dump(d, open(P, "w"), indent=1)
print("ok", len(d["findings"]), "entries")
