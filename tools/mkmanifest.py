#!/usr/bin/env python3
"""Regenerates /verif/MANIFEST.json from the table below (keeps it schema-valid at all times)."""
import json, os, sys
ROOT = "/verif"
ALL = ["C%02d" % i for i in range(1, 21)]

# id -> (technique, level text, level note, design ref)
CHECKS = {}
def reg(id, technique, text, note, ref=None):
    CHECKS[id] = dict(technique=technique, text=text, note=note, ref=ref or ("DESIGN.md §7 " + id))

exec(open(os.path.join(ROOT, "tools", "checks_table.py")).read())

built = [c for c in ALL if c in CHECKS and os.path.exists(f"{ROOT}/harness/checks/src/bin/{c.lower()}.rs")]
manifest = {
    "version": 1,
    "setup_cmd": "cd /verif && ./setup.sh",
    "hooks": {
        "guard": "dashu_verif",
        "enable": "RUSTFLAGS=\"--cfg dashu_verif\" (set by /verif/check for every build of the harness, which depends on /repo's crates by path)",
        "baseline_off_cmd": "cd /repo && cargo test --workspace --no-fail-fast --offline",
        "source_commits": HOOK_COMMITS,
        "add_only": True,
    },
    "engines": [
        {"name": "dvcheck", "path": "/verif/harness", "serves_properties": built,
         "kind_free_text": "proptest 1.x TestRunner driven from one binary per property (fixed shards, seeds derived from VERIF_SEED), explicit oracles (num-bigint/num-rational differential, exact-rational rounding contract, ball arithmetic), shrinking to a JSON replay file, known-findings matcher, evidence writer"},
    ] + EXTRA_ENGINES,
    "checks": [],
    "notes": NOTES,
    "not_applicable": [],
}
for c in ALL:
    if c in built:
        e = CHECKS[c]
        manifest["checks"].append({
            "property_id": c,
            "quick_cmd": f"./check {c} --tier quick",
            "thorough_cmd": f"./check {c} --tier thorough",
            "evidence_file": f"/verif/evidence/{c}.json",
            "replay_cmd_template": f"./check {c} --replay {{path}}",
            "engine": "dvcheck",
            "level_claimed": {"category": "exploration", "text": e["text"], "design_ref": e["ref"]},
            "level_note": e["note"],
            "technique": e["technique"],
        })
    else:
        manifest["not_applicable"].append({"property_id": c, "reason": NOT_BUILT.get(c, "check not built yet in this revision of /verif (design in DESIGN.md §7); not claimed")})
json.dump(manifest, open(f"{ROOT}/MANIFEST.json", "w"), indent=1)
print("MANIFEST.json:", len(manifest["checks"]), "checks,", len(manifest["not_applicable"]), "not claimed")
try:
    import jsonschema
    jsonschema.validate(manifest, json.load(open("/root/.vp/MANIFEST.schema.json")))
    print("schema: ok")
except ImportError:
    print("jsonschema not importable in this python; validate with python3-vt")
