#!/bin/bash
# tools/seedeval.sh <slot> <unit> <mK> [extra checks...]   (env SEED_ROOT, SEED_RES)
# Reads the first two lines of <unit>/out/<mK>/notes.md ("# unit / mK — Cnn — crate — title", "build: …"),
# derives the build configuration of the demonstration, then confirms the change (seedverify.sh) and
# runs the named property's check plus the extra ones against it (mutcheck.sh) via seedslot.sh.
slot=$1; unit=$2; m=$3; shift 3
root=${SEED_ROOT:-/tmp/seed}; notes=$root/$unit/out/$m/notes.md
l1=$(sed -n 1p "$notes"); l2=$(sed -n 2p "$notes")
prop=$(echo "$l1" | grep -oE "C[0-9][0-9]" | head -1)
crate=$(echo "$l1" | grep -oE "\b(base|integer|float|rational|macros)\b" | head -1)
[ "$crate" = base ] && crate=integer   # dashu-base has no tests directory: its demos run from dashu-int's
unset SV_RUSTFLAGS SV_FEATURES SV_CARGO_ARGS
case "$l2" in *force_bits=*32*) export SV_RUSTFLAGS='--cfg force_bits="32"';; *force_bits=*64*) export SV_RUSTFLAGS='--cfg force_bits="64"';; esac
f=$(echo "$l2" | grep -oE "\-\-features[ =][A-Za-z0-9_,/-]+" | head -1); [ -n "$f" ] && export SV_FEATURES="$f"
a=""; case "$l2" in *--release*) a="$a --release";; esac; case "$l2" in *--no-default-features*) a="$a --no-default-features";; esac
[ -n "$a" ] && export SV_CARGO_ARGS="$a"
checks="$prop"; for c in "$@"; do [ "$c" != "$prop" ] && checks="$checks $c"; done
echo "$unit $m $crate $checks" | /verif/tools/seedslot.sh $slot
