#!/bin/bash
# tools/runthorough.sh <seed> Cnn...  — thorough tier of the named checks, one after the other;
# evidence and replay files go to target/thorough-out (the committed evidence is not touched)
seed=$1; shift
cd "$(dirname "$0")/.." || exit 2
export DV_OUT=/verif/target/thorough-out; mkdir -p $DV_OUT
for id in "$@"; do
  t0=$(date +%s)
  VERIF_SEED=$seed ./check $id --tier thorough > $DV_OUT/$id.log 2>&1; rc=$?
  t1=$(date +%s)
  echo "$id rc=$rc t=$((t1-t0))s $(grep '^SUMMARY' $DV_OUT/$id.log | cut -d' ' -f4-)"
  grep -E '^VIOLATION|^INFRA|^INCONCLUSIVE|^  sub=' $DV_OUT/$id.log | head -6
done
