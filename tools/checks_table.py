# Table read by mkmanifest.py
HOOK_COMMITS = []
EXTRA_ENGINES = []
NOT_BUILT = {}
NOTES = ("All checks are generated-input search against an explicit oracle (property-based testing / fuzzing); "
         "level is 'exploration' everywhere: nothing is established beyond the cases generated, which every evidence file counts, "
         "classifies and samples. Exit 2 = infrastructure/inconclusive, never a verdict. See DESIGN.md.")
TRUST = "Trusted: rustc/std, proptest, num-bigint/num-rational (independent reference), the harness' oracle code. 64-bit words, default features + serde unless stated. Finds violations only on generated cases; never establishes absence."

reg("C01", "property-based differential testing vs num-bigint + algebraic identities (proptest)",
    "Generated structured operand pairs (size classes straddling inline/heap, schoolbook/Karatsuba/Toom-3, squaring shortcut; carry/borrow patterns) through + - * sqr cubic pow in every ownership, assign, mixed and primitive form; each result compared word-for-word with num-bigint, large sizes additionally with ring identities. Right level because the property quantifies over all operands and an exact independent oracle exists.",
    TRUST)

reg("C02", "property-based testing by construction a=q*b+r, differential vs num-bigint (proptest)",
    "Dividends constructed from chosen divisor/quotient/remainder classes (word, double word incl. powers of two, multi-word on both sides of the schoolbook/divide-and-conquer switch, top-word-correction dividends), all signs, through every division form incl. Euclidean, assign, mixed, primitive, is_multiple_of and ConstDivisor; each result checked against the division identity evaluated in num-bigint; zero divisors must panic with the divide-by-zero message.",
    TRUST)

reg("C03", "property-based testing against an exact-arithmetic rounding-contract oracle (proptest, 60 mode×base instantiations)",
    "Context add/sub/mul/div/sqr/cubic/inv/sqrt and the FBig operators in 6 modes × 5 bases on operands aimed at the alignment branches (exponent gaps relative to p, cancellation, carries, exact quotients, tie radicands); the six clauses of the documented contract (Exact⇔equal, <=p+1 digits, representable⇒exact, error <1 ulp / <=1/2 ulp, side, AddOne/SubOne direction) are evaluated with integer arithmetic only; sqrt is decided by comparing squares.",
    TRUST + " The contract checked is the documented faithful-rounding contract, not correct rounding to p digits.")

reg("C09", "property-based differential testing vs num-bigint BigInt cross-checked by a word-level two's-complement model (proptest)",
    "Generated structured integers of every sign (magnitudes of exactly 0-4 words and larger, all-ones, 2^k, 2^(64k)±1, zero low words, runs of trailing ones across word boundaries; pairs incl. b=!a, b=-a, one bit flipped) through & | ^ ! in every ownership/assign/mixed UBig-IBig/primitive form, << >> (+assign) and bit, set_bit, clear_bit, split_bits, clear_high_bits, bit_len, trailing_zeros/ones, count_ones/zeros, is/next_power_of_two, ones(n), with shift counts and positions from 0 over every word boundary to far beyond the operand; each result compared word-for-word with num-bigint, which must itself agree with an independent two's-complement model; >> additionally against floor division.",
    TRUST)

reg("C11", "property-based testing against a rigorous ball-arithmetic enclosure with a Ziv precision ladder (proptest, 30 mode×base instantiations)",
    "exp, exp_m1, ln, ln_1p, powi, powf through Context and FBig methods for arguments placed by magnitude class (tiny, next to 0/1/-1, huge, exact points); the true value is enclosed by outward-rounded midpoint-radius arithmetic written for this harness (Taylor tails bounded explicitly, ln certified through exp), precision doubled up to 4 times; a result is a violation only when the whole enclosure is >= 1 ulp away, a pass only when the whole enclosure is < 1 ulp away, otherwise inconclusive; rational truths are compared exactly; Exact on an irrational truth is a violation. The enclosure kernel is self-checked against 80-digit constants and exp(ln x) at start-up.",
    TRUST + " Soundness of the oracle rests on dv/src/ball.rs; irrationality facts (Lindemann-Weierstrass, non-perfect-power roots) are assumed.")

reg("C07", "property-based differential testing (proptest): num-bigint digits, std pad_integral + u128/i128 as layout reference, reference parser from the rustdoc grammar, own two's-complement decoder",
    "Generated integers on every printer/parser size threshold (digits per word, 256-word chunks, divide-and-conquer levels, bit-packed radices straddling words) × 35 radices × 208 format specs × 5 formatting traits; valid, single-edit-mutated and arbitrary Unicode input strings through the four parse entry points; bytes (two's complement) and bit chunks round trips and raw decoding. Digits are compared with num-bigint, layout with Rust's own pad_integral and primitive formatting, parsing with a reference parser written from the rustdoc grammar.",
    TRUST)
