# Table read by mkmanifest.py
HOOK_COMMITS = ["46eb209"]
EXTRA_ENGINES = []
NOT_BUILT = {}
NOTES = ("All checks are generated-input search against an explicit oracle (property-based testing / fuzzing); "
         "level is 'exploration' everywhere: nothing is established beyond the cases generated, which every evidence file counts, "
         "classifies and samples. Exit 2 = infrastructure/inconclusive, never a verdict. See DESIGN.md.")
TRUST = "Trusted: rustc/std, proptest, num-bigint/num-rational (independent reference), the harness' oracle code. 64-bit words, default features + serde unless stated. Finds violations only on generated cases; never establishes absence."

reg("C01", "property-based differential testing vs num-bigint + algebraic identities (proptest)",
    "Generated structured operand pairs (size classes straddling inline/heap, schoolbook/Karatsuba/Toom-3, squaring shortcut; carry/borrow patterns) through + - * sqr cubic pow in every ownership, assign, mixed and primitive form; each result compared word-for-word with num-bigint, large sizes additionally with ring identities. Right level because the property quantifies over all operands and an exact independent oracle exists.",
    TRUST)

reg("C02", "property-based testing by construction a=q*b+r, differential vs num-bigint (proptest)",
    "Dividends constructed from chosen divisor/quotient/remainder classes (word, double word incl. powers of two, multi-word on both sides of the schoolbook/divide-and-conquer switch, top-word-correction dividends), all signs, through every division form incl. Euclidean, assign, mixed, primitive, is_multiple_of and ConstDivisor; each result checked against the division identity evaluated in num-bigint; zero divisors must panic with the divide-by-zero message.",
    TRUST)

reg("C03", "property-based testing against an exact-arithmetic rounding-contract oracle (proptest, 60 mode×base instantiations)",
    "Context add/sub/mul/div/sqr/cubic/inv/sqrt and the FBig operators in 6 modes × 5 bases on operands aimed at the alignment branches (exponent gaps relative to p, cancellation, carries, exact quotients, tie radicands); the six clauses of the documented contract (Exact⇔equal, <=p+1 digits, representable⇒exact, error <1 ulp / <=1/2 ulp, side, AddOne/SubOne direction) are evaluated with integer arithmetic only; sqrt is decided by comparing squares.",
    TRUST + " The contract checked is the documented faithful-rounding contract, not correct rounding to p digits.")

reg("C09", "property-based differential testing vs num-bigint BigInt cross-checked by a word-level two's-complement model (proptest)",
    "Generated structured integers of every sign (magnitudes of exactly 0-4 words and larger, all-ones, 2^k, 2^(64k)±1, zero low words, runs of trailing ones across word boundaries; pairs incl. b=!a, b=-a, one bit flipped) through & | ^ ! in every ownership/assign/mixed UBig-IBig/primitive form, << >> (+assign) and bit, set_bit, clear_bit, split_bits, clear_high_bits, bit_len, trailing_zeros/ones, count_ones/zeros, is/next_power_of_two, ones(n), with shift counts and positions from 0 over every word boundary to far beyond the operand; each result compared word-for-word with num-bigint, which must itself agree with an independent two's-complement model; >> additionally against floor division.",
    TRUST)

reg("C11", "property-based testing against a rigorous ball-arithmetic enclosure with a Ziv precision ladder (proptest, 30 mode×base instantiations)",
    "exp, exp_m1, ln, ln_1p, powi, powf through Context and FBig methods for arguments placed by magnitude class (tiny, next to 0/1/-1, huge, exact points); the true value is enclosed by outward-rounded midpoint-radius arithmetic written for this harness (Taylor tails bounded explicitly, ln certified through exp), precision doubled up to 4 times; a result is a violation only when the whole enclosure is >= 1 ulp away, a pass only when the whole enclosure is < 1 ulp away, otherwise inconclusive; rational truths are compared exactly; Exact on an irrational truth is a violation. The enclosure kernel is self-checked against 80-digit constants and exp(ln x) at start-up.",
    TRUST + " Soundness of the oracle rests on dv/src/ball.rs; irrationality facts (Lindemann-Weierstrass, non-perfect-power roots) are assumed.")

reg("C07", "property-based differential testing (proptest): num-bigint digits, std pad_integral + u128/i128 as layout reference, reference parser from the rustdoc grammar, own two's-complement decoder",
    "Generated integers on every printer/parser size threshold (digits per word, 256-word chunks, divide-and-conquer levels, bit-packed radices straddling words) × 35 radices × 208 format specs × 5 formatting traits; valid, single-edit-mutated and arbitrary Unicode input strings through the four parse entry points; bytes (two's complement) and bit chunks round trips and raw decoding. Digits are compared with num-bigint, layout with Rust's own pad_integral and primitive formatting, parsing with a reference parser written from the rustdoc grammar.",
    TRUST)

reg("C04", "stateful property-based testing: operation sequences over a value pool with a num-rational BigRational model alongside, plus stateless all-call-forms differential (proptest)",
    "Seed rationals (a·g)/(b·g) with shared factors (zero numerators, integers, denominators 1 and 2^k, 1-3 and 10-40 word parts) fill a pool of 4 RBig + 4 Relaxed; up to 25/40 steps of + - * / % and the Euclidean trio in every ownership/assign form, mixed UBig/IBig forms on either side, pow sqr cubic inv neg abs signum fract split_at_point clone_from, every constructor, relax/canonicalize, results fed back. After every step every pool value is read through raw words: value = model, den >= 1, RBig parts = reduced fraction (gcd 1, zero 0/1), Relaxed without common factor 2; zero divisors/denominators must panic, nothing else may; % only as far as every reading supports, Euclidean forms in full.",
    TRUST + " num-rational's own reduction is the reference for lowest terms.")

reg("C10", "property-based testing against the definitions evaluated on exact rationals (proptest, 107 sub-instantiations over 6 modes × 5 bases)",
    "Generated floats with <= p digits in the classes the code branches on (|x| < B^-2 with -exponent beyond the precision, n + 1/2 and one unit either side, integers, mixed digits, exponents to ±400, unlimited precision), rationals with ties, and (integer, fraction) pairs with both sign agreements for the two public rounding primitives; trunc/floor/ceil/round/fract/split_at_point/to_int/with_precision and round_fract/round_ratio compared with floor/ceil/trunc/mode(x) computed exactly, plus Exact<=>no fraction and AddOne/SubOne direction. Only values and flags are judged, not the precision metadata of results.",
    TRUST)

reg("C12", "property-based testing by construction against defining (in)equalities in num-bigint (proptest) + exhaustive enumeration of u8 pairs / u8,u16 values",
    "gcd/gcd_ext of UBig/IBig/mixed/primitives on pairs built as (g·x, g·y), Fibonacci-like pairs, continued fractions with chosen quotients around 2^63/2^64, a = b·q + r with q ≈ 2^64·k, zero low words/bits, one or both operands zero: g equals num-integer's gcd and s·a + t·b = g exactly; sqrt/cbrt/nth_root/sqrt_rem/cbrt_rem on x = s²+r and x = rⁿ + {0, ±1, random} for every word count 0..8 and larger: rⁿ <= x < (r+1)ⁿ, rem = x − rⁿ; ilog at bᵉ + {0, ±1}: bᵉ <= |x| < bᵉ⁺¹; remove: exact multiplicity and cofactor; documented panics asserted with their message.",
    TRUST + " num-integer's BigUint gcd is the reference gcd (self-checked per case by divisibility and coprime cofactors).")

reg("C18", "property-based testing against brute-force and independent Stern-Brocot/Farey oracles with own IEEE and FBig rounding definitions (proptest, 18 mode×base instantiations)",
    "Interval end points from all classes (equal, swapped, zero, integer, straddling, negative, u = l ± 1/huge, shared continued-fraction prefixes), denominator limits relative to the convergents of x, every finite f32/f64 class plus NaN/inf, FBig in 3 bases × 6 modes × precisions 0..40; simplest_in / simplest_from_* must equal the unique simplest fraction of the exact open interval resp. of the exact rounding interval, next_up/next_down must equal the Farey neighbours (accelerated walk cross-checked by brute force and the extended-Euclid adjacency test), nearest the closer one with sign(result − self), is_simpler_than the documented lexicographic order.",
    TRUST + " ErrorBounds is only required to cover the exact rounding interval; tightness is judged through simplest_from_float. Limits whose linear Farey walk would exceed 150k steps are not executed.")

reg("C13", "property-based differential testing vs num-bigint: reduce-then-operate = operate-then-reduce over constructed ring/element/exponent classes (proptest)",
    "Rings from every ConstDivisor representation (1, 2, 2^k, one/two words with and without normalisation shift, 3-48 words (200 thorough), even, low-words-zero, shared-factor and perfect-square moduli) × elements built relative to the modulus (0, m±1, k·m, m−a, a·b=m, any sign/size, all primitive types) × exponents 0..12 words; every form of + - * / Neg dbl sqr pow inv == residue modulus IntoRing and the num_modular::Reducer impl compared with num-bigint (own square-and-multiply cross-checked with modpow); residues in [0,m); inv Some ⇔ gcd=1; non-invertible division and any mixing of two ConstDivisor instances must panic with the documented message.",
    TRUST)

reg("C08", "property-based testing (proptest): grammar-directed strings + single-edit mutations + arbitrary Unicode vs an independent reference parser; print→parse round trips incl. flags/width/.N for 7 formatters; exact-rational six-clause faithful-rounding contract for precision/base changes over 12 base pairs × 6 modes",
    "Strings generated from the documented grammar per base together with the value and digit count they denote, their mutations and arbitrary text through FromStr/from_str_native; values printed with Display/LowerExp/UpperExp/Binary/Octal/Hex (flags, width, .N) and read back by the reference parser; with_precision, with_base, with_base_and_precision, to_decimal, to_binary judged by the exact contract (representable⇒Exact, <1 ulp, side per mode, truthful flag, <= p+1 digits) in both convert_base regimes; documented target precision formula; exact import of every IEEE class.",
    TRUST + " Spots the float rustdoc leaves unspecified (underscore-only parts, 0X prefix) accept Err or the natural value.")
