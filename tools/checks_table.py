# Table read by mkmanifest.py
HOOK_COMMITS = []
EXTRA_ENGINES = []
NOT_BUILT = {}
NOTES = ("All checks are generated-input search against an explicit oracle (property-based testing / fuzzing); "
         "level is 'exploration' everywhere: nothing is established beyond the cases generated, which every evidence file counts, "
         "classifies and samples. Exit 2 = infrastructure/inconclusive, never a verdict. See DESIGN.md.")
TRUST = "Trusted: rustc/std, proptest, num-bigint/num-rational (independent reference), the harness' oracle code. 64-bit words, default features + serde unless stated. Finds violations only on generated cases; never establishes absence."

reg("C01", "property-based differential testing vs num-bigint + algebraic identities (proptest)",
    "Generated structured operand pairs (size classes straddling inline/heap, schoolbook/Karatsuba/Toom-3, squaring shortcut; carry/borrow patterns) through + - * sqr cubic pow in every ownership, assign, mixed and primitive form; each result compared word-for-word with num-bigint, large sizes additionally with ring identities. Right level because the property quantifies over all operands and an exact independent oracle exists.",
    TRUST)

reg("C02", "property-based testing by construction a=q*b+r, differential vs num-bigint (proptest)",
    "Dividends constructed from chosen divisor/quotient/remainder classes (word, double word incl. powers of two, multi-word on both sides of the schoolbook/divide-and-conquer switch, top-word-correction dividends), all signs, through every division form incl. Euclidean, assign, mixed, primitive, is_multiple_of and ConstDivisor; each result checked against the division identity evaluated in num-bigint; zero divisors must panic with the divide-by-zero message.",
    TRUST)

reg("C03", "property-based testing against an exact-arithmetic rounding-contract oracle (proptest, 60 mode×base instantiations)",
    "Context add/sub/mul/div/sqr/cubic/inv/sqrt and the FBig operators in 6 modes × 5 bases on operands aimed at the alignment branches (exponent gaps relative to p, cancellation, carries, exact quotients, tie radicands); the six clauses of the documented contract (Exact⇔equal, <=p+1 digits, representable⇒exact, error <1 ulp / <=1/2 ulp, side, AddOne/SubOne direction) are evaluated with integer arithmetic only; sqrt is decided by comparing squares.",
    TRUST + " The contract checked is the documented faithful-rounding contract, not correct rounding to p digits.")
