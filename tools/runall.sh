#!/bin/bash
# tools/runall.sh [seed] [tier]  — every registered check once; prints one line per check
seed=${1:-0}; tier=${2:-quick}
cd "$(dirname "$0")/.." || exit 2
ids=$(python3 -c "
import json
print(' '.join(c['property_id'] for c in json.load(open('MANIFEST.json'))['checks']))")
rc_all=0
for id in $ids; do
  t0=$(date +%s)
  out=$(VERIF_SEED=$seed ./check $id --tier $tier 2>&1); rc=$?
  t1=$(date +%s)
  echo "$id rc=$rc t=$((t1-t0))s $(echo "$out" | grep '^SUMMARY' | cut -d' ' -f4-)"
  echo "$out" | grep -E '^VIOLATION|^INFRA|^INCONCLUSIVE|^  sub=' | head -6
  [ $rc -ne 0 ] && rc_all=1
done
exit $rc_all
