#!/bin/bash
# tools/seedverify.sh <mutation dir with patch.diff + demo.rs> <crate dir: base|integer|float|rational|macros|.>
# (env: SV_TARGET, SV_FEATURES, SV_RUSTFLAGS + SV_CARGO_ARGS = build configuration in which the demonstration runs,
#  e.g. SV_RUSTFLAGS='--cfg force_bits="32"' or SV_CARGO_ARGS=--release; the suite always runs in the default configuration)
# Confirms independently: patch applies, workspace builds, the existing suite passes with the patch,
# the demonstration passes without the patch and fails with it. Uses a scratch worktree, removed afterwards.
set -u
dir=$(readlink -f "$1"); crate=$2
wt=/tmp/sv-$$
export CARGO_NET_OFFLINE=true CARGO_TARGET_DIR=${SV_TARGET:-/tmp/sv-target} CARGO_TERM_COLOR=never
git -C /repo worktree add -q --detach $wt HEAD || exit 2
trap 'git -C /repo worktree remove --force $wt 2>/dev/null' EXIT
pkg=$(grep -m1 '^name' $wt/$crate/Cargo.toml | sed 's/.*"\(.*\)".*/\1/')
mkdir -p $wt/$crate/tests
cp $dir/demo.rs $wt/$crate/tests/seed_demo.rs
feat="${SV_FEATURES:-}"; [ "$pkg" = dashu-ratio ] && feat="--features dashu-float $feat"
( cd $wt && RUSTFLAGS="${SV_RUSTFLAGS:-}" cargo test -p $pkg --test seed_demo $feat ${SV_CARGO_ARGS:-} >/tmp/sv-demo0-$$.log 2>&1 ); d0=$?
if ! git -C $wt apply $dir/patch.diff; then echo "RESULT patch-does-not-apply"; exit 1; fi
( cd $wt && RUSTFLAGS="${SV_RUSTFLAGS:-}" cargo test -p $pkg --test seed_demo $feat ${SV_CARGO_ARGS:-} >/tmp/sv-demo1-$$.log 2>&1 ); d1=$?
rm $wt/$crate/tests/seed_demo.rs
( cd $wt && cargo test --workspace --no-fail-fast >/tmp/sv-suite-$$.log 2>&1 ); s=$?
pass=$(grep -E "^test result" /tmp/sv-suite-$$.log | awk '{p+=$4; f+=$6} END {print p" passed, "f" failed"}')
echo "RESULT demo_without_patch_rc=$d0 demo_with_patch_rc=$d1 suite_rc=$s ($pass)"
[ $d0 -eq 0 ] && [ $d1 -ne 0 ] && [ $s -eq 0 ] && echo "CONFIRMED" || { echo "NOT-CONFIRMED"; grep -E "error|panicked" /tmp/sv-demo0-$$.log | head -3; }
