#!/usr/bin/env python3
"""tools/seedkeep.py <Cnn> <mK> <crate-dir-of-demo> : keep a confirmed seeded change under /verif/seeded/<Cnn>-<mK>/
(patch.diff, demo.rs, notes.md from the independent agent, meta.json written here from /tmp/seedres/<Cnn>-<mK>.txt)."""
import json, os, re, shutil, sys
pid, m, crate = sys.argv[1:4]
root = os.environ.get("SEED_ROOT", "/tmp/seed"); resdir = os.environ.get("SEED_RES", "/tmp/seedres")
src = f"{root}/{pid}/out/{m}"
res = open(f"{resdir}/{pid}-{m}.txt").read()
keep_m = "m%d" % (int(m[1:]) + int(os.environ.get("SEED_OFFSET", "0")))
if "CONFIRMED" not in res or "NOT-CONFIRMED" in res:
    print("not confirmed:", pid, m); sys.exit(1)
prop = os.environ.get("SEED_PROP", pid)  # third round: the unit is a file group, the property comes from notes.md
dst = "/verif/seeded/" + os.environ.get("SEED_KEEP_AS", f"{pid}-{keep_m}")
os.makedirs(dst, exist_ok=True)
for f in ("patch.diff", "demo.rs", "notes.md"):
    if os.path.exists(f"{src}/{f}"):
        shutil.copy(f"{src}/{f}", f"{dst}/{f}")
caught, missed, first_missed, strengthened = {}, [], [], []
for line in res.splitlines():
    mm = re.match(r"^(C\d\d) CAUGHT:\s*(.*)", line)
    if mm:
        caught[mm.group(1)] = mm.group(2)[:300]
        if mm.group(1) in missed: missed.remove(mm.group(1))
        continue
    mm = re.match(r"^(C\d\d) MISSED-FIRST-RUN", line)
    if mm:
        first_missed.append(mm.group(1)); continue
    mm = re.match(r"^(C\d\d) MISSED", line)
    if mm and mm.group(1) not in missed: missed.append(mm.group(1))
    mm = re.match(r"^== re-run after strengthening (.*)", line)
    if mm: strengthened.append(mm.group(1))
extra = {}
if len(sys.argv) > 4:
    extra = json.loads(sys.argv[4])
for k, v in extra.get("caught_after_strengthening", {}).items():
    caught[k] = v
    if k in missed: missed.remove(k)
notes = open(f"{dst}/notes.md").read() if os.path.exists(f"{dst}/notes.md") else ""
first = [l for l in notes.splitlines() if l.strip() and not l.startswith("#")]
meta = {
    "breaks_property": prop,
    "origin": "independent sub-agent given only the property text and its own scratch worktree (no access to /verif)",
    "needs_to_manifest": extra.get("needs") or (first[0][:600] if first else ""),
    "demo": {"file": "demo.rs", "crate_dir": crate, "how": f"copy to <repo>/{crate}/tests/seed_demo.rs; cargo test -p <crate package> --test seed_demo --offline: passes without patch.diff, fails with it"},
    "confirmed_by": "tools/seedverify.sh: patch applies on /repo HEAD, workspace builds, existing suite (593 tests incl. doc tests) passes with the patch, demo passes without and fails with the patch",
    "confirmation_output": [l for l in res.splitlines() if l.startswith("RESULT")][:1],
    "ran": "tools/mutcheck.sh patch.diff <checks> (quick tier against a scratch copy of /repo with the patch applied)",
    "caught_by": caught,
    "missed_by": missed,
}
if first_missed:
    meta["missed_on_first_run_by"] = first_missed
    meta["first_run"] = "MISSED by " + ", ".join(first_missed) + " on the first run; caught after strengthening " + "; ".join(strengthened)
meta.update({k: v for k, v in extra.items() if k not in ("needs", "caught_after_strengthening")})
json.dump(meta, open(f"{dst}/meta.json", "w"), indent=1)
print("kept", dst, "caught by", list(caught), "missed by", missed)
