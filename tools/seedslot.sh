#!/bin/bash
# tools/seedslot.sh <slot>  <<< lines "<Cnn> <mK> <crate-dir> <checks...>" : confirm a seeded change
# (seedverify.sh) and run the named checks against it (mutcheck.sh); results in $SEED_RES/<Cnn>-<mK>.txt
slot=$1
root=${SEED_ROOT:-/tmp/seed}; res=${SEED_RES:-/tmp/seedres}; mkdir -p $res
while read id m crate checks; do
  [ -z "$id" ] && continue
  out=$res/$id-$m.txt
  echo "== $id $m" > $out
  SV_TARGET=/tmp/sv-target-$slot /verif/tools/seedverify.sh $root/$id/out/$m $crate >> $out 2>&1
  MUT_TARGET=/verif/target/mut-$slot /verif/tools/mutcheck.sh $root/$id/out/$m/patch.diff $checks >> $out 2>&1
  echo "== done" >> $out
done
