#!/usr/bin/env python3
"""tools/seedtable.py: print the markdown table of DESIGN.md §11 from seeded/*/meta.json"""
import json, glob, os
print("| Seeded change | What it is | Caught by (quick tier) | Not caught by (also run) | Remark |")
print("|---|---|---|---|---|")
n = two = 0
for d in sorted(glob.glob('/verif/seeded/*')):
    m = json.load(open(d + '/meta.json'))
    name = os.path.basename(d)
    notes = open(d + '/notes.md').read() if os.path.exists(d + '/notes.md') else ''
    title = next((l.lstrip('# ').strip() for l in notes.splitlines() if l.startswith('#')), '')
    title = (title.split('—', 1)[-1].strip() or m.get('title', '')).replace('|', '/')
    n += 1; two += len(m['caught_by']) > 1
    print(f"| {name} | {title} | {', '.join(m['caught_by'])} | {', '.join(m['missed_by'])} | {m.get('first_run','').replace('|','/')} |")
print(f"\n{n} seeded changes, {two} caught by more than one check.")
