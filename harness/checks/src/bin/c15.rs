//! C15 — all call forms of an operation agree.
//!
//! Metamorphic: for every operation each available call form (owned / borrowed operands on either
//! side, `op=`, primitive or other big type on either side, trait-method form, Context method) is
//! evaluated under `catch` on the same operand values; either all forms panic or all return, and
//! all returned values are equal as *model values* (raw words -> num-bigint; floats through
//! significand/exponent words + precision; rationals through numerator/denominator words), never
//! through dashu's own `==`.  Clone / clone_from: equal to and independent of the original.
#![allow(clippy::all)]
#![allow(unused_macros)]
use dashu_base::{Abs, Approximation, DivEuclid, DivRem, DivRemAssign, DivRemEuclid, ExtendedGcd, Gcd, Inverse, RemEuclid, Sign, Signed, UnsignedAbs};
use dashu_float::round::{mode, Round};
use dashu_float::{Context, FBig, Repr};
use dashu_int::fast_div::ConstDivisor;
use dashu_int::modular::Reduced;
use dashu_int::{IBig, UBig, Word};
use dashu_ratio::{RBig, Relaxed};
use dv::fl::{bpow, fl_from, sig_pattern, Fl, ModeTag};
use dv::gen::{self, pick, Prof};
use dv::*;
use num_bigint::{BigInt, BigUint};
use proptest::collection::vec;
use proptest::prelude::*;
use serde::{Deserialize, Serialize};
use std::cell::RefCell;
use std::collections::{BTreeMap, BTreeSet};
use std::fmt;
use std::sync::atomic::{AtomicU64, Ordering as AtomicOrdering};

// ------------------------------------------------------------------------------------------------
// model values
// ------------------------------------------------------------------------------------------------

#[derive(Clone, PartialEq, Eq)]
enum V {
    /// any integer result (UBig, IBig, primitive, residue)
    I(BigInt),
    /// finite float: canonical significand (not divisible by the base) · base^exp, plus the precision
    F { sig: BigInt, exp: i64, prec: usize },
    FInf { neg: bool, prec: usize },
    /// rational in lowest terms, denominator > 0
    Q(BigInt, BigInt),
    /// None
    N,
    T(Vec<V>),
}

impl fmt::Debug for V {
    fn fmt(&self, f: &mut fmt::Formatter) -> fmt::Result {
        match self {
            V::I(x) => write!(f, "{}", show_i(x)),
            V::F { sig, exp, prec } => write!(f, "{}·B^{}@p{}", show_i(sig), exp, prec),
            V::FInf { neg, prec } => write!(f, "{}inf@p{}", if *neg { "-" } else { "+" }, prec),
            V::Q(n, d) => write!(f, "{}/{}", show_i(n), show_i(d)),
            V::N => write!(f, "None"),
            V::T(v) => {
                write!(f, "(")?;
                for (i, x) in v.iter().enumerate() {
                    if i > 0 {
                        write!(f, ", ")?;
                    }
                    write!(f, "{x:?}")?;
                }
                write!(f, ")")
            }
        }
    }
}

fn bzero() -> BigInt {
    BigInt::from(0)
}
fn is0(x: &BigInt) -> bool {
    x.sign() == num_bigint::Sign::NoSign
}
fn isneg(x: &BigInt) -> bool {
    x.sign() == num_bigint::Sign::Minus
}

fn canon_float(mut sig: BigInt, mut exp: i64, base: u64, prec: usize) -> V {
    if is0(&sig) {
        return V::F { sig, exp: 0, prec };
    }
    let b = BigInt::from(base);
    loop {
        let r = &sig % &b;
        if !is0(&r) {
            break;
        }
        sig = sig / &b;
        exp += 1;
    }
    V::F { sig, exp, prec }
}

fn float_v<const B: Word>(r: &Repr<B>, prec: usize) -> V {
    if r.is_infinite() {
        return V::FInf { neg: r.exponent() < 0, prec };
    }
    canon_float(i2n(r.significand()), r.exponent() as i64, B as u64, prec)
}

fn q_v(n: &IBig, d: &UBig) -> V {
    let (n, d) = (i2n(n), BigInt::from(u2n(d)));
    if is0(&d) {
        return V::T(vec![V::I(n), V::I(d)]); // invalid rational, shown as a pair
    }
    let q = num_rational::BigRational::new(n, d);
    V::Q(q.numer().clone(), q.denom().clone())
}

trait ToV {
    fn v(&self) -> V;
}
impl ToV for V {
    fn v(&self) -> V {
        self.clone()
    }
}
impl ToV for UBig {
    fn v(&self) -> V {
        V::I(BigInt::from(u2n(self)))
    }
}
impl ToV for IBig {
    fn v(&self) -> V {
        V::I(i2n(self))
    }
}
macro_rules! tov_prim {
    ($($t:ty)*) => {$(
        impl ToV for $t {
            fn v(&self) -> V {
                V::I(BigInt::from(*self))
            }
        }
    )*};
}
tov_prim!(u8 u16 u32 u64 u128 usize i8 i16 i32 i64 i128 isize);
impl ToV for bool {
    fn v(&self) -> V {
        V::I(BigInt::from(*self as u8))
    }
}
impl<R: Round, const B: Word> ToV for FBig<R, B> {
    fn v(&self) -> V {
        float_v(self.repr(), self.precision())
    }
}
impl<T: ToV, E> ToV for Approximation<T, E> {
    fn v(&self) -> V {
        match self {
            Approximation::Exact(x) => x.v(),
            Approximation::Inexact(x, _) => x.v(),
        }
    }
}
impl ToV for RBig {
    fn v(&self) -> V {
        q_v(self.numerator(), self.denominator())
    }
}
impl ToV for Relaxed {
    fn v(&self) -> V {
        q_v(self.numerator(), self.denominator())
    }
}
impl ToV for Reduced<'_> {
    fn v(&self) -> V {
        V::T(vec![V::I(BigInt::from(u2n(&self.residue()))), V::I(BigInt::from(u2n(&self.modulus())))])
    }
}
impl<X: ToV, Y: ToV> ToV for (X, Y) {
    fn v(&self) -> V {
        V::T(vec![self.0.v(), self.1.v()])
    }
}
impl<X: ToV, Y: ToV, Z: ToV> ToV for (X, Y, Z) {
    fn v(&self) -> V {
        V::T(vec![self.0.v(), self.1.v(), self.2.v()])
    }
}
impl<W: ToV, X: ToV, Y: ToV, Z: ToV> ToV for (W, X, Y, Z) {
    fn v(&self) -> V {
        V::T(vec![self.0.v(), self.1.v(), self.2.v(), self.3.v()])
    }
}
impl<X: ToV> ToV for Option<X> {
    fn v(&self) -> V {
        match self {
            Some(x) => x.v(),
            None => V::N,
        }
    }
}

// ------------------------------------------------------------------------------------------------
// agreement machinery
// ------------------------------------------------------------------------------------------------

type Forms = Vec<(&'static str, Result<V, String>)>;

static FORM_EVALS: AtomicU64 = AtomicU64::new(0);
thread_local! {
    /// inventory recorder (operation -> forms), switched on only for the matrix census in main
    static REC: RefCell<Option<BTreeMap<String, BTreeSet<&'static str>>>> = const { RefCell::new(None) };
}

#[derive(Clone, Copy, PartialEq, Eq)]
enum Expect {
    /// valid input: every form must return
    Ret,
    /// documented panic (zero divisor, negative UBig result ...): every form must panic
    Pan,
    Any,
}
use Expect::*;

fn account(what: &str, forms: &Forms) {
    FORM_EVALS.fetch_add(forms.len() as u64, AtomicOrdering::Relaxed);
    REC.with(|r| {
        if let Some(m) = r.borrow_mut().as_mut() {
            let e = m.entry(what.to_string()).or_default();
            for (n, _) in forms {
                e.insert(n);
            }
        }
    });
}

/// None if all forms agree (all panic, or all return the same model value)
fn disagreement(what: &str, forms: &Forms) -> Option<String> {
    let mut groups: Vec<(String, Vec<&'static str>)> = Vec::new();
    for (n, r) in forms {
        let key = match r {
            Ok(v) => format!("{v:?}"),
            Err(_) => "PANIC".to_string(),
        };
        match groups.iter_mut().find(|g| g.0 == key) {
            Some(g) => g.1.push(n),
            None => groups.push((key, vec![n])),
        }
    }
    if groups.len() <= 1 {
        return None;
    }
    // exact comparison (the Debug rendering truncates long numbers)
    let first_ok = forms.iter().find_map(|f| f.1.as_ref().ok());
    let all_same = match first_ok {
        None => true,
        Some(rv) => forms.iter().all(|f| matches!(&f.1, Ok(v) if v == rv)),
    };
    if all_same {
        return None;
    }
    let mut s = format!("{what}: call forms disagree:");
    for (k, names) in &groups {
        let k = if k == "PANIC" {
            let m = forms.iter().find_map(|f| f.1.as_ref().err()).cloned().unwrap_or_default();
            format!("PANIC({})", truncate(&normalise(&m), 120))
        } else {
            k.clone()
        };
        s.push_str(&format!(" {{{}}} => {};", names.join(", "), k));
    }
    Some(s)
}

/// all forms equal; returns the consensus (None when the forms disagree)
fn agree(out: &mut Out, what: &str, expect: Expect, forms: Forms) -> Option<Result<V, String>> {
    account(what, &forms);
    if forms.is_empty() {
        return None;
    }
    // forms that render alike but differ exactly are still caught here
    let first_ok = forms.iter().find_map(|f| f.1.as_ref().ok()).cloned();
    let same = match &first_ok {
        None => true,
        Some(rv) => forms.iter().all(|f| matches!(&f.1, Ok(v) if v == rv)),
    };
    if !same {
        let m = disagreement(what, &forms).unwrap_or_else(|| format!("{what}: call forms disagree (values differ beyond the printed digits)"));
        out.fail(m);
        return None;
    }
    match first_ok {
        None => {
            out.label("outcome:all forms panic");
            let m = forms[0].1.as_ref().err().cloned().unwrap_or_default();
            if expect == Ret {
                out.fail(format!("{what}: every form panicked on valid operands: {}", normalise(&m)));
            }
            Some(Err(m))
        }
        Some(v) => {
            if expect == Pan {
                out.fail(format!("{what}: every form returned {v:?} although the operation must panic for these operands"));
            }
            Some(Ok(v))
        }
    }
}

macro_rules! fv {
    ($e:expr) => {
        catch(|| ($e).v())
    };
}

/// a ∘ b in the four ownership forms
macro_rules! bin4 {
    ($v:ident, $a:expr, $b:expr, $op:tt) => {{
        let (a, b) = (&$a, &$b);
        $v.push(("val.val", fv!(a.clone() $op b.clone())));
        $v.push(("val.ref", fv!(a.clone() $op b)));
        $v.push(("ref.val", fv!(a $op b.clone())));
        $v.push(("ref.ref", fv!(a $op b)));
    }};
}
/// a ∘= b in the two assign forms
macro_rules! asg2 {
    ($v:ident, $a:expr, $b:expr, $opa:tt) => {{
        let (a, b) = (&$a, &$b);
        $v.push(("assign.val", fv!({ let mut x = a.clone(); x $opa b.clone(); x })));
        $v.push(("assign.ref", fv!({ let mut x = a.clone(); x $opa b; x })));
    }};
}
/// a.m(b) in the four ownership forms
macro_rules! met4 {
    ($v:ident, $a:expr, $b:expr, $m:ident) => {{
        let (a, b) = (&$a, &$b);
        $v.push((concat!(stringify!($m), " val.val"), fv!(a.clone().$m(b.clone()))));
        $v.push((concat!(stringify!($m), " val.ref"), fv!(a.clone().$m(b))));
        $v.push((concat!(stringify!($m), " ref.val"), fv!(a.$m(b.clone()))));
        $v.push((concat!(stringify!($m), " ref.ref"), fv!(a.$m(b))));
    }};
}
/// (a.m1(b), a.m2(b)) in the four ownership forms
macro_rules! met4pair {
    ($v:ident, $a:expr, $b:expr, $m1:ident, $m2:ident) => {{
        let (a, b) = (&$a, &$b);
        $v.push((concat!(stringify!($m1), ",", stringify!($m2), " val.val"), fv!((a.clone().$m1(b.clone()), a.clone().$m2(b.clone())))));
        $v.push((concat!(stringify!($m1), ",", stringify!($m2), " val.ref"), fv!((a.clone().$m1(b), a.clone().$m2(b)))));
        $v.push((concat!(stringify!($m1), ",", stringify!($m2), " ref.val"), fv!((a.$m1(b.clone()), a.$m2(b.clone())))));
        $v.push((concat!(stringify!($m1), ",", stringify!($m2), " ref.ref"), fv!((a.$m1(b), a.$m2(b)))));
    }};
}
/// (a / b, a % b) through the operators, four ownership forms + assign forms
macro_rules! divrem_ops {
    ($v:ident, $a:expr, $b:expr) => {{
        let (a, b) = (&$a, &$b);
        $v.push(("/,% val.val", fv!((a.clone() / b.clone(), a.clone() % b.clone()))));
        $v.push(("/,% val.ref", fv!((a.clone() / b, a.clone() % b))));
        $v.push(("/,% ref.val", fv!((a / b.clone(), a % b.clone()))));
        $v.push(("/,% ref.ref", fv!((a / b, a % b))));
        $v.push(("/=,%= val", fv!({ let (mut x, mut y) = (a.clone(), a.clone()); x /= b.clone(); y %= b.clone(); (x, y) })));
        $v.push(("/=,%= ref", fv!({ let (mut x, mut y) = (a.clone(), a.clone()); x /= b; y %= b; (x, y) })));
    }};
}
macro_rules! divrem_assign2 {
    ($v:ident, $a:expr, $b:expr) => {{
        let (a, b) = (&$a, &$b);
        $v.push(("div_rem_assign val", fv!({ let mut x = a.clone(); let r = x.div_rem_assign(b.clone()); (x, r) })));
        $v.push(("div_rem_assign ref", fv!({ let mut x = a.clone(); let r = x.div_rem_assign(b); (x, r) })));
    }};
}

// ------------------------------------------------------------------------------------------------
// integers: UBig, IBig, mixed
// ------------------------------------------------------------------------------------------------

#[derive(Debug, Clone, Hash, Serialize, Deserialize)]
struct IntCase {
    a: Int,
    b: Int,
    rel: u8,
    /// shift count
    n: usize,
    /// pow exponent
    k: u8,
    sneg: bool,
}

fn int_case(prof: Prof) -> impl Strategy<Value = IntCase> {
    (gen::nat_pair(prof), any::<bool>(), any::<bool>(), any::<u16>(), any::<u64>(), 0u8..7, any::<bool>()).prop_map(|((a, b, rel), sa, sb, nsel, seed, k, sneg)| {
        let n = gen::position(a.trimmed_len(), nsel, seed);
        IntCase { a: Int { neg: sa && !a.is_zero(), mag: a }, b: Int { neg: sb && !b.is_zero(), mag: b }, rel, n, k, sneg }
    })
}

fn int_labels(out: &mut Out, c: &IntCase) {
    let (la, lb) = (c.a.mag.trimmed_len(), c.b.mag.trimmed_len());
    out.nontrivial(la > 1 || lb > 1);
    out.label(gen::repr_class(la));
    out.label(gen::REL_LABELS[c.rel as usize % gen::REL_LABELS.len()]);
    out.label(match (la <= 2, lb <= 2) {
        (true, true) => "buffers:inline∘inline",
        (true, false) => "buffers:inline∘heap",
        (false, true) => "buffers:heap∘inline",
        (false, false) => "buffers:heap∘heap",
    });
    if c.b.mag.is_zero() {
        out.label("divisor:zero (all forms must panic)");
    }
}

/// pow exponent, capped for long bases so that results stay in the low thousands of words
fn pow_exp(c: &IntCase) -> usize {
    if c.a.mag.trimmed_len() > 70 {
        (c.k as usize).min(3)
    } else {
        c.k as usize
    }
}

fn sign_of(neg: bool) -> Sign {
    if neg {
        Sign::Negative
    } else {
        Sign::Positive
    }
}

macro_rules! shift_forms {
    ($out:ident, $what:expr, $a:expr, $n:expr, $op:tt, $opa:tt) => {{
        let a = &$a;
        let n: usize = $n;
        let mut v: Forms = Vec::new();
        v.push(("val.val", fv!(a.clone() $op n)));
        v.push(("ref.val", fv!(a $op n)));
        v.push(("val.ref", fv!(a.clone() $op &n)));
        v.push(("ref.ref", fv!(a $op &n)));
        v.push(("assign.val", fv!({ let mut x = a.clone(); x $opa n; x })));
        v.push(("assign.ref", fv!({ let mut x = a.clone(); x $opa &n; x })));
        agree(&mut $out, $what, Ret, v);
    }};
}

macro_rules! sqr_forms {
    ($out:ident, $tn:expr, $a:expr, $k:expr, $one:expr) => {{
        let a = &$a;
        let mut v: Forms = Vec::new();
        v.push(("sqr()", fv!(a.sqr())));
        v.push(("a*a ref.ref", fv!(a * a)));
        v.push(("a*a val.val", fv!(a.clone() * a.clone())));
        v.push(("a*a val.ref", fv!(a.clone() * a)));
        v.push(("a*a ref.val", fv!(a * a.clone())));
        v.push(("a*=a val", fv!({ let mut x = a.clone(); x *= a.clone(); x })));
        v.push(("a*=a ref", fv!({ let mut x = a.clone(); x *= a; x })));
        v.push(("pow(2)", fv!(a.pow(2))));
        agree(&mut $out, concat!($tn, " square"), Ret, v);
        let mut v: Forms = Vec::new();
        v.push(("cubic()", fv!(a.cubic())));
        v.push(("a*a*a", fv!(a * a * a)));
        v.push(("pow(3)", fv!(a.pow(3))));
        agree(&mut $out, concat!($tn, " cube"), Ret, v);
        let k: usize = $k;
        let mut v: Forms = Vec::new();
        v.push(("pow(k)", fv!(a.pow(k))));
        v.push(("fold * ref", fv!((0..k).fold($one, |acc, _| acc * a))));
        v.push(("fold *= val", fv!({ let mut acc = $one; for _ in 0..k { acc *= a.clone(); } acc })));
        agree(&mut $out, concat!($tn, " pow"), Ret, v);
    }};
}

fn ubig_forms(c: &IntCase, _ctx: &Ctx) -> Out {
    let mut out = Out::new();
    int_labels(&mut out, c);
    let (a, b) = (c.a.mag.ubig(), c.b.mag.ubig());
    let bz = c.b.mag.is_zero();
    let below = c.a.mag.big() < c.b.mag.big();
    let mut v: Forms = Vec::new();
    bin4!(v, a, b, +);
    asg2!(v, a, b, +=);
    agree(&mut out, "UBig add", Ret, v);
    let mut v: Forms = Vec::new();
    bin4!(v, a, b, -);
    asg2!(v, a, b, -=);
    if below {
        out.label("sub:below zero (all forms must panic)");
    }
    agree(&mut out, "UBig sub", if below { Pan } else { Ret }, v);
    let mut v: Forms = Vec::new();
    bin4!(v, a, b, *);
    asg2!(v, a, b, *=);
    v.push(("commuted ref.ref", fv!(&b * &a)));
    agree(&mut out, "UBig mul", Ret, v);
    // division family: every way of getting (quotient, remainder)
    let mut v: Forms = Vec::new();
    divrem_ops!(v, a, b);
    met4!(v, a, b, div_rem);
    divrem_assign2!(v, a, b);
    met4pair!(v, a, b, div_euclid, rem_euclid);
    met4!(v, a, b, div_rem_euclid);
    agree(&mut out, "UBig div/rem", if bz { Pan } else { Ret }, v);
    let mut v: Forms = Vec::new();
    bin4!(v, a, b, &);
    asg2!(v, a, b, &=);
    agree(&mut out, "UBig bitand", Ret, v);
    let mut v: Forms = Vec::new();
    bin4!(v, a, b, |);
    asg2!(v, a, b, |=);
    agree(&mut out, "UBig bitor", Ret, v);
    let mut v: Forms = Vec::new();
    bin4!(v, a, b, ^);
    asg2!(v, a, b, ^=);
    agree(&mut out, "UBig bitxor", Ret, v);
    let both_zero = c.a.mag.is_zero() && bz;
    let mut v: Forms = Vec::new();
    met4!(v, a, b, gcd);
    agree(&mut out, "UBig gcd", if both_zero { Pan } else { Ret }, v);
    let mut v: Forms = Vec::new();
    met4!(v, a, b, gcd_ext);
    agree(&mut out, "UBig gcd_ext", if both_zero { Pan } else { Ret }, v);
    shift_forms!(out, "UBig shl", a, c.n, <<, <<=);
    shift_forms!(out, "UBig shr", a, c.n, >>, >>=);
    sqr_forms!(out, "UBig", a, pow_exp(c), UBig::ONE);
    let mut v: Forms = Vec::new();
    v.push(("neg val", fv!(-a.clone())));
    v.push(("neg ref", fv!(-&a)));
    v.push(("a * Sign::Negative", fv!(a.clone() * Sign::Negative)));
    v.push(("Sign::Negative * a", fv!(Sign::Negative * a.clone())));
    v.push(("IBig::from(a) neg", fv!(-IBig::from(a.clone()))));
    agree(&mut out, "UBig neg", Ret, v);
    out
}

fn ibig_forms(c: &IntCase, _ctx: &Ctx) -> Out {
    let mut out = Out::new();
    int_labels(&mut out, c);
    out.label(match (c.a.neg, c.b.neg) {
        (false, false) => "sign:++",
        (false, true) => "sign:+-",
        (true, false) => "sign:-+",
        (true, true) => "sign:--",
    });
    let (a, b) = (c.a.ibig(), c.b.ibig());
    let bz = c.b.mag.is_zero();
    let mut v: Forms = Vec::new();
    bin4!(v, a, b, +);
    asg2!(v, a, b, +=);
    agree(&mut out, "IBig add", Ret, v);
    let mut v: Forms = Vec::new();
    bin4!(v, a, b, -);
    asg2!(v, a, b, -=);
    agree(&mut out, "IBig sub", Ret, v);
    let mut v: Forms = Vec::new();
    bin4!(v, a, b, *);
    asg2!(v, a, b, *=);
    v.push(("commuted ref.ref", fv!(&b * &a)));
    agree(&mut out, "IBig mul", Ret, v);
    let mut v: Forms = Vec::new();
    divrem_ops!(v, a, b);
    met4!(v, a, b, div_rem);
    divrem_assign2!(v, a, b);
    agree(&mut out, "IBig div/rem (truncating)", if bz { Pan } else { Ret }, v);
    let mut v: Forms = Vec::new();
    met4pair!(v, a, b, div_euclid, rem_euclid);
    met4!(v, a, b, div_rem_euclid);
    agree(&mut out, "IBig div/rem (Euclidean)", if bz { Pan } else { Ret }, v);
    let mut v: Forms = Vec::new();
    bin4!(v, a, b, &);
    asg2!(v, a, b, &=);
    agree(&mut out, "IBig bitand", Ret, v);
    let mut v: Forms = Vec::new();
    bin4!(v, a, b, |);
    asg2!(v, a, b, |=);
    agree(&mut out, "IBig bitor", Ret, v);
    let mut v: Forms = Vec::new();
    bin4!(v, a, b, ^);
    asg2!(v, a, b, ^=);
    agree(&mut out, "IBig bitxor", Ret, v);
    let both_zero = c.a.mag.is_zero() && bz;
    let mut v: Forms = Vec::new();
    met4!(v, a, b, gcd);
    agree(&mut out, "IBig gcd", if both_zero { Pan } else { Ret }, v);
    let mut v: Forms = Vec::new();
    met4!(v, a, b, gcd_ext);
    agree(&mut out, "IBig gcd_ext", if both_zero { Pan } else { Ret }, v);
    shift_forms!(out, "IBig shl", a, c.n, <<, <<=);
    shift_forms!(out, "IBig shr", a, c.n, >>, >>=);
    sqr_forms!(out, "IBig", a, pow_exp(c), IBig::ONE);
    let mut v: Forms = Vec::new();
    v.push(("neg val", fv!(-a.clone())));
    v.push(("neg ref", fv!(-&a)));
    v.push(("a * Sign::Negative", fv!(a.clone() * Sign::Negative)));
    v.push(("Sign::Negative * a", fv!(Sign::Negative * a.clone())));
    v.push(("a *= Sign::Negative", fv!({ let mut x = a.clone(); x *= Sign::Negative; x })));
    v.push(("0 - a", fv!(IBig::ZERO - &a)));
    agree(&mut out, "IBig neg", Ret, v);
    let s = sign_of(c.sneg);
    let mut v: Forms = Vec::new();
    v.push(("a * sign", fv!(a.clone() * s)));
    v.push(("sign * a", fv!(s * a.clone())));
    v.push(("a *= sign", fv!({ let mut x = a.clone(); x *= s; x })));
    agree(&mut out, "IBig mul Sign", Ret, v);
    let mut v: Forms = Vec::new();
    v.push(("not val", fv!(!a.clone())));
    v.push(("not ref", fv!(!&a)));
    v.push(("-a - 1", fv!(-&a - IBig::ONE)));
    agree(&mut out, "IBig not", Ret, v);
    let mut v: Forms = Vec::new();
    v.push(("abs val", fv!(a.clone().abs())));
    v.push(("abs ref", fv!((&a).abs())));
    v.push(("unsigned_abs val", fv!(a.clone().unsigned_abs())));
    v.push(("unsigned_abs ref", fv!((&a).unsigned_abs())));
    v.push(("a * a.sign()", fv!(a.clone() * a.sign())));
    agree(&mut out, "IBig abs", Ret, v);
    nt_int_forms(&mut out, c);
    out
}

/// the num-traits trait forms (cargo feature) of the integer operations: each forwards to an
/// operation that has other forms
fn nt_int_forms(out: &mut Out, c: &IntCase) {
    let (a, b) = (c.a.ibig(), c.b.ibig());
    let (ua, ub) = (c.a.mag.ubig(), c.b.mag.ubig());
    let bz = c.b.mag.is_zero();
    let k = c.k as usize;
    let mut v: Forms = Vec::new();
    v.push(("pow(k)", fv!((a.pow(k), ua.pow(k)))));
    v.push(("num_traits::Pow val", fv!((num_traits::Pow::pow(a.clone(), k), num_traits::Pow::pow(ua.clone(), k)))));
    v.push(("num_traits::Pow ref", fv!((num_traits::Pow::pow(&a, k), num_traits::Pow::pow(&ua, k)))));
    agree(out, "IBig / UBig pow (num-traits)", Ret, v);
    let mut v: Forms = Vec::new();
    v.push(("DivEuclid/RemEuclid ref.ref", fv!(((&a).div_euclid(&b), IBig::from((&a).rem_euclid(&b)), (&ua).div_euclid(&ub), (&ua).rem_euclid(&ub)))));
    v.push(("num_traits::Euclid", fv!((num_traits::Euclid::div_euclid(&a, &b), num_traits::Euclid::rem_euclid(&a, &b), num_traits::Euclid::div_euclid(&ua, &ub), num_traits::Euclid::rem_euclid(&ua, &ub)))));
    agree(out, "IBig / UBig div/rem Euclidean (num-traits)", if bz { Pan } else { Ret }, v);
    let mut v: Forms = Vec::new();
    v.push(("abs, signum, >0, <0", fv!((IBig::from(a.clone().unsigned_abs()), a.signum(), a > IBig::ZERO, a < IBig::ZERO))));
    v.push(("num_traits::Signed", fv!((num_traits::Signed::abs(&a), num_traits::Signed::signum(&a), num_traits::Signed::is_positive(&a), num_traits::Signed::is_negative(&a)))));
    agree(out, "IBig sign queries (num-traits)", Ret, v);
    let mut v: Forms = Vec::new();
    v.push(("is_zero, is_one, ZERO, ONE", fv!(((a.is_zero(), a.is_one(), IBig::ZERO, IBig::ONE), (ua.is_zero(), ua.is_one(), UBig::ZERO, UBig::ONE)))));
    v.push((
        "num_traits::Zero / One",
        fv!((
            (num_traits::Zero::is_zero(&a), num_traits::One::is_one(&a), <IBig as num_traits::Zero>::zero(), <IBig as num_traits::One>::one()),
            (num_traits::Zero::is_zero(&ua), num_traits::One::is_one(&ua), <UBig as num_traits::Zero>::zero(), <UBig as num_traits::One>::one())
        )),
    ));
    agree(out, "IBig / UBig zero / one (num-traits)", Ret, v);
    // parsing: the text of a in some radix, sometimes with a digit that the radix does not have
    let radix = 2 + (c.n as u32 * 7 + c.k as u32) % 35;
    let mut text = a.in_radix(radix).to_string();
    if c.n % 9 == 0 {
        text.push(std::char::from_digit(radix.min(35), 36).unwrap_or('z'));
    }
    let utext = text.trim_start_matches('-').to_string();
    let mut v: Forms = Vec::new();
    v.push(("from_str_radix", fv!((IBig::from_str_radix(&text, radix).ok(), UBig::from_str_radix(&utext, radix).ok()))));
    v.push(("num_traits::Num::from_str_radix", fv!((<IBig as num_traits::Num>::from_str_radix(&text, radix).ok(), <UBig as num_traits::Num>::from_str_radix(&utext, radix).ok()))));
    agree(out, "IBig / UBig from_str_radix (num-traits)", Ret, v);
    // conversions to and from the narrow primitives (the wide ones and the floats are judged in C06)
    let mut v: Forms = Vec::new();
    v.push(("TryFrom", fv!((i8::try_from(&a).ok(), u8::try_from(&a).ok(), i16::try_from(&a).ok(), u32::try_from(&a).ok()))));
    v.push(("num_traits::ToPrimitive", fv!((num_traits::ToPrimitive::to_i8(&a), num_traits::ToPrimitive::to_u8(&a), num_traits::ToPrimitive::to_i16(&a), num_traits::ToPrimitive::to_u32(&a)))));
    agree(out, "IBig to narrow primitives (num-traits)", Ret, v);
    let mut v: Forms = Vec::new();
    v.push(("TryFrom", fv!((isize::try_from(&ua).ok(), usize::try_from(&ua).ok(), i32::try_from(&ua).ok(), u16::try_from(&ua).ok()))));
    v.push(("num_traits::ToPrimitive", fv!((num_traits::ToPrimitive::to_isize(&ua), num_traits::ToPrimitive::to_usize(&ua), num_traits::ToPrimitive::to_i32(&ua), num_traits::ToPrimitive::to_u16(&ua)))));
    agree(out, "UBig to narrow primitives (num-traits)", Ret, v);
    let p = (c.a.mag.0.first().copied().unwrap_or(0) as i64).wrapping_mul(if c.a.neg { -1 } else { 1 });
    let mut v: Forms = Vec::new();
    v.push(("From / TryFrom", fv!((IBig::from(p), IBig::from(p as i8), UBig::try_from(p).ok(), UBig::try_from(p as i16).ok()))));
    v.push(("num_traits::FromPrimitive", fv!((<IBig as num_traits::FromPrimitive>::from_i64(p), <IBig as num_traits::FromPrimitive>::from_i8(p as i8), <UBig as num_traits::FromPrimitive>::from_i64(p), <UBig as num_traits::FromPrimitive>::from_i16(p as i16)))));
    agree(out, "IBig / UBig from primitives (num-traits)", Ret, v);
    let f = f64::from_bits(c.a.mag.0.first().copied().unwrap_or(0));
    let g = (p as f64) * if c.k % 2 == 0 { 1.0 } else { 0.5 };
    let mut v: Forms = Vec::new();
    v.push(("TryFrom<f64/f32>", fv!((IBig::try_from(f).ok(), IBig::try_from(g).ok(), UBig::try_from(g).ok(), IBig::try_from(g as f32).ok()))));
    v.push(("num_traits::FromPrimitive", fv!((<IBig as num_traits::FromPrimitive>::from_f64(f), <IBig as num_traits::FromPrimitive>::from_f64(g), <UBig as num_traits::FromPrimitive>::from_f64(g), <IBig as num_traits::FromPrimitive>::from_f32(g as f32)))));
    agree(out, "IBig / UBig from floats (num-traits)", Ret, v);
}

fn mixed_forms(c: &IntCase, _ctx: &Ctx) -> Out {
    let mut out = Out::new();
    int_labels(&mut out, c);
    // UBig ∘ IBig with u = |a|, i = b; IBig ∘ UBig with i = a, u = |b|
    let (ua, ib) = (c.a.mag.ubig(), c.b.ibig());
    let (ia, ub) = (c.a.ibig(), c.b.mag.ubig());
    let bz = c.b.mag.is_zero();
    let both_zero = c.a.mag.is_zero() && bz;
    macro_rules! mixed_op {
        ($name:expr, $op:tt, $opa:tt, $exp:expr) => {{
            let mut v: Forms = Vec::new();
            bin4!(v, ua, ib, $op);
            v.push(("IBig::from(lhs) ref.ref", fv!(&IBig::from(ua.clone()) $op &ib)));
            agree(&mut out, concat!("UBig ", $name, " IBig"), $exp, v);
            let mut v: Forms = Vec::new();
            bin4!(v, ia, ub, $op);
            asg2!(v, ia, ub, $opa);
            v.push(("IBig::from(rhs) ref.ref", fv!(&ia $op &IBig::from(ub.clone()))));
            agree(&mut out, concat!("IBig ", $name, " UBig"), $exp, v);
        }};
    }
    mixed_op!("add", +, +=, Ret);
    mixed_op!("sub", -, -=, Ret);
    mixed_op!("mul", *, *=, Ret);
    mixed_op!("div", /, /=, if bz { Pan } else { Ret });
    mixed_op!("bitor", |, |=, Ret);
    mixed_op!("bitxor", ^, ^=, Ret);
    // % and & : UBig ∘ IBig returns UBig and has an assign form as well
    let mut v: Forms = Vec::new();
    bin4!(v, ua, ib, %);
    asg2!(v, ua, ib, %=);
    v.push(("IBig::from(lhs) ref.ref", fv!(&IBig::from(ua.clone()) % &ib)));
    agree(&mut out, "UBig rem IBig", if bz { Pan } else { Ret }, v);
    let mut v: Forms = Vec::new();
    bin4!(v, ia, ub, %);
    asg2!(v, ia, ub, %=);
    v.push(("IBig::from(rhs) ref.ref", fv!(&ia % &IBig::from(ub.clone()))));
    agree(&mut out, "IBig rem UBig", if bz { Pan } else { Ret }, v);
    let mut v: Forms = Vec::new();
    bin4!(v, ua, ib, &);
    asg2!(v, ua, ib, &=);
    v.push(("IBig::from(lhs) ref.ref", fv!(&IBig::from(ua.clone()) & &ib)));
    agree(&mut out, "UBig bitand IBig", Ret, v);
    let mut v: Forms = Vec::new();
    bin4!(v, ia, ub, &);
    asg2!(v, ia, ub, &=);
    v.push(("IBig::from(rhs) ref.ref", fv!(&ia & &IBig::from(ub.clone()))));
    agree(&mut out, "IBig bitand UBig", Ret, v);
    let mut v: Forms = Vec::new();
    met4!(v, ua, ib, div_rem);
    v.push(("(/, %) ref.ref", fv!((&ua / &ib, &ua % &ib))));
    v.push(("IBig::from(lhs) div_rem", fv!((&IBig::from(ua.clone())).div_rem(&ib))));
    agree(&mut out, "UBig div_rem IBig", if bz { Pan } else { Ret }, v);
    let mut v: Forms = Vec::new();
    met4!(v, ia, ub, div_rem);
    v.push(("(/, %) ref.ref", fv!((&ia / &ub, &ia % &ub))));
    v.push(("IBig::from(rhs) div_rem", fv!((&ia).div_rem(&IBig::from(ub.clone())))));
    agree(&mut out, "IBig div_rem UBig", if bz { Pan } else { Ret }, v);
    let mut v: Forms = Vec::new();
    met4!(v, ua, ib, gcd);
    v.push(("IBig::from(lhs) gcd", fv!((&IBig::from(ua.clone())).gcd(&ib))));
    agree(&mut out, "UBig gcd IBig", if both_zero { Pan } else { Ret }, v);
    let mut v: Forms = Vec::new();
    met4!(v, ia, ub, gcd);
    v.push(("IBig::from(rhs) gcd", fv!((&ia).gcd(&IBig::from(ub.clone())))));
    agree(&mut out, "IBig gcd UBig", if both_zero { Pan } else { Ret }, v);
    let mut v: Forms = Vec::new();
    met4!(v, ua, ib, gcd_ext);
    v.push(("IBig::from(lhs) gcd_ext", fv!((&IBig::from(ua.clone())).gcd_ext(&ib))));
    agree(&mut out, "UBig gcd_ext IBig", if both_zero { Pan } else { Ret }, v);
    let mut v: Forms = Vec::new();
    met4!(v, ia, ub, gcd_ext);
    v.push(("IBig::from(rhs) gcd_ext", fv!((&ia).gcd_ext(&IBig::from(ub.clone())))));
    agree(&mut out, "IBig gcd_ext UBig", if both_zero { Pan } else { Ret }, v);
    out
}

// ------------------------------------------------------------------------------------------------
// division by a ConstDivisor: forms of the same division
// (the num-traits / num-integer impls are not compiled in the harness configuration: those cargo
// features of dashu-int are off)
// ------------------------------------------------------------------------------------------------

fn const_divisor_forms(c: &IntCase, _ctx: &Ctx) -> Out {
    let mut out = Out::new();
    int_labels(&mut out, c);
    let ub = c.b.mag.ubig();
    let cdr = catch(|| ConstDivisor::new(ub.clone()));
    let cd = match cdr {
        Ok(cd) => cd,
        Err(m) => {
            if !c.b.mag.is_zero() {
                out.fail(format!("ConstDivisor::new panicked for a non-zero divisor: {}", normalise(&m)));
            }
            out.label("divisor:zero (ConstDivisor::new must panic)");
            return out;
        }
    };
    if c.b.mag.is_zero() {
        out.fail("ConstDivisor::new(0) returned");
        return out;
    }
    out.label(match c.b.mag.trimmed_len() {
        1 => "ring:single word",
        2 => "ring:double word",
        _ => "ring:large",
    });
    macro_rules! cd_forms {
        ($a:ident, $what:expr) => {{
            let mut v: Forms = Vec::new();
            v.push(("plain div_rem by UBig ref.ref", fv!((&$a).div_rem(&ub))));
            v.push(("/,% val.&ConstDivisor", fv!(($a.clone() / &cd, $a.clone() % &cd))));
            v.push(("/,% ref.&ConstDivisor", fv!((&$a / &cd, &$a % &cd))));
            v.push(("/=,%= &ConstDivisor", fv!({ let (mut x, mut y) = ($a.clone(), $a.clone()); x /= &cd; y %= &cd; (x, y) })));
            v.push(("div_rem val.&ConstDivisor", fv!($a.clone().div_rem(&cd))));
            v.push(("div_rem ref.&ConstDivisor", fv!((&$a).div_rem(&cd))));
            v.push(("div_rem_assign &ConstDivisor", fv!({ let mut x = $a.clone(); let r = x.div_rem_assign(&cd); (x, r) })));
            agree(&mut out, $what, Ret, v);
        }};
    }
    let ua = c.a.mag.ubig();
    let ia = c.a.ibig();
    cd_forms!(ua, "UBig div/rem by ConstDivisor");
    cd_forms!(ia, "IBig div/rem by ConstDivisor");
    // reducing into the ring from the different source types
    let mut v: Forms = Vec::new();
    v.push(("reduce(IBig)", fv!(cd.reduce(ia.clone()))));
    v.push(("reduce(UBig) with the sign applied by Neg", fv!(if c.a.neg { -cd.reduce(ua.clone()) } else { cd.reduce(ua.clone()) })));
    v.push(("reduce(IBig % &ConstDivisor)", fv!(cd.reduce(&ia % &cd))));
    agree(&mut out, "ConstDivisor reduce", Ret, v);
    out
}

// ------------------------------------------------------------------------------------------------
// integers with primitives
// ------------------------------------------------------------------------------------------------

#[derive(Debug, Clone, Hash, Serialize, Deserialize)]
struct PrimCase {
    a: Int,
    p: i128,
    width: u8, // 0..6: 8,16,32,64,128,size
}

fn prim_case() -> impl Strategy<Value = PrimCase> {
    (gen::int(Prof::Small), any::<i128>(), 0u8..6, 0u8..12, 0u8..10, any::<bool>(), any::<u8>()).prop_map(|(a, p, width, shape, rel, neg, k)| {
        // the extreme values of the primitive type of this width (`p as $t` keeps them)
        let bits = [8u32, 16, 32, 64, 128, usize::BITS][width as usize];
        let tmin = if bits == 128 { i128::MIN } else { -(1i128 << (bits - 1)) };
        let tmax = -(tmin + 1);
        let p = match shape {
            0 => 0,
            1 => 1,
            2 => -1,
            3 => tmax,
            4 => tmin,
            5 => 3,
            6 => p % 1000,
            7 => tmin + 1,
            8 => 1i128 << (k as u32 % (bits - 1)),
            _ => p,
        };
        // the big operand next to the primitive: same magnitude, one off, the type's 2^(N-1), 2^N
        let from_u128 = |m: u128, extra: bool| -> Nat {
            let mut w = vec![m as u64, (m >> 64) as u64];
            if extra {
                w.push(1);
            }
            Nat(w)
        };
        let pm = p.unsigned_abs();
        let a = match rel {
            6 => Int { neg, mag: from_u128(pm, false) },
            7 => Int { neg, mag: from_u128(if k & 1 == 0 { pm.wrapping_add(1) } else { pm.wrapping_sub(1) }, false) },
            8 => Int { neg, mag: from_u128(tmin.unsigned_abs(), false) },
            9 => Int { neg, mag: if bits == 128 { from_u128(0, true) } else { from_u128(1u128 << bits, false) } },
            _ => a,
        };
        let a = if a.mag.is_zero() { Int { neg: false, mag: a.mag } } else { a };
        PrimCase { a, p, width }
    })
}

const KF_REM: &str = "C16/ibig-rem-unsigned-primitive-negative";

/// Primitive-typed outputs: the form with the primitive converted to the big type is the
/// reference.  If its result fits the primitive output type it simply joins the forms; if not,
/// every primitive form must panic (`known`: the registered IBig % unsigned finding).
fn prim_output_group(out: &mut Out, ctx: &Ctx, what: &str, mut forms: Forms, bigref: Result<V, String>, fits: bool, known: bool) {
    if fits || bigref.is_err() {
        forms.push(("rhs/lhs converted to the big type", bigref));
        agree(out, what, Any, forms);
        return;
    }
    account(what, &forms);
    let exact = bigref.unwrap();
    for (n, r) in &forms {
        match r {
            Ok(v) => out.fail(format!("{what} [{n}] returned {v:?} although the exact result {exact:?} does not fit the primitive output type")),
            Err(m) => {
                if known {
                    if m.contains("OutOfBounds") {
                        out.label("known:IBig(neg) rem unsigned primitive");
                        ctx.known_or_fail(out, KF_REM, || format!("{what} [{n}] panics: {}", normalise(m)));
                    } else {
                        out.fail(format!("{what} [{n}]: unexpected panic {}", normalise(m)));
                    }
                }
                // otherwise (signed primitive / IBig overflowing the primitive, like iN::MIN / -1): a panic is the primitive semantics
            }
        }
    }
}

fn in_range(v: &V, lo: &BigInt, hi: &BigInt) -> bool {
    match v {
        V::I(x) => lo <= x && x <= hi,
        _ => false,
    }
}

macro_rules! prim_right {
    // a ∘ p (4 forms), a ∘= p (2 forms), a ∘ Big::from(p)
    ($out:ident, $a:ident, $big:ty, $p:ident, $what:expr, $op:tt, $opa:tt, $exp:expr) => {{
        let mut v: Forms = Vec::new();
        v.push(("big.prim", fv!($a.clone() $op $p)));
        v.push(("&big.prim", fv!(&$a $op $p)));
        v.push(("big.&prim", fv!($a.clone() $op &$p)));
        v.push(("&big.&prim", fv!(&$a $op &$p)));
        v.push(("assign prim", fv!({ let mut x = $a.clone(); x $opa $p; x })));
        v.push(("assign &prim", fv!({ let mut x = $a.clone(); x $opa &$p; x })));
        v.push(("rhs converted to the big type", fv!(&$a $op <$big>::from($p))));
        agree(&mut $out, $what, $exp, v);
    }};
}
macro_rules! prim_left {
    ($v:ident, $a:ident, $p:ident, $op:tt) => {{
        $v.push(("prim.big", fv!($p $op $a.clone())));
        $v.push(("prim.&big", fv!($p $op &$a)));
        $v.push(("&prim.big", fv!(&$p $op $a.clone())));
        $v.push(("&prim.&big", fv!(&$p $op &$a)));
    }};
}

macro_rules! prim_all {
    ($out:ident, $ctx:ident, $a:ident, $aneg:expr, $big:ty, $bn:expr, $t:ty, $pv:expr, $unsigned:expr) => {{
        let p: $t = $pv as $t;
        let tn = stringify!($t);
        let (lo, hi) = (BigInt::from(<$t>::MIN), BigInt::from(<$t>::MAX));
        // commutative operators: right, assign and left forms form one group
        macro_rules! comm {
            ($name:expr, $op:tt, $opa:tt) => {{
                let mut v: Forms = Vec::new();
                v.push(("big.prim", fv!($a.clone() $op p)));
                v.push(("&big.prim", fv!(&$a $op p)));
                v.push(("big.&prim", fv!($a.clone() $op &p)));
                v.push(("&big.&prim", fv!(&$a $op &p)));
                v.push(("assign prim", fv!({ let mut x = $a.clone(); x $opa p; x })));
                v.push(("assign &prim", fv!({ let mut x = $a.clone(); x $opa &p; x })));
                prim_left!(v, $a, p, $op);
                v.push(("rhs converted to the big type", fv!(&$a $op <$big>::from(p))));
                agree(&mut $out, &format!("{} {} {}", $bn, $name, tn), Ret, v);
            }};
        }
        comm!("add", +, +=);
        comm!("mul", *, *=);
        comm!("bitand", &, &=);
        comm!("bitor", |, |=);
        comm!("bitxor", ^, ^=);
        // subtraction: a - p and p - a are different operations
        prim_right!($out, $a, $big, p, &format!("{} sub {}", $bn, tn), -, -=, Any);
        let mut v: Forms = Vec::new();
        prim_left!(v, $a, p, -);
        v.push(("lhs converted to the big type", fv!(<$big>::from(p) - &$a)));
        agree(&mut $out, &format!("{} sub {}", tn, $bn), Any, v);
        // division
        let pz = p == 0;
        prim_right!($out, $a, $big, p, &format!("{} div {}", $bn, tn), /, /=, if pz { Pan } else { Ret });
        {
            let mut v: Forms = Vec::new();
            prim_left!(v, $a, p, /);
            let r = fv!(<$big>::from(p) / &$a);
            let fits = matches!(&r, Ok(x) if in_range(x, &lo, &hi));
            prim_output_group(&mut $out, $ctx, &format!("{} div {}", tn, $bn), v, r, fits, false);
        }
        // remainder (primitive output type)
        {
            let mut v: Forms = Vec::new();
            v.push(("big.prim", fv!($a.clone() % p)));
            v.push(("&big.prim", fv!(&$a % p)));
            v.push(("big.&prim", fv!($a.clone() % &p)));
            v.push(("&big.&prim", fv!(&$a % &p)));
            let r = fv!(&$a % <$big>::from(p));
            let fits = matches!(&r, Ok(x) if in_range(x, &lo, &hi));
            let neg_rem = matches!(&r, Ok(V::I(x)) if isneg(x));
            prim_output_group(&mut $out, $ctx, &format!("{} rem {}", $bn, tn), v, r, fits, $unsigned && $aneg && neg_rem);
        }
        {
            let mut v: Forms = Vec::new();
            v.push(("div_rem big.prim", fv!($a.clone().div_rem(p))));
            v.push(("div_rem &big.prim", fv!((&$a).div_rem(p))));
            v.push(("div_rem big.&prim", fv!($a.clone().div_rem(&p))));
            v.push(("div_rem &big.&prim", fv!((&$a).div_rem(&p))));
            v.push(("div_rem_assign prim", fv!({ let mut x = $a.clone(); let r = x.div_rem_assign(p); (x, r) })));
            v.push(("div_rem_assign &prim", fv!({ let mut x = $a.clone(); let r = x.div_rem_assign(&p); (x, r) })));
            let r = fv!((&$a).div_rem(<$big>::from(p)));
            let (fits, neg_rem) = match &r {
                Ok(V::T(qr)) => (in_range(&qr[1], &lo, &hi), matches!(&qr[1], V::I(x) if isneg(x))),
                _ => (false, false),
            };
            prim_output_group(&mut $out, $ctx, &format!("{} div_rem {}", $bn, tn), v, r, fits, $unsigned && $aneg && neg_rem);
        }
    }};
}

fn prim_forms(c: &PrimCase, ctx: &Ctx) -> Out {
    let mut out = Out::new();
    out.nontrivial(c.a.mag.trimmed_len() >= 1 && c.p != 0);
    out.label(gen::repr_class(c.a.mag.trimmed_len()));
    out.label(if c.a.neg { "big operand:negative" } else { "big operand:non-negative" });
    if c.p == 0 {
        out.label("divisor:zero (all forms must panic)");
    }
    let ua = c.a.mag.ubig();
    let ia = c.a.ibig();
    let neg = c.a.neg;
    macro_rules! width {
        ($u:ty, $i:ty) => {{
            prim_all!(out, ctx, ua, false, UBig, "UBig", $u, c.p, true);
            prim_all!(out, ctx, ia, neg, IBig, "IBig", $u, c.p, true);
            prim_all!(out, ctx, ia, neg, IBig, "IBig", $i, c.p, false);
        }};
    }
    match c.width {
        0 => {
            out.label("prim:8");
            width!(u8, i8)
        }
        1 => {
            out.label("prim:16");
            width!(u16, i16)
        }
        2 => {
            out.label("prim:32");
            width!(u32, i32)
        }
        3 => {
            out.label("prim:64");
            width!(u64, i64)
        }
        4 => {
            out.label("prim:128");
            width!(u128, i128)
        }
        _ => {
            out.label("prim:size");
            width!(usize, isize)
        }
    }
    out
}

// ------------------------------------------------------------------------------------------------
// floats
// ------------------------------------------------------------------------------------------------

#[derive(Debug, Clone, Hash, Serialize, Deserialize)]
struct FlCase {
    pa: u32,
    pb: u32,
    a: Fl,
    b: Fl,
    /// shift count
    n: i64,
    p: i128,
    /// 0..6 primitive widths, 6 = UBig / IBig operand `big`
    width: u8,
    big: Int,
    sneg: bool,
}

fn fprecision() -> BoxedStrategy<u32> {
    prop_oneof![
        2 => Just(1u32),
        2 => Just(2u32),
        2 => Just(3u32),
        5 => 4u32..=10,
        4 => 11u32..=40,
        2 => Just(53u32),
        3 => 60u32..=70,
        3 => 120u32..=135,
        3 => 180u32..=260,
        1 => 1900u32..=2300,
    ]
    .boxed()
}

/// k <= p digits, pattern, seed, sign, exponent
fn fl_operand(base: u64, p: u32, ksel: u16, pat: u8, seed: u64, neg: bool, exp: i64) -> Fl {
    let p = p.max(1);
    let ks = [p as u64, p as u64, (p as u64).saturating_sub(1).max(1), 1, 1 + seed % p as u64, (p as u64 + 1) / 2];
    let k = pick(&ks, ksel);
    let m = sig_pattern(base, k, pat, seed);
    let n = if neg { -BigInt::from(m) } else { BigInt::from(m) };
    fl_from(&n, exp)
}

fn fl_case(base: u64) -> impl Strategy<Value = FlCase> {
    (
        (fprecision(), fprecision(), 0u8..16),
        (any::<u16>(), 0u8..9, any::<u64>(), any::<bool>(), prop_oneof![4 => -6i64..=6, 2 => -40i64..=40, 1 => -400i64..=400]),
        (any::<u16>(), 0u8..9, any::<u64>(), any::<bool>()),
        0u8..16,
        any::<u16>(),
        prop_oneof![2 => Just(0i64), 4 => -3i64..=3, 4 => -70i64..=70, 1 => -1000i64..=1000],
        (any::<i128>(), 0u8..7, 0u8..8),
        (gen::int(Prof::Tiny), any::<bool>()),
    )
        .prop_map(move |((pa, pb0, psel), (ka, pta, sa, na, ea), (kb, ptb, sb, nb), rel, gsel, n, (p, width, shape), (big, sneg))| {
            // relations derived from a need b to fit a's precision
            let derived = matches!(rel, 2 | 3 | 4);
            let (pa, pb) = if psel == 15 {
                (pa, pa) // marked unlimited below
            } else if psel < 8 || derived {
                (pa, pa)
            } else {
                (pa, pb0)
            };
            let a0 = fl_operand(base, pa, ka, pta, sa, na, ea);
            let a = if rel == 1 { Fl { sig: Int::default(), exp: 0 } } else { a0 };
            let pu = pa as u64;
            let b = match rel {
                0 => Fl { sig: Int::default(), exp: 0 },
                2 | 3 => {
                    // cancellation: b = -(a ± j), same exponent
                    let j = BigUint::from(sb % 4);
                    let am = a.sig.mag.big();
                    let mut bmag = if sb & 8 == 0 || am < j { &am + &j } else { &am - &j };
                    if bmag >= bpow(base, pu) {
                        bmag = &am - &j.min(am.clone());
                    }
                    let bm = if a.sig.neg { -BigInt::from(bmag) } else { BigInt::from(bmag) };
                    fl_from(&-bm, a.exp)
                }
                4 => a.clone(),
                5 => fl_operand(base, pb, kb, ptb, sb, nb, a.exp),
                _ => {
                    let pm = pa.max(pb) as i64;
                    let gaps: [i64; 14] = [0, 1, 2, pm / 2, pm - 1, pm, pm + 1, pm + 2, 2 * pm, 2 * pm + 1, 3 * pm + 5, (10 * pm).min(3000), 30, 1];
                    let g = pick(&gaps, gsel);
                    let dir = if sb & 1 == 0 { 1 } else { -1 };
                    fl_operand(base, pb, kb, ptb, sb, nb, a.exp + dir * g)
                }
            };
            let p = match shape {
                0 => 0,
                1 => 1,
                2 => -1,
                3 => i128::MAX,
                4 => i128::MIN,
                _ => p,
            };
            let (pa, pb) = if psel == 15 { (0, 0) } else { (pa, pb) };
            FlCase { pa, pb, a, b, n, p, width, big, sneg }
        })
}

macro_rules! fl_prim_op {
    ($out:ident, $a:ident, $p:ident, $tn:expr, $op:tt, $opa:tt, $on:expr) => {{
        let mut v: Forms = Vec::new();
        v.push(("fbig.rhs", fv!($a.clone() $op $p.clone())));
        v.push(("&fbig.rhs", fv!(&$a $op $p.clone())));
        v.push(("fbig.&rhs", fv!($a.clone() $op &$p)));
        v.push(("&fbig.&rhs", fv!(&$a $op &$p)));
        v.push(("assign rhs", fv!({ let mut x = $a.clone(); x $opa $p.clone(); x })));
        v.push(("assign &rhs", fv!({ let mut x = $a.clone(); x $opa &$p; x })));
        v.push(("rhs converted with FBig::from", fv!(&$a $op FBig::<R, B>::from($p.clone()))));
        agree(&mut $out, &format!("FBig {} {}", $on, $tn), Any, v);
        let mut v: Forms = Vec::new();
        v.push(("lhs.fbig", fv!($p.clone() $op $a.clone())));
        v.push(("lhs.&fbig", fv!($p.clone() $op &$a)));
        v.push(("&lhs.fbig", fv!(&$p $op $a.clone())));
        v.push(("&lhs.&fbig", fv!(&$p $op &$a)));
        v.push(("lhs converted with FBig::from", fv!(FBig::<R, B>::from($p.clone()) $op &$a)));
        agree(&mut $out, &format!("{} {} FBig", $tn, $on), Any, v);
    }};
}
macro_rules! fl_prim {
    ($out:ident, $a:ident, $p:expr, $tn:expr) => {{
        let p = $p;
        fl_prim_op!($out, $a, p, $tn, +, +=, "add");
        fl_prim_op!($out, $a, p, $tn, -, -=, "sub");
        fl_prim_op!($out, $a, p, $tn, *, *=, "mul");
        fl_prim_op!($out, $a, p, $tn, /, /=, "div");
    }};
}

fn float_forms<R: ModeTag, const B: Word>(c: &FlCase, ctx: &Ctx) -> Out {
    let mut out = Out::new();
    let base = B as u64;
    let (a, b): (FBig<R, B>, FBig<R, B>) = (c.a.fbig(c.pa as usize), c.b.fbig(c.pb as usize));
    let cx = Context::<R>::new(c.pa.max(c.pb) as usize);
    let cxa = Context::<R>::new(c.pa as usize);
    let (az, bz) = (c.a.sig.is_zero(), c.b.sig.is_zero());
    let unlimited = c.pa == 0;
    out.nontrivial(c.a.sig.mag.trimmed_len() > 1 || c.b.sig.mag.trimmed_len() > 1 || (!az && !bz));
    out.label(gen::repr_class(c.a.sig.mag.trimmed_len()));
    out.label(if unlimited {
        "precision:unlimited"
    } else if c.pa == c.pb {
        "precision:equal"
    } else {
        "precision:different"
    });
    out.label(if az || bz {
        "align:operand zero"
    } else if c.a.exp == c.b.exp {
        "align:same exponent"
    } else if c.a.exp > c.b.exp {
        "align:lhs exponent larger"
    } else {
        "align:rhs exponent larger"
    });
    let _ = base;

    macro_rules! arith {
        ($name:expr, $op:tt, $opa:tt, $cm:ident, $exp:expr) => {{
            let mut v: Forms = Vec::new();
            bin4!(v, a, b, $op);
            asg2!(v, a, b, $opa);
            v.push((concat!("Context::", stringify!($cm)), fv!(cx.$cm(a.repr(), b.repr()))));
            agree(&mut out, concat!("FBig ", $name), $exp, v);
        }};
    }
    arith!("add", +, +=, add, Ret);
    arith!("sub", -, -=, sub, Ret);
    arith!("mul", *, *=, mul, Ret);
    let div_exp = if bz || unlimited { Pan } else { Ret };
    if bz {
        out.label("divisor:zero (all forms must panic)");
    }
    arith!("div", /, /=, div, div_exp);
    arith!("rem", %, %=, rem, if bz { Pan } else { Any });
    let mut v: Forms = Vec::new();
    met4pair!(v, a, b, div_euclid, rem_euclid);
    met4!(v, a, b, div_rem_euclid);
    agree(&mut out, "FBig div/rem (Euclidean)", if bz { Pan } else { Ret }, v);

    let mut v: Forms = Vec::new();
    v.push(("sqr()", fv!(a.sqr())));
    v.push(("Context::sqr", fv!(cxa.sqr(a.repr()))));
    v.push(("a*a ref.ref", fv!(&a * &a)));
    v.push(("a*a val.val", fv!(a.clone() * a.clone())));
    v.push(("a*a val.ref", fv!(a.clone() * &a)));
    v.push(("a*a ref.val", fv!(&a * a.clone())));
    v.push(("a*=a val", fv!({ let mut x = a.clone(); x *= a.clone(); x })));
    v.push(("a*=a ref", fv!({ let mut x = a.clone(); x *= &a; x })));
    v.push(("Context::mul(a, a)", fv!(cxa.mul(a.repr(), a.repr()))));
    agree(&mut out, "FBig square", Ret, v);
    let mut v: Forms = Vec::new();
    v.push(("cubic()", fv!(a.cubic())));
    v.push(("Context::cubic", fv!(cxa.cubic(a.repr()))));
    agree(&mut out, "FBig cube", Ret, v);

    let mut v: Forms = Vec::new();
    v.push(("neg val", fv!(-a.clone())));
    v.push(("neg ref", fv!(-&a)));
    v.push(("a * Sign::Negative", fv!(a.clone() * Sign::Negative)));
    v.push(("Sign::Negative * a", fv!(Sign::Negative * a.clone())));
    v.push(("a *= Sign::Negative", fv!({ let mut x = a.clone(); x *= Sign::Negative; x })));
    agree(&mut out, "FBig neg", Ret, v);
    let s = sign_of(c.sneg);
    let mut v: Forms = Vec::new();
    v.push(("a * sign", fv!(a.clone() * s)));
    v.push(("sign * a", fv!(s * a.clone())));
    v.push(("a *= sign", fv!({ let mut x = a.clone(); x *= s; x })));
    agree(&mut out, "FBig mul Sign", Ret, v);
    let mut v: Forms = Vec::new();
    v.push(("abs val", fv!(a.clone().abs())));
    v.push(("a * a.sign()", fv!(a.clone() * a.sign())));
    agree(&mut out, "FBig abs", Ret, v);
    // the num-traits trait forms (cargo feature) of the float operations
    {
        let n = IBig::from(c.n % 7);
        let mut v: Forms = Vec::new();
        v.push(("powi val", fv!(a.powi(n.clone()))));
        v.push(("num_traits::Pow<IBig> val", fv!(num_traits::Pow::pow(a.clone(), n.clone()))));
        v.push(("num_traits::Pow<IBig> ref", fv!(num_traits::Pow::pow(&a, n.clone()))));
        v.push(("Context::powi", fv!(cxa.powi(a.repr(), n.clone()))));
        agree(&mut out, "FBig powi (num-traits)", Any, v);
        if c.a.exp.abs() <= 40 && c.pa <= 60 {
            // a small exponent of either sign with a fraction digit
            let y: FBig<R, B> = FBig::from_parts(IBig::from((c.p % 41) as i64 - 20), -1);
            let x = a.clone().abs();
            let mut v: Forms = Vec::new();
            v.push(("powf ref", fv!(x.powf(&y))));
            v.push(("num_traits::Pow<&FBig> val", fv!(num_traits::Pow::pow(x.clone(), &y))));
            v.push(("num_traits::Pow<&FBig> ref", fv!(num_traits::Pow::pow(&x, &y))));
            // like every binary operation of FBig, powf works at the larger of the two precisions
            v.push(("Context::powf at Context::max of both", fv!(Context::max(x.context(), y.context()).powf(x.repr(), y.repr()))));
            agree(&mut out, "FBig powf (num-traits)", Any, v);
            // the same with the precisions the other way round (exponent more precise than the base)
            let x1: FBig<R, B> = FBig::from_parts(IBig::from(2 + (c.p % 7) as i64), 0);
            let y1 = b.clone();
            if c.b.exp.abs() <= 6 && c.pb <= 60 && c.pb > 0 {
                let mut v: Forms = Vec::new();
                v.push(("powf ref", fv!(x1.powf(&y1))));
                v.push(("num_traits::Pow<&FBig> ref", fv!(num_traits::Pow::pow(&x1, &y1))));
                v.push(("Context::powf at Context::max of both", fv!(Context::max(x1.context(), y1.context()).powf(x1.repr(), y1.repr()))));
                agree(&mut out, "FBig powf, exponent more precise than the base", Any, v);
            }
        }
        let mut v: Forms = Vec::new();
        v.push(("DivEuclid/RemEuclid ref.ref (quotient as a float)", fv!((FBig::<R, B>::from((&a).div_euclid(&b)), (&a).rem_euclid(&b)))));
        v.push(("num_traits::Euclid", fv!((num_traits::Euclid::div_euclid(&a, &b), num_traits::Euclid::rem_euclid(&a, &b)))));
        agree(&mut out, "FBig div/rem Euclidean (num-traits)", if bz { Pan } else { Any }, v);
        let mut v: Forms = Vec::new();
        v.push(("abs, signum, >0, <0", fv!((a.clone().abs(), a.signum(), a > FBig::<R, B>::ZERO, a < FBig::<R, B>::ZERO))));
        v.push(("num_traits::Signed", fv!((num_traits::Signed::abs(&a), num_traits::Signed::signum(&a), num_traits::Signed::is_positive(&a), num_traits::Signed::is_negative(&a)))));
        agree(&mut out, "FBig sign queries (num-traits)", Ret, v);
        let mut v: Forms = Vec::new();
        v.push(("== ZERO, == ONE, ZERO, ONE", fv!((a.repr().is_zero(), a.repr().is_one(), FBig::<R, B>::ZERO, FBig::<R, B>::ONE))));
        v.push(("num_traits::Zero / One", fv!((num_traits::Zero::is_zero(&a), num_traits::One::is_one(&a), <FBig<R, B> as num_traits::Zero>::zero(), <FBig<R, B> as num_traits::One>::one()))));
        agree(&mut out, "FBig zero / one (num-traits)", Ret, v);
        let text = format!("{}", a);
        let mut v: Forms = Vec::new();
        v.push(("FromStr", fv!(<FBig<R, B> as std::str::FromStr>::from_str(&text).ok())));
        v.push(("num_traits::Num::from_str_radix(text, B)", fv!(<FBig<R, B> as num_traits::Num>::from_str_radix(&text, B as u32).ok())));
        agree(&mut out, "FBig from_str (num-traits)", Ret, v);
        let mut v: Forms = Vec::new();
        v.push(("to_f32/to_f64", fv!((a.to_f32().value().to_bits(), a.to_f64().value().to_bits()))));
        v.push(("num_traits::ToPrimitive", fv!((num_traits::ToPrimitive::to_f32(&a).map(f32::to_bits), num_traits::ToPrimitive::to_f64(&a).map(f64::to_bits)))));
        agree(&mut out, "FBig to floats (num-traits)", Any, v);
        if c.a.exp.abs() <= 400 {
            let mut v: Forms = Vec::new();
            v.push(("to_int then TryFrom", fv!((i64::try_from(a.to_int().value()).ok(), u64::try_from(a.to_int().value()).ok(), i8::try_from(a.to_int().value()).ok(), u128::try_from(a.to_int().value()).ok()))));
            v.push(("num_traits::ToPrimitive", fv!((num_traits::ToPrimitive::to_i64(&a), num_traits::ToPrimitive::to_u64(&a), num_traits::ToPrimitive::to_i8(&a), num_traits::ToPrimitive::to_u128(&a)))));
            agree(&mut out, "FBig to primitive integers (num-traits)", Ret, v);
        }
        let pi = c.p as i64;
        let mut v: Forms = Vec::new();
        v.push(("From", fv!((FBig::<R, B>::from(pi), FBig::<R, B>::from(pi as u64), FBig::<R, B>::from(pi as i8), FBig::<R, B>::from(c.p as u128)))));
        v.push((
            "num_traits::FromPrimitive",
            fv!((
                <FBig<R, B> as num_traits::FromPrimitive>::from_i64(pi),
                <FBig<R, B> as num_traits::FromPrimitive>::from_u64(pi as u64),
                <FBig<R, B> as num_traits::FromPrimitive>::from_i8(pi as i8),
                <FBig<R, B> as num_traits::FromPrimitive>::from_u128(c.p as u128)
            )),
        ));
        agree(&mut out, "FBig from primitive integers (num-traits)", Ret, v);
    }
    // the sign operations are defined on the infinities as well (the sign lives in the exponent there)
    {
        let inf: FBig<R, B> = if c.sneg { FBig::NEG_INFINITY } else { FBig::INFINITY };
        let mut v: Forms = Vec::new();
        v.push(("neg val", fv!(-inf.clone())));
        v.push(("neg ref", fv!(-&inf)));
        v.push(("a * Sign::Negative", fv!(inf.clone() * Sign::Negative)));
        v.push(("Sign::Negative * a", fv!(Sign::Negative * inf.clone())));
        v.push(("a *= Sign::Negative", fv!({ let mut x = inf.clone(); x *= Sign::Negative; x })));
        agree(&mut out, "FBig neg (infinity)", Ret, v);
        let mut v: Forms = Vec::new();
        v.push(("a * Sign::Positive", fv!(inf.clone() * Sign::Positive)));
        v.push(("Sign::Positive * a", fv!(Sign::Positive * inf.clone())));
        v.push(("a *= Sign::Positive", fv!({ let mut x = inf.clone(); x *= Sign::Positive; x })));
        v.push(("clone", fv!(inf.clone())));
        agree(&mut out, "FBig mul Sign::Positive (infinity)", Ret, v);
    }
    let mut v: Forms = Vec::new();
    v.push(("inv val", fv!(a.clone().inv())));
    v.push(("inv ref", fv!((&a).inv())));
    v.push(("Context::inv", fv!(cxa.inv(a.repr()))));
    v.push(("ONE / a", fv!(FBig::<R, B>::ONE / &a)));
    agree(&mut out, "FBig inv", if az || unlimited { Pan } else { Ret }, v);

    // shifts: x << n, x <<= n, x >> -n, x >>= -n must all be the same exponent change
    shift_group(&mut out, ctx, "FBig shl", &a, c.n, az);
    shift_group(&mut out, ctx, "FBig shr", &a, -c.n, az);

    // primitives / big integers on either side
    match c.width {
        0 => {
            fl_prim!(out, a, c.p as u8, "u8");
            fl_prim!(out, a, c.p as i8, "i8");
        }
        1 => {
            fl_prim!(out, a, c.p as u16, "u16");
            fl_prim!(out, a, c.p as i16, "i16");
        }
        2 => {
            fl_prim!(out, a, c.p as u32, "u32");
            fl_prim!(out, a, c.p as i32, "i32");
        }
        3 => {
            fl_prim!(out, a, c.p as u64, "u64");
            fl_prim!(out, a, c.p as i64, "i64");
        }
        4 => {
            fl_prim!(out, a, c.p as u128, "u128");
            fl_prim!(out, a, c.p as i128, "i128");
        }
        5 => {
            fl_prim!(out, a, c.p as usize, "usize");
            fl_prim!(out, a, c.p as isize, "isize");
        }
        _ => {
            fl_prim!(out, a, c.big.mag.ubig(), "UBig");
            fl_prim!(out, a, c.big.ibig(), "IBig");
        }
    }
    out
}

/// `left`: the shift that moves the exponent up by `n` (n may be negative), in the four spellings.
fn shift_group<R: ModeTag, const B: Word>(out: &mut Out, ctx: &Ctx, what: &str, a: &FBig<R, B>, n: i64, a_zero: bool) {
    let n = n as isize;
    let mut v: Forms = Vec::new();
    v.push(("x << n", fv!(a.clone() << n)));
    v.push(("x <<= n", fv!({ let mut x = a.clone(); x <<= n; x })));
    v.push(("x >> -n", fv!(a.clone() >> -n)));
    let others_agree = disagreement(what, &v).is_none();
    let shr_assign = fv!({ let mut x = a.clone(); x >>= -n; x });
    // known finding: `>>=` applies the shift twice (and once even to zero, giving an infinity)
    if others_agree && n != 0 {
        if let (Ok(want), Ok(got)) = (&v[0].1, &shr_assign) {
            if got != want {
                let doubled = match (want, got) {
                    (V::F { sig: s0, exp: e0, prec: p0 }, V::F { sig: s1, exp: e1, prec: p1 }) => !a_zero && s0 == s1 && p0 == p1 && *e1 == *e0 + n as i64,
                    (V::F { sig: s0, .. }, V::FInf { neg, .. }) => a_zero && is0(s0) && *neg == (n < 0),
                    _ => false,
                };
                if doubled {
                    account(what, &v);
                    FORM_EVALS.fetch_add(1, AtomicOrdering::Relaxed);
                    out.label("known:FBig >>= shifts twice");
                    ctx.known_or_fail(out, "C15/fbig-shr-assign-shifts-twice", || format!("{what}: `x >>= {}` gave {got:?}, the other spellings {want:?}", -n));
                    return;
                }
            }
        }
    }
    v.push(("x >>= -n", shr_assign));
    agree(out, what, Ret, v);
}

// ------------------------------------------------------------------------------------------------
// rationals: RBig and Relaxed
// ------------------------------------------------------------------------------------------------

#[derive(Debug, Clone, Hash, Serialize, Deserialize)]
struct Rat {
    num: Int,
    den: Nat,
}

#[derive(Debug, Clone, Hash, Serialize, Deserialize)]
struct RatCase {
    a: Rat,
    b: Rat,
    i: Int,
    k: u8,
    sneg: bool,
}

fn rat_prof() -> BoxedStrategy<Nat> {
    prop_oneof![6 => gen::nat(Prof::Tiny), 3 => gen::nat(Prof::Small), 1 => gen::nat_len(13, 40)].boxed()
}

fn rat_case() -> impl Strategy<Value = RatCase> {
    ((rat_prof(), rat_prof(), any::<bool>()), (rat_prof(), rat_prof(), any::<bool>()), 0u8..10, (gen::int(Prof::Small), 0u8..6, any::<bool>(), any::<u64>())).prop_map(
        |((an, ad, asg), (bn, bd, bsg), rel, (i, k, sneg, s))| {
            let nz = |n: Nat| if n.is_zero() { Nat(vec![1]) } else { n };
            let ad = nz(ad);
            let mut bd = nz(bd);
            let mut bn = bn;
            match rel {
                0 => bd = ad.clone(),                                                        // equal denominators
                1 => bd = Nat::from_big(&(ad.big() * BigUint::from(s % 7 + 2))),             // shared factor
                2 => bn = Nat::from_big(&(ad.big() * BigUint::from(s % 5 + 1))),             // b's numerator shares with a's denominator
                3 => bn = Nat(vec![]),                                                       // zero divisor
                4 => {
                    bn = an.clone();
                    bd = ad.clone();
                }
                _ => {}
            }
            let a = Rat { num: Int { neg: asg && !an.is_zero(), mag: an }, den: ad };
            let b = Rat { num: Int { neg: bsg && !bn.is_zero(), mag: bn }, den: bd };
            RatCase { a, b, i, k, sneg }
        },
    )
}

macro_rules! rat_type_forms {
    ($out:ident, $c:ident, $T:ident, $tn:expr) => {{
        let a = $T::from_parts($c.a.num.ibig(), $c.a.den.ubig());
        let b = $T::from_parts($c.b.num.ibig(), $c.b.den.ubig());
        let bz = $c.b.num.is_zero();
        let az = $c.a.num.is_zero();
        macro_rules! arith {
            ($name:expr, $op:tt, $opa:tt, $exp:expr) => {{
                let mut v: Forms = Vec::new();
                bin4!(v, a, b, $op);
                asg2!(v, a, b, $opa);
                agree(&mut $out, concat!($tn, " ", $name), $exp, v)
            }};
        }
        let r_add = arith!("add", +, +=, Ret);
        let r_sub = arith!("sub", -, -=, Ret);
        let r_mul = arith!("mul", *, *=, Ret);
        let r_div = arith!("div", /, /=, if bz { Pan } else { Ret });
        let r_rem = arith!("rem", %, %=, if bz { Pan } else { Ret });
        let mut v: Forms = Vec::new();
        met4pair!(v, a, b, div_euclid, rem_euclid);
        met4!(v, a, b, div_rem_euclid);
        let r_euc = agree(&mut $out, concat!($tn, " div/rem (Euclidean)"), if bz { Pan } else { Ret }, v);
        // integers on either side
        let (ui, ii) = ($c.i.mag.ubig(), $c.i.ibig());
        let iz = $c.i.is_zero();
        macro_rules! with_int {
            ($i:ident, $in:expr, $name:expr, $op:tt, $expr:expr, $expl:expr) => {{
                let mut v: Forms = Vec::new();
                bin4!(v, a, $i, $op);
                v.push(("int converted with From", fv!(&a $op $T::from($i.clone()))));
                agree(&mut $out, concat!($tn, " ", $name, " ", $in), $expr, v);
                let mut v: Forms = Vec::new();
                bin4!(v, $i, a, $op);
                v.push(("int converted with From", fv!($T::from($i.clone()) $op &a)));
                agree(&mut $out, concat!($in, " ", $name, " ", $tn), $expl, v);
            }};
        }
        with_int!(ui, "UBig", "add", +, Ret, Ret);
        with_int!(ii, "IBig", "add", +, Ret, Ret);
        with_int!(ui, "UBig", "sub", -, Ret, Ret);
        with_int!(ii, "IBig", "sub", -, Ret, Ret);
        with_int!(ui, "UBig", "mul", *, Ret, Ret);
        with_int!(ii, "IBig", "mul", *, Ret, Ret);
        with_int!(ui, "UBig", "div", /, if iz { Pan } else { Ret }, if az { Pan } else { Ret });
        with_int!(ii, "IBig", "div", /, if iz { Pan } else { Ret }, if az { Pan } else { Ret });
        // powers
        let mut v: Forms = Vec::new();
        v.push(("sqr()", fv!(a.sqr())));
        v.push(("a*a ref.ref", fv!(&a * &a)));
        v.push(("a*a val.val", fv!(a.clone() * a.clone())));
        v.push(("a*=a ref", fv!({ let mut x = a.clone(); x *= &a; x })));
        v.push(("pow(2)", fv!(a.pow(2))));
        agree(&mut $out, concat!($tn, " square"), Ret, v);
        let mut v: Forms = Vec::new();
        v.push(("cubic()", fv!(a.cubic())));
        v.push(("a*a*a", fv!(&a * &a * &a)));
        v.push(("pow(3)", fv!(a.pow(3))));
        agree(&mut $out, concat!($tn, " cube"), Ret, v);
        let k = $c.k as usize;
        let mut v: Forms = Vec::new();
        v.push(("pow(k)", fv!(a.pow(k))));
        v.push(("fold * ref", fv!((0..k).fold($T::ONE, |acc, _| acc * &a))));
        agree(&mut $out, concat!($tn, " pow"), Ret, v);
        // sign
        let mut v: Forms = Vec::new();
        v.push(("neg val", fv!(-a.clone())));
        v.push(("neg ref", fv!(-&a)));
        v.push(("a * Sign::Negative", fv!(a.clone() * Sign::Negative)));
        v.push(("0 - a", fv!($T::ZERO - &a)));
        agree(&mut $out, concat!($tn, " neg"), Ret, v);
        let mut v: Forms = Vec::new();
        v.push(("abs val", fv!(a.clone().abs())));
        v.push(("a * a.sign()", fv!(a.clone() * a.sign())));
        agree(&mut $out, concat!($tn, " abs"), Ret, v);
        let mut v: Forms = Vec::new();
        v.push(("inv val", fv!(a.clone().inv())));
        v.push(("inv ref", fv!((&a).inv())));
        v.push(("ONE / a", fv!($T::ONE / &a)));
        agree(&mut $out, concat!($tn, " inv"), if az { Pan } else { Ret }, v);
        // the num-traits trait forms (cargo feature) of the same operations
        {
            let k = $c.k as usize;
            let mut v: Forms = Vec::new();
            v.push(("pow(k)", fv!(a.pow(k))));
            v.push(("num_traits::Pow val", fv!(num_traits::Pow::pow(a.clone(), k))));
            v.push(("num_traits::Pow ref", fv!(num_traits::Pow::pow(&a, k))));
            agree(&mut $out, concat!($tn, " pow (num-traits)"), Ret, v);
            let mut v: Forms = Vec::new();
            v.push(("DivEuclid/RemEuclid ref.ref (quotient as a rational)", fv!(($T::from((&a).div_euclid(&b)), (&a).rem_euclid(&b)))));
            v.push(("num_traits::Euclid", fv!((num_traits::Euclid::div_euclid(&a, &b), num_traits::Euclid::rem_euclid(&a, &b)))));
            agree(&mut $out, concat!($tn, " div/rem Euclidean (num-traits)"), if bz { Pan } else { Ret }, v);
            let mut v: Forms = Vec::new();
            v.push(("abs, signum, >0, <0", fv!((a.clone().abs(), a.signum(), a > $T::ZERO, a < $T::ZERO))));
            v.push(("num_traits::Signed", fv!((num_traits::Signed::abs(&a), num_traits::Signed::signum(&a), num_traits::Signed::is_positive(&a), num_traits::Signed::is_negative(&a)))));
            agree(&mut $out, concat!($tn, " sign queries (num-traits)"), Ret, v);
            let mut v: Forms = Vec::new();
            v.push(("is_zero, is_one, ZERO, ONE", fv!((a.is_zero(), a.is_one(), $T::ZERO, $T::ONE))));
            v.push(("num_traits::Zero / One", fv!((num_traits::Zero::is_zero(&a), num_traits::One::is_one(&a), <$T as num_traits::Zero>::zero(), <$T as num_traits::One>::one()))));
            agree(&mut $out, concat!($tn, " zero / one (num-traits)"), Ret, v);
            let radix = 2 + ($c.k as u32 * 7 + $c.i.mag.0.first().copied().unwrap_or(0) as u32 % 5) % 35;
            let text = format!("{}/{}", a.numerator().in_radix(radix), a.denominator().in_radix(radix));
            let mut v: Forms = Vec::new();
            v.push(("from_str_radix", fv!($T::from_str_radix(&text, radix).ok())));
            v.push(("num_traits::Num::from_str_radix", fv!(<$T as num_traits::Num>::from_str_radix(&text, radix).ok())));
            v.push(("the value printed", fv!(Some(a.clone()))));
            agree(&mut $out, concat!($tn, " from_str_radix (num-traits)"), Ret, v);
            let mut v: Forms = Vec::new();
            v.push(("to_int then TryFrom", fv!((i64::try_from(a.to_int().value()).ok(), u64::try_from(a.to_int().value()).ok(), i8::try_from(a.to_int().value()).ok(), u128::try_from(a.to_int().value()).ok()))));
            v.push(("num_traits::ToPrimitive", fv!((num_traits::ToPrimitive::to_i64(&a), num_traits::ToPrimitive::to_u64(&a), num_traits::ToPrimitive::to_i8(&a), num_traits::ToPrimitive::to_u128(&a)))));
            agree(&mut $out, concat!($tn, " to primitive integers (num-traits)"), Ret, v);
            let mut v: Forms = Vec::new();
            v.push(("to_f32/to_f64", fv!((a.to_f32().value().to_bits(), a.to_f64().value().to_bits()))));
            v.push(("num_traits::ToPrimitive", fv!((num_traits::ToPrimitive::to_f32(&a).map(f32::to_bits), num_traits::ToPrimitive::to_f64(&a).map(f64::to_bits)))));
            agree(&mut $out, concat!($tn, " to floats (num-traits)"), Ret, v);
            let pi = $c.i.mag.0.first().copied().unwrap_or(0) as i64;
            let mut v: Forms = Vec::new();
            v.push(("From", fv!(($T::from(pi), $T::from(pi as u64), $T::from(pi as i8), $T::from(pi as u128)))));
            v.push(("num_traits::FromPrimitive", fv!((<$T as num_traits::FromPrimitive>::from_i64(pi), <$T as num_traits::FromPrimitive>::from_u64(pi as u64), <$T as num_traits::FromPrimitive>::from_i8(pi as i8), <$T as num_traits::FromPrimitive>::from_u128(pi as u128)))));
            agree(&mut $out, concat!($tn, " from primitive integers (num-traits)"), Ret, v);
        }
        [r_add, r_sub, r_mul, r_div, r_rem, r_euc]
    }};
}

fn rational_forms(c: &RatCase, _ctx: &Ctx) -> Out {
    let mut out = Out::new();
    let ls = [c.a.num.mag.trimmed_len(), c.a.den.trimmed_len(), c.b.num.mag.trimmed_len(), c.b.den.trimmed_len()];
    out.nontrivial(ls.iter().any(|l| *l > 1));
    out.label(gen::repr_class(*ls.iter().max().unwrap()));
    if c.b.num.is_zero() {
        out.label("divisor:zero (all forms must panic)");
    }
    if c.a.den == c.b.den {
        out.label("denominators:equal");
    }
    let r1 = rat_type_forms!(out, c, RBig, "RBig");
    let r2 = rat_type_forms!(out, c, Relaxed, "Relaxed");
    // the two rational types are two forms of the same operation as well (value level)
    let names = ["add", "sub", "mul", "div", "rem", "div/rem (Euclidean)"];
    for ((x, y), n) in r1.into_iter().zip(r2.into_iter()).zip(names) {
        if let (Some(x), Some(y)) = (x, y) {
            agree(&mut out, &format!("RBig vs Relaxed {n}"), Any, vec![("RBig", x), ("Relaxed", y)]);
        }
    }
    out
}

// ------------------------------------------------------------------------------------------------
// modular ring elements
// ------------------------------------------------------------------------------------------------

#[derive(Debug, Clone, Hash, Serialize, Deserialize)]
struct RingCase {
    m: Nat,
    a: Int,
    b: Int,
    e: Nat,
}

fn ring_case() -> impl Strategy<Value = RingCase> {
    (
        prop_oneof![3 => gen::nat_len(1, 1), 3 => gen::nat_len(2, 2), 4 => gen::nat_len(3, 6), 1 => gen::nat_len(7, 40), 1 => (1u64..50).prop_map(|w| Nat(vec![w]))],
        gen::int(Prof::Small),
        gen::int(Prof::Small),
        prop_oneof![3 => (0u64..20).prop_map(|w| Nat(vec![w])), 1 => gen::nat_len(1, 2)],
        0u8..8,
    )
        .prop_map(|(m, a, b, e, rel)| {
            let mut m = if m.is_zero() { Nat(vec![1]) } else { m };
            if rel >= 3 {
                m.0[0] |= 1; // odd modulus: most elements invertible
            }
            let b = match rel {
                0 => Int::default(),                               // zero: not invertible
                1 => Int { neg: false, mag: m.clone() },           // ≡ 0
                2 => a.clone(),
                3 => Int { neg: !a.neg, mag: a.mag.clone() },      // a + b ≡ 0
                _ => b,
            };
            RingCase { m, a, b, e }
        })
}

fn ring_forms(c: &RingCase, ctx: &Ctx) -> Out {
    let mut out = Out::new();
    let lm = c.m.trimmed_len();
    out.nontrivial(lm > 1 || c.a.mag.trimmed_len() > 1);
    out.label(match lm {
        1 => "ring:single word",
        2 => "ring:double word",
        _ => "ring:large",
    });
    let ring = ConstDivisor::new(c.m.ubig());
    let a = ring.reduce(c.a.ibig());
    let b = ring.reduce(c.b.ibig());
    macro_rules! arith {
        ($name:expr, $op:tt, $opa:tt, $exp:expr) => {{
            let mut v: Forms = Vec::new();
            bin4!(v, a, b, $op);
            asg2!(v, a, b, $opa);
            agree(&mut out, concat!("Reduced ", $name), $exp, v)
        }};
    }
    arith!("add", +, +=, Ret);
    arith!("sub", -, -=, Ret);
    arith!("mul", *, *=, Ret);
    {
        let mut v: Forms = Vec::new();
        bin4!(v, a, b, /);
        asg2!(v, a, b, /=);
        v.push(("a * b.inv().unwrap()", fv!(&a * b.inv().unwrap())));
        if let Some(Err(_)) = agree(&mut out, "Reduced div", Any, v) {
            out.label("divisor:not invertible (all forms must panic)");
        }
    }
    let mut v: Forms = Vec::new();
    v.push(("neg val", fv!(-a.clone())));
    v.push(("neg ref", fv!(-&a)));
    v.push(("0 - a", fv!(ring.reduce(0u8) - &a)));
    agree(&mut out, "Reduced neg", Ret, v);
    let mut v: Forms = Vec::new();
    v.push(("sqr()", fv!(a.sqr())));
    v.push(("a*a ref.ref", fv!(&a * &a)));
    v.push(("a*a val.val", fv!(a.clone() * a.clone())));
    v.push(("a*=a ref", fv!({ let mut x = a.clone(); x *= &a; x })));
    v.push(("pow(2)", fv!(a.pow(&UBig::from(2u8)))));
    agree(&mut out, "Reduced square", Ret, v);
    // pow against repeated multiplication for small exponents
    if c.e.trimmed_len() <= 1 && c.e.0.first().copied().unwrap_or(0) <= 20 {
        let k = c.e.0.first().copied().unwrap_or(0);
        let mut v: Forms = Vec::new();
        v.push(("pow(e)", fv!(a.pow(&c.e.ubig()))));
        v.push(("fold * ref", fv!((0..k).fold(ring.reduce(1u8), |acc, _| acc * &a))));
        let m_is_one = lm == 1 && c.m.0[0] == 1;
        if m_is_one && k == 0 {
            // registered by C13: pow(0) in the ring of modulus 1 gives residue 1 (or a debug assertion)
            account("Reduced pow", &v);
            if disagreement("Reduced pow", &v).is_some() {
                out.label("known:pow(0) modulus 1");
                ctx.known_or_fail(&mut out, "C13/pow0-modulus-one", || "Reduced::pow(0) with modulus 1 differs from the empty product".into());
            }
        } else {
            agree(&mut out, "Reduced pow", Ret, v);
        }
    } else {
        out.label("ring:large exponent (pow not folded)");
    }
    out
}

// ------------------------------------------------------------------------------------------------
// Sum / Product
// ------------------------------------------------------------------------------------------------

#[derive(Debug, Clone, Hash, Serialize, Deserialize)]
struct IterCase {
    /// (numerator / significand, denominator, exponent)
    items: Vec<(Int, Nat, i8)>,
}

fn iter_case() -> impl Strategy<Value = IterCase> {
    vec((gen::int(Prof::Small), gen::nat_nz(Prof::Tiny), -8i8..=8), 0..=6).prop_map(|items| IterCase { items })
}

macro_rules! fold_forms {
    ($out:ident, $tn:expr, $T:ty, $xs:ident, $zero:expr, $one:expr) => {{
        let xs: &Vec<$T> = &$xs;
        let mut v: Forms = Vec::new();
        v.push(("iter().sum()", fv!(xs.iter().sum::<$T>())));
        v.push(("into_iter().sum()", fv!(xs.clone().into_iter().sum::<$T>())));
        v.push(("fold + ref", fv!(xs.iter().fold($zero, |acc, x| acc + x))));
        v.push(("fold + val", fv!(xs.iter().fold($zero, |acc, x| acc + x.clone()))));
        v.push(("fold += ref", fv!({ let mut acc = $zero; for x in xs { acc += x; } acc })));
        v.push(("fold += val", fv!({ let mut acc = $zero; for x in xs { acc += x.clone(); } acc })));
        agree(&mut $out, concat!($tn, " Sum"), Ret, v);
        let mut v: Forms = Vec::new();
        v.push(("iter().product()", fv!(xs.iter().product::<$T>())));
        v.push(("into_iter().product()", fv!(xs.clone().into_iter().product::<$T>())));
        v.push(("fold * ref", fv!(xs.iter().fold($one, |acc, x| acc * x))));
        v.push(("fold * val", fv!(xs.iter().fold($one, |acc, x| acc * x.clone()))));
        v.push(("fold *= ref", fv!({ let mut acc = $one; for x in xs { acc *= x; } acc })));
        v.push(("fold *= val", fv!({ let mut acc = $one; for x in xs { acc *= x.clone(); } acc })));
        agree(&mut $out, concat!($tn, " Product"), Ret, v);
    }};
}

macro_rules! fold_only {
    ($out:ident, $tn:expr, $T:ty, $xs:ident, $zero:expr, $one:expr) => {{
        let xs: &Vec<$T> = &$xs;
        let mut v: Forms = Vec::new();
        v.push(("fold + ref", fv!(xs.iter().fold($zero, |acc, x| acc + x))));
        v.push(("fold + val", fv!(xs.iter().fold($zero, |acc, x| acc + x.clone()))));
        v.push(("fold ref + val", fv!(xs.iter().fold($zero, |acc, x| &acc + x.clone()))));
        v.push(("fold += ref", fv!({ let mut acc = $zero; for x in xs { acc += x; } acc })));
        v.push(("fold += val", fv!({ let mut acc = $zero; for x in xs { acc += x.clone(); } acc })));
        agree(&mut $out, concat!($tn, " fold add"), Ret, v);
        let mut v: Forms = Vec::new();
        v.push(("fold * ref", fv!(xs.iter().fold($one, |acc, x| acc * x))));
        v.push(("fold * val", fv!(xs.iter().fold($one, |acc, x| acc * x.clone()))));
        v.push(("fold ref * val", fv!(xs.iter().fold($one, |acc, x| &acc * x.clone()))));
        v.push(("fold *= ref", fv!({ let mut acc = $one; for x in xs { acc *= x; } acc })));
        v.push(("fold *= val", fv!({ let mut acc = $one; for x in xs { acc *= x.clone(); } acc })));
        agree(&mut $out, concat!($tn, " fold mul"), Ret, v);
    }};
}

fn iter_forms(c: &IterCase, _ctx: &Ctx) -> Out {
    let mut out = Out::new();
    out.nontrivial(c.items.len() >= 2 && c.items.iter().any(|x| x.0.mag.trimmed_len() > 1));
    out.label(match c.items.len() {
        0 => "iter:empty",
        1 => "iter:one item",
        _ => "iter:several items",
    });
    let us: Vec<UBig> = c.items.iter().map(|x| x.0.mag.ubig()).collect();
    let is: Vec<IBig> = c.items.iter().map(|x| x.0.ibig()).collect();
    let rs: Vec<RBig> = c.items.iter().map(|x| RBig::from_parts(x.0.ibig(), x.1.ubig())).collect();
    let ls: Vec<Relaxed> = c.items.iter().map(|x| Relaxed::from_parts(x.0.ibig(), x.1.ubig())).collect();
    fold_forms!(out, "UBig", UBig, us, UBig::ZERO, UBig::ONE);
    fold_forms!(out, "IBig", IBig, is, IBig::ZERO, IBig::ONE);
    // dashu-ratio has no Sum / Product impls (rational/src/iter.rs is not part of the crate: lib.rs
    // lacks `mod iter;`), so only the folds are compared for the rational types
    fold_only!(out, "RBig", RBig, rs, RBig::ZERO, RBig::ONE);
    fold_only!(out, "Relaxed", Relaxed, ls, Relaxed::ZERO, Relaxed::ONE);
    // primitive items summed into a big integer
    let ws: Vec<u64> = c.items.iter().map(|x| x.0.mag.0.first().copied().unwrap_or(0)).collect();
    let mut v: Forms = Vec::new();
    v.push(("iter().sum() of &u64", fv!(ws.iter().sum::<UBig>())));
    v.push(("copied().sum() of u64", fv!(ws.iter().copied().sum::<UBig>())));
    v.push(("map(UBig::from).sum()", fv!(ws.iter().map(|w| UBig::from(*w)).sum::<UBig>())));
    v.push(("sum::<IBig>() of u64", fv!(ws.iter().copied().sum::<IBig>())));
    agree(&mut out, "UBig Sum of u64", Ret, v);
    let mut v: Forms = Vec::new();
    v.push(("iter().product() of &u64", fv!(ws.iter().product::<UBig>())));
    v.push(("copied().product() of u64", fv!(ws.iter().copied().product::<UBig>())));
    v.push(("map(UBig::from).product()", fv!(ws.iter().map(|w| UBig::from(*w)).product::<UBig>())));
    agree(&mut out, "UBig Product of u64", Ret, v);
    // floats: 12 words are at most 768 bits / 232 decimal digits
    let f2: Vec<FBig<mode::Zero, 2>> = c.items.iter().map(|x| Fl { sig: x.0.clone(), exp: x.2 as i64 }.fbig(800)).collect();
    let f10: Vec<FBig<mode::HalfAway, 10>> = c.items.iter().map(|x| Fl { sig: x.0.clone(), exp: x.2 as i64 }.fbig(240)).collect();
    type F2 = FBig<mode::Zero, 2>;
    type F10 = FBig<mode::HalfAway, 10>;
    fold_forms!(out, "FBig<Zero,2>", F2, f2, F2::ZERO, F2::ONE);
    fold_forms!(out, "FBig<HalfAway,10>", F10, f10, F10::ZERO, F10::ONE);
    out
}

// ------------------------------------------------------------------------------------------------
// Clone / clone_from
// ------------------------------------------------------------------------------------------------

#[derive(Debug, Clone, Hash, Serialize, Deserialize)]
struct CloneCase {
    src: Int,
    /// the value that is overwritten by clone_from
    prev: Int,
    src_den: Nat,
    prev_den: Nat,
    exp: i16,
    big: Nat,
    /// 0: += 1, 1: <<= 70, 2: *= big, 3: >>= 65 (integers) / /= 2^65 ...
    mutation: u8,
}

fn clone_case() -> impl Strategy<Value = CloneCase> {
    (gen::int(Prof::Medium), 0u8..9, (0u8..gen::N_PATTERNS, any::<u64>(), any::<bool>()), gen::nat_nz(Prof::Small), gen::nat_nz(Prof::Small), -300i16..=300, gen::nat_len(1, 4), 0u8..4).prop_map(
        |(src, lsel, (pat, seed, pneg), src_den, prev_den, exp, big, mutation)| {
            let l = src.mag.trimmed_len();
            // length classes of the overwritten value relative to the source
            let pl = match lsel {
                0 => 0,
                1 => 1,
                2 => 2,
                3 => 3,
                4 => l.saturating_sub(1),
                5 => l,
                6 => l + 1,
                7 => 4 * l + 9, // much larger: the old buffer is too large to be kept
                _ => 2 * l + 1,
            };
            let prev = Nat(gen::expand(pl, pat, seed));
            CloneCase { src, prev: Int { neg: pneg && pl > 0, mag: prev }, src_den, prev_den, exp, big, mutation }
        },
    )
}

/// Clone contract for one type: `mk_src` / `mk_prev` build fresh values, `model` is the model value
/// of the source, `mutate` changes a value in place and `mutated` is the model of the result.
fn clone_contract<T: Clone + ToV>(out: &mut Out, tn: &str, mk_src: &dyn Fn() -> T, mk_prev: &dyn Fn() -> T, model: &V, mutate: &dyn Fn(&mut T), mutated: &V) {
    FORM_EVALS.fetch_add(5, AtomicOrdering::Relaxed);
    let r = catch(|| {
        let mut errs: Vec<String> = Vec::new();
        let mut chk = |what: &str, got: V, want: &V| {
            if &got != want {
                errs.push(format!("{what}: got {got:?} want {want:?}"));
            }
        };
        let src = mk_src();
        // clone
        let c = src.clone();
        chk("clone() value", c.v(), model);
        // clone_from onto a previous value
        let mut d = mk_prev();
        d.clone_from(&src);
        chk("clone_from value", d.v(), model);
        chk("source after clone_from", src.v(), model);
        // mutate the copies, the source must not move
        mutate(&mut d);
        chk("clone_from copy after mutation", d.v(), mutated);
        chk("source after mutating the clone_from copy", src.v(), model);
        let mut c2 = c.clone();
        mutate(&mut c2);
        chk("clone() copy after mutation", c2.v(), mutated);
        chk("first clone after mutating its clone", c.v(), model);
        chk("source after mutating a clone", src.v(), model);
        // mutate / drop the original, the copies must not move
        let mut s = mk_src();
        let e = s.clone();
        let mut f = mk_prev();
        f.clone_from(&s);
        mutate(&mut s);
        chk("original after mutation", s.v(), mutated);
        chk("clone() copy after mutating the original", e.v(), model);
        chk("clone_from copy after mutating the original", f.v(), model);
        drop(s);
        drop(src);
        chk("clone() copy after dropping the original", e.v(), model);
        chk("clone_from copy after dropping the original", f.v(), model);
        // clone_from twice (the second time onto an equal value) and self-shaped chains
        let mut g = mk_prev();
        g.clone_from(&e);
        g.clone_from(&f);
        chk("clone_from onto an equal value", g.v(), model);
        let mut h = e.clone();
        h.clone_from(&mk_prev());
        h.clone_from(&g);
        chk("clone_from back and forth", h.v(), model);
        errs
    });
    match r {
        Err(m) => out.fail(format!("{tn} Clone: unexpected panic {}", normalise(&m))),
        Ok(errs) => {
            if let Some(e) = errs.first() {
                out.fail(format!("{tn} Clone: {e}"));
            }
        }
    }
}

fn big_pow(base: u64, k: u64) -> BigInt {
    BigInt::from(bpow(base, k))
}

fn clone_forms(c: &CloneCase, _ctx: &Ctx) -> Out {
    let mut out = Out::new();
    let (ls, lp) = (c.src.mag.trimmed_len(), c.prev.mag.trimmed_len());
    out.nontrivial(ls > 1 || lp > 1);
    out.label(gen::repr_class(ls));
    out.label(match (lp <= 2, ls <= 2) {
        (true, true) => "clone_from:inline onto inline",
        (true, false) => "clone_from:heap onto inline",
        (false, true) => "clone_from:inline onto heap",
        (false, false) => {
            if lp < ls {
                "clone_from:heap onto smaller heap"
            } else if lp == ls {
                "clone_from:heap onto equal-length heap"
            } else if lp > 4 * ls {
                "clone_from:heap onto much larger heap"
            } else {
                "clone_from:heap onto larger heap"
            }
        }
    });
    out.label(match c.mutation {
        0 => "mutation:+= 1",
        1 => "mutation:<<= 70",
        2 => "mutation:*= big",
        _ => "mutation:>>= 65",
    });
    let nbig = BigInt::from(c.big.big());
    let one = BigInt::from(1);
    // ---- UBig
    {
        let x = BigInt::from(c.src.mag.big());
        let mutated = match c.mutation {
            0 => &x + &one,
            1 => &x << 70usize,
            2 => &x * &nbig,
            _ => &x >> 65usize,
        };
        let big = c.big.ubig();
        let m = c.mutation;
        clone_contract::<UBig>(
            &mut out,
            "UBig",
            &|| c.src.mag.ubig(),
            &|| c.prev.mag.ubig(),
            &V::I(x.clone()),
            &|t: &mut UBig| match m {
                0 => *t += 1u8,
                1 => *t <<= 70,
                2 => *t *= &big,
                _ => *t >>= 65,
            },
            &V::I(mutated),
        );
    }
    // ---- IBig
    {
        let x = c.src.big();
        let mutated = match c.mutation {
            0 => &x + &one,
            1 => &x << 70usize,
            2 => &x * &nbig,
            _ => &x >> 65usize, // num-bigint: floor, like dashu
        };
        let big = c.big.ubig();
        let m = c.mutation;
        clone_contract::<IBig>(
            &mut out,
            "IBig",
            &|| c.src.ibig(),
            &|| c.prev.ibig(),
            &V::I(x.clone()),
            &|t: &mut IBig| match m {
                0 => *t += 1u8,
                1 => *t <<= 70,
                2 => *t *= &big,
                _ => *t >>= 65,
            },
            &V::I(mutated),
        );
    }
    // ---- RBig / Relaxed: mutations += 1, /= 2^70 (exact), *= big, *= -1/2^65
    {
        let q = num_rational::BigRational::new(c.src.big(), BigInt::from(c.src_den.big()));
        let p70 = BigInt::from(1) << 70usize;
        let p65 = BigInt::from(1) << 65usize;
        let qm = match c.mutation {
            0 => &q + num_rational::BigRational::from_integer(one.clone()),
            1 => &q / num_rational::BigRational::from_integer(p70.clone()),
            2 => &q * num_rational::BigRational::from_integer(nbig.clone()),
            _ => &q * num_rational::BigRational::new(BigInt::from(-1), p65.clone()),
        };
        let model = V::Q(q.numer().clone(), q.denom().clone());
        let mutated = V::Q(qm.numer().clone(), qm.denom().clone());
        let big = c.big.ubig();
        let m = c.mutation;
        macro_rules! rat {
            ($T:ident, $tn:expr) => {
                clone_contract::<$T>(
                    &mut out,
                    $tn,
                    &|| $T::from_parts(c.src.ibig(), c.src_den.ubig()),
                    &|| $T::from_parts(c.prev.ibig(), c.prev_den.ubig()),
                    &model,
                    &|t: &mut $T| match m {
                        0 => *t += $T::ONE,
                        1 => *t /= $T::from(UBig::ONE << 70),
                        2 => *t *= $T::from(big.clone()),
                        _ => *t *= $T::from_parts(IBig::NEG_ONE, UBig::ONE << 65),
                    },
                    &mutated,
                )
            };
        }
        rat!(RBig, "RBig");
        rat!(Relaxed, "Relaxed");
    }
    // ---- FBig at a precision large enough that every mutation is exact
    {
        const P: usize = 6000;
        fn fl_model(base: u64, sig: &BigInt, exp: i64, mutation: u8, nbig: &BigInt) -> (V, V) {
            let model = canon_float(sig.clone(), exp, base, P);
            let mutated = match mutation {
                0 => {
                    if exp >= 0 {
                        canon_float(sig * big_pow(base, exp as u64) + BigInt::from(1), 0, base, P)
                    } else {
                        canon_float(sig + big_pow(base, (-exp) as u64), exp, base, P)
                    }
                }
                1 => canon_float(sig.clone(), if is0(sig) { 0 } else { exp + 70 }, base, P),
                2 => canon_float(sig * nbig, exp, base, P),
                _ => canon_float(-sig, if is0(sig) { 0 } else { exp - 65 }, base, P),
            };
            (model, mutated)
        }
        let sig = c.src.big();
        let m = c.mutation;
        macro_rules! fl {
            ($R:ty, $B:expr, $tn:expr) => {{
                type F = FBig<$R, $B>;
                let (model, mutated) = fl_model($B as u64, &sig, c.exp as i64, m, &nbig);
                let bigf: F = Fl { sig: Int { neg: false, mag: c.big.clone() }, exp: 0 }.fbig(P);
                let onef: F = Fl { sig: Int::from_i128(1), exp: 0 }.fbig(P);
                clone_contract::<F>(
                    &mut out,
                    $tn,
                    &|| Fl { sig: c.src.clone(), exp: c.exp as i64 }.fbig(P),
                    &|| Fl { sig: c.prev.clone(), exp: -(c.exp as i64) }.fbig(17 + c.prev.mag.trimmed_len() * 64),
                    &model,
                    &|t: &mut F| match m {
                        0 => *t += &onef,
                        1 => *t <<= 70,
                        2 => *t *= &bigf,
                        _ => {
                            *t <<= -65;
                            *t *= Sign::Negative;
                        }
                    },
                    &mutated,
                );
            }};
        }
        fl!(mode::Zero, 2, "FBig<Zero,2>");
        fl!(mode::HalfAway, 10, "FBig<HalfAway,10>");
    }
    // ---- Reduced: clone_from across rings of different sizes
    {
        let m1 = if c.src_den.is_zero() { Nat(vec![7]) } else { c.src_den.clone() };
        let m2 = if c.big.is_zero() { Nat(vec![5]) } else { c.big.clone() };
        let (ring1, ring2) = (ConstDivisor::new(m1.ubig()), ConstDivisor::new(m2.ubig()));
        let nm1 = BigInt::from(m1.big());
        let md = |x: BigInt| -> BigInt { ((x % &nm1) + &nm1) % &nm1 };
        let x = md(c.src.big());
        let mutated = match c.mutation {
            0 => md(&x + &one),
            1 => md(&x * &x),
            2 => md(&x * md(nbig.clone())),
            _ => md(-x.clone()),
        };
        let big = c.big.ubig();
        let m = c.mutation;
        clone_contract::<Reduced>(
            &mut out,
            "Reduced",
            &|| ring1.reduce(c.src.ibig()),
            &|| ring2.reduce(c.prev.ibig()),
            &V::T(vec![V::I(x.clone()), V::I(nm1.clone())]),
            &|t: &mut Reduced| match m {
                0 => *t += ring1.reduce(1u8),
                1 => *t = t.sqr(),
                2 => *t *= ring1.reduce(big.clone()),
                _ => *t = -t.clone(),
            },
            &V::T(vec![V::I(mutated), V::I(nm1.clone())]),
        );
    }
    out
}

// ------------------------------------------------------------------------------------------------

/// operation × form inventory: run the oracles on a few generated cases with the recorder on
fn census(ck: &mut Check) {
    REC.with(|r| *r.borrow_mut() = Some(BTreeMap::new()));
    let known = ck.known().clone();
    let ctx = Ctx { tier: ck.tier, known: &known, strict: false };
    macro_rules! run {
        ($strat:expr, $f:expr) => {
            for c in sample_strategy(&$strat, 15, 80) {
                let _ = catch(|| $f(&c, &ctx));
            }
        };
    }
    run!(int_case(Prof::Medium), ubig_forms);
    run!(int_case(Prof::Medium), ibig_forms);
    run!(int_case(Prof::Medium), mixed_forms);
    run!(int_case(Prof::Medium), const_divisor_forms);
    run!(prim_case(), prim_forms);
    run!(fl_case(2), float_forms::<mode::Zero, 2>);
    run!(rat_case(), rational_forms);
    run!(ring_case(), ring_forms);
    run!(iter_case(), iter_forms);
    let m = REC.with(|r| r.borrow_mut().take()).unwrap_or_default();
    FORM_EVALS.store(0, AtomicOrdering::Relaxed);
    let pairs: usize = m.values().map(|s| s.len()).sum();
    let mut j = serde_json::Map::new();
    for (k, v) in &m {
        j.insert(k.clone(), serde_json::json!(v.iter().collect::<Vec<_>>()));
    }
    ck.extra("matrix_operations", serde_json::json!(m.len()));
    ck.extra("matrix_op_form_pairs", serde_json::json!(pairs));
    ck.extra("matrix", serde_json::Value::Object(j));
    ck.extra("matrix_note", serde_json::json!("float operations are listed once (instantiated for 4 base/mode combinations); Clone contract (clone, clone_from, mutate either side, drop) for UBig, IBig, RBig, Relaxed, FBig x2, Reduced is not part of the table"));
}

fn main() {
    let mut ck = Check::new(
        "C15",
        "metamorphic call-form matrix: for each operation every available call form (val/ref on either side, op=, primitive or other big type on either side incl. the converted-operand form, trait-method forms div_rem / div_rem_assign / *Euclid / gcd / gcd_ext, the num-traits trait forms (Pow, Euclid, Signed, Zero/One, Num::from_str_radix, ToPrimitive, FromPrimitive) of UBig / IBig / FBig / RBig / Relaxed against the operations they forward to, sqr/cubic/pow vs products, Neg/Not/Abs val/ref/Sign forms, shifts incl. FBig signed shifts, Context methods vs FBig operators at equal precision and mode, Sum/Product vs folds) is run under catch on the same operands; all forms panic or all return one model value (raw words -> num-bigint; floats: canonical significand/exponent + precision; rationals: reduced numerator/denominator). Operands: structured integers biased to 0-4 words (inline/heap boundary) with some up to 70 words, derived pairs (equal, a±1, multiples), zero divisors; floats in bases 2 and 10, modes Zero and HalfAway, equal / different / unlimited precision, exponent gaps relative to the precision; rationals with shared denominators; ring elements of 1-, 2- and multi-word moduli. Clone: clone and clone_from onto inline / smaller / equal-length / larger / much larger previous values, then either side is mutated or dropped and the other compared with its model. Non-trivial: operands not both <= 1 word (prim: both non-zero); distinct by case digest.",
    );
    ck.assume("the value of a form is read through as_words/as_sign_words, Repr::significand/exponent, numerator/denominator, Reduced::residue/modulus");
    if !ck.is_replay() {
        census(&mut ck);
    }
    // thorough: also operands beyond the Karatsuba / Toom-3 thresholds
    let prof = if ck.thorough() { Prof::Large } else { Prof::Medium };
    ck.sub("ubig_forms", (20_000, 500_000), move || int_case(prof), ubig_forms);
    ck.sub("ibig_forms", (20_000, 500_000), move || int_case(prof), ibig_forms);
    ck.sub("mixed_forms", (15_000, 375_000), move || int_case(prof), mixed_forms);
    ck.sub("const_divisor_forms", (15_000, 375_000), move || int_case(prof), const_divisor_forms);
    ck.sub("prim_forms", (15_000, 375_000), prim_case, prim_forms);
    ck.sub("float_forms_b2_zero", (8_000, 200_000), || fl_case(2), float_forms::<mode::Zero, 2>);
    ck.sub("float_forms_b2_halfaway", (6_000, 150_000), || fl_case(2), float_forms::<mode::HalfAway, 2>);
    ck.sub("float_forms_b10_zero", (6_000, 150_000), || fl_case(10), float_forms::<mode::Zero, 10>);
    ck.sub("float_forms_b10_halfaway", (8_000, 200_000), || fl_case(10), float_forms::<mode::HalfAway, 10>);
    ck.sub("rational_forms", (8_000, 200_000), rat_case, rational_forms);
    ck.sub("ring_forms", (10_000, 250_000), ring_case, ring_forms);
    ck.sub("iter_forms", (6_000, 150_000), iter_case, iter_forms);
    ck.sub("clone_forms", (15_000, 375_000), clone_case, clone_forms);
    ck.extra("form_evaluations", serde_json::json!(FORM_EVALS.load(AtomicOrdering::Relaxed)));
    ck.finish();
}
