//! C07 — integer text and byte encodings round-trip and match the reference digits.
//!
//! Oracles: digits = num-bigint `to_str_radix`; layout = `Formatter::pad_integral` (the primitive
//! integer layout engine itself) driven by the *same* format string, plus the u128/i128 primitives;
//! parsing = a reference parser written from the rustdoc grammar of the four entry points;
//! bytes = own two's complement decoder cross-checked with num-bigint; chunks = positional sum.
use dashu_base::{ParseError, Sign};
use dashu_int::{IBig, UBig};
use dv::gen::{self, Prof, SplitMix};
use dv::*;
use num_bigint::{BigInt, BigUint};
use num_traits::{One, Pow, Signed, ToPrimitive, Zero};
use proptest::prelude::*;
use proptest::strategy::Union;
use serde::{Deserialize, Serialize};
use std::fmt::{self, Binary, Display, LowerHex, Octal, UpperHex};
use std::str::FromStr;

// ------------------------------------------------------------------------------------------------
// thresholds, re-derived here from the definitions in /repo/integer/src/radix.rs and the two
// CHUNK_LEN constants (fmt/non_power_two.rs: 16, parse/non_power_two.rs: 256)
// ------------------------------------------------------------------------------------------------

/// digits that always fit a 64-bit word (`RadixInfo::digits_per_word`; for powers of two the
/// `WORD_BITS / log2(radix)` of parse/power_two.rs)
fn dpw(r: u32) -> usize {
    if r.is_power_of_two() {
        (64 / r.trailing_zeros()) as usize
    } else {
        let mut k = 0;
        let mut p: u128 = 1;
        while p * r as u128 <= u64::MAX as u128 {
            p *= r as u128;
            k += 1;
        }
        k
    }
}
const FMT_CHUNK: usize = 16;
const PARSE_CHUNK: usize = 256;

fn radix() -> BoxedStrategy<u32> {
    prop_oneof![
        4 => any::<u16>().prop_map(|i| gen::pick(&[10u32, 2, 16, 8, 3, 7, 36, 32, 4], i)),
        2 => 2u32..=36,
    ]
    .boxed()
}

/// word-length classes for printing: small most of the time, then the medium/large switch of the
/// printer (14..16 words), and the squaring ladder of its divide and conquer (16·2^i words)
fn len_print(huge: bool, giant: bool) -> BoxedStrategy<usize> {
    let mut v: Vec<(u32, BoxedStrategy<usize>)> = vec![
        (40, gen::len(Prof::Small)),
        (10, gen::len(Prof::Medium)),
        (6, (13usize..=18).boxed()),
        (3, (30usize..=34).boxed()),
        (2, (62usize..=66).boxed()),
        (2, (126usize..=130).boxed()),
        (1, gen::len(Prof::Large)),
    ];
    if huge {
        v = vec![(2, (254usize..=258).boxed()), (2, (506usize..=516).boxed()), (1, (1010usize..=1030).boxed()), (1, (1500usize..=3000).boxed())];
        if giant {
            v.push((1, (4000usize..=10000).boxed()));
        }
    }
    Union::new_weighted(v).boxed()
}

/// a value for radix `r`: structured words, or a neighbour r^k + {-1,0,1} of a power of the radix
/// with k on the digit-count thresholds of printer and parser
fn make_value(r: u32, words: Vec<u64>, sel: u8, ksel: u16, seed: u64, delta: u8, huge: bool) -> Nat {
    if sel < 176 {
        return Nat(words);
    }
    let d = dpw(r);
    let k = if huge {
        gen::pick(&[128 * d, PARSE_CHUNK * d - 1, PARSE_CHUNK * d, 2 * PARSE_CHUNK * d, 4 * PARSE_CHUNK * d], ksel)
    } else {
        gen::pick(
            &[1, d - 1, d, d + 1, 2 * d, 2 * d + 1, 3 * d, (FMT_CHUNK - 1) * d, FMT_CHUNK * d, FMT_CHUNK * d + 1, 2 * FMT_CHUNK * d, 4 * FMT_CHUNK * d, 8 * FMT_CHUNK * d, (seed % 700) as usize + 1],
            ksel,
        )
    };
    let p: BigUint = Pow::pow(BigUint::from(r), k);
    let v = match delta % 3 {
        0 => p,
        1 => p - BigUint::one(),
        _ => p + BigUint::one(),
    };
    Nat::from_big(&v)
}

fn value_for_radix(huge: bool, giant: bool) -> impl Strategy<Value = (Int, u32)> {
    (radix(), len_print(huge, giant), 0u8..gen::N_PATTERNS, any::<u64>(), any::<u8>(), any::<u16>(), 0u8..3, any::<bool>()).prop_map(move |(r, n, pat, seed, sel, ksel, delta, neg)| {
        let mag = make_value(r, gen::expand(n, pat, seed), sel, ksel, seed, delta, huge);
        (Int { neg: neg && !mag.is_zero(), mag }, r)
    })
}

// ------------------------------------------------------------------------------------------------
// small helpers
// ------------------------------------------------------------------------------------------------

fn clip(s: &str) -> String {
    let n = s.chars().count();
    if n <= 100 {
        format!("{s:?}")
    } else {
        let head: String = s.chars().take(40).collect();
        let tail: String = s.chars().skip(n - 40).collect();
        format!("{head:?}..{tail:?}[{n} chars]")
    }
}

fn expect_str(out: &mut Out, what: &str, got: Result<String, String>, want: &str) {
    match got {
        Ok(g) => {
            if g != want {
                let at = g.bytes().zip(want.bytes()).position(|(a, b)| a != b).unwrap_or(g.len().min(want.len()));
                out.fail(format!("{what}: got {} want {} (lengths {} / {}, first difference at byte {at})", clip(&g), clip(want), g.len(), want.len()));
            }
        }
        Err(m) => out.fail(format!("{what}: unexpected panic {}", normalise(&m))),
    }
}
fn eq_u(out: &mut Out, what: &str, got: Result<UBig, String>, want: &BigUint) {
    match got {
        Ok(g) => {
            if &u2n(&g) != want {
                out.fail(format!("{what}: got {} want {}", show_u(&u2n(&g)), show_u(want)));
            }
        }
        Err(m) => out.fail(format!("{what}: unexpected panic {}", normalise(&m))),
    }
}
fn eq_i(out: &mut Out, what: &str, got: Result<IBig, String>, want: &BigInt) {
    match got {
        Ok(g) => {
            if &i2n(&g) != want {
                out.fail(format!("{what}: got {} want {}", show_i(&i2n(&g)), show_i(want)));
            }
            let (s, w) = g.as_sign_words();
            if w.is_empty() && s == Sign::Negative {
                out.fail(format!("{what}: returned a negative zero"));
            }
        }
        Err(m) => out.fail(format!("{what}: unexpected panic {}", normalise(&m))),
    }
}
fn signed_str(neg: bool, digits: &str) -> String {
    if neg {
        format!("-{digits}")
    } else {
        digits.to_string()
    }
}

// ------------------------------------------------------------------------------------------------
// print: digits in every radix
// ------------------------------------------------------------------------------------------------

#[derive(Debug, Clone, Hash, Serialize, Deserialize)]
struct PrintCase {
    v: Int,
    radix: u32,
}

/// which conversion path of fmt/{power_two,non_power_two}.rs a magnitude takes
fn print_path(words: usize, ndigits: usize, r: u32) -> &'static str {
    let d = dpw(r);
    if r.is_power_of_two() {
        match words {
            0 | 1 => "print p2: word",
            2 => "print p2: dword",
            _ if 64 % r.trailing_zeros() != 0 => "print p2: large, digits straddle word boundaries",
            _ => "print p2: large, word-aligned digits",
        }
    } else {
        match words {
            0 | 1 => "print np2: word",
            2 => "print np2: dword",
            _ if words * (d + 1) <= FMT_CHUNK * d => "print np2: medium (single chunk)",
            _ => {
                // radix_powers[i] = r^(16·dpw·2^i) is used iff it is <= the value
                let powers = (0..40).take_while(|i| ndigits > (FMT_CHUNK * d) << i).count();
                match powers {
                    0 => "print np2: large, below first chunk power",
                    1 => "print np2: large, 1 radix power",
                    2 => "print np2: large, 2 radix powers",
                    3 => "print np2: large, 3 radix powers",
                    4 => "print np2: large, 4 radix powers",
                    _ => "print np2: large, >=5 radix powers",
                }
            }
        }
    }
}

fn print(c: &PrintCase, _ctx: &Ctx) -> Out {
    let mut out = Out::new();
    let r = c.radix;
    let words = c.v.mag.trimmed_len();
    let mag = c.v.mag.big();
    let lower = mag.to_str_radix(r);
    let upper = lower.to_ascii_uppercase();
    out.nontrivial(words >= 2);
    out.label(print_path(words, lower.len(), r));
    out.label(gen::repr_class(words));
    let d = dpw(r);
    if !r.is_power_of_two() {
        for (k, l) in [(d, "digits = dpw or dpw+1"), (FMT_CHUNK * d, "digits = 16·dpw or +1"), (2 * FMT_CHUNK * d, "digits = 32·dpw or +1")] {
            if lower.len() == k || lower.len() == k + 1 {
                out.label(l);
            }
        }
    }
    let u = c.v.mag.ubig();
    let i = c.v.ibig();
    let neg = c.v.neg;
    expect_str(&mut out, &format!("UBig in_radix({r}) {{}}"), catch(|| format!("{}", u.in_radix(r))), &lower);
    expect_str(&mut out, &format!("UBig in_radix({r}) {{:#}}"), catch(|| format!("{:#}", u.in_radix(r))), &upper);
    expect_str(&mut out, &format!("IBig in_radix({r}) {{}}"), catch(|| format!("{}", i.in_radix(r))), &signed_str(neg, &lower));
    expect_str(&mut out, &format!("IBig in_radix({r}) {{:#}}"), catch(|| format!("{:#}", i.in_radix(r))), &signed_str(neg, &upper));
    expect_str(&mut out, &format!("IBig in_radix({r}).to_string()"), catch(|| i.in_radix(r).to_string()), &signed_str(neg, &lower));
    match r {
        10 => {
            expect_str(&mut out, "UBig {}", catch(|| format!("{u}")), &lower);
            expect_str(&mut out, "UBig to_string", catch(|| u.to_string()), &lower);
            expect_str(&mut out, "IBig {}", catch(|| format!("{i}")), &signed_str(neg, &lower));
        }
        2 => {
            expect_str(&mut out, "UBig {:b}", catch(|| format!("{u:b}")), &lower);
            expect_str(&mut out, "IBig {:b}", catch(|| format!("{i:b}")), &signed_str(neg, &lower));
        }
        8 => {
            expect_str(&mut out, "UBig {:o}", catch(|| format!("{u:o}")), &lower);
            expect_str(&mut out, "IBig {:o}", catch(|| format!("{i:o}")), &signed_str(neg, &lower));
        }
        16 => {
            expect_str(&mut out, "UBig {:x}", catch(|| format!("{u:x}")), &lower);
            expect_str(&mut out, "UBig {:X}", catch(|| format!("{u:X}")), &upper);
            expect_str(&mut out, "IBig {:x}", catch(|| format!("{i:x}")), &signed_str(neg, &lower));
            expect_str(&mut out, "IBig {:X}", catch(|| format!("{i:X}")), &signed_str(neg, &upper));
        }
        _ => {}
    }
    out
}

// ------------------------------------------------------------------------------------------------
// layout: formatter flags, against pad_integral and the primitives
// ------------------------------------------------------------------------------------------------

// 13 fill/align forms × 8 sign/alternate/zero forms × {run-time width, no width} = 208 specs,
// each instantiated for the five formatting traits.
macro_rules! for_all_specs {
    ($cb:ident; $($a:tt)*) => {
        for_all_sfx!($cb; ""; $($a)*);
        for_all_sfx!($cb; "<"; $($a)*);
        for_all_sfx!($cb; "^"; $($a)*);
        for_all_sfx!($cb; ">"; $($a)*);
        for_all_sfx!($cb; " <"; $($a)*);
        for_all_sfx!($cb; " ^"; $($a)*);
        for_all_sfx!($cb; " >"; $($a)*);
        for_all_sfx!($cb; "*<"; $($a)*);
        for_all_sfx!($cb; "*^"; $($a)*);
        for_all_sfx!($cb; "*>"; $($a)*);
        for_all_sfx!($cb; "0<"; $($a)*);
        for_all_sfx!($cb; "0^"; $($a)*);
        for_all_sfx!($cb; "0>"; $($a)*);
    };
}
macro_rules! for_all_sfx {
    ($cb:ident; $fa:literal; $($a:tt)*) => {
        $cb!($fa, ""; $($a)*);
        $cb!($fa, "+"; $($a)*);
        $cb!($fa, "#"; $($a)*);
        $cb!($fa, "0"; $($a)*);
        $cb!($fa, "+#"; $($a)*);
        $cb!($fa, "+0"; $($a)*);
        $cb!($fa, "#0"; $($a)*);
        $cb!($fa, "+#0"; $($a)*);
    };
}
macro_rules! spec_fmt {
    ($fa:literal, $s:literal; $i:ident, $spec:ident, $x:ident, $w:ident, $ty:literal) => {
        if $i == $spec {
            return format!(concat!("{:", $fa, $s, "w$", $ty, "}"), $x, w = $w);
        }
        $i += 1;
        if $i == $spec {
            return format!(concat!("{:", $fa, $s, $ty, "}"), $x);
        }
        $i += 1;
    };
}
macro_rules! spec_name {
    ($fa:literal, $s:literal; $v:ident) => {
        $v.push(concat!("{:", $fa, $s, "w$}"));
        $v.push(concat!("{:", $fa, $s, "}"));
    };
}
macro_rules! render_fn {
    ($name:ident, $tr:ident, $ty:literal) => {
        #[allow(unused_assignments)]
        fn $name<T: $tr>(x: &T, spec: usize, w: usize) -> String {
            let mut i = 0usize;
            for_all_specs!(spec_fmt; i, spec, x, w, $ty);
            unreachable!("spec index {spec} out of range")
        }
    };
}
render_fn!(render_display, Display, "");
render_fn!(render_binary, Binary, "b");
render_fn!(render_octal, Octal, "o");
render_fn!(render_lhex, LowerHex, "x");
render_fn!(render_uhex, UpperHex, "X");

const N_SPECS: usize = 13 * 8 * 2;
const TRAITS: [&str; 5] = ["Display", "Binary", "Octal", "LowerHex", "UpperHex"];

fn spec_names() -> Vec<&'static str> {
    let mut v = Vec::new();
    for_all_specs!(spec_name; v);
    assert_eq!(v.len(), N_SPECS);
    v
}

fn render<T: Display + Binary + Octal + LowerHex + UpperHex>(x: &T, tr: usize, spec: usize, w: usize) -> String {
    match tr {
        0 => render_display(x, spec, w),
        1 => render_binary(x, spec, w),
        2 => render_octal(x, spec, w),
        3 => render_lhex(x, spec, w),
        _ => render_uhex(x, spec, w),
    }
}

/// Reference: Rust's primitive-integer layout (`pad_integral`) around num-bigint digits; a
/// negative number is '-' followed by its magnitude in every radix.
struct RefInt {
    neg: bool,
    mag: BigUint,
}
impl Display for RefInt {
    fn fmt(&self, f: &mut fmt::Formatter) -> fmt::Result {
        f.pad_integral(!self.neg, "", &self.mag.to_str_radix(10))
    }
}
impl Binary for RefInt {
    fn fmt(&self, f: &mut fmt::Formatter) -> fmt::Result {
        f.pad_integral(!self.neg, "0b", &self.mag.to_str_radix(2))
    }
}
impl Octal for RefInt {
    fn fmt(&self, f: &mut fmt::Formatter) -> fmt::Result {
        f.pad_integral(!self.neg, "0o", &self.mag.to_str_radix(8))
    }
}
impl LowerHex for RefInt {
    fn fmt(&self, f: &mut fmt::Formatter) -> fmt::Result {
        f.pad_integral(!self.neg, "0x", &self.mag.to_str_radix(16))
    }
}
impl UpperHex for RefInt {
    fn fmt(&self, f: &mut fmt::Formatter) -> fmt::Result {
        f.pad_integral(!self.neg, "0x", &self.mag.to_str_radix(16).to_ascii_uppercase())
    }
}
/// Reference for `InRadix`: no prefix; `#` selects upper-case letters (InRadix rustdoc).
struct RefRadix {
    neg: bool,
    mag: BigUint,
    radix: u32,
}
impl Display for RefRadix {
    fn fmt(&self, f: &mut fmt::Formatter) -> fmt::Result {
        let mut s = self.mag.to_str_radix(self.radix);
        if f.alternate() {
            s = s.to_ascii_uppercase();
        }
        f.pad_integral(!self.neg, "", &s)
    }
}

#[derive(Debug, Clone, Hash, Serialize, Deserialize)]
struct LayoutCase {
    v: Int,
    radix: u32,
    spec: u16,
    width: u16,
}

fn layout_case() -> impl Strategy<Value = LayoutCase> {
    let lens = Union::new_weighted(vec![(12, gen::len(Prof::Small)), (4, gen::len(Prof::Medium)), (1, gen::len(Prof::Large))]);
    (radix(), lens, 0u8..gen::N_PATTERNS, any::<u64>(), any::<bool>(), 0..N_SPECS as u16, any::<bool>(), 0u16..=40, 0u8..5, 0u16..10, 0u8..8).prop_map(
        |(radix, n, pat, seed, neg, spec, relative, wabs, wbase, wdelta, tiny)| {
            // a share of one-digit / few-digit values: width logic around 1
            let mag = match tiny {
                0 => Nat(vec![]),
                1 => Nat(vec![seed % 40]),
                _ => Nat(gen::expand(n, pat, seed)),
            };
            let width = if relative {
                // around the natural length in one of the five bases involved
                let b = [10, 2, 8, 16, radix][wbase as usize];
                let l = mag.big().to_str_radix(b).len() as u16;
                (l + wdelta).saturating_sub(2)
            } else {
                wabs
            };
            LayoutCase { v: Int { neg: neg && !mag.is_zero(), mag }, radix, spec, width }
        },
    )
}

fn layout(c: &LayoutCase, _ctx: &Ctx) -> Out {
    let mut out = Out::new();
    let names = spec_names();
    let spec = c.spec as usize % N_SPECS;
    let name = names[spec];
    let w = c.width as usize;
    let mag = c.v.mag.big();
    let neg = c.v.neg;
    let words = c.v.mag.trimmed_len();
    out.nontrivial(words >= 2);
    out.label(gen::repr_class(words));
    let has_width = name.contains("w$");
    let flags = name.trim_start_matches("{:").trim_end_matches('}').trim_end_matches("w$");
    // the flag part after an optional [fill]align
    let tail = flags.trim_start_matches(|ch| ch == ' ' || ch == '*').trim_start_matches("0<").trim_start_matches("0^").trim_start_matches("0>").trim_start_matches(['<', '^', '>']);
    out.label(if !has_width {
        "width: none"
    } else if tail.contains('0') {
        "width: sign-aware zero padding"
    } else if flags.contains('<') {
        "width: align left"
    } else if flags.contains('^') {
        "width: align center"
    } else if flags.contains('>') {
        "width: align right"
    } else {
        "width: default alignment"
    });
    if tail.contains('#') {
        out.label("flag #");
    }
    if tail.contains('+') {
        out.label("flag +");
    }
    if flags.starts_with('0') && flags.len() >= 2 && matches!(flags.as_bytes()[1], b'<' | b'^' | b'>') {
        out.label("fill character '0'");
    }
    let dec_len = mag.to_str_radix(10).len() + neg as usize;
    if has_width {
        out.label(if w > dec_len { "width > decimal length" } else { "width <= decimal length" });
    }

    let u = c.v.mag.ubig();
    let i = c.v.ibig();
    let ru = RefInt { neg: false, mag: mag.clone() };
    let ri = RefInt { neg, mag: mag.clone() };
    let prim = mag.to_u128();
    for tr in 0..5 {
        let want_u = render(&ru, tr, spec, w);
        let want_i = render(&ri, tr, spec, w);
        expect_str(&mut out, &format!("UBig {} {name} w={w}", TRAITS[tr]), catch(|| render(&u, tr, spec, w)), &want_u);
        expect_str(&mut out, &format!("IBig {} {name} w={w}", TRAITS[tr]), catch(|| render(&i, tr, spec, w)), &want_i);
        if let Some(p) = prim {
            // second reference: the primitive itself (also validates the pad_integral reference)
            let s = render(&p, tr, spec, w);
            if s != want_u {
                out.fail(format!("oracle self-check: pad_integral reference {} differs from u128 {} for {} {name} w={w}", clip(&want_u), clip(&s), TRAITS[tr]));
            }
            out.label("compared with u128 primitive");
        }
    }
    if let Some(p) = c.v.big().to_i128() {
        let s = render_display(&p, spec, w);
        expect_str(&mut out, &format!("IBig Display vs i128 {name} w={w}"), catch(|| render_display(&i, spec, w)), &s);
    }
    let r = c.radix;
    let rru = RefRadix { neg: false, mag: mag.clone(), radix: r };
    let rri = RefRadix { neg, mag: mag.clone(), radix: r };
    expect_str(&mut out, &format!("UBig in_radix({r}) {name} w={w}"), catch(|| render_display(&u.in_radix(r), spec, w)), &render_display(&rru, spec, w));
    expect_str(&mut out, &format!("IBig in_radix({r}) {name} w={w}"), catch(|| render_display(&i.in_radix(r), spec, w)), &render_display(&rri, spec, w));
    out
}

// ------------------------------------------------------------------------------------------------
// Debug: only what fmt/mod.rs documents
// ------------------------------------------------------------------------------------------------

#[derive(Debug, Clone, Hash, Serialize, Deserialize)]
struct DebugCase {
    v: Int,
}

fn debug_case(huge: bool, giant: bool) -> impl Strategy<Value = DebugCase> {
    (len_print(huge, giant), 0u8..gen::N_PATTERNS, any::<u64>(), any::<u8>(), any::<u16>(), 0u8..3, any::<bool>(), 1usize..1200).prop_map(move |(n, pat, seed, sel, ksel, delta, neg, k)| {
        // decimal power neighbours 10^k, 10^k ± 1 with arbitrary k: the elided form locates its
        // leading digits through a logarithm estimate
        let mag = if sel >= 200 {
            let p: BigUint = Pow::pow(BigUint::from(10u32), k);
            Nat::from_big(&match delta {
                0 => p,
                1 => p - BigUint::one(),
                _ => p + BigUint::one(),
            })
        } else {
            make_value(10, gen::expand(n, pat, seed), sel, ksel, seed, delta, huge)
        };
        DebugCase { v: Int { neg: neg && !mag.is_zero(), mag } }
    })
}

/// Assert what the module documentation of fmt/mod.rs promises for `Debug`: least and most
/// significant (decimal) digits shown, middle omitted only for large values; with `#` the digit
/// length and bit length are appended.
fn check_debug(out: &mut Out, what: &str, s: &str, neg: bool, dec: &str, bits: u64, words: usize, plus: bool, alt: bool) {
    let mut rest = s;
    if neg {
        match rest.strip_prefix('-') {
            Some(r) => rest = r,
            None => return out.fail(format!("{what}: negative value printed without '-': {}", clip(s))),
        }
    } else if let Some(r) = rest.strip_prefix('+') {
        if !plus {
            return out.fail(format!("{what}: '+' printed without the + flag: {}", clip(s)));
        }
        rest = r;
    }
    let body = if alt {
        // "<body> (digits: N, bits: M)"
        let parsed = rest.strip_suffix(')').and_then(|t| t.rsplit_once(" (digits: ")).and_then(|(b, t)| t.split_once(", bits: ").map(|(n, m)| (b, n, m)));
        match parsed {
            Some((b, n, m)) => {
                let n_ok = match n.parse::<usize>() {
                    Ok(n) => n == dec.len() || (dec == "0" && n == 0),
                    Err(_) => false,
                };
                if !n_ok {
                    out.fail(format!("{what}: digit count {n} shown, value has {} decimal digits", dec.len()));
                }
                if m.parse::<u64>().ok() != Some(bits) {
                    out.fail(format!("{what}: bit count {m} shown, value has {bits} bits"));
                }
                b
            }
            None => return out.fail(format!("{what}: alternate form lacks the ' (digits: N, bits: M)' part: {}", clip(s))),
        }
    } else {
        rest
    };
    match body.split_once("..") {
        None => {
            if body != dec {
                out.fail(format!("{what}: printed {} but the decimal digits are {}", clip(body), clip(dec)));
            }
        }
        Some((h, l)) => {
            let digits = |t: &str| !t.is_empty() && t.bytes().all(|b| b.is_ascii_digit());
            if words <= 1 {
                out.fail(format!("{what}: one-word value printed in elided form {}", clip(body)));
            } else if !digits(h) || !digits(l) {
                out.fail(format!("{what}: elided form is not <digits>..<digits>: {}", clip(body)));
            } else if !dec.starts_with(h) {
                out.fail(format!("{what}: leading digits {h} shown, true leading digits {}", &dec[..h.len().min(dec.len())]));
            } else if !dec.ends_with(l) {
                out.fail(format!("{what}: trailing digits {l} shown, true trailing digits {}", &dec[dec.len().saturating_sub(l.len())..]));
            } else if h.len() + l.len() > dec.len() {
                out.fail(format!("{what}: shown digit runs overlap ({} + {} of {} digits)", h.len(), l.len(), dec.len()));
            }
        }
    }
}

fn debug(c: &DebugCase, _ctx: &Ctx) -> Out {
    let mut out = Out::new();
    let words = c.v.mag.trimmed_len();
    let mag = c.v.mag.big();
    let dec = mag.to_str_radix(10);
    let bits = mag.bits();
    let neg = c.v.neg;
    out.nontrivial(words >= 2);
    out.label(match words {
        0..=2 => "debug: inline value (printed in full)",
        _ => "debug: large value (elided form)",
    });
    if words > 2 {
        let t = dec.trim_end_matches('0');
        if t == "1" || dec.bytes().all(|b| b == b'9') || (dec.starts_with('1') && dec.ends_with('1') && dec[1..dec.len() - 1].bytes().all(|b| b == b'0')) {
            out.label("debug: neighbour of a power of ten");
        }
    }
    let u = c.v.mag.ubig();
    let i = c.v.ibig();
    macro_rules! dbg_one {
        ($fmt:literal, $plus:expr, $alt:expr, $trim:expr) => {{
            match catch(|| format!($fmt, u)) {
                Ok(s) => check_debug(&mut out, concat!("UBig ", $fmt), if $trim { s.trim_matches(|ch| ch == ' ' || ch == '*') } else { &s }, false, &dec, bits, words, $plus, $alt),
                Err(m) => out.fail(format!("{}: unexpected panic {}", concat!("UBig ", $fmt), normalise(&m))),
            }
            match catch(|| format!($fmt, i)) {
                Ok(s) => check_debug(&mut out, concat!("IBig ", $fmt), if $trim { s.trim_matches(|ch| ch == ' ' || ch == '*') } else { &s }, neg, &dec, bits, words, $plus, $alt),
                Err(m) => out.fail(format!("{}: unexpected panic {}", concat!("IBig ", $fmt), normalise(&m))),
            }
        }};
    }
    dbg_one!("{:?}", false, false, false);
    dbg_one!("{:#?}", false, true, false);
    dbg_one!("{:+?}", true, false, false);
    dbg_one!("{:+#?}", true, true, false);
    // width / fill / alignment are documented as not supported by Debug: whatever padding is or
    // is not produced, the content rules still hold
    dbg_one!("{:*>60?}", false, false, true);
    dbg_one!("{:<#70?}", false, true, true);
    out
}

// ------------------------------------------------------------------------------------------------
// parsing
// ------------------------------------------------------------------------------------------------

use dv::ptext::{decode_parse_case, radix_ok, ref_parse, ParseCase, Want, ENTRY};

type Parsed = Result<Result<(BigInt, u32), ParseError>, String>;

fn call_u(c: &ParseCase, implied: u32) -> Parsed {
    let t = c.text.as_str();
    catch(|| match c.entry {
        0 => UBig::from_str(t).map(|v| (BigInt::from(u2n(&v)), implied)),
        1 => UBig::from_str_radix(t, c.radix).map(|v| (BigInt::from(u2n(&v)), implied)),
        2 => UBig::from_str_with_radix_prefix(t).map(|(v, r)| (BigInt::from(u2n(&v)), r)),
        _ => UBig::from_str_with_radix_default(t, c.radix).map(|(v, r)| (BigInt::from(u2n(&v)), r)),
    })
}
fn call_i(c: &ParseCase, implied: u32) -> Result<Result<(BigInt, u32, bool), ParseError>, String> {
    let t = c.text.as_str();
    let nz = |v: &IBig| {
        let (s, w) = v.as_sign_words();
        w.is_empty() && s == Sign::Negative
    };
    catch(|| match c.entry {
        0 => IBig::from_str(t).map(|v| (i2n(&v), implied, nz(&v))),
        1 => IBig::from_str_radix(t, c.radix).map(|v| (i2n(&v), implied, nz(&v))),
        2 => IBig::from_str_with_radix_prefix(t).map(|(v, r)| (i2n(&v), r, nz(&v))),
        _ => IBig::from_str_with_radix_default(t, c.radix).map(|(v, r)| (i2n(&v), r, nz(&v))),
    })
}

fn judge(out: &mut Out, ctx: &Ctx, what: &str, c: &ParseCase, got: Parsed, want: &Want) {
    let text = clip(&c.text);
    match (want, got) {
        (Want::BadDefault, Err(m)) if m.contains("is_radix_valid") => {
            // sibling `from_str_radix` answers Err(UnsupportedRadix); here the unchecked radix
            // reaches an internal debug assertion
            ctx.known_or_fail(out, "C07/radix-default-invalid-radix-panics", || format!("{what}({text}, {}) panicked: {}", c.radix, normalise(&m)));
        }
        (_, Err(m)) => out.fail(format!("{what}({text}, radix {}) panicked: {}", c.radix, normalise(&m))),
        (Want::Val(v, r), Ok(Ok((g, gr)))) => {
            if &g != v || gr != *r {
                out.fail(format!("{what}({text}, radix {}): got ({}, radix {gr}) want ({}, radix {r})", c.radix, show_i(&g), show_i(v)));
            }
        }
        // an invalid default radix that is not needed because the text carries a prefix: the rustdoc
        // does not say whether the argument is validated up front
        (Want::Val(..), Ok(Err(ParseError::UnsupportedRadix))) if c.entry == 3 && !radix_ok(c.radix) => {}
        (Want::Val(v, _), Ok(Err(e))) => out.fail(format!("{what}({text}, radix {}): valid text rejected with {e:?}, want {}", c.radix, show_i(v))),
        (Want::NoDigits, Ok(Err(e))) => {
            if e != ParseError::NoDigits {
                out.fail(format!("{what}({text}, radix {}): no digits after sign/prefix, error is {e:?} instead of NoDigits", c.radix));
            }
        }
        (Want::Invalid, Ok(Err(_))) | (Want::UnderscoreOnly(_), Ok(Err(_))) | (Want::BadDefault, Ok(Err(_))) => {}
        (Want::BadRadix, Ok(Err(e))) => {
            // only the radix is wrong if the text is fine in radix 36
            let only_radix = matches!(ref_parse(&c.text, 1, 36, what.starts_with("IBig")), Want::Val(..));
            if only_radix && e != ParseError::UnsupportedRadix {
                out.fail(format!("{what}({text}, radix {}): error is {e:?} instead of UnsupportedRadix", c.radix));
            }
        }
        (Want::UnderscoreOnly(r), Ok(Ok((g, gr)))) => {
            if g.is_zero() && gr == *r {
                // ParseError::NoDigits is documented as "No digits in the string"; underscores are
                // only described as digit separators
                ctx.known_or_fail(out, "C07/parse-underscore-only-is-zero", || format!("{what}({text}, radix {}) = Ok(0) although the text contains no digit", c.radix));
            } else {
                out.fail(format!("{what}({text}, radix {}): text without digits accepted as ({}, radix {gr})", c.radix, show_i(&g)));
            }
        }
        (Want::NoDigits | Want::Invalid | Want::BadRadix | Want::BadDefault, Ok(Ok((g, gr)))) => {
            out.fail(format!("{what}({text}, radix {}): malformed input ({want:?}) accepted as ({}, radix {gr})", c.radix, show_i(&g)));
        }
    }
}

fn parse_oracle(c: &ParseCase, ctx: &Ctx) -> Out {
    let mut out = Out::new();
    out.label(match c.entry {
        0 => "entry: FromStr",
        1 => "entry: from_str_radix",
        2 => "entry: from_str_with_radix_prefix",
        _ => "entry: from_str_with_radix_default",
    });
    let wu = ref_parse(&c.text, c.entry, c.radix, false);
    let wi = ref_parse(&c.text, c.entry, c.radix, true);
    let implied = if c.entry == 0 { 10 } else { c.radix };
    // classes by the parser's own thresholds (digit count after sign, prefix, leading zeros, underscores)
    if let Want::Val(v, r) = &wi {
        let words = v.magnitude().to_u64_digits().len();
        out.nontrivial(words >= 2);
        let body = c.text.trim_start_matches(['+', '-']);
        let body = if c.entry >= 2 { body.strip_prefix("0b").or(body.strip_prefix("0o")).or(body.strip_prefix("0x")).unwrap_or(body) } else { body };
        let body = body.trim_start_matches('0');
        let n = body.chars().filter(|ch| *ch != '_').count();
        let d = dpw(*r);
        out.label(if r.is_power_of_two() {
            if body.len() <= d {
                "parse p2: word"
            } else if 64 % r.trailing_zeros() != 0 {
                "parse p2: large, digits straddle word boundaries"
            } else {
                "parse p2: large, word-aligned digits"
            }
        } else if n <= d {
            "parse np2: word"
        } else if n <= PARSE_CHUNK * d {
            "parse np2: chunk (<= 256·dpw digits)"
        } else if n <= 2 * PARSE_CHUNK * d {
            "parse np2: divide and conquer, 1 level"
        } else if n <= 4 * PARSE_CHUNK * d {
            "parse np2: divide and conquer, 2 levels"
        } else {
            "parse np2: divide and conquer, >=3 levels"
        });
        if n == d || n == d + 1 {
            out.label("digits = dpw or dpw+1");
        }
        if n == PARSE_CHUNK * d || n == PARSE_CHUNK * d + 1 {
            out.label("digits = 256·dpw or +1");
        }
        if c.text.contains('_') {
            out.label("valid text with underscores");
        }
        if body.len() < c.text.trim_start_matches(['+', '-']).len() && c.text.contains("00") {
            out.label("valid text with leading zeros");
        }
        if v.is_negative() {
            out.label("valid text, negative");
        }
        if c.entry >= 2 && *r != implied {
            out.label("radix taken from prefix");
            // "0b1" is also a radix-36 numeral: the documented rule is that a prefix wins
            if matches!(ref_parse(&c.text, 1, implied, true), Want::Val(..)) {
                out.label("prefix wins over a reading in the default radix");
            }
        }
    }
    for w in [&wu, &wi] {
        match w {
            Want::Val(..) => {}
            Want::NoDigits => {
                out.label("reject: no digits");
                out.nontrivial(!c.text.is_empty());
            }
            Want::Invalid => {
                out.label(if c.text.is_ascii() { "reject: invalid ascii character" } else { "reject: non-ascii character" });
                out.nontrivial(true);
            }
            Want::BadRadix => {
                out.label("reject: unsupported radix");
                out.nontrivial(true);
            }
            Want::UnderscoreOnly(_) => {
                out.label("underscores only");
                out.nontrivial(true);
            }
            Want::BadDefault => {
                out.label("invalid default radix, no prefix");
                out.nontrivial(true);
            }
        }
    }
    if matches!(wi, Want::Val(..)) && !matches!(wu, Want::Val(..)) {
        out.label("valid for IBig only (minus sign)");
    }
    judge(&mut out, ctx, &format!("UBig::{}", ENTRY[c.entry as usize]), c, call_u(c, implied), &wu);
    let gi = call_i(c, implied);
    if let Ok(Ok((_, _, true))) = gi {
        out.fail(format!("IBig::{}({}) returned a negative zero", ENTRY[c.entry as usize], clip(&c.text)));
    }
    judge(&mut out, ctx, &format!("IBig::{}", ENTRY[c.entry as usize]), c, gi.map(|r| r.map(|(v, r, _)| (v, r))), &wi);
    out
}

fn digit_char(d: u32, upper: bool) -> char {
    if d < 10 {
        (b'0' + d as u8) as char
    } else if upper {
        (b'A' + (d - 10) as u8) as char
    } else {
        (b'a' + (d - 10) as u8) as char
    }
}

#[derive(Debug, Clone)]
struct Recipe {
    entry: u8,
    radix: u32,
    nsel: u16,
    /// 0: up to 16·dpw digits, 1: around 256·dpw .. 1024·dpw digits, 2: 2048·dpw and 4096·dpw digits
    big: u8,
    pattern: u8,
    seed: u64,
    sign: u8,
    prefix: u8,
    lcase: u8,
    us: u8,
}

/// grammar-directed text: `[+-]? (0b|0o|0x)? [digits _]+`
fn build(rc: &Recipe) -> ParseCase {
    let mut rng = SplitMix(rc.seed);
    let prefix = if rc.entry >= 2 { rc.prefix } else { 0 };
    let drx = match (rc.entry, prefix) {
        (_, 2) => 2,
        (_, 3) => 8,
        (_, 4) => 16,
        (0, _) | (2, _) => 10,
        _ => rc.radix,
    };
    let d = dpw(drx);
    let n = if rc.big == 2 {
        gen::pick(&[8 * PARSE_CHUNK * d + 1, 16 * PARSE_CHUNK * d + 3], rc.nsel)
    } else if rc.big == 1 {
        gen::pick(&[PARSE_CHUNK * d - 1, PARSE_CHUNK * d, PARSE_CHUNK * d + 1, 2 * PARSE_CHUNK * d, 2 * PARSE_CHUNK * d + 1, 3 * PARSE_CHUNK * d + 5, 4 * PARSE_CHUNK * d + 1], rc.nsel)
    } else {
        gen::pick(
            &[1, 2, 3, 4 + (rc.seed % 5) as usize, (d - 1).max(1), d, d + 1, 2 * d, 2 * d + 1, 9 + (rc.seed % 112) as usize, 3 * d + (rc.seed % 50) as usize, 16 * d + 1],
            rc.nsel,
        )
    };
    let mut digits: Vec<u32> = (0..n).map(|_| rng.below(drx as u64) as u32).collect();
    match rc.pattern {
        0 => {}
        1 => digits.iter_mut().for_each(|x| *x = drx - 1),
        2 => {
            digits.iter_mut().for_each(|x| *x = 0);
            digits[0] = 1;
        }
        3 => {
            let z = rng.below(n as u64) as usize;
            digits[..z].iter_mut().for_each(|x| *x = 0);
        }
        4 => digits.iter_mut().for_each(|x| *x = 0),
        5 => digits[0] = drx - 1,
        _ => digits.iter_mut().enumerate().for_each(|(i, x)| *x = if i % 2 == 0 { drx - 1 } else { 0 }),
    }
    if !matches!(rc.pattern, 3 | 4) && digits[0] == 0 {
        digits[0] = 1;
    }
    let mut body: Vec<char> = digits
        .iter()
        .map(|&x| {
            let upper = match rc.lcase {
                0 => false,
                1 => true,
                _ => rng.next() & 1 == 1,
            };
            digit_char(x, upper)
        })
        .collect();
    match rc.us {
        0 | 1 => {}
        2 => {
            for _ in 0..(1 + n / 16).min(40) {
                let p = rng.below(body.len() as u64 + 1) as usize;
                body.insert(p, '_');
            }
        }
        3 => {
            let mut v = Vec::new();
            for (i, ch) in body.iter().enumerate() {
                if i > 0 && (body.len() - i) % 3 == 0 {
                    v.push('_');
                }
                v.push(*ch);
            }
            body = v;
        }
        4 => body.insert(0, '_'),
        5 => body.push('_'),
        6 => {
            let p = body.len() / 2;
            body.insert(p, '_');
            body.insert(p, '_');
        }
        _ => {
            if n <= 400 {
                body = body.iter().flat_map(|c| [*c, '_']).collect();
            }
        }
    }
    let mut text = String::new();
    match rc.sign {
        2 => text.push('+'),
        3 => text.push('-'),
        _ => {}
    }
    text.push_str(["", "", "0b", "0o", "0x"][prefix as usize]);
    text.extend(body);
    ParseCase { text, radix: rc.radix, entry: rc.entry }
}

fn recipe(big: u8) -> impl Strategy<Value = Recipe> {
    (0u8..4, radix(), any::<u16>(), 0u8..7, any::<u64>(), 0u8..4, 0u8..5, 0u8..3, 0u8..8).prop_map(move |(entry, radix, nsel, pattern, seed, sign, prefix, lcase, us)| Recipe { entry, radix, nsel, big, pattern, seed, sign, prefix, lcase, us })
}

fn valid_case(big: u8) -> impl Strategy<Value = ParseCase> {
    recipe(big).prop_map(|rc| build(&rc))
}

const MUT_CHARS: [char; 40] = [
    '_', '-', '+', ' ', '.', ',', '/', ':', '@', '[', '`', '{', '~', 'g', 'G', 'z', 'Z', '9', 'a', '8', '0', 'x', 'X', 'b', 'B', 'o', 'O', '\t', '\n', '\0', 'é', '٣', '０', '𝟙', 'ß', '\u{feff}', '²', '١', 'Ａ', '\u{7f}',
];

/// one edit of a valid text: insert / replace / delete / duplicate / swap, at positions that
/// include the sign, the prefix, the group boundary dpw digits from the end, and the end
fn mutate(base: &ParseCase, kind: u8, psel: u16, csel: u16, seed: u64) -> ParseCase {
    let mut cs: Vec<char> = base.text.chars().collect();
    let n = cs.len();
    let d = dpw(if radix_ok(base.radix) { base.radix } else { 10 });
    let cands = [0, 1, 2, 3, n / 2, n.saturating_sub(d), n.saturating_sub(d + 1), n.saturating_sub(1), n, (seed % (n as u64 + 1)) as usize];
    let p = gen::pick(&cands, psel).min(n);
    // the first character that is not a digit of the radix, in both cases, joins the alphabet
    let c = match csel % 44 {
        40 | 41 if base.radix < 36 => digit_char(base.radix, csel % 44 == 41),
        42 if base.radix > 2 => digit_char(base.radix - 1, false),
        43 => '_',
        k => MUT_CHARS[(k % 40) as usize],
    };
    match kind % 5 {
        0 => cs.insert(p, c),
        1 => {
            if n > 0 {
                cs[p.min(n - 1)] = c
            } else {
                cs.push(c)
            }
        }
        2 => {
            if n > 0 {
                cs.remove(p.min(n - 1));
            }
        }
        3 => {
            if n > 0 {
                let ch = cs[p.min(n - 1)];
                cs.insert(p.min(n - 1), ch);
            }
        }
        _ => {
            if n > 1 {
                let q = p.min(n - 2);
                cs.swap(q, q + 1);
            }
        }
    }
    ParseCase { text: cs.into_iter().collect(), radix: base.radix, entry: base.entry }
}

const NEAR: [char; 27] = ['0', '1', '_', '+', '-', 'x', 'b', 'o', '7', '9', 'a', 'f', 'z', 'A', 'F', 'Z', 'X', 'B', 'O', ' ', '.', '2', '8', 'g', 'e', '\u{660}', 'é'];

fn invalid_case() -> impl Strategy<Value = ParseCase> {
    let big = prop_oneof![100 => Just(0u8), 1 => Just(1u8)];
    let mutated = (big.prop_flat_map(recipe), 0u8..5, any::<u16>(), any::<u16>(), any::<u64>()).prop_map(|(rc, kind, psel, csel, seed)| mutate(&build(&rc), kind, psel, csel, seed));
    // short strings over an alphabet close to the grammar: "", "+", "-", "_", "0x", "-0b_", "+-1", ...
    let near = (proptest::collection::vec(0usize..NEAR.len(), 0..9), 0u8..4, radix()).prop_map(|(ix, entry, radix)| ParseCase { text: ix.into_iter().map(|i| NEAR[i]).collect(), radix, entry });
    // arbitrary Unicode, alone or attached to a valid digit run
    let uni = (proptest::collection::vec(any::<char>(), 0..6), 0u8..4, radix(), 0u8..4, any::<u64>()).prop_map(|(cs, entry, radix, place, seed)| {
        let s: String = cs.into_iter().collect();
        let digits: String = (0..(seed % 30)).map(|k| digit_char(((seed >> k) % radix as u64) as u32, false)).collect();
        let text = match place {
            0 => s,
            1 => format!("{digits}{s}"),
            2 => format!("{s}{digits}"),
            _ => format!("{digits}{s}{digits}"),
        };
        ParseCase { text, radix, entry }
    });
    // one character of a valid digit run replaced by an ASCII neighbour: a single flipped bit
    // (case folding with `| 0x20` / `^ 0x20` turns '0'..'9' into control characters), or any of the
    // 128 ASCII characters
    let ascii = (0u8..4, radix(), any::<u64>(), any::<u16>(), 0u8..9, any::<u8>()).prop_map(|(entry, radix, seed, pos, bit, raw)| {
        let n = 1 + (seed % 24) as usize;
        let mut chars: Vec<char> = (0..n).map(|k| digit_char(((seed >> (k % 50)) % radix as u64) as u32, (seed >> 60) & 1 == 1)).collect();
        let i = pos as usize % n;
        let c = chars[i] as u8;
        let repl = if bit < 7 { c ^ (1 << bit) } else { raw & 0x7f };
        chars[i] = repl as char;
        ParseCase { text: chars.into_iter().collect(), radix, entry }
    });
    prop_oneof![5 => mutated, 4 => near, 2 => uni, 3 => ascii]
}

// ------------------------------------------------------------------------------------------------
// invalid radix arguments
// ------------------------------------------------------------------------------------------------

#[derive(Debug, Clone, Hash, Serialize, Deserialize)]
struct BadRadixCase {
    v: Int,
    text: String,
    radix: u32,
}

fn bad_radix(c: &BadRadixCase, ctx: &Ctx) -> Out {
    let mut out = Out::new();
    out.nontrivial(true);
    out.label(match c.radix {
        0 => "radix 0",
        1 => "radix 1",
        37 => "radix 37",
        _ => "radix > 37",
    });
    let (u, i) = (c.v.mag.ubig(), c.v.ibig());
    // documented: "Panics if `radix` is not between 2 and 36 inclusive."
    for (what, r) in [("UBig::in_radix", catch(|| u.in_radix(c.radix).to_string())), ("IBig::in_radix", catch(|| i.in_radix(c.radix).to_string()))] {
        match r {
            Ok(s) => out.fail(format!("{what}({}) must panic, returned {}", c.radix, clip(&s))),
            Err(m) => {
                if !m.contains("radix") {
                    out.fail(format!("{what}({}) panicked, but not about the radix: {}", c.radix, normalise(&m)));
                }
            }
        }
    }
    for entry in [1u8, 3] {
        let pc = ParseCase { text: c.text.clone(), radix: c.radix, entry };
        let sub = parse_oracle(&pc, ctx);
        match sub.verdict {
            Verdict::Pass => {}
            Verdict::Known(id) => ctx.known_or_fail(&mut out, &id, || "unreachable".into()),
            Verdict::Violation(s) => out.fail(s),
            Verdict::Inconclusive(s) => out.inconclusive(s),
        }
        for l in sub.labels {
            out.label(l);
        }
    }
    out
}

// ------------------------------------------------------------------------------------------------
// print -> parse round trip
// ------------------------------------------------------------------------------------------------

fn roundtrip(c: &PrintCase, _ctx: &Ctx) -> Out {
    let mut out = Out::new();
    let r = c.radix;
    let words = c.v.mag.trimmed_len();
    out.nontrivial(words >= 2);
    out.label(gen::repr_class(words));
    out.label(if r.is_power_of_two() { "round trip: power-of-two radix" } else { "round trip: other radix" });
    let (u, i) = (c.v.mag.ubig(), c.v.ibig());
    let (nu, ni) = (c.v.mag.big(), c.v.big());
    macro_rules! rt {
        ($what:expr, $print:expr, $parse:expr, $eq:ident, $want:expr) => {{
            match catch(|| $print) {
                Err(m) => out.fail(format!("{}: printing panicked: {}", $what, normalise(&m))),
                Ok(s) => match catch(|| $parse(&s)) {
                    Err(m) => out.fail(format!("{}: parsing {} panicked: {}", $what, clip(&s), normalise(&m))),
                    Ok(Err(e)) => out.fail(format!("{}: own output {} rejected with {e:?}", $what, clip(&s))),
                    Ok(Ok(v)) => $eq(&mut out, $what, Ok(v), $want),
                },
            }
        }};
    }
    rt!(&format!("UBig radix {r} lower"), format!("{}", u.in_radix(r)), |s: &String| UBig::from_str_radix(s, r), eq_u, &nu);
    rt!(&format!("UBig radix {r} upper"), format!("{:#}", u.in_radix(r)), |s: &String| UBig::from_str_radix(s, r), eq_u, &nu);
    rt!(&format!("IBig radix {r} lower"), format!("{}", i.in_radix(r)), |s: &String| IBig::from_str_radix(s, r), eq_i, &ni);
    rt!(&format!("IBig radix {r} upper, explicit +"), format!("{:+#}", i.in_radix(r)), |s: &String| IBig::from_str_radix(s, r), eq_i, &ni);
    // the default radix only matters when there is no prefix: it is `r` here and the text is in radix r
    rt!(&format!("IBig radix {r} via from_str_with_radix_default"), format!("{}", u.in_radix(r)), |s: &String| UBig::from_str_with_radix_default(s, r).map(|(v, _)| v), eq_u, &nu);
    match r {
        10 => {
            rt!("UBig Display/FromStr", u.to_string(), |s: &String| s.parse::<UBig>(), eq_u, &nu);
            rt!("IBig Display/FromStr", i.to_string(), |s: &String| s.parse::<IBig>(), eq_i, &ni);
            rt!("IBig Display/from_str_with_radix_prefix", format!("{i:+}"), |s: &String| IBig::from_str_with_radix_prefix(s).and_then(|(v, rr)| if rr == 10 { Ok(v) } else { Err(ParseError::InconsistentRadix) }), eq_i, &ni);
        }
        2 => {
            rt!("UBig {:#b}/prefix", format!("{u:#b}"), |s: &String| UBig::from_str_with_radix_prefix(s).and_then(|(v, rr)| if rr == 2 { Ok(v) } else { Err(ParseError::InconsistentRadix) }), eq_u, &nu);
            rt!("IBig {:#b}/prefix", format!("{i:#b}"), |s: &String| IBig::from_str_with_radix_prefix(s).and_then(|(v, rr)| if rr == 2 { Ok(v) } else { Err(ParseError::InconsistentRadix) }), eq_i, &ni);
        }
        8 => {
            rt!("UBig {:#o}/prefix", format!("{u:#o}"), |s: &String| UBig::from_str_with_radix_prefix(s).and_then(|(v, rr)| if rr == 8 { Ok(v) } else { Err(ParseError::InconsistentRadix) }), eq_u, &nu);
            rt!("IBig {:+#o}/prefix", format!("{i:+#o}"), |s: &String| IBig::from_str_with_radix_prefix(s).and_then(|(v, rr)| if rr == 8 { Ok(v) } else { Err(ParseError::InconsistentRadix) }), eq_i, &ni);
        }
        16 => {
            rt!("UBig {:#x}/prefix", format!("{u:#x}"), |s: &String| UBig::from_str_with_radix_prefix(s).and_then(|(v, rr)| if rr == 16 { Ok(v) } else { Err(ParseError::InconsistentRadix) }), eq_u, &nu);
            rt!("IBig {:#X}/prefix", format!("{i:#X}"), |s: &String| IBig::from_str_with_radix_default(s, 7).and_then(|(v, rr)| if rr == 16 { Ok(v) } else { Err(ParseError::InconsistentRadix) }), eq_i, &ni);
        }
        _ => {}
    }
    out
}

// ------------------------------------------------------------------------------------------------
// bytes
// ------------------------------------------------------------------------------------------------

/// reference two's complement decoder (little endian); empty = 0
fn twos_le(b: &[u8]) -> BigInt {
    if b.is_empty() {
        return BigInt::zero();
    }
    let u = BigInt::from(BigUint::from_bytes_le(b));
    let v = if b[b.len() - 1] & 0x80 != 0 { u - (BigInt::one() << (8 * b.len())) } else { u };
    // cross-check of the oracle itself
    assert_eq!(v, BigInt::from_signed_bytes_le(b), "reference decoders disagree");
    v
}
fn rev(b: &[u8]) -> Vec<u8> {
    b.iter().rev().copied().collect()
}

/// −2^(8j) with a magnitude of three or more words: `to_signed_{le,be}_bytes` takes the byte length
/// from |x|−1, which is one byte shorter than |x| exactly for these values
fn is_neg_pow256_large(v: &BigInt) -> bool {
    let m = v.magnitude();
    v.is_negative() && m.bits() > 128 && m.count_ones() == 1 && m.trailing_zeros().unwrap_or(1) % 8 == 0
}

/// encode an IBig both ways, decode with the reference
fn check_ibig_encode(out: &mut Out, ctx: &Ctx, x: &IBig, v: &BigInt) {
    for (what, be) in [("IBig::to_le_bytes", false), ("IBig::to_be_bytes", true)] {
        match catch(|| if be { x.to_be_bytes() } else { x.to_le_bytes() }) {
            Err(m) => out.fail(format!("{what}: unexpected panic {}", normalise(&m))),
            Ok(b) => {
                let le = if be { rev(&b) } else { b.to_vec() };
                let dec = twos_le(&le);
                if &dec != v {
                    if is_neg_pow256_large(v) && le.iter().all(|x| *x == 0) && le.len() as u64 * 8 == v.magnitude().bits() - 1 {
                        out.label("bytes: −2^(8j), >= 3 words");
                        ctx.known_or_fail(out, "C07/ibig-to-bytes-neg-pow256-loses-sign", || format!("{what}({}) = {} zero bytes, which decode to 0", show_i(v), le.len()));
                    } else {
                        out.fail(format!("{what}({}) = {:02x?} ({} bytes) decodes to {}", show_i(v), &b[..b.len().min(40)], b.len(), show_i(&dec)));
                    }
                } else {
                    if v.is_zero() && !b.is_empty() {
                        out.fail(format!("{what}(0) is documented to be empty, got {} bytes", b.len()));
                    }
                    // decoding one's own output
                    let back = catch(|| if be { IBig::from_be_bytes(&b) } else { IBig::from_le_bytes(&b) });
                    eq_i(out, &format!("{}({what}(v))", if be { "IBig::from_be_bytes" } else { "IBig::from_le_bytes" }), back, v);
                }
            }
        }
    }
}

fn bytes_value(c: &Int, ctx: &Ctx) -> Out {
    let mut out = Out::new();
    let words = c.mag.trimmed_len();
    out.nontrivial(words >= 2);
    out.label(gen::repr_class(words));
    let (u, i) = (c.mag.ubig(), c.ibig());
    let (nu, ni) = (c.mag.big(), c.big());
    let bits = nu.bits();
    out.label(match bits % 8 {
        0 => "bytes: magnitude fills its top byte (sign byte needed)",
        1 => "bytes: top byte of magnitude is 0x01",
        _ => "bytes: other top byte",
    });
    if nu.count_ones() == 1 {
        out.label("bytes: power of two");
    }
    out.label(if c.neg { "bytes: negative" } else { "bytes: non-negative" });
    for (what, be) in [("UBig::to_le_bytes", false), ("UBig::to_be_bytes", true)] {
        match catch(|| if be { u.to_be_bytes() } else { u.to_le_bytes() }) {
            Err(m) => out.fail(format!("{what}: unexpected panic {}", normalise(&m))),
            Ok(b) => {
                let dec = if be { BigUint::from_bytes_be(&b) } else { BigUint::from_bytes_le(&b) };
                if dec != nu {
                    out.fail(format!("{what}({}) = {:02x?} ({} bytes) decodes to {}", show_u(&nu), &b[..b.len().min(40)], b.len(), show_u(&dec)));
                }
                if nu.is_zero() && !b.is_empty() {
                    out.fail(format!("{what}(0) is documented to be empty, got {} bytes", b.len()));
                }
                let back = catch(|| if be { UBig::from_be_bytes(&b) } else { UBig::from_le_bytes(&b) });
                eq_u(&mut out, &format!("{}({what}(v))", if be { "UBig::from_be_bytes" } else { "UBig::from_le_bytes" }), back, &nu);
            }
        }
    }
    check_ibig_encode(&mut out, ctx, &i, &ni);
    out
}

fn bytes_value_case() -> impl Strategy<Value = Int> {
    let boundary = (0u32..48, 0u32..400, any::<u8>(), 0u8..4, 0u8..3, any::<bool>()).prop_map(|(j, jbig, sel, e, d, neg)| {
        // ±(2^(8j + e) + d), e ∈ {0, 7, 1, 4}, d ∈ {0, −1, +1}
        let j = if sel < 24 { jbig } else { j };
        let bit = 8 * j + [0, 7, 1, 4][e as usize];
        let p = BigUint::one() << bit;
        let m = match d {
            0 => p,
            1 => p - BigUint::one(),
            _ => p + BigUint::one(),
        };
        let mag = Nat::from_big(&m);
        Int { neg: neg && !mag.is_zero(), mag }
    });
    prop_oneof![3 => gen::int(Prof::Small), 2 => gen::int(Prof::Large), 4 => boundary]
}

#[derive(Debug, Clone, Hash, Serialize, Deserialize)]
struct RawBytes {
    b: Vec<u8>,
}

fn raw_bytes_case() -> impl Strategy<Value = RawBytes> {
    let lens = prop_oneof![
        10 => any::<u16>().prop_map(|i| gen::pick(&[0usize, 1, 2, 7, 8, 9, 15, 16, 17, 18, 23, 24, 25, 31, 32, 33], i)),
        6 => 0usize..80,
        1 => 80usize..700,
    ];
    (lens, 0u8..10, any::<u64>()).prop_map(|(n, pat, seed)| {
        let mut r = SplitMix(seed);
        let mut b: Vec<u8> = (0..n).map(|_| r.next() as u8).collect();
        if n > 0 {
            match pat {
                0 | 1 => {}
                2 => b.iter_mut().for_each(|x| *x = 0),
                3 => b.iter_mut().for_each(|x| *x = 0xff),
                4 => b[n - 1] = [0x00, 0x7f, 0x80, 0xff, 0x01][(seed % 5) as usize],
                5 => {
                    // −2^(8(n−1)): zeros below a top byte 0xff
                    b.iter_mut().for_each(|x| *x = 0);
                    b[n - 1] = 0xff;
                }
                6 => {
                    b.iter_mut().for_each(|x| *x = 0);
                    b[n - 1] = 0x80;
                }
                7 => {
                    b.iter_mut().for_each(|x| *x = 0xff);
                    b[0] = 0;
                }
                _ => {
                    // non-minimal: the top k bytes are sign extension only
                    let k = 1 + (seed as usize >> 8) % n;
                    let ext = if pat == 8 { 0x00 } else { 0xff };
                    b[n - k..].iter_mut().for_each(|x| *x = ext);
                }
            }
        }
        RawBytes { b }
    })
}

fn bytes_raw(c: &RawBytes, ctx: &Ctx) -> Out {
    let mut out = Out::new();
    let b = &c.b;
    out.nontrivial(b.len() > 8);
    out.label(match b.len() {
        0 => "raw bytes: empty",
        1..=8 => "raw bytes: <= 1 word",
        9..=16 => "raw bytes: <= 2 words (inline fast path)",
        _ => "raw bytes: large path",
    });
    if b.len() % 8 != 0 {
        out.label("raw bytes: partial top word");
    }
    let top = b.last().copied().unwrap_or(0);
    out.label(if top >= 0x80 { "raw bytes: top bit set (negative for IBig)" } else { "raw bytes: top bit clear" });
    let r = rev(b);
    let nu = BigUint::from_bytes_le(b);
    let ni = twos_le(b);
    assert_eq!(ni, BigInt::from_signed_bytes_be(&r));
    eq_u(&mut out, "UBig::from_le_bytes", catch(|| UBig::from_le_bytes(b)), &nu);
    eq_u(&mut out, "UBig::from_be_bytes", catch(|| UBig::from_be_bytes(&r)), &nu);
    let xl = catch(|| IBig::from_le_bytes(b));
    let xb = catch(|| IBig::from_be_bytes(&r));
    eq_i(&mut out, "IBig::from_le_bytes", xl.clone(), &ni);
    eq_i(&mut out, "IBig::from_be_bytes", xb, &ni);
    // re-encode what was decoded
    if let Ok(x) = xl {
        if i2n(&x) == ni {
            check_ibig_encode(&mut out, ctx, &x, &ni);
        }
    }
    out
}

// ------------------------------------------------------------------------------------------------
// chunks
// ------------------------------------------------------------------------------------------------

#[derive(Debug, Clone, Hash, Serialize, Deserialize)]
struct ChunkCase {
    v: Nat,
    k: usize,
}
#[derive(Debug, Clone, Hash, Serialize, Deserialize)]
struct RawChunks {
    chunks: Vec<Nat>,
    k: usize,
}

fn chunk_bits() -> BoxedStrategy<usize> {
    prop_oneof![
        8 => any::<u16>().prop_map(|i| gen::pick(&[1usize, 2, 3, 7, 8, 31, 32, 33, 63, 64, 65, 127, 128, 129, 191, 192, 193, 255, 256, 257, 300], i)),
        4 => 1usize..=300,
        1 => Just(0usize),
    ]
    .boxed()
}

fn must_panic_zero_bits<T>(out: &mut Out, ctx: &Ctx, what: &str, known: Option<&str>, r: Result<T, String>) {
    match r {
        Err(_) => {}
        Ok(_) => match known {
            Some(id) => ctx.known_or_fail(out, id, || format!("{what} with chunk_bits = 0 is documented to panic, it returned a value")),
            None => out.fail(format!("{what} with chunk_bits = 0 is documented to panic, it returned a value")),
        },
    }
}

/// the k-bit pieces of n, least significant first (no trailing zero piece)
fn ref_chunks(n: &BigUint, k: usize) -> Vec<BigUint> {
    let mask = (BigUint::one() << k) - BigUint::one();
    let mut v = Vec::new();
    let mut x = n.clone();
    while !x.is_zero() {
        v.push(&x & &mask);
        x >>= k;
    }
    v
}

fn chunks(c: &ChunkCase, ctx: &Ctx) -> Out {
    let mut out = Out::new();
    let words = c.v.trimmed_len();
    let k = c.k;
    out.nontrivial(words >= 2);
    out.label(gen::repr_class(words));
    let u = c.v.ubig();
    let n = c.v.big();
    if k == 0 {
        out.label("chunks: chunk_bits = 0 (documented panic)");
        must_panic_zero_bits(&mut out, ctx, "UBig::to_chunks", None, catch(|| u.to_chunks(0)));
        must_panic_zero_bits(&mut out, ctx, "UBig::from_chunks", Some("C07/from-chunks-zero-bits-no-panic"), catch(|| UBig::from_chunks([u.clone(), u.clone()].iter(), 0)));
        return out;
    }
    out.label(if k % 64 == 0 {
        if words > 2 && words % (k / 64) != 0 {
            "chunks: word-aligned, partial last chunk, large value"
        } else {
            "chunks: word-aligned"
        }
    } else if k < 64 {
        "chunks: k < 64"
    } else {
        "chunks: k > 64, unaligned"
    });
    out.label(if words <= 2 { "chunks: inline value" } else { "chunks: large value" });
    match catch(|| u.to_chunks(k)) {
        Err(m) => {
            if m.contains("out of range for slice") && m.contains("convert.rs") && k % 64 == 0 && k >= 128 && words >= 3 && words % (k / 64) != 0 {
                ctx.known_or_fail(&mut out, "C07/to-chunks-word-aligned-partial-last-chunk", || format!("UBig::to_chunks({k}) on a {words}-word value panicked: {}", normalise(&m)));
            } else {
                out.fail(format!("UBig::to_chunks({k}) on a {words}-word value panicked: {}", normalise(&m)));
            }
        }
        Ok(chs) => {
            let mut sum = BigUint::zero();
            for (idx, ch) in chs.iter().enumerate() {
                let cn = u2n(ch);
                if cn.bits() > k as u64 {
                    out.fail(format!("UBig::to_chunks({k}): chunk {idx} has {} bits", cn.bits()));
                }
                sum += cn << (idx * k);
            }
            if sum != n {
                out.fail(format!("UBig::to_chunks({k}): chunks of {} add up to {}", show_u(&n), show_u(&sum)));
            }
            if n.is_zero() && !chs.is_empty() {
                out.fail(format!("UBig::ZERO.to_chunks({k}) is documented to be empty, got {} chunks", chs.len()));
            }
            eq_u(&mut out, &format!("UBig::from_chunks(to_chunks(v, {k}), {k})"), catch(|| UBig::from_chunks(chs.iter(), k)), &n);
        }
    }
    // from_chunks on reference-made chunks (independent of to_chunks)
    let rc: Vec<UBig> = ref_chunks(&n, k).iter().map(n2u).collect();
    eq_u(&mut out, &format!("UBig::from_chunks(reference chunks, {k})"), catch(|| UBig::from_chunks(rc.iter(), k)), &n);
    out
}

fn chunks_raw(c: &RawChunks, ctx: &Ctx) -> Out {
    let mut out = Out::new();
    let k = c.k;
    let cs: Vec<UBig> = c.chunks.iter().map(|n| n.ubig()).collect();
    out.nontrivial(c.chunks.len() >= 2 && c.chunks.iter().any(|n| !n.is_zero()));
    if k == 0 {
        out.label("raw chunks: chunk_bits = 0 (documented panic)");
        must_panic_zero_bits(&mut out, ctx, "UBig::from_chunks", Some("C07/from-chunks-zero-bits-no-panic"), catch(|| UBig::from_chunks(cs.iter(), 0)));
        return out;
    }
    out.label(match c.chunks.len() {
        0 => "raw chunks: none",
        1 => "raw chunks: one",
        _ => "raw chunks: several",
    });
    if c.chunks.iter().any(|n| n.big().bits() > k as u64) {
        out.label("raw chunks: a chunk wider than chunk_bits (allowed by the rustdoc)");
    }
    // documented: sum(C_i * 2^(i * chunk_bits))
    let mut want = BigUint::zero();
    for (idx, n) in c.chunks.iter().enumerate() {
        want += n.big() << (idx * k);
    }
    eq_u(&mut out, &format!("UBig::from_chunks({} chunks, {k})", cs.len()), catch(|| UBig::from_chunks(cs.iter(), k)), &want);
    out
}

// ------------------------------------------------------------------------------------------------

// ------------------------------------------------------------------------------------------------
// thorough tier: coverage-guided campaign over the four parse entry points (libFuzzer + ASan)
// ------------------------------------------------------------------------------------------------

fn fuzz_tier(ck: &mut Check, runs: u64) {
    let seed = (ck.seed % 0x7fff_fffe) + 1;
    let scratch = std::env::var("DV_SCRATCH").unwrap_or_else(|_| "/verif/target".into());
    let harness = std::env::var("DV_HARNESS").unwrap_or_else(|_| "/verif/harness".into());
    let corpus = &format!("{scratch}/c07-fuzz-corpus");
    let artifacts = format!("{scratch}/c07-fuzz-artifacts");
    let _ = std::fs::remove_dir_all(corpus);
    let _ = std::fs::create_dir_all(corpus);
    let _ = std::fs::create_dir_all(&artifacts);
    let mut cmd = std::process::Command::new("cargo");
    cmd.current_dir(&harness)
        .args(["+nightly", "fuzz", "run", "int_text", corpus, &format!("{harness}/fuzz/corpus-seed/int_text"), "--"])
        .arg(format!("-runs={runs}"))
        .arg(format!("-seed={seed}"))
        .args(["-len_control=0", "-max_len=6000", &format!("-artifact_prefix={artifacts}/"), "-print_final_stats=1"])
        .env("CARGO_NET_OFFLINE", "true")
        .env("RUSTFLAGS", "--cfg dashu_verif");
    let (code, outp) = match cmd.output() {
        Ok(o) => (o.status.code().unwrap_or(-1), format!("{}{}", String::from_utf8_lossy(&o.stdout), String::from_utf8_lossy(&o.stderr))),
        Err(e) => (-1, format!("cannot run: {e}")),
    };
    let stat = |k: &str| outp.lines().find_map(|l| l.strip_prefix(k).map(|s| s.trim().parse::<u64>().unwrap_or(0))).unwrap_or(0);
    let execs = stat("stat::number_of_executed_units:");
    // corpus = inputs that reached new coverage: the measured count of distinct non-trivial cases
    let corpus_n = std::fs::read_dir(corpus).map(|d| d.count() as u64).unwrap_or(0);
    let mut labels = std::collections::BTreeMap::new();
    labels.insert("fuzz: executions (libFuzzer + ASan)", execs);
    labels.insert("fuzz: corpus entries with new coverage", corpus_n);
    let mut samples = vec![];
    if let Ok(rd) = std::fs::read_dir(corpus) {
        for e in rd.flatten().take(3) {
            if let Ok(b) = std::fs::read(e.path()) {
                let c = decode_parse_case(&b);
                samples.push(serde_json::json!({"entry": ENTRY[c.entry as usize], "radix": c.radix, "text": clip(&c.text)}));
            }
        }
    }
    let mut viol = None;
    if code != 0 {
        let art = outp.lines().find_map(|l| l.find("Test unit written to ").map(|i| l[i + 21..].trim().to_string()));
        match art.and_then(|p| std::fs::read(p).ok()) {
            Some(bytes) => {
                // the verdict is the parse oracle's, not the finder's
                let c = decode_parse_case(&bytes);
                let ctx = Ctx { tier: Tier::Thorough, known: ck.known(), strict: false };
                let out = parse_oracle(&c, &ctx);
                match &out.verdict {
                    Verdict::Violation(sig) => viol = Some((format!("found by libFuzzer target int_text: {sig}"), serde_json::to_value(&c).unwrap())),
                    _ => println!("INCONCLUSIVE: the fuzz target stopped on an input that the parse oracle accepts ({:?}): {}", out.verdict, truncate(&outp, 400)),
                }
            }
            None => println!("INCONCLUSIVE: fuzz run ended with status {code} but no artifact was found: {}", truncate(&outp, 600)),
        }
    }
    ck.external(
        "parse_invalid@libfuzzer-asan",
        execs,
        corpus_n.min(execs),
        labels,
        samples,
        viol,
        Some(serde_json::json!({"engine": "cargo-fuzz libFuzzer + AddressSanitizer, target int_text (dv::ptext::decode_parse_case + parse_disagreement; verdict by parse_oracle)", "runs_requested": runs, "seed": seed, "max_len": 6000})),
    );
}

fn main() {
    let mut ck = Check::new(
        "C07",
        "(value, radix 2..=36) with value lengths on both sides of the printer's word/dword/medium(15 words)/large switch and its 16·2^i-word squaring ladder, neighbours r^k and r^k±1 of radix powers with k on digits_per_word / 16·dpw / 256·dpw multiples, bit-packing word boundaries for radices 2,4,8,16,32; 208 formatter specs ([fill]align × + × # × 0 × run-time width) × 5 traits + in_radix against pad_integral and the u128/i128 primitives; Debug against its module documentation; texts from the grammar [+-]?(0b|0o|0x)?[digits_]+ with digit counts dpw-1..dpw+1, 2·dpw, 256·dpw-1..+1, 512·dpw, 1024·dpw+1, either letter case, underscores, leading zeros, through FromStr/from_str_radix/from_str_with_radix_prefix/from_str_with_radix_default against a reference parser; single-edit mutations, near-grammar and arbitrary Unicode strings; invalid radices; print->parse round trips; LE/BE bytes (two's complement for IBig) at ±2^(8j+{0,1,4,7})+{0,±1} and arbitrary byte strings; bit chunks k in 0..=300. Non-trivial: value >= 2 words, or text rejected for a reason other than emptiness; distinct by case digest.",
    );
    ck.assume("std's Formatter::pad_integral and the u128/i128 formatting impls as the layout reference");
    let th = ck.thorough();
    ck.sub("print", (40_000, 600_000), || value_for_radix(false, false).prop_map(|(v, radix)| PrintCase { v, radix }), print);
    ck.sub("print_huge", (1_500, 22_000), || value_for_radix(true, th).prop_map(|(v, radix)| PrintCase { v, radix }), print);
    ck.sub("layout", (40_000, 600_000), layout_case, layout);
    ck.sub("debug", (15_000, 225_000), || debug_case(false, false), debug);
    ck.sub("debug_huge", (1_000, 15_000), || debug_case(true, th), debug);
    ck.sub("parse_valid", (35_000, 525_000), || valid_case(0), parse_oracle);
    ck.sub("parse_valid_huge", (1_500, 22_000), move || if th { prop_oneof![5 => valid_case(1), 1 => valid_case(2)].boxed() } else { valid_case(1).boxed() }, parse_oracle);
    ck.sub("parse_invalid", (40_000, 600_000), invalid_case, parse_oracle);
    ck.sub(
        "radix_invalid",
        (2_000, 30_000),
        || {
            (gen::int(Prof::Tiny), valid_case(0), any::<u16>(), any::<u32>()).prop_map(|(v, pc, rsel, any)| BadRadixCase {
                v,
                text: pc.text,
                radix: gen::pick(&[37u32, 0, 1, 38, 64, 255, 256, u32::MAX, any.max(37)], rsel),
            })
        },
        bad_radix,
    );
    ck.sub("roundtrip", (15_000, 225_000), || value_for_radix(false, false).prop_map(|(v, radix)| PrintCase { v, radix }), roundtrip);
    ck.sub("roundtrip_huge", (600, 9_000), || value_for_radix(true, th).prop_map(|(v, radix)| PrintCase { v, radix }), roundtrip);
    ck.sub("bytes", (20_000, 300_000), bytes_value_case, bytes_value);
    ck.sub("bytes_raw", (15_000, 225_000), raw_bytes_case, bytes_raw);
    ck.sub(
        "chunks",
        (15_000, 225_000),
        || {
            let lens = Union::new_weighted(vec![(8, gen::len(Prof::Small)), (6, gen::len(Prof::Medium)), (1, gen::len(Prof::Large))]);
            (lens, 0u8..gen::N_PATTERNS, any::<u64>(), chunk_bits()).prop_map(|(n, p, s, k)| ChunkCase { v: Nat(gen::expand(n, p, s)), k })
        },
        chunks,
    );
    ck.sub("chunks_raw", (5_000, 75_000), || (proptest::collection::vec(gen::nat(Prof::Small), 0..7), chunk_bits()).prop_map(|(chunks, k)| RawChunks { chunks, k }), chunks_raw);
    if th && !ck.is_replay() && ck.wants("parse_invalid") {
        let runs = (2_000_000.0 * ck.scale) as u64;
        fuzz_tier(&mut ck, runs.max(20_000));
    }
    ck.finish();
}
