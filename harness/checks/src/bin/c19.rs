//! C19 — results do not depend on word size, build features or serialization medium.
//!
//! One deterministic case file (generated from VERIF_SEED with the proptest strategies) is run
//! through `dv-eval` built in N configurations of dashu; outputs must be identical line by line,
//! one build is anchored to num-bigint, bound-only operations are checked as enclosures in each
//! build, serialized forms must round-trip, be identical across builds, and arbitrary input must
//! decode to an error or a canonical value.
use dv::ball::{self, Ball};
use dv::fl::{sig_pattern, Sci};
use dv::gen::{self, Prof};
use dv::*;
use num_bigint::{BigInt, BigUint};
use num_integer::{Integer, Roots};
use num_traits::{One, Pow, Signed, Zero};
use proptest::prelude::*;
use serde::{Deserialize, Serialize};
use std::cmp::Ordering;
use std::collections::{BTreeMap, HashSet};
use std::process::Command;

#[derive(Debug, Clone)]
struct Cfg {
    name: &'static str,
    force_bits: Option<&'static str>,
    std: bool,
    assertions: bool,
}

const QUICK_CFGS: [Cfg; 5] = [
    Cfg { name: "native-std-assert", force_bits: None, std: true, assertions: true },
    Cfg { name: "native-std-noassert", force_bits: None, std: true, assertions: false },
    Cfg { name: "w32-std-assert", force_bits: Some("32"), std: true, assertions: true },
    Cfg { name: "g64-std-assert", force_bits: Some("64"), std: true, assertions: true },
    Cfg { name: "native-nostd-assert", force_bits: None, std: false, assertions: true },
];
const MORE_CFGS: [Cfg; 7] = [
    Cfg { name: "w32-std-noassert", force_bits: Some("32"), std: true, assertions: false },
    Cfg { name: "w32-nostd-assert", force_bits: Some("32"), std: false, assertions: true },
    Cfg { name: "w32-nostd-noassert", force_bits: Some("32"), std: false, assertions: false },
    Cfg { name: "g64-std-noassert", force_bits: Some("64"), std: true, assertions: false },
    Cfg { name: "g64-nostd-assert", force_bits: Some("64"), std: false, assertions: true },
    Cfg { name: "g64-nostd-noassert", force_bits: Some("64"), std: false, assertions: false },
    Cfg { name: "native-nostd-noassert", force_bits: None, std: false, assertions: false },
];

fn harness_dir() -> String {
    std::env::var("DV_HARNESS").unwrap_or_else(|_| "/verif/harness".to_string())
}
fn work_dir() -> String {
    let d = format!("{}/target/c19", std::env::var("DV_OUT").unwrap_or_else(|_| "/verif".to_string()));
    let _ = std::fs::create_dir_all(&d);
    d
}

fn build(cfg: &Cfg) -> Result<String, String> {
    let target = format!("{}/{}", std::env::var("DV_EVAL_TARGET").unwrap_or_else(|_| if std::env::var("DV_HARNESS").is_ok() { "/verif/target/c19-mut".to_string() } else { "/verif/target/c19".to_string() }), cfg.name);
    let mut rustflags = String::from("--cfg dashu_verif");
    if let Some(b) = cfg.force_bits {
        rustflags.push_str(&format!(" --cfg force_bits=\"{b}\""));
    }
    let mut cmd = Command::new("cargo");
    cmd.args(["build", "--release", "--manifest-path"]).arg(format!("{}/eval/Cargo.toml", harness_dir())).arg("--target-dir").arg(&target);
    if !cfg.std {
        cmd.arg("--no-default-features");
    }
    cmd.env("RUSTFLAGS", rustflags).env("CARGO_NET_OFFLINE", "true").env("CARGO_TERM_COLOR", "never");
    if !cfg.assertions {
        cmd.env("CARGO_PROFILE_RELEASE_DEBUG_ASSERTIONS", "false").env("CARGO_PROFILE_RELEASE_OVERFLOW_CHECKS", "false");
    }
    let out = cmd.output().map_err(|e| format!("cargo: {e}"))?;
    if !out.status.success() {
        let err = String::from_utf8_lossy(&out.stderr);
        let lines: Vec<&str> = err.lines().filter(|l| l.starts_with("error")).take(5).collect();
        return Err(format!("build of configuration {} failed: {}", cfg.name, lines.join(" | ")));
    }
    Ok(format!("{target}/release/dv-eval"))
}

/// Runs one evaluator over a case file under a watchdog. Returns the answers received (index 0 =
/// CONFIG line) and whether the run had to be killed.
fn run_eval_limited(bin: &str, file: &str, limit_s: u64) -> Result<(Vec<String>, bool), String> {
    let out_path = format!("{file}.{}.out", hash_str(bin));
    let out_file = std::fs::File::create(&out_path).map_err(|e| e.to_string())?;
    let mut child = Command::new(bin).arg(file).stdout(out_file).stderr(std::process::Stdio::null()).spawn().map_err(|e| format!("{bin}: {e}"))?;
    let t0 = std::time::Instant::now();
    let mut killed = false;
    loop {
        match child.try_wait() {
            Ok(Some(st)) => {
                if !st.success() && !killed {
                    // an abort (e.g. allocation failure) in the middle of the file: treat like a hang at that case
                    killed = true;
                }
                break;
            }
            Ok(None) => {
                if t0.elapsed().as_secs() > limit_s {
                    let _ = child.kill();
                    killed = true;
                    let _ = child.wait();
                    break;
                }
                std::thread::sleep(std::time::Duration::from_millis(20));
            }
            Err(e) => return Err(format!("{bin}: {e}")),
        }
    }
    let text = std::fs::read_to_string(&out_path).unwrap_or_default();
    let _ = std::fs::remove_file(&out_path);
    let mut v = Vec::new();
    let complete = text.ends_with('\n');
    let lines: Vec<&str> = text.lines().collect();
    let n = if complete { lines.len() } else { lines.len().saturating_sub(1) };
    for (k, l) in lines.iter().take(n).enumerate() {
        if k == 0 {
            if !l.starts_with("CONFIG") {
                return Err(format!("{bin}: missing CONFIG line"));
            }
            v.push(l.to_string());
            continue;
        }
        v.push(l.splitn(2, ' ').nth(1).unwrap_or("").to_string());
    }
    Ok((v, killed))
}

/// All answers of one build for a case list. A case on which the evaluator does not come back
/// (killed by the watchdog, or died) is re-run alone with its own limit; if it still does not
/// answer its answer is recorded as "NO-ANSWER(hang or abort)" — which then differs from the other
/// builds — and evaluation continues behind it.
fn run_eval(bin: &str, lines: &[String], tag: &str) -> Result<Vec<String>, String> {
    let mut answers: Vec<String> = Vec::with_capacity(lines.len() + 1);
    let mut config = String::new();
    let mut start = 0usize;
    let mut stuck = 0;
    while start < lines.len() {
        let file = format!("{}/cases-{tag}-{:x}-{start}.txt", work_dir(), hash_str(bin));
        std::fs::write(&file, lines[start..].iter().map(|l| format!("{l}\n")).collect::<String>()).map_err(|e| e.to_string())?;
        let (v, killed) = run_eval_limited(bin, &file, if lines.len() <= 4 { 20 } else { 90 })?;
        let _ = std::fs::remove_file(&file);
        if v.is_empty() {
            return Err(format!("{bin} produced no output"));
        }
        config = v[0].clone();
        answers.extend(v[1..].iter().cloned());
        let done = start + v.len() - 1;
        if done >= lines.len() {
            break;
        }
        if !killed {
            return Err(format!("{bin} stopped after {} of {} cases", done, lines.len()));
        }
        // case `done` did not come back: confirm alone
        let single = format!("{}/cases-{tag}-{:x}-single.txt", work_dir(), hash_str(bin));
        std::fs::write(&single, format!("{}\n", lines[done])).map_err(|e| e.to_string())?;
        let (v1, killed1) = run_eval_limited(bin, &single, 20)?;
        let _ = std::fs::remove_file(&single);
        if v1.len() >= 2 && !killed1 {
            answers.push(v1[1].clone());
        } else {
            answers.push("NO-ANSWER(hang or abort)".to_string());
            stuck += 1;
            if stuck >= 3 {
                // give up on the rest of the file: mark unanswered
                while answers.len() < lines.len() {
                    answers.push("NOT-RUN".to_string());
                }
                break;
            }
        }
        start = done + 1;
    }
    let mut out = vec![config];
    out.extend(answers);
    Ok(out)
}

// ------------------------------------------------------------------------------------------
// cases

#[derive(Debug, Clone, Hash, Serialize, Deserialize)]
struct EvalCase {
    line: String,
    /// expected canonical output when the host can compute it independently (num-bigint)
    expect: Option<String>,
    /// how to judge: "eq" (identical across builds), "log2" (enclosure per build), "decode" (Err or canonical)
    kind: String,
    label: String,
    nontrivial: bool,
}

fn hx(n: &BigInt) -> String {
    let s = n.magnitude().to_str_radix(16);
    format!("{}{}", if n.is_negative() { "-" } else { "" }, s)
}
fn hxu(n: &BigUint) -> String {
    n.to_str_radix(16)
}
fn hexbytes(b: &[u8]) -> String {
    if b.is_empty() {
        return "-".into();
    }
    b.iter().map(|x| format!("{x:02x}")).collect()
}

fn int_case() -> impl Strategy<Value = EvalCase> {
    (gen::nat_pair(Prof::Large), any::<bool>(), any::<bool>(), 0u8..24, any::<u64>()).prop_map(|((a, b, _), sa, sb, op, s)| {
        let ma = a.big();
        let mb = b.big();
        let ia = if sa { -BigInt::from(ma.clone()) } else { BigInt::from(ma.clone()) };
        let ib = if sb { -BigInt::from(mb.clone()) } else { BigInt::from(mb.clone()) };
        let big = a.trimmed_len() > 1 || b.trimmed_len() > 1;
        let mk = |line: String, expect: Option<String>, label: &str| EvalCase { line, expect, kind: "eq".into(), label: label.into(), nontrivial: big };
        match op {
            0 => mk(format!("iadd {} {}", hx(&ia), hx(&ib)), Some(hx(&(&ia + &ib))), "int:add"),
            1 => mk(format!("isub {} {}", hx(&ia), hx(&ib)), Some(hx(&(&ia - &ib))), "int:sub"),
            2 | 3 => mk(format!("imul {} {}", hx(&ia), hx(&ib)), Some(hx(&(&ia * &ib))), "int:mul"),
            4 | 5 => {
                if ib.is_zero() {
                    mk(format!("idivrem {} 0", hx(&ia)), Some("PANIC".into()), "int:div by zero")
                } else {
                    let (q, r) = ia.div_rem(&ib);
                    mk(format!("idivrem {} {}", hx(&ia), hx(&ib)), Some(format!("{} {}", hx(&q), hx(&r))), "int:divrem")
                }
            }
            6 => {
                if ia.is_zero() && ib.is_zero() {
                    mk("igcd 0 0".into(), Some("PANIC".into()), "int:gcd(0,0)")
                } else {
                    mk(format!("igcd {} {}", hx(&ia), hx(&ib)), Some(hxu(&ma.gcd(&mb))), "int:gcd")
                }
            }
            7 => {
                if ia.is_zero() && ib.is_zero() {
                    mk("igcdext 0 0".into(), Some("PANIC".into()), "int:gcd(0,0)")
                } else {
                    let g = ma.gcd(&mb);
                    mk(format!("igcdext {} {}", hx(&ia), hx(&ib)), Some(format!("{} {}", hxu(&g), hxu(&g))), "int:gcd_ext")
                }
            }
            8 => mk(format!("iand {} {}", hx(&ia), hx(&ib)), Some(hx(&(&ia & &ib))), "int:and"),
            9 => mk(format!("ior {} {}", hx(&ia), hx(&ib)), Some(hx(&(&ia | &ib))), "int:or"),
            10 => mk(format!("ixor {} {}", hx(&ia), hx(&ib)), Some(hx(&(&ia ^ &ib))), "int:xor"),
            11 => {
                let n = (s % 700) as usize;
                mk(format!("ishl {} {}", hx(&ia), n), Some(hx(&(&ia << n))), "int:shl")
            }
            12 => {
                let n = (s % (64 * (a.trimmed_len() as u64 + 2))) as usize;
                mk(format!("ishr {} {}", hx(&ia), n), Some(hx(&(&ia >> n))), "int:shr")
            }
            13 => {
                let n = (s % 6) as u32 + if a.trimmed_len() <= 2 { (s >> 8) as u32 % 60 } else { 0 };
                mk(format!("ipow {} {}", hx(&ia), n), Some(hx(&Pow::pow(&ia, n))), "int:pow")
            }
            14 => mk(format!("isqrt {}", hxu(&ma)), Some(hxu(&ma.sqrt())), "int:sqrt"),
            15 => {
                let n = 1 + (s % 9) as u32;
                mk(format!("iroot {} {}", hxu(&ma), n), Some(hxu(&ma.nth_root(n))), "int:nth_root")
            }
            16 => {
                // ilog with bases 2, 10, word, multi-word
                let base = match s % 4 {
                    0 => BigUint::from(2u8),
                    1 => BigUint::from(10u8),
                    2 => BigUint::from((s >> 8) | 2),
                    _ => mb.clone() + 2u8,
                };
                if ma.is_zero() {
                    mk(format!("ilog 0 {}", hxu(&base)), Some("PANIC".into()), "int:ilog(0)")
                } else {
                    let mut e = 0u64;
                    let mut p = base.clone();
                    while p <= ma {
                        p *= &base;
                        e += 1;
                    }
                    mk(format!("ilog {} {}", hxu(&ma), hxu(&base)), Some(format!("{e}")), "int:ilog")
                }
            }
            17 | 18 => {
                let r = 2 + (s % 35) as u32;
                mk(format!("istr {} {}", hx(&ia), r), Some(format!("{}{}", if ia.is_negative() { "-" } else { "" }, ma.to_str_radix(r))), "int:to_string radix")
            }
            19 => {
                let r = 2 + (s % 35) as u32;
                let text = format!("{}{}", if sa { "-" } else { "" }, ma.to_str_radix(r));
                mk(format!("iparse {} {}", hexbytes(text.as_bytes()), r), Some(hx(&ia)), "int:parse radix")
            }
            20 => {
                let le = ia.to_signed_bytes_le();
                mk(format!("ifrombytes {}", hexbytes(&le)), None, "int:from bytes")
            }
            21 => mk(format!("ibytes {}", hx(&ia)), None, "int:to bytes"),
            22 => {
                let exact = ma.bits() <= 53 || ma.trailing_zeros().map(|t| ma.bits() - t <= 53).unwrap_or(true);
                let _ = exact;
                mk(format!("if64 {}", hx(&ia)), None, "int:to_f64")
            }
            _ => {
                let m = if mb.is_zero() { BigUint::from(7u8) } else { mb.clone() };
                let e = BigUint::from(s % 1000);
                let want = ia.mod_floor(&BigInt::from(m.clone())).magnitude().modpow(&e, &m);
                mk(format!("imodpow {} {} {}", hx(&ia), hxu(&e), hxu(&m)), Some(hxu(&want)), "int:modpow")
            }
        }
    })
}

fn misc_case() -> impl Strategy<Value = EvalCase> {
    (gen::nat(Prof::Medium), gen::nat(Prof::Small), 0u8..8, any::<u64>(), any::<bool>()).prop_map(|(a, b, op, s, neg)| {
        let ma = a.big();
        let mb = b.big();
        let ia = if neg { -BigInt::from(ma.clone()) } else { BigInt::from(ma.clone()) };
        let big = a.trimmed_len() > 1;
        let mk = |line: String, kind: &str, label: &str| EvalCase { line, expect: None, kind: kind.into(), label: label.into(), nontrivial: big };
        match op {
            0 | 1 => {
                if ma.is_zero() {
                    mk("iadd 0 0".into(), "eq", "int:add")
                } else {
                    mk(format!("ilog2b {}", hxu(&ma)), "log2", "log2_bounds:UBig")
                }
            }
            2 => mk(format!("if32 {}", hx(&ia)), "eq", "int:to_f32"),
            3 => mk(format!("ibits {} {}", hx(&ia), s % 300), "eq", "int:bit queries"),
            4 => mk(format!("irepr {} {}", hx(&ia), hxu(&mb)), "repr", "int:representation (hook)"),
            5 => {
                let m = if mb.is_zero() { BigUint::from(9u8) } else { mb };
                mk(format!("imodinv {} {}", hx(&ia), hxu(&m)), "eq", "int:modinv")
            }
            6 => {
                if ma.is_zero() || mb.is_zero() {
                    mk("radd 1 2 1 3".into(), "eq", "ratio:add")
                } else {
                    mk(format!("rlog2b {} {}", hx(&ia.abs()), hxu(&mb)), "log2", "log2_bounds:RBig")
                }
            }
            _ => mk(format!("ser_i {}", hx(&ia)), "eq", "serde:encode integer"),
        }
    })
}

fn float_case() -> impl Strategy<Value = EvalCase> {
    (1u32..40, (any::<u16>(), 0u8..9, any::<u64>(), any::<bool>(), -30i64..30), (any::<u16>(), 0u8..9, any::<u64>(), any::<bool>(), -30i64..30), 0u8..16).prop_map(|(p, (ka, pa, sa, na, ea), (kb, pb, sb, nb, eb), op)| {
        let mk_sig = |base: u64, k: u16, pat: u8, s: u64, neg: bool| -> BigInt {
            let digits = 1 + (k as u64 % p as u64);
            let m = sig_pattern(base, digits, pat, s);
            if neg {
                -BigInt::from(m)
            } else {
                BigInt::from(m)
            }
        };
        let (da, db) = (mk_sig(10, ka, pa, sa, na), mk_sig(10, kb, pb, sb, nb));
        let (ba, bb) = (mk_sig(2, ka, pa, sa, na), mk_sig(2, kb, pb, sb, nb));
        let mk = |line: String, kind: &str, label: &str| EvalCase { line, expect: None, kind: kind.into(), label: label.into(), nontrivial: true };
        match op {
            0 => mk(format!("dadd {} {} {} {} {}", hx(&da), ea, p, hx(&db), eb), "eq", "float10:add"),
            1 => mk(format!("dsub {} {} {} {} {}", hx(&da), ea, p, hx(&db), eb), "eq", "float10:sub"),
            2 => mk(format!("dmul {} {} {} {} {}", hx(&da), ea, p, hx(&db), eb), "eq", "float10:mul"),
            3 => mk(format!("ddiv {} {} {} {} {}", hx(&da), ea, p, hx(&db), eb), "eq", "float10:div"),
            4 => mk(format!("dsqrt {} {} {}", hx(&da.abs()), ea, p), "eq", "float10:sqrt"),
            5 => mk(format!("badd {} {} {} {} {}", hx(&ba), ea, p, hx(&bb), eb), "eq", "float2:add"),
            6 => mk(format!("bmul {} {} {} {} {}", hx(&ba), ea, p, hx(&bb), eb), "eq", "float2:mul"),
            7 => mk(format!("bdiv {} {} {} {} {}", hx(&ba), ea, p, hx(&bb), eb), "eq", "float2:div"),
            8 => mk(format!("dstr {} {} {}", hx(&da), ea, p), "eq", "float10:print"),
            9 => mk(format!("dtoint {} {} {}", hx(&da), ea, p), "eq", "float10:to_int"),
            10 => mk(format!("df64 {} {} {}", hx(&da), ea, p), "eq", "float10:to_f64"),
            11 => mk(format!("b2d {} {} {} {}", hx(&ba), ea, p, 1 + sb % 30), "eq", "float:base 2->10"),
            12 => {
                if da.is_zero() {
                    mk("dadd 1 0 3 1 0".into(), "eq", "float10:add")
                } else {
                    mk(format!("dlog2b {} {} {}", hx(&da.abs()), ea, p), "log2", "log2_bounds:FBig")
                }
            }
            13 => mk(format!("ser_d {} {} {}", hx(&da), ea, p), "eq", "serde:encode FBig<10>"),
            14 => mk(format!("ser_b {} {} {}", hx(&ba), ea, p), "eq", "serde:encode FBig<2>"),
            _ => {
                let text = format!("{}{}.{}e{}", if na { "-" } else { "" }, sa % 100000, sb % 1000, ea);
                mk(format!("dparse {}", hexbytes(text.as_bytes())), "eq", "float10:parse")
            }
        }
    })
}

fn ratio_case() -> impl Strategy<Value = EvalCase> {
    (gen::nat(Prof::Small), gen::nat_nz(Prof::Small), gen::nat(Prof::Small), gen::nat_nz(Prof::Small), 0u8..7, any::<bool>()).prop_map(|(a, b, c, d, op, neg)| {
        let (na, nb, nc, nd) = (a.big(), b.big(), c.big(), d.big());
        let ia = if neg { -BigInt::from(na.clone()) } else { BigInt::from(na.clone()) };
        let big = a.trimmed_len() > 1 || b.trimmed_len() > 1;
        let red = |n: BigInt, d: BigInt| -> String {
            let r = num_rational::BigRational::new(n, d);
            format!("{}/{}", hx(r.numer()), hxu(r.denom().magnitude()))
        };
        let mk = |line: String, expect: Option<String>, label: &str| EvalCase { line, expect, kind: "eq".into(), label: label.into(), nontrivial: big };
        let (ib, ic, id) = (BigInt::from(nb.clone()), BigInt::from(nc.clone()), BigInt::from(nd.clone()));
        match op {
            0 => mk(format!("radd {} {} {} {}", hx(&ia), hxu(&nb), hxu(&nc), hxu(&nd)), Some(red(&ia * &id + &ic * &ib, &ib * &id)), "ratio:add"),
            1 => mk(format!("rmul {} {} {} {}", hx(&ia), hxu(&nb), hxu(&nc), hxu(&nd)), Some(red(&ia * &ic, &ib * &id)), "ratio:mul"),
            2 => {
                if nc.is_zero() {
                    mk(format!("rdiv {} {} 0 1", hx(&ia), hxu(&nb)), Some("PANIC".into()), "ratio:div by zero")
                } else {
                    mk(format!("rdiv {} {} {} {}", hx(&ia), hxu(&nb), hxu(&nc), hxu(&nd)), Some(red(&ia * &id, &ib * &ic)), "ratio:div")
                }
            }
            3 => mk(format!("rf64 {} {}", hx(&ia), hxu(&nb)), None, "ratio:to_f64"),
            4 => mk(format!("rstr {} {}", hx(&ia), hxu(&nb)), None, "ratio:print"),
            5 => mk(format!("ser_r {} {}", hx(&ia), hxu(&nb)), None, "serde:encode RBig/Relaxed"),
            _ => {
                let text = format!("{}{}/{}", if neg { "-" } else { "" }, na, nb);
                mk(format!("rparse {}", hexbytes(text.as_bytes())), Some(red(ia.clone(), ib.clone())), "ratio:parse")
            }
        }
    })
}

/// arbitrary / hostile input for the decoders
fn decode_case() -> impl Strategy<Value = EvalCase> {
    let json_tokens = prop_oneof![
        Just("\"1/0\"".to_string()),
        Just("\"0/0\"".to_string()),
        Just("\"-5/0\"".to_string()),
        Just("\"2/4\"".to_string()),
        Just("\"-6/-4\"".to_string()),
        Just("\"1/-2\"".to_string()),
        Just("\"0/7\"".to_string()),
        Just("\"\"".to_string()),
        Just("\"-\"".to_string()),
        Just("\"-0\"".to_string()),
        Just("\"+0\"".to_string()),
        Just("\"0x1f\"".to_string()),
        Just("\"1e5\"".to_string()),
        Just("\"1.50\"".to_string()),
        Just("\"0.0\"".to_string()),
        Just("\"inf\"".to_string()),
        Just("12".to_string()),
        Just("-12".to_string()),
        Just("1.5".to_string()),
        Just("null".to_string()),
        Just("[1,2]".to_string()),
        Just("{\"numerator\":1,\"denominator\":0}".to_string()),
        "\"-?[0-9]{1,30}(/[0-9]{1,20})?\"",
        "\"-?[0-9]{0,12}\\.[0-9]{0,12}(e-?[0-9]{1,3})?\"",
        "\"[0-9a-fx_/+.-]{0,12}\"",
    ];
    let ty = prop_oneof![Just("u"), Just("i"), Just("d"), Just("b"), Just("r"), Just("x")];
    prop_oneof![
        (ty.clone(), json_tokens).prop_map(|(t, s)| EvalCase { line: format!("de_json {t} {}", hexbytes(s.as_bytes())), expect: None, kind: "decode".into(), label: "serde:decode json (arbitrary)".into(), nontrivial: true }),
        // a readable deserializer that hands the decoder a sequence / a map where it asked for a string
        (prop_oneof![Just("r"), Just("x")], any::<bool>(), 0u8..10, -40i64..=40, 0u8..8, any::<u32>()).prop_map(|(t, seq, shape, n, dsel, rnd)| {
            let d: String = match dsel {
                0 | 1 => "0".into(),
                2 => "1".into(),
                3 => "-3".into(),
                4 => format!("{}", 2 * (rnd % 50)),
                5 => format!("{}", (rnd as u64) << 33),
                6 => "00".into(),
                _ => format!("{}", 1 + rnd % 1000),
            };
            let n = if shape == 9 { format!("{}", (n as i128) << 70) } else { format!("{n}") };
            let toks: Vec<String> = if seq {
                match shape {
                    0 => vec![n],
                    1 => vec![n, d.clone(), d],
                    2 => vec![],
                    _ => vec![n, d],
                }
            } else {
                match shape {
                    0 => vec!["numerator".into(), n],
                    1 => vec!["denominator".into(), d, "numerator".into(), n],
                    2 => vec!["numerator".into(), n.clone(), "denominator".into(), d, "numerator".into(), n],
                    3 => vec!["numerator".into(), n, "denominator".into(), d, "extra".into(), "1".into()],
                    _ => vec!["numerator".into(), n, "denominator".into(), d],
                }
            };
            EvalCase { line: format!("de_val {t} {} {}", if seq { "seq" } else { "map" }, toks.join(" ")), expect: None, kind: "decode".into(), label: "serde:decode a sequence / map through a readable deserializer".into(), nontrivial: true }
        }),
        (ty, proptest::collection::vec(any::<u8>(), 0..24), 0u8..4).prop_map(|(t, mut b, shape)| {
            // postcard: length-prefixed byte strings; make the prefix plausible most of the time
            if shape != 0 && !b.is_empty() {
                let n = b.len() as u8 - 1;
                b[0] = n.min(127);
            }
            EvalCase { line: format!("de_post {t} {}", hexbytes(&b)), expect: None, kind: "decode".into(), label: "serde:decode postcard (arbitrary)".into(), nontrivial: true }
        }),
    ]
}

/// round to nearest, ties to even, of a non-negative integer into a binary float with `mant` mantissa
/// bits and maximum exponent `emax` (f32: 24, 128; f64: 53, 1024): (bit pattern, exact)
fn rne_int(mag: &BigUint, neg: bool, mant: u64, emax: u64, ebias: u64, width: u32) -> (u64, bool) {
    let sign = (neg as u64) << (width - 1);
    if mag.is_zero() {
        return (0, true);
    }
    let bits = mag.bits();
    let (mut m, mut e, exact) = if bits <= mant {
        (mag.clone(), 0u64, true)
    } else {
        let sh = bits - mant;
        let q = mag >> sh;
        let rem = mag - (&q << sh);
        let half = BigUint::one() << (sh - 1);
        let up = rem > half || (rem == half && q.bit(0));
        (if up { q + 1u8 } else { q }, sh, rem.is_zero())
    };
    if m.bits() > mant {
        m >>= 1;
        e += 1;
    }
    let top = m.bits() + e; // value < 2^top
    let inf = ((1u64 << (width as u64 - 1 - (mant - 1))) - 1) << (mant - 1);
    if top > emax {
        return (sign | inf, false);
    }
    // normalise to a full mantissa
    let sh = mant - m.bits();
    let mfull = (m << sh).iter_u64_digits().next().unwrap_or(0);
    let exp_field = top - 1 + ebias;
    (sign | (exp_field << (mant - 1)) | (mfull & ((1u64 << (mant - 1)) - 1)), exact)
}

/// integer -> f32 / f64 next to the rounding boundaries: a mantissa, a half bit, and a sticky part
/// that is zero, a single bit at any distance below the half bit, or random; anchored to the
/// host's own round-to-nearest-even
fn conv_case() -> impl Strategy<Value = EvalCase> {
    (any::<u64>(), any::<bool>(), 1u64..200, 0u8..8, any::<u64>(), any::<bool>(), any::<bool>()).prop_map(|(mraw, f32_, tail, sk, s, neg, half)| {
        let mant = if f32_ { 24u64 } else { 53 };
        let m = (mraw >> (64 - mant)) | (1u64 << (mant - 1));
        let m = match sk {
            6 => (1u64 << mant) - 1, // rounding up carries into the next binade
            7 => 1u64 << (mant - 1),
            _ => m,
        };
        let mut v = BigUint::from(m) << tail;
        if half {
            v |= BigUint::one() << (tail - 1);
        }
        if tail >= 2 {
            let below = tail - 1; // positions 0..below-1 are sticky
            match sk % 4 {
                0 => {}
                1 => v |= BigUint::one() << (s % below),
                2 => v |= BigUint::one() << (below - 1 - (s % below.min(40))),
                _ => v |= BigUint::from(s) & ((BigUint::one() << below.min(64)) - 1u8),
            }
        }
        let ia = if neg { -BigInt::from(v.clone()) } else { BigInt::from(v.clone()) };
        let (bits, exact) = if f32_ { rne_int(&v, neg, 24, 128, 127, 32) } else { rne_int(&v, neg, 53, 1024, 1023, 64) };
        let big = v.bits() > 64;
        if f32_ {
            EvalCase { line: format!("if32 {}", hx(&ia)), expect: Some(format!("{:08x} {}", bits, exact)), kind: "eq".into(), label: format!("int:to_f32 near a rounding boundary ({} bits)", if v.bits() <= 64 { "<= 64" } else if v.bits() <= 128 { "65-128" } else { "> 128" }), nontrivial: big }
        } else {
            EvalCase { line: format!("if64 {}", hx(&ia)), expect: Some(format!("{:016x} {}", bits, exact)), kind: "eq".into(), label: format!("int:to_f64 near a rounding boundary ({} bits)", if v.bits() <= 64 { "<= 64" } else if v.bits() <= 128 { "65-128" } else { "> 128" }), nontrivial: big }
        }
    })
}

/// modular products with residues shorter than the modulus and moduli whose bit length is a
/// multiple of the word size (no normalisation shift), anchored to num-bigint
fn mod_case() -> impl Strategy<Value = EvalCase> {
    (2usize..7, any::<u64>(), 0u8..4, gen::nat(Prof::Small), gen::nat(Prof::Small), 0u8..12, 0u8..12, any::<bool>()).prop_map(|(k, s, shape, a, b, pa, pb, half_words)| {
        // modulus of k 64-bit words (or k 32-bit words and a half); top bit set unless shape == 3
        let mut mw = gen::expand(k, (s % 12) as u8, s);
        mw.resize(k, 0);
        match shape {
            0 | 1 => mw[k - 1] |= 1 << 63,
            2 => {
                mw[k - 1] |= 1 << 63;
                mw[0] |= 1;
            }
            _ => mw[k - 1] |= 1,
        }
        let mut m = dv::Nat(mw).big();
        if half_words {
            m >>= 32u32; // bit length a multiple of 32 only
        }
        if m.is_zero() {
            m = BigUint::from(7u8);
        }
        // residues: short ones (la + lb <= k words) with all-ones / random words, or whatever came
        let la = 1 + (pa as usize) % k.max(2).saturating_sub(1).max(1);
        let lb = (k - la.min(k - 1)).max(1);
        let short = |n: &dv::Nat, l: usize, pat: u8| -> BigUint {
            let mut w = n.0.clone();
            w.resize(l, if pat % 3 == 0 { u64::MAX } else { 0x8000_0000_0000_0001 });
            if pat % 3 == 0 {
                for x in w.iter_mut() {
                    *x = u64::MAX;
                }
            }
            dv::Nat(w[..l].to_vec()).big()
        };
        let (xa, xb) = if shape % 2 == 0 { (short(&a, la, pa), short(&b, lb, pb)) } else { (a.big(), b.big()) };
        let (ra, rb) = (&xa % &m, &xb % &m);
        let p = (&ra * &rb) % &m;
        let sq = (&ra * &ra) % &m;
        let su = (&ra + &rb) % &m;
        let di = ((&ra + &m) - &rb) % &m;
        let expect = format!("{} {} {} {} {}", hxu(&p), hxu(&p), hxu(&sq), hxu(&su), hxu(&di));
        let lbl = if &xa * &xb >= m && xa.bits() + xb.bits() <= m.bits() + 64 { "int:modular product of short residues wraps the modulus" } else { "int:modular product" };
        EvalCase { line: format!("imodmul {} {} {}", hxu(&xa), hxu(&xb), hxu(&m)), expect: Some(expect), kind: "eq".into(), label: lbl.into(), nontrivial: m.bits() > 64 }
    })
}

/// a self-describing binary format (CBOR, ciborium): encode, decode, and decode again from a map
/// whose entries are permuted, repeated or missing (structs travel as maps there)
fn cbor_case() -> impl Strategy<Value = EvalCase> {
    (0u8..6, gen::nat(Prof::Small), gen::nat_nz(Prof::Small), any::<bool>(), -40i64..40, 1u32..40, 0u8..12).prop_map(|(ty, a, b, neg, e, p, ord)| {
        let ia = if neg { -BigInt::from(a.big()) } else { BigInt::from(a.big()) };
        let t = ["u", "i", "d", "b", "r", "R"][ty as usize];
        let nkeys = match ty {
            0 | 1 => 0,
            2 | 3 => 3,
            _ => 2,
        };
        // entry orders: identity, every rotation / reversal, a repeated entry, a missing entry
        let orders3 = ["012", "021", "102", "120", "201", "210", "0012", "0122", "01", "12", "02", "0120"];
        let orders2 = ["01", "10", "001", "011", "0", "1", "010", "101", "01", "10", "01", "10"];
        let order = match nkeys {
            3 => orders3[ord as usize % 12],
            2 => orders2[ord as usize % 12],
            _ => "0",
        };
        let mut sorted: Vec<char> = order.chars().collect();
        sorted.sort();
        sorted.dedup();
        let is_perm = sorted.len() == nkeys && order.len() == nkeys;
        let expect = match nkeys {
            0 => "RT=true NOMAP".to_string(),
            n => format!("RT=true MAP{n} PERM={}", if is_perm { "OK-equal" } else { "ERR" }),
        };
        let line = match ty {
            0 => format!("cbor u {order} {}", hxu(&a.big())),
            1 => format!("cbor i {order} {}", hx(&ia)),
            2 | 3 => {
                // significand of at most p digits in the type's base: keep it short
                let base: u64 = if ty == 2 { 10 } else { 2 };
                let m = sig_pattern(base, (p as u64).min(30), (ord % 9) as u8, a.0.first().copied().unwrap_or(1));
                let m = if neg { -BigInt::from(m) } else { BigInt::from(m) };
                format!("cbor {t} {order} {} {e} {p}", hx(&m))
            }
            _ => format!("cbor {t} {order} {} {}", hx(&ia), hxu(&b.big())),
        };
        let label = match (nkeys, is_perm, order.len() == nkeys) {
            (0, _, _) => "serde:cbor integer round trip",
            (_, true, _) if order.starts_with('0') && order.chars().collect::<Vec<_>>().windows(2).all(|w| w[0] < w[1]) => "serde:cbor struct round trip",
            (_, true, _) => "serde:cbor struct, map entries permuted",
            (_, false, false) if order.len() > nkeys => "serde:cbor struct, a map entry repeated (must be refused)",
            _ => "serde:cbor struct, a map entry missing (must be refused)",
        };
        EvalCase { line, expect: Some(expect), kind: "eq".into(), label: label.into(), nontrivial: true }
    })
}

/// integer -> primitive conversions and mixed operations with a u128, values steered to one,
/// two, three and four 32-bit words and to the edges of every primitive type; anchored to num-bigint
fn prim_case() -> impl Strategy<Value = EvalCase> {
    (0u8..12, any::<u128>(), any::<u128>(), any::<bool>(), 0u32..130).prop_map(|(shape, raw, mraw, neg, k)| {
        use num_traits::ToPrimitive;
        let v: BigUint = match shape {
            0 => BigUint::from(raw as u32),
            1 => BigUint::from(raw as u64),
            2 => BigUint::from(raw >> 32), // up to 96 bits: three 32-bit words
            3 => BigUint::from(raw >> 40),
            4 => BigUint::one() << k,
            5 => (BigUint::one() << k) - 1u8,
            6 => (BigUint::one() << k) + 1u8,
            7 => BigUint::from(raw),
            8 => BigUint::from(raw) + (BigUint::one() << 128usize),
            9 => BigUint::from(u64::MAX) + BigUint::from(raw as u8),
            10 => BigUint::from(u128::MAX) - BigUint::from(raw as u8),
            _ => BigUint::from(i128::MAX as u128) + BigUint::from(raw as u8),
        };
        let x = if neg { -BigInt::from(v.clone()) } else { BigInt::from(v.clone()) };
        let m = BigUint::from(mraw >> (mraw % 100));
        let mp: u128 = m.to_u128().unwrap_or(u128::MAX) | 1;
        let f = |o: Option<String>| o.unwrap_or_else(|| "-".to_string());
        let expect = format!(
            "{} {} {} {} {} {} {} {}",
            f(x.to_u32().map(|t| t.to_string())),
            f(x.to_i64().map(|t| t.to_string())),
            f(x.to_u64().map(|t| t.to_string())),
            f(x.to_i128().map(|t| t.to_string())),
            f(x.to_u128().map(|t| t.to_string())),
            f(x.to_u64().map(|t| t.to_string())), // usize = u64 on the hosts of every build here
            hxu(&(&v & BigUint::from(mp))),
            &v % BigUint::from(mp)
        );
        let bits = v.bits();
        let label = if bits <= 32 { "int:to primitives (<= 32 bits)" } else if bits <= 64 { "int:to primitives (33-64 bits)" } else if bits <= 96 { "int:to primitives (65-96 bits: three 32-bit words)" } else if bits <= 128 { "int:to primitives (97-128 bits)" } else { "int:to primitives (> 128 bits)" };
        EvalCase { line: format!("iprim {} {}", hx(&x), hxu(&m)), expect: Some(expect), kind: "eq".into(), label: label.into(), nontrivial: bits > 32 }
    })
}

/// NumOrd / NumHash of big integers against primitive integers of every width
fn nord_case() -> impl Strategy<Value = EvalCase> {
    (0u8..10, any::<u128>(), 0u32..128, any::<bool>(), any::<bool>(), 0u8..6).prop_map(|(shape, raw, k, xneg, pneg, rel)| {
        let p: u128 = match shape {
            0 => raw as u8 as u128,
            1 => raw as u32 as u128,
            2 => (1u128 << 32) + (raw as u16 as u128),          // just above a 32-bit word
            3 => raw as u64 as u128,
            4 => 1u128 << k,
            5 => (1u128 << k) - 1,
            6 => (1u128 << 64) + (raw as u32 as u128),
            7 => raw,
            8 => (raw as u64 as u128) | (1 << 63),
            _ => (1u128 << 32) * (1 + (raw as u8 as u128)),     // low 32 bits zero
        };
        // the big operand: equal to the primitive, next to it, its low half, or unrelated
        let x: BigInt = match rel {
            0 => BigInt::from(p),
            1 => BigInt::from(p) + 1,
            2 => BigInt::from(p) - 1,
            3 => BigInt::from(p & 0xffff_ffff),
            4 => BigInt::from(p as u64),
            _ => BigInt::from(raw >> (raw % 97)),
        };
        let x = if xneg { -x } else { x };
        let ch = |o: Ordering| match o {
            Ordering::Less => '<',
            Ordering::Equal => '=',
            Ordering::Greater => '>',
        };
        let mut expect = String::new();
        for bits in [8u32, 16, 32, 64, 128, 64] {
            let q = BigInt::from(if bits == 128 { p } else { p & ((1u128 << bits) - 1) });
            let c = x.cmp(&q);
            expect.push(ch(c));
            expect.push(ch(c.reverse()));
            if !x.is_negative() {
                expect.push(ch(c));
                expect.push(ch(c.reverse()));
                expect.push('h');
            }
            expect.push(' ');
        }
        for bits in [8u32, 16, 32, 64, 128, 64] {
            let t = if bits == 128 { p } else { p & ((1u128 << bits) - 1) };
            // two's complement reading of the truncated pattern, negated (wrapping) when asked
            let sv: i128 = if bits == 128 { t as i128 } else { ((t << (128 - bits)) as i128) >> (128 - bits) };
            let sv = if pneg { if bits == 128 { sv.wrapping_neg() } else { let n = sv.wrapping_neg(); (n << (128 - bits)) >> (128 - bits) } } else { sv };
            let c = x.cmp(&BigInt::from(sv));
            expect.push(ch(c));
            expect.push(ch(c.reverse()));
            expect.push('h');
            expect.push(' ');
        }
        let label = if p >> 32 != 0 && p >> 64 == 0 { "int:NumOrd against primitives (33-64 bits: wider than a 32-bit word)" } else if p >> 64 != 0 { "int:NumOrd against primitives (> 64 bits)" } else { "int:NumOrd against primitives (<= 32 bits)" };
        EvalCase { line: format!("inord {} {p} {}", hx(&x), pneg as u8), expect: Some(expect), kind: "eq".into(), label: label.into(), nontrivial: p >> 32 != 0 }
    })
}

fn all_cases() -> impl Strategy<Value = EvalCase> {
    prop_oneof![
        2 => prim_case(),
        2 => nord_case(),
        2 => cbor_case(),
        3 => conv_case(),
        3 => mod_case(),
        8 => int_case(),
        3 => misc_case(),
        4 => float_case(),
        3 => ratio_case(),
        3 => decode_case(),
    ]
}

// ------------------------------------------------------------------------------------------
// judging

fn parse_int_hex(s: &str) -> Option<BigInt> {
    let (neg, h) = match s.strip_prefix('-') {
        Some(r) => (true, r),
        None => (false, s),
    };
    let m = BigUint::parse_bytes(h.as_bytes(), 16)?;
    Some(if neg { -BigInt::from(m) } else { BigInt::from(m) })
}

/// canonical-value predicate on a decoder's "OK ..." answer
fn decode_ok_is_canonical(line: &str, answer: &str) -> Result<(), String> {
    let ty = line.split_whitespace().nth(1).unwrap_or("");
    let rest = answer.strip_prefix("OK ").unwrap_or(answer);
    match ty {
        "u" | "i" => {
            let mut it = rest.split_whitespace();
            let v = it.next().and_then(parse_int_hex).ok_or("unreadable integer")?;
            if ty == "u" && v.is_negative() {
                return Err("negative UBig".into());
            }
            if let Some(info) = it.next() {
                check_repr_info(info, &v)?;
            }
            Ok(())
        }
        "r" | "x" => {
            let (n, d) = rest.split_once('/').ok_or("unreadable ratio")?;
            let n = parse_int_hex(n).ok_or("unreadable numerator")?;
            let d = parse_int_hex(d).ok_or("unreadable denominator")?;
            if !d.is_positive() {
                return Err(format!("denominator {d} is not positive"));
            }
            if ty == "r" && !n.gcd(&d).is_one() {
                return Err(format!("RBig {n}/{d} is not in lowest terms"));
            }
            Ok(())
        }
        _ => {
            // "<sig>e<exp> p<prec>" or inf
            if rest.starts_with("inf") {
                return Ok(());
            }
            let (val, _p) = rest.split_once(" p").ok_or("unreadable float")?;
            let (sig, exp) = val.rsplit_once('e').ok_or("unreadable float")?;
            let sig = parse_int_hex(sig).ok_or("unreadable significand")?;
            let exp: i64 = exp.parse().map_err(|_| "unreadable exponent")?;
            let base = if ty == "d" { 10 } else { 2 };
            if sig.is_zero() {
                if exp != 0 {
                    return Err(format!("zero stored with exponent {exp}"));
                }
            } else if (&sig % BigInt::from(base)).is_zero() {
                return Err(format!("significand divisible by the base {base}: not normalised"));
            }
            Ok(())
        }
    }
}

fn check_repr_info(info: &str, v: &BigInt) -> Result<(), String> {
    if info == "nohook" {
        return Ok(());
    }
    let mut m = BTreeMap::new();
    for kv in info.split(',') {
        if let Some((k, val)) = kv.split_once('=') {
            m.insert(k, val);
        }
    }
    let cap: i64 = m.get("cap").and_then(|s| s.parse().ok()).ok_or("no cap")?;
    let len: u64 = m.get("len").and_then(|s| s.parse().ok()).ok_or("no len")?;
    let inline = m.get("inline") == Some(&"true");
    let topzero = m.get("topzero") == Some(&"true");
    let hizero = m.get("hizero") == Some(&"true");
    let wbits: u64 = m.get("wbits").and_then(|s| s.parse().ok()).ok_or("no wbits")?;
    let words = (v.bits() + wbits - 1) / wbits;
    if (cap < 0) != v.is_negative() {
        return Err(format!("sign of capacity ({cap}) does not match the value"));
    }
    if inline {
        if words > 2 {
            return Err(format!("{words}-word value stored inline"));
        }
        if cap.abs() == 1 && !hizero {
            return Err("|capacity| = 1 with a non-zero high word".into());
        }
        if cap.abs() == 2 && hizero {
            return Err("|capacity| = 2 with a zero high word".into());
        }
    } else {
        if words <= 2 {
            return Err(format!("{words}-word value stored on the heap"));
        }
        if topzero {
            return Err("leading zero word".into());
        }
        if len != words {
            return Err(format!("stored length {len} but the value has {words} words"));
        }
        if (cap.unsigned_abs()) < len || cap.unsigned_abs() > len + len / 4 + 4 {
            return Err(format!("capacity {cap} outside [len, len + len/4 + 4] for len {len}"));
        }
    }
    Ok(())
}

/// x for a log2 case, as a ball
fn log2_truth(line: &str, w: u64) -> Option<Ball> {
    let a: Vec<&str> = line.split_whitespace().collect();
    let x = match a[0] {
        "ilog2b" => Ball::from_int(&parse_int_hex(a[1])?),
        "rlog2b" => Ball::from_int(&parse_int_hex(a[1])?).div(&Ball::from_int(&parse_int_hex(a[2])?), w)?,
        "dlog2b" => {
            let s = Sci::new(parse_int_hex(a[1])?, a[2].parse().ok()?, 10);
            Ball::from_sci(&s, w)
        }
        _ => return None,
    };
    ball::log2(&x, w)
}

fn f32_to_sci(bits: u32) -> Option<Sci> {
    let f = f32::from_bits(bits);
    if !f.is_finite() {
        return None;
    }
    let neg = bits >> 31 == 1;
    let e = ((bits >> 23) & 0xff) as i64;
    let frac = (bits & 0x7fffff) as i64;
    let (m, ex) = if e == 0 { (frac, -149) } else { (frac | 0x800000, e - 150) };
    Some(Sci::new(BigInt::from(if neg { -m } else { m }), ex, 2))
}

/// Judge one case given the outputs of all builds. Returns Err(signature) on violation.
fn judge(c: &EvalCase, outs: &[(String, String)]) -> Result<(), String> {
    let anchor = &outs[0].1;
    match c.kind.as_str() {
        "log2" => {
            // bounds only: lb <= log2(x) <= ub in EACH build
            for (cfg, o) in outs {
                if o == "PANIC" {
                    return Err(format!("{}: log2_bounds panicked in build {cfg}", c.line));
                }
                let mut it = o.split_whitespace();
                let (lb, ub) = match (it.next().and_then(|s| u32::from_str_radix(s, 16).ok()), it.next().and_then(|s| u32::from_str_radix(s, 16).ok())) {
                    (Some(a), Some(b)) => (a, b),
                    _ => return Err(format!("{}: unreadable bounds '{o}' in build {cfg}", c.line)),
                };
                let (flb, fub) = (f32::from_bits(lb), f32::from_bits(ub));
                if flb.is_nan() || fub.is_nan() {
                    return Err(format!("{}: NaN bound in build {cfg}", c.line));
                }
                let t = match log2_truth(&c.line, 160) {
                    Some(t) => t,
                    None => continue,
                };
                if let Some(s) = f32_to_sci(lb) {
                    if ball::side(&t, &s) == ball::Side::Above {
                        return Err(format!("{}: lower bound {flb} exceeds log2(x) in build {cfg}", c.line));
                    }
                } else if flb == f32::INFINITY {
                    return Err(format!("{}: lower bound +inf in build {cfg}", c.line));
                }
                if let Some(s) = f32_to_sci(ub) {
                    if ball::side(&t, &s) == ball::Side::Below {
                        return Err(format!("{}: upper bound {fub} is below log2(x) in build {cfg}", c.line));
                    }
                } else if fub == f32::NEG_INFINITY {
                    return Err(format!("{}: upper bound -inf in build {cfg}", c.line));
                }
            }
            Ok(())
        }
        "repr" => {
            // representation is per word size: canonical in each build (value recomputed by the host)
            let a: Vec<&str> = c.line.split_whitespace().collect();
            let (x, y) = (parse_int_hex(a[1]).unwrap(), parse_int_hex(a[2]).unwrap());
            let v = &x * &y + &x;
            for (cfg, o) in outs {
                check_repr_info(o, &v).map_err(|e| format!("{}: non-canonical representation in build {cfg}: {e} ({o})", c.line))?;
            }
            Ok(())
        }
        _ => {
            if outs.iter().any(|(_, o)| o == "NOT-RUN") {
                return Ok(());
            }
            for (cfg, o) in outs.iter().skip(1) {
                // representation info differs legitimately between word sizes: compare without it
                let strip = |s: &str| -> String { s.split_whitespace().filter(|t| !t.starts_with("cap=")).collect::<Vec<_>>().join(" ") };
                if strip(o) != strip(anchor) {
                    return Err(format!("{}: build {cfg} answers '{}' but build {} answers '{}'", c.line, truncate(o, 200), outs[0].0, truncate(anchor, 200)));
                }
            }
            if let Some(e) = &c.expect {
                if e != anchor {
                    return Err(format!("{}: all builds answer '{}' but the reference (num-bigint) says '{}'", c.line, truncate(anchor, 200), truncate(e, 200)));
                }
            }
            if c.kind == "decode" {
                for (cfg, o) in outs {
                    if o == "PANIC" {
                        return Err(format!("{}: decoder panicked in build {cfg}", c.line));
                    }
                    if o.starts_with("OK") {
                        decode_ok_is_canonical(&c.line, o).map_err(|e| format!("{}: decoder constructed a non-canonical value in build {cfg}: {e} ({o})", c.line))?;
                    }
                }
            }
            Ok(())
        }
    }
}

/// Known classes (active only if listed in known_findings.json): returns the finding id
fn known_class(c: &EvalCase, outs: &[(String, String)]) -> Option<&'static str> {
    let a: Vec<&str> = c.line.split_whitespace().collect();
    if a[0] == "df64" {
        // FBig<_,10>::to_f64: convert_base may hand a 54-bit significand to into_f64_internal, which
        // debug-asserts <= 53 bits (and otherwise rounds a second time): builds with debug assertions
        // panic, builds without agree with each other on a value
        // per word size: the builds that do not panic agree; panics only in asserting builds
        let any_panic = outs.iter().any(|(_, o)| o == "PANIC");
        let mut ok = true;
        let mut group_vals: Vec<Option<&String>> = Vec::new();
        for w32 in [false, true] {
            let g: Vec<&(String, String)> = outs.iter().filter(|(n, _)| n.starts_with("w32") == w32).collect();
            let vals: Vec<&String> = g.iter().filter(|(_, o)| o != "PANIC").map(|(_, o)| o).collect();
            ok &= vals.windows(2).all(|w| w[0] == w[1]);
            ok &= g.iter().all(|(n, o)| o != "PANIC" || n.ends_with("-assert"));
            group_vals.push(vals.first().copied());
        }
        // the two word sizes may differ only inside the word-size dependent threshold window
        let mut differ = false;
        if let (Some(x), Some(y)) = (group_vals[0], group_vals[1]) {
            if x != y {
                differ = true;
                let mut m = parse_int_hex(a[1]).unwrap_or_default();
                let mut e: i64 = a[2].parse().unwrap_or(0);
                while !m.is_zero() && (&m % BigInt::from(10)).is_zero() {
                    m /= BigInt::from(10);
                    e += 1;
                }
                ok &= e.abs() > 19 && e.abs() <= 38;
            }
        }
        if ok && any_panic {
            return Some("C19/decimal-to-f64-54-bit-quotient-debug-assert");
        }
        if ok && differ {
            // no build panics, each word size agrees with itself, the two word sizes differ and the
            // normalised decimal exponent lies in the window where only the 32-bit build takes
            // convert_base's ln/exp path: to_f64 of a decimal float goes through the same switch
            return Some("C19/base-conversion-threshold-depends-on-word-size");
        }
    }
    if a[0] == "b2d" {
        // convert_base switches from exact evaluation to the ln/exp path at
        // |exponent| > Word::BITS * 0.60206 (38 for 64-bit words, 19 for 32-bit words); the ln/exp
        // path is not faithful (C08/convert-base-large-exponent-unfaithful), so the word size shows
        // exponent of the normalised binary representation
        let sig = parse_int_hex(a[1]).unwrap_or_default();
        let e: i64 = a[2].parse().unwrap_or(0) + sig.trailing_zeros().unwrap_or(0) as i64;
        if e.abs() > 19 && e.abs() <= 38 {
            return Some("C19/base-conversion-threshold-depends-on-word-size");
        }
    }
    // convert_base with a small negative exponent divides with a numerator longer than
    // repr_div's debug-asserted bound (C08 finding): builds with debug assertions panic, the
    // others return a value
    let strip = |mut m: BigInt, b: u32| -> (BigInt, i64) {
        let mut k = 0;
        if m.is_zero() {
            return (m, 0);
        }
        while (&m % BigInt::from(b)).is_zero() {
            m /= BigInt::from(b);
            k += 1;
        }
        (m, k)
    };
    let ndig = |m: &BigInt, b: u64| dv::fl::digits(m.magnitude(), b);
    if a[0] == "df64" || a[0] == "b2d" {
        let (from, to, prec): (u32, u64, u64) = if a[0] == "df64" { (10, 2, 53) } else { (2, 10, a[4].parse().unwrap_or(1)) };
        let (sig, k) = strip(parse_int_hex(a[1]).unwrap_or_default(), from);
        let e: i64 = a[2].parse().unwrap_or(0) + k;
        if (-38..0).contains(&e) && !sig.is_zero() {
            // the divisor is normalised in the target base before its digits are counted
            let (den, _) = strip(Pow::pow(BigInt::from(from), (-e) as u32), to as u32);
            if ndig(&sig, to) > prec + ndig(&den, to) {
                return Some("C08/convert-base-small-neg-exponent-long-significand");
            }
        }
    }
    None
}

fn run_batch(bins: &[(String, String)], cases: &[EvalCase], tag: &str) -> Result<Vec<Vec<String>>, String> {
    let lines: Vec<String> = cases.iter().map(|c| c.line.clone()).collect();
    let mut all = Vec::new();
    let results: Vec<Result<Vec<String>, String>> = std::thread::scope(|sc| {
        let hs: Vec<_> = bins.iter().map(|(_, b)| sc.spawn(|| run_eval(b, &lines, tag))).collect();
        hs.into_iter().map(|h| h.join().unwrap()).collect()
    });
    for r in results {
        let v = r?;
        if v.len() != cases.len() + 1 {
            return Err(format!("evaluator produced {} lines for {} cases", v.len() - 1, cases.len()));
        }
        all.push(v);
    }
    Ok(all)
}

fn main() {
    let mut ck = Check::new(
        "C19",
        "a deterministic case file (integer ring/division/gcd/bit/shift/pow/root/ilog/radix text/bytes/conversion to every primitive integer type and mixed operations with a u128 (values of one to four 32-bit words)/f32-f64 conversion (also next to rounding boundaries: mantissa, half bit and one sticky bit at every distance, anchored to round-to-nearest-even computed by the check)/modular ops (also products of residues shorter than the modulus with moduli whose length is a whole number of 32/64-bit words), decimal and binary float add/sub/mul/div/sqrt/print/parse/to_int/to_f64/base change, rational arithmetic/print/parse/to_f64, serde json + postcard + CBOR encodings (CBOR: structs as maps, decoded again with the map entries permuted / repeated / missing), decoding of round-tripped, mutated and arbitrary input) generated from the seed with the structured operand generators and evaluated by dv-eval compiled against dashu in N build configurations {native x86_64, force_bits=64 (generic), force_bits=32} × {std, no_std} × {debug assertions on, off}; outputs compared line by line across builds, integer/rational results anchored to num-bigint, log2 bounds checked as enclosures per build, decoded values checked for canonical form. Non-trivial: operands longer than one word, float/ratio/serde cases; distinct by case line.",
    );
    let th = ck.thorough();
    let mut cfgs: Vec<Cfg> = QUICK_CFGS.to_vec();
    if th {
        cfgs.extend(MORE_CFGS.iter().cloned());
    }
    // ---- build all configurations (in parallel)
    let built: Vec<Result<String, String>> = std::thread::scope(|sc| {
        let hs: Vec<_> = cfgs.iter().map(|c| sc.spawn(move || build(c))).collect();
        hs.into_iter().map(|h| h.join().unwrap()).collect()
    });
    let mut bins: Vec<(String, String)> = Vec::new();
    for (c, b) in cfgs.iter().zip(built) {
        match b {
            Ok(p) => bins.push((c.name.to_string(), p)),
            Err(e) => infra(&e),
        }
    }
    ck.extra("configs", serde_json::json!(cfgs.iter().map(|c| c.name).collect::<Vec<_>>()));
    ck.extra("excluded_configs", serde_json::json!(["force_bits=\"16\" (does not compile in this tree)"]));

    // ---- the proptest sub: few cases, one evaluator round trip per case (this is also the replay path)
    let bins_ref = &bins;
    ck.sub("evalcase", (48, 96), all_cases, move |c: &EvalCase, ctx: &Ctx| {
        let mut out = Out::new();
        out.nontrivial(c.nontrivial);
        match run_batch(bins_ref, std::slice::from_ref(c), &format!("single-{:x}", hash_str(&c.line))) {
            Err(e) => out.inconclusive(e),
            Ok(all) => {
                let outs: Vec<(String, String)> = bins_ref.iter().zip(all.iter()).map(|((n, _), v)| (n.clone(), v[1].clone())).collect();
                if let Err(sig) = judge(c, &outs) {
                    match known_class(c, &outs) {
                        Some(id) => ctx.known_or_fail(&mut out, id, || sig.clone()),
                        None => out.fail(sig),
                    }
                }
            }
        }
        out
    });
    if ck.is_replay() {
        ck.finish();
    }

    // ---- bulk: phase 1
    let n1 = ((if th { 1_000_000.0 } else { 50_000.0 }) * ck.scale) as usize;
    let cases = sample_strategy(&all_cases(), seed_mix(ck.seed, 0xC19), n1.max(100));
    let mut labels: BTreeMap<&'static str, u64> = BTreeMap::new();
    let mut label_store: HashSet<String> = HashSet::new();
    let mut violation: Option<(String, serde_json::Value)> = None;
    let mut distinct: HashSet<u64> = HashSet::new();
    let mut evaluations = 0u64;
    let mut samples = Vec::new();
    let mut ser_outputs: Vec<(EvalCase, String)> = Vec::new();
    let mut known_hits: BTreeMap<&'static str, u64> = BTreeMap::new();
    match run_batch(&bins, &cases, "phase1") {
        Err(e) => infra(&e),
        Ok(all) => {
            // config self-report must match what was asked for
            for ((cfg, (_, _)), v) in cfgs.iter().zip(bins.iter()).zip(all.iter()) {
                let want_bits = match cfg.force_bits {
                    Some("32") => "wordbits=32",
                    _ => "wordbits=64",
                };
                if !v[0].contains(want_bits) || !v[0].contains(&format!("std={}", cfg.std)) || !v[0].contains(&format!("debug_assertions={}", cfg.assertions)) {
                    infra(&format!("configuration {} reports '{}'", cfg.name, v[0]));
                }
            }
            for (i, c) in cases.iter().enumerate() {
                evaluations += bins.len() as u64;
                let outs: Vec<(String, String)> = bins.iter().zip(all.iter()).map(|((n, _), v)| (n.clone(), v[i + 1].clone())).collect();
                label_store.insert(c.label.clone());
                if c.nontrivial {
                    distinct.insert(hash_str(&c.line));
                    if samples.len() < 6 && c.line.len() < 300 {
                        samples.push(serde_json::json!({"case": c.line, "answers": outs.iter().map(|(n, o)| format!("{n}: {}", truncate(o, 120))).collect::<Vec<_>>()}));
                    }
                }
                if violation.is_none() {
                    if let Err(sig) = judge(c, &outs) {
                        match known_class(c, &outs) {
                            Some(id) if ck.known().active(id) => *known_hits.entry(id).or_default() += 1,
                            _ => violation = Some((sig, serde_json::to_value(c).unwrap())),
                        }
                    }
                }
                if c.line.starts_with("ser_") {
                    ser_outputs.push((c.clone(), outs[0].1.clone()));
                }
            }
        }
    }
    // label histogram (leak the label strings: the engine wants &'static str)
    for c in &cases {
        let l: &'static str = Box::leak(c.label.clone().into_boxed_str());
        *labels.entry(l).or_default() += 1;
    }
    // merge duplicate leaked labels
    let mut merged: BTreeMap<String, u64> = BTreeMap::new();
    for (k, v) in &labels {
        *merged.entry(k.to_string()).or_default() += v;
    }
    let mut labels: BTreeMap<&'static str, u64> = BTreeMap::new();
    for (k, v) in merged {
        labels.insert(Box::leak(k.into_boxed_str()), v);
    }

    // ---- phase 2: decode what phase 1 encoded (round trip), and mutations of it
    let mut p2: Vec<EvalCase> = Vec::new();
    for (c, enc) in &ser_outputs {
        if enc == "PANIC" {
            continue;
        }
        let parts: Vec<&str> = enc.split_whitespace().collect();
        let a: Vec<&str> = c.line.split_whitespace().collect();
        let mut push = |fmt: &str, ty: &str, bytes: &str, expect: Option<String>, label: &str| {
            p2.push(EvalCase { line: format!("{fmt} {ty} {bytes}"), expect, kind: "decode".into(), label: label.into(), nontrivial: true });
        };
        match a[0] {
            "ser_i" if parts.len() == 4 => {
                let v = parse_int_hex(a[1]).unwrap();
                push("de_json", "i", parts[0], Some(format!("OK {}", hx(&v))), "serde:round trip json");
                push("de_post", "i", parts[1], Some(format!("OK {}", hx(&v))), "serde:round trip postcard");
                push("de_json", "u", parts[2], Some(format!("OK {}", hx(&v.abs()))), "serde:round trip json");
                push("de_post", "u", parts[3], Some(format!("OK {}", hx(&v.abs()))), "serde:round trip postcard");
                // mutations: drop last byte, flip a bit, append a byte
                for (k, p) in [(1usize, "i"), (3, "u")] {
                    let s = parts[k];
                    if s.len() >= 4 {
                        push("de_post", p, &s[..s.len() - 2], None, "serde:decode postcard (mutated)");
                        let mut b = s.as_bytes().to_vec();
                        b[1] = if b[1] == b'0' { b'1' } else { b'0' };
                        push("de_post", p, std::str::from_utf8(&b).unwrap(), None, "serde:decode postcard (mutated)");
                        push("de_post", p, &format!("{s}00"), None, "serde:decode postcard (mutated)");
                    }
                }
            }
            "ser_d" | "ser_b" if parts.len() == 2 => {
                let ty = if a[0] == "ser_d" { "d" } else { "b" };
                let v = parse_int_hex(a[1]).unwrap();
                // expected value: the normalised repr; compare by round-tripping through the anchor
                let _ = v;
                push("de_json", ty, parts[0], None, "serde:round trip json");
                push("de_post", ty, parts[1], None, "serde:round trip postcard");
                if parts[1].len() >= 4 {
                    push("de_post", ty, &parts[1][..parts[1].len() - 2], None, "serde:decode postcard (mutated)");
                    push("de_post", ty, &format!("{}ff", parts[1]), None, "serde:decode postcard (mutated)");
                }
            }
            "ser_r" if parts.len() == 4 => {
                let r = num_rational::BigRational::new(parse_int_hex(a[1]).unwrap(), parse_int_hex(a[2]).unwrap());
                let want = format!("OK {}/{}", hx(r.numer()), hxu(r.denom().magnitude()));
                push("de_json", "r", parts[0], Some(want.clone()), "serde:round trip json");
                push("de_post", "r", parts[1], Some(want), "serde:round trip postcard");
                push("de_json", "x", parts[2], None, "serde:round trip json");
                push("de_post", "x", parts[3], None, "serde:round trip postcard");
                // hostile: swap numerator/denominator position, zero denominator
                if parts[1].len() >= 6 {
                    push("de_post", "r", &parts[1][..parts[1].len() - 2], None, "serde:decode postcard (mutated)");
                    push("de_post", "r", &format!("{}0100", &parts[1][..parts[1].len().min(6)]), None, "serde:decode postcard (mutated)");
                }
            }
            _ => {}
        }
    }
    // float round trip expectation: decoded value equals what the anchor build holds for the original
    if !p2.is_empty() && violation.is_none() {
        match run_batch(&bins, &p2, "phase2") {
            Err(e) => infra(&e),
            Ok(all) => {
                for (i, c) in p2.iter().enumerate() {
                    evaluations += bins.len() as u64;
                    let outs: Vec<(String, String)> = bins.iter().zip(all.iter()).map(|((n, _), v)| (n.clone(), v[i + 1].clone())).collect();
                    distinct.insert(hash_str(&c.line));
                    let l: &'static str = Box::leak(c.label.clone().into_boxed_str());
                    let key = labels.keys().find(|k| **k == l).copied().unwrap_or(l);
                    *labels.entry(key).or_default() += 1;
                    if violation.is_none() {
                        // round-trip expectation ignores the representation info token
                        let mut cc = c.clone();
                        if let Some(e) = &c.expect {
                            let got: String = outs[0].1.split_whitespace().filter(|t| !t.starts_with("cap=")).collect::<Vec<_>>().join(" ");
                            if &got != e {
                                violation = Some((format!("{}: decoding the encoding of a value gives '{}' instead of '{}'", c.line, truncate(&got, 200), e), serde_json::to_value(c).unwrap()));
                                continue;
                            }
                            cc.expect = None;
                        } else if c.label.starts_with("serde:round trip") && !outs[0].1.starts_with("OK") {
                            violation = Some((format!("{}: the encoding produced by the library does not decode ({})", c.line, outs[0].1), serde_json::to_value(c).unwrap()));
                            continue;
                        }
                        if let Err(sig) = judge(&cc, &outs) {
                            violation = Some((sig, serde_json::to_value(c).unwrap()));
                        }
                    }
                }
            }
        }
    }
    for (id, n) in &known_hits {
        ck.print_known(id);
        ck.extra(&format!("known_hits_bulk:{id}"), serde_json::json!(n));
    }
    ck.external("evalcase@bulk", evaluations, distinct.len() as u64, labels, samples, violation, Some(serde_json::json!({"builds": bins.len(), "phase1_cases": cases.len(), "phase2_cases": p2.len()})));
    ck.assume("force_bits=\"16\" does not compile and is excluded; float exp/ln are not compared across builds (only faithful rounding is promised, C11)");
    ck.finish();
}
