//! C06 — conversions are lossless or refused; lossy ones are correctly rounded and say so.
//!
//! Oracle: every source value is turned into an exact `BigRational` through raw words / own IEEE
//! bit decoding; IEEE targets are decided by `ieee_round` (round-to-integer of x/2^q on exact
//! rationals, q from the binade and the subnormal quantum), which is validated in the `selftest_*`
//! subs against hardware `as` casts, `f32/f64::from_str` and an independent integer-only model.
use dashu_base::{Approximation, ConversionError, FloatEncoding, Sign};
use dashu_float::round::{mode, Rounded, Rounding};
use dashu_float::{FBig, Repr};
use dashu_int::{IBig, UBig, Word};
use dashu_ratio::{RBig, Relaxed};
use dv::fl::*;
use dv::gen::{self, pick, SplitMix};
use dv::*;
use num_bigint::{BigInt, BigUint};
use num_integer::Integer;
use num_rational::BigRational;
use num_traits::{One, Signed, ToPrimitive, Zero};
use proptest::prelude::*;
use serde::{Deserialize, Serialize};
use serde_json::json;
use std::cmp::Ordering;
use std::collections::BTreeMap;
use std::convert::TryFrom;
use std::num::FpCategory;

type Q = BigRational;

// =============================================================================================
// exact IEEE oracle
// =============================================================================================

#[derive(Clone, Copy, Debug, PartialEq, Eq)]
struct Fmt {
    /// significand bits including the hidden bit
    p: i64,
    /// exponent of the subnormal quantum: every finite value is an integer multiple of 2^qmin
    qmin: i64,
    /// finite values are < 2^emax
    emax: i64,
    width: u32,
    name: &'static str,
}
const F32: Fmt = Fmt { p: 24, qmin: -149, emax: 128, width: 32, name: "f32" };
const F64: Fmt = Fmt { p: 53, qmin: -1074, emax: 1024, width: 64, name: "f64" };

impl Fmt {
    fn sign_mask(self) -> u64 {
        1u64 << (self.width - 1)
    }
    fn inf_bits(self) -> u64 {
        // all exponent bits set, mantissa 0
        (self.sign_mask() - 1) & !((1u64 << (self.p - 1)) - 1)
    }
    fn is_nan(self, bits: u64) -> bool {
        (bits & (self.sign_mask() - 1)) > self.inf_bits()
    }
    fn is_inf(self, bits: u64) -> bool {
        (bits & (self.sign_mask() - 1)) == self.inf_bits()
    }
    fn neg(self, bits: u64) -> bool {
        bits & self.sign_mask() != 0
    }
    /// position in the ordered chain of floats (−inf … −0 = +0 … +inf); NaN excluded by the caller
    fn ord(self, bits: u64) -> i128 {
        let mag = (bits & (self.sign_mask() - 1)) as i128;
        if self.neg(bits) {
            -mag
        } else {
            mag
        }
    }
    /// exact value of a finite bit pattern (own decoding, independent of dashu's `decode`)
    fn exact(self, bits: u64) -> Option<Q> {
        if self.is_nan(bits) || self.is_inf(bits) {
            return None;
        }
        let mant_bits = (self.p - 1) as u32;
        let mant = bits & ((1u64 << mant_bits) - 1);
        let ef = ((bits & (self.sign_mask() - 1)) >> mant_bits) as i64;
        let (m, q) = if ef == 0 { (mant, self.qmin) } else { (mant | (1u64 << mant_bits), self.qmin + ef - 1) };
        let v = mul_pow2(&Q::from_integer(BigInt::from(m)), q);
        Some(if self.neg(bits) { -v } else { v })
    }
    /// compare the (possibly infinite) float with x
    fn cmp_x(self, bits: u64, x: &Q) -> Ordering {
        if self.is_inf(bits) {
            if self.neg(bits) {
                Ordering::Less
            } else {
                Ordering::Greater
            }
        } else {
            self.exact(bits).unwrap().cmp(x)
        }
    }
    fn show(self, bits: u64) -> String {
        if self.width == 32 {
            format!("{:e} (0x{:08x})", f32::from_bits(bits as u32), bits)
        } else {
            format!("{:e} (0x{:016x})", f64::from_bits(bits), bits)
        }
    }
}

fn two_pow(k: i64) -> Q {
    if k >= 0 {
        Q::from_integer(BigInt::one() << k as usize)
    } else {
        Q::new(BigInt::one(), BigInt::one() << (-k) as usize)
    }
}
fn mul_pow2(x: &Q, k: i64) -> Q {
    if k >= 0 {
        Q::new(x.numer() << k as usize, x.denom().clone())
    } else {
        Q::new(x.numer().clone(), x.denom() << (-k) as usize)
    }
}
/// e with 2^e <= a < 2^(e+1), a > 0
fn floor_log2(a: &Q) -> i64 {
    let (n, d) = (a.numer().magnitude(), a.denom().magnitude());
    let mut e = n.bits() as i64 - d.bits() as i64;
    let ge = if e >= 0 { n >= &(d << e as usize) } else { &(n << (-e) as usize) >= d };
    if !ge {
        e -= 1;
    }
    e
}

/// n·2^q: the value of x rounded into the format under `mode` (exponent range unbounded above;
/// `overflow` tells that |n·2^q| >= 2^emax)
#[derive(Clone, Debug)]
struct Rd {
    n: BigInt,
    q: i64,
    overflow: bool,
}

fn ieee_round(x: &Q, fmt: Fmt, mode: Mode) -> Rd {
    if x.is_zero() {
        return Rd { n: BigInt::zero(), q: fmt.qmin, overflow: false };
    }
    let e = floor_log2(&x.abs());
    let q = (e - (fmt.p - 1)).max(fmt.qmin);
    let n = round_rational(&mul_pow2(x, -q), mode);
    let overflow = n.magnitude().bits() as i64 + q > fmt.emax;
    Rd { n, q, overflow }
}

impl Rd {
    fn value(&self) -> Q {
        mul_pow2(&Q::from_integer(self.n.clone()), self.q)
    }
    /// bit pattern (overflow -> infinity of the sign)
    fn bits(&self, fmt: Fmt) -> u64 {
        let sign = if self.n.is_negative() { fmt.sign_mask() } else { 0 };
        if self.overflow {
            return sign | fmt.inf_bits();
        }
        let mag = self.n.magnitude().to_u64().expect("rounded significand fits u64");
        sign | layout_bits(fmt, mag, self.q)
    }
}

/// bits of mag·2^q (no sign) for mag <= 2^p, q >= qmin, and either q == qmin or mag >= 2^(p-1)
fn layout_bits(fmt: Fmt, mag: u64, q: i64) -> u64 {
    if mag == 0 {
        return 0;
    }
    let bl = 64 - mag.leading_zeros() as i64;
    let p = fmt.p;
    if q == fmt.qmin && bl < p {
        return mag;
    }
    assert!(bl == p || bl == p + 1, "layout_bits invariant");
    let (m, q) = if bl == p { (mag, q) } else { (mag >> 1, q + 1) };
    let biased = (q - fmt.qmin + 1) as u64;
    if biased >= (1u64 << (fmt.width as i64 - p) as u32) - 1 {
        return fmt.inf_bits();
    }
    (biased << (p - 1) as u32) | (m - (1u64 << (p - 1) as u32))
}

fn is_representable(x: &Q, fmt: Fmt) -> bool {
    let r = ieee_round(x, fmt, Mode::HalfEven);
    !r.overflow && &r.value() == x
}

/// Integer-only model of "round |m|·2^e to the format, nearest-even".
/// With all switches off it is a second, independent implementation of RNE (validated against
/// `ieee_round` in selftest_model); the switches reproduce hypothesised defects of
/// `FloatEncoding::encode` so that a failing observation can be attributed to one root cause.
#[derive(Clone, Copy, Debug, Default, PartialEq, Eq)]
struct EncBugs {
    /// the bit two places below the last kept bit is left out of the sticky bit
    drop_bit: bool,
    /// f32 only: values with top bit position == qmin (i.e. in [2^-150, 2^-149)) are flushed to zero
    flush_binade: bool,
}

/// returns (magnitude bits (no sign), cmp(result, |m|·2^e))
fn encode_model(mag: u128, e: i64, fmt: Fmt, bugs: EncBugs) -> (u64, Ordering) {
    if mag == 0 {
        return (0, Ordering::Equal);
    }
    let l = 128 - mag.leading_zeros() as i64;
    let top = l + e;
    if top > fmt.emax {
        return (fmt.inf_bits(), Ordering::Greater);
    }
    // (the f64 threshold `top_bit < -1022 - 52` is right; the f32 one, `-125 - 23`, is one binade too high)
    if top < fmt.qmin || (bugs.flush_binade && fmt == F32 && top == fmt.qmin) {
        return (0, Ordering::Less);
    }
    let k = (l - fmt.p).max(fmt.qmin - e);
    if k <= 0 {
        return (compose_mag(mag, e, fmt), Ordering::Equal);
    }
    let k = k as u32;
    let kept = if k >= 128 { 0 } else { mag >> k };
    let round = if k - 1 >= 128 { false } else { (mag >> (k - 1)) & 1 == 1 };
    let mut low = if k - 1 >= 128 { mag } else { mag & ((1u128 << (k - 1)) - 1) };
    if bugs.drop_bit && k >= 2 && k - 2 < 128 {
        low &= !(1u128 << (k - 2));
    }
    let sticky = low != 0;
    if !round && !sticky {
        return (compose_mag(kept, e + k as i64, fmt), Ordering::Equal);
    }
    let up = round && (sticky || kept & 1 == 1);
    let res = kept + up as u128;
    let bits = compose_mag(res, e + k as i64, fmt);
    (bits, if up { Ordering::Greater } else { Ordering::Less })
}

/// bits of mag·2^q (no sign), which must be exactly representable or >= 2^emax (-> inf)
fn compose_mag(mag: u128, q: i64, fmt: Fmt) -> u64 {
    if mag == 0 {
        return 0;
    }
    let tz = mag.trailing_zeros();
    let (mag, q) = (mag >> tz, q + tz as i64);
    let l = 128 - mag.leading_zeros() as i64;
    if l + q > fmt.emax {
        return fmt.inf_bits();
    }
    assert!(l <= fmt.p && q >= fmt.qmin, "compose_mag: not representable");
    let want_q = (q + l - fmt.p).max(fmt.qmin);
    layout_bits(fmt, (mag as u64) << (q - want_q) as u32, want_q)
}

// =============================================================================================
// observations
// =============================================================================================

#[derive(Clone, Copy, Debug)]
struct Obs {
    fmt: Fmt,
    bits: u64,
    /// None = Exact, Some(true) = error Positive, Some(false) = error Negative
    flag: Option<bool>,
}
fn obs32(a: Approximation<f32, Sign>) -> Obs {
    match a {
        Approximation::Exact(v) => Obs { fmt: F32, bits: v.to_bits() as u64, flag: None },
        Approximation::Inexact(v, s) => Obs { fmt: F32, bits: v.to_bits() as u64, flag: Some(s == Sign::Positive) },
    }
}
fn obs64(a: Approximation<f64, Sign>) -> Obs {
    match a {
        Approximation::Exact(v) => Obs { fmt: F64, bits: v.to_bits(), flag: None },
        Approximation::Inexact(v, s) => Obs { fmt: F64, bits: v.to_bits(), flag: Some(s == Sign::Positive) },
    }
}
#[derive(Clone, Copy, Debug)]
struct ObsR {
    fmt: Fmt,
    bits: u64,
    flag: Option<Rounding>,
}
fn obsr32(a: Rounded<f32>) -> ObsR {
    match a {
        Approximation::Exact(v) => ObsR { fmt: F32, bits: v.to_bits() as u64, flag: None },
        Approximation::Inexact(v, r) => ObsR { fmt: F32, bits: v.to_bits() as u64, flag: Some(r) },
    }
}
fn obsr64(a: Rounded<f64>) -> ObsR {
    match a {
        Approximation::Exact(v) => ObsR { fmt: F64, bits: v.to_bits(), flag: None },
        Approximation::Inexact(v, r) => ObsR { fmt: F64, bits: v.to_bits(), flag: Some(r) },
    }
}

fn show_q(x: &Q) -> String {
    let s = if x.is_integer() { format!("{}", x.numer()) } else { format!("{}/{}", x.numer(), x.denom()) };
    if s.len() > 160 {
        format!("{}..{}[{} chars, ~2^{}]", &s[..40], &s[s.len() - 20..], s.len(), if x.is_zero() { 0 } else { floor_log2(&x.abs()) })
    } else {
        s
    }
}

/// value = RNE(x) (zero sign not asserted), Exact <=> nothing lost, sign = sign(result − x).
/// Returns false when the value is wrong (the caller attributes it).
fn value_matches(o: &Obs, x: &Q) -> bool {
    let fmt = o.fmt;
    if fmt.is_nan(o.bits) {
        return false;
    }
    let want = ieee_round(x, fmt, Mode::HalfEven).bits(fmt);
    fmt.ord(want) == fmt.ord(o.bits)
}
fn flag_matches(o: &Obs, x: &Q) -> bool {
    let ord = o.fmt.cmp_x(o.bits, x);
    match o.flag {
        None => ord == Ordering::Equal,
        Some(true) => ord == Ordering::Greater,
        Some(false) => ord == Ordering::Less,
    }
}
fn ulps_off(o: &Obs, x: &Q) -> i128 {
    let want = ieee_round(x, o.fmt, Mode::HalfEven).bits(o.fmt);
    (o.fmt.ord(o.bits) - o.fmt.ord(want)).abs()
}
fn describe(what: &str, o: &Obs, x: &Q) -> String {
    let want = ieee_round(x, o.fmt, Mode::HalfEven).bits(o.fmt);
    format!(
        "{what}: x = {}, got {} flag {:?}, RNE = {}, sign(got - x) = {:?}",
        show_q(x),
        o.fmt.show(o.bits),
        o.flag.map(|p| if p { "Positive" } else { "Negative" }),
        o.fmt.show(want),
        o.fmt.cmp_x(o.bits, x)
    )
}

// =============================================================================================
// generators
// =============================================================================================

#[derive(Debug, Clone, Hash, Serialize, Deserialize)]
struct RatCase {
    num: Int,
    den: Nat,
}
impl RatCase {
    fn q(&self) -> Q {
        Q::new(self.num.big(), BigInt::from(self.den.big()))
    }
    fn rbig(&self) -> RBig {
        RBig::from_parts(self.num.ibig(), self.den.ubig())
    }
    fn relaxed(&self) -> Relaxed {
        Relaxed::from_parts(self.num.ibig(), self.den.ubig())
    }
}

fn rand_big(r: &mut SplitMix, bits: u64) -> BigUint {
    let words = (bits / 64 + 1) as usize;
    let v = words_to_big(&(0..words).map(|_| r.next()).collect::<Vec<_>>());
    v & ((BigUint::one() << bits as usize) - BigUint::one())
}

/// A positive rational (m + j/D)·2^q aimed at the rounding boundaries of `fmt`:
/// m by pattern (p bits, fewer for subnormals, 0 below the quantum), q by class (normal, top
/// binade, lowest normal binade, subnormal, below the quantum), j/D by class (0, 1/2, 1/2 ± tiny,
/// quarter points, tiny, 1 − tiny, odd denominators).  `dyadic` restricts D to powers of two.
/// Returns (numerator, denominator, label).
fn near_value(fmt: Fmt, qsel: u16, mpat: u8, fsel: u16, seed: u64, dyadic: bool) -> (BigUint, BigUint, &'static str) {
    let mut r = SplitMix(seed);
    let p = fmt.p as u64;
    let top = 1u64 << (p - 1);
    let lowmask = top - 1;
    let m_full: u64 = match mpat % 8 {
        0 => top,
        1 => (top << 1) - 1,
        2 => top + 1,
        3 => (top << 1) - 2,
        4 => (top | (r.next() & lowmask)) & !1,
        5 => top | (r.next() & lowmask) | 1,
        _ => top | (r.next() & lowmask),
    };
    let span = (fmt.emax - fmt.p - fmt.qmin) as u64;
    // (m, q, label)
    let classes: [(u64, i64, &'static str); 14] = [
        (m_full, -(fmt.p - 1), "range:normal"),
        (m_full, 0, "range:normal"),
        (m_full, fmt.qmin + 1 + r.below(span) as i64, "range:normal"),
        (m_full, fmt.qmin + 1 + r.below(span) as i64, "range:normal"),
        (m_full, -(fmt.p - 1) - 30 + r.below(60) as i64, "range:normal"),
        (m_full, fmt.emax - fmt.p, "range:top binade"),
        (m_full, fmt.emax - fmt.p + 1 + r.below(3) as i64, "range:overflow"),
        (m_full, fmt.qmin + 1, "range:normal"),
        (m_full, fmt.qmin, "range:lowest normal binade"),
        (m_full >> (1 + r.below(p - 1)), fmt.qmin, "range:subnormal"),
        (m_full >> (1 + r.below(p - 1)), fmt.qmin, "range:subnormal"),
        (m_full >> (p - 1), fmt.qmin, "range:subnormal"),
        (0, fmt.qmin, "range:below quantum"),
        (0, fmt.qmin - 1 - r.below(4) as i64, "range:below quantum"),
    ];
    let (m, q, label) = pick(&classes, qsel);
    let ks = [1u64, 2, 3, 8, 30, 64, 100, 300];
    let k = ks[r.below(ks.len() as u64) as usize];
    let one = BigUint::one();
    // fraction j/D
    let fr: (BigUint, BigUint) = match (fsel as usize * 16) >> 16 {
        0 => (BigUint::zero(), one.clone()),
        1 | 2 => (one.clone(), BigUint::from(2u8)),
        3 => ((&one << k as usize) + &one, &one << (k + 1) as usize), // 1/2 + 2^-(k+1)
        4 => ((&one << k as usize) - &one, &one << (k + 1) as usize), // 1/2 - 2^-(k+1)
        5 => (one.clone(), BigUint::from(4u8)),
        6 => (BigUint::from(3u8), BigUint::from(4u8)),
        7 => (one.clone(), &one << k as usize),
        8 => ((&one << k as usize) - &one, &one << k as usize),
        9 => {
            let d = &one << (1 + r.below(70)) as usize;
            (rand_big(&mut r, 80) % &d, d)
        }
        10 if !dyadic => {
            // 1/2 + 1/(3·2^k)
            let d = BigUint::from(3u8) << (k + 1) as usize;
            ((BigUint::from(3u8) << k as usize) + BigUint::from(2u8), d)
        }
        11 if !dyadic => {
            // 1/2 - 1/(3·2^k)
            let d = BigUint::from(3u8) << (k + 1) as usize;
            ((BigUint::from(3u8) << k as usize) - BigUint::from(2u8), d)
        }
        12 | 13 if !dyadic => {
            let db = 1 + r.below(70);
            let d = (rand_big(&mut r, db) | &one) + BigUint::from(2u8);
            (rand_big(&mut r, 80) % &d, d)
        }
        14 if !dyadic => (one.clone(), BigUint::from(3u8)),
        _ => {
            let d = &one << (1 + r.below(8)) as usize;
            (rand_big(&mut r, 16) % &d, d)
        }
    };
    let (j, d) = fr;
    let mut num = BigUint::from(m) * &d + j;
    let mut den = d;
    if q >= 0 {
        num <<= q as usize;
    } else {
        den <<= (-q) as usize;
    }
    let g = num.gcd(&den);
    (num / &g, den / g, label)
}

fn rat_case() -> impl Strategy<Value = RatCase> {
    (any::<bool>(), any::<u16>(), 0u8..8, any::<u16>(), any::<u64>(), any::<bool>(), 0u8..8, 0u8..10).prop_map(|(f64_, qsel, mpat, fsel, seed, neg, gsel, kind)| {
        let mut r = SplitMix(seed ^ 0x5555);
        let (num, den) = if kind == 0 {
            // unstructured: random numerator / denominator of assorted sizes
            let nb = [1u64, 10, 24, 53, 64, 65, 128, 200, 1100][r.below(9) as usize];
            let db = [1u64, 10, 24, 53, 64, 65, 128, 200, 1100][r.below(9) as usize];
            (rand_big(&mut r, nb), rand_big(&mut r, db) | BigUint::one())
        } else if kind == 9 && qsel % 3 == 0 {
            // far outside every float: m·2^z and m/2^z with z around the multiples of 2^15 and 2^16
            // (exponents that wrap when they are narrowed to 16 bits land inside the float range again)
            let zs = [32767u64, 32768, 32769, 65535, 65536, 65537, 65536 + 100, 98304, 131072, 131073, 65536 - 1074, 65536 + 1023];
            let z = zs[(fsel as usize) % zs.len()];
            let m = match mpat % 4 {
                0 => BigUint::one(),
                1 => BigUint::from(3u8),
                2 => BigUint::from(5u8),
                _ => BigUint::from((r.next() | 1) & 0xff_ffff),
            };
            if fsel & 0x100 == 0 {
                (m << z as usize, BigUint::one())
            } else {
                (m, BigUint::one() << z as usize)
            }
        } else {
            let (n, d, _) = near_value(if f64_ { F64 } else { F32 }, qsel, mpat, fsel, seed, false);
            (n, d)
        };
        // common factor (kept by Relaxed up to powers of two, removed by RBig)
        let g = BigUint::from([1u64, 1, 1, 1, 3, 6, 10, 1 + r.next() % 1000][gsel as usize]);
        RatCase { num: Int { neg: neg && !num.is_zero(), mag: Nat::from_big(&(num * &g)) }, den: Nat::from_big(&(den * g)) }
    })
}

fn range_label(x: &Q, fmt: Fmt) -> &'static str {
    if x.is_zero() {
        return "range:zero";
    }
    let e = floor_log2(&x.abs());
    if e >= fmt.emax {
        "range:overflow"
    } else if e == fmt.emax - 1 {
        "range:top binade"
    } else if e >= fmt.qmin + fmt.p - 1 {
        "range:normal"
    } else if e >= fmt.qmin {
        "range:subnormal"
    } else {
        "range:below quantum"
    }
}

fn tie_label(x: &Q, fmt: Fmt) -> &'static str {
    if x.is_zero() {
        return "tie:exact";
    }
    let e = floor_log2(&x.abs());
    let q = (e - (fmt.p - 1)).max(fmt.qmin);
    let s = mul_pow2(&x.abs(), -q);
    let fr = &s - s.floor();
    let half = Q::new(BigInt::one(), BigInt::from(2));
    if fr.is_zero() {
        "tie:exact"
    } else if fr == half {
        "tie:exact tie"
    } else {
        let dist = (&fr - &half).abs();
        if dist < two_pow(-20) {
            "tie:near tie (< 2^-20 ulp)"
        } else {
            "tie:ordinary"
        }
    }
}

// =============================================================================================
// selftest: the oracle against hardware casts, std's decimal parser and the integer-only model
// =============================================================================================

#[derive(Debug, Clone, Hash, Serialize, Deserialize)]
struct SelfCase {
    v: Int,     // |v| < 2^128
    dec_exp: i32, // v·10^dec_exp is also parsed by std
}

fn int_near(fmt: Fmt, mpat: u8, tsel: u16, ssel: u8, seed: u64, tmax: u64) -> BigUint {
    // ((m·2 + r) << t) + sticky,  sticky < 2^t
    let mut r = SplitMix(seed);
    let p = fmt.p as u64;
    let top = 1u64 << (p - 1);
    let lowmask = top - 1;
    let m: u64 = match mpat % 8 {
        0 => top,
        1 => (top << 1) - 1,
        2 => top + 1,
        3 => (top << 1) - 2,
        4 => (top | (r.next() & lowmask)) & !1,
        5 => top | (r.next() & lowmask) | 1,
        _ => top | (r.next() & lowmask),
    };
    let rbit = r.next() & 1;
    let ts = [0u64, 1, 2, 3, 9, 10, 11, 12, 64 - p, 63 - p, 65 - p, 127 - p, 126 - p, 128 - p, 129 - p, 200, fmt.emax as u64 - p - 1, fmt.emax as u64 - p, fmt.emax as u64 - p - 2, r.below(tmax + 1), r.below(tmax + 1)];
    let t = pick(&ts, tsel).min(tmax);
    let head = (BigUint::from(m) << 1usize) + BigUint::from(rbit);
    let mut x = head << t as usize;
    if t > 0 {
        let one = BigUint::one();
        let sticky = match ssel % 14 {
            0 | 1 => BigUint::zero(),
            2 => one.clone(),
            3 => &one << (t - 1) as usize,
            4 => (&one << t as usize) - &one,
            5 if t >= 2 => &one << (t - 2) as usize,
            6 if t >= 3 => &one << (t - 3) as usize,
            // a single sticky bit at every distance below the rounding position: word-boundary
            // related distances (the top 63/64 bits of a multi-word integer end 9..11 bits below the
            // half-ulp bit of an f64, 38..40 below that of an f32) and a uniformly chosen one
            7 | 8 => &one << r.below(t) as usize,
            9 if t >= 12 => &one << (t - 9 - r.below(3)) as usize,
            10 if t >= 42 => &one << (t - 38 - r.below(3)) as usize,
            11 if t >= 2 => (&one << r.below(t) as usize) | &one,
            _ => rand_big(&mut r, t),
        };
        x += sticky;
    }
    x
}

fn self_case() -> impl Strategy<Value = SelfCase> {
    (any::<bool>(), 0u8..8, any::<u16>(), 0u8..14, any::<u64>(), any::<bool>(), -400i32..=400, 0u8..4).prop_map(|(f64_, mpat, tsel, ssel, seed, neg, de, kind)| {
        let fmt = if f64_ { F64 } else { F32 };
        let mag = match kind {
            0 => BigUint::from(seed),
            1 => BigUint::from((seed as u128).wrapping_mul(0x9E3779B97F4A7C15_F39CC0605CEDC835u128)),
            _ => int_near(fmt, mpat, tsel, ssel, seed, 127 - fmt.p as u64),
        };
        let mag = mag & ((BigUint::one() << 128usize) - BigUint::one());
        let de = match kind {
            0 | 1 => de,
            _ => [0, 0, -1, 1, -20, 20, -45, 38, -324, 308, de][(seed % 11) as usize],
        };
        SelfCase { v: Int { neg: neg && !mag.is_zero(), mag: Nat::from_big(&mag) }, dec_exp: de }
    })
}

fn selftest(c: &SelfCase, _ctx: &Ctx) -> Out {
    let mut out = Out::new();
    let v = c.v.big();
    let x = Q::from_integer(v.clone());
    out.nontrivial(v.magnitude().bits() > 24);
    // (1) hardware casts
    let mag = v.magnitude().to_u128().unwrap();
    let (h32, h64) = if c.v.neg {
        if mag <= i128::MAX as u128 {
            let i = -(mag as i128);
            (Some((i as f32).to_bits() as u64), Some((i as f64).to_bits()))
        } else {
            (None, None)
        }
    } else {
        (Some((mag as f32).to_bits() as u64), Some((mag as f64).to_bits()))
    };
    for (fmt, hw) in [(F32, h32), (F64, h64)] {
        let r = ieee_round(&x, fmt, Mode::HalfEven);
        let mine = r.bits(fmt);
        if let Some(hw) = hw {
            out.label("selftest:hardware cast");
            out.check(fmt.ord(hw) == fmt.ord(mine), || format!("ORACLE SELFTEST: ieee_round({v}) = {} but `as {}` = {}", fmt.show(mine), fmt.name, fmt.show(hw)));
        }
        // (2) integer-only model, both on the integer itself and on (m, e) splits of it
        let (mb, mo) = encode_model(mag, 0, fmt, EncBugs::default());
        let want_ord = r.value().abs().cmp(&x.abs());
        let want_mag = mine & (fmt.sign_mask() - 1);
        out.check(mb == want_mag && (r.overflow || mo == want_ord) && (!r.overflow || mo == Ordering::Greater), || {
            format!("ORACLE SELFTEST: encode_model({mag}, 0) = ({}, {mo:?}) but ieee_round = ({}, {want_ord:?})", fmt.show(mb), fmt.show(want_mag))
        });
        // exact value decoding round trip
        if !r.overflow {
            out.check(fmt.exact(mine).as_ref() == Some(&r.value()), || format!("ORACLE SELFTEST: exact(bits(round)) != round for {v}"));
        }
    }
    // (3) std's correctly rounded decimal parser on v·10^dec_exp
    let s = format!("{}{}e{}", if c.v.neg { "-" } else { "" }, c.v.mag.big(), c.dec_exp);
    let ten = BigInt::from(10);
    let xd = if c.dec_exp >= 0 { &x * Q::from_integer(num_traits::pow(ten, c.dec_exp as usize)) } else { &x / Q::from_integer(num_traits::pow(ten, (-c.dec_exp) as usize)) };
    if let (Ok(p32), Ok(p64)) = (s.parse::<f32>(), s.parse::<f64>()) {
        out.label("selftest:std decimal parser");
        for (fmt, hw) in [(F32, p32.to_bits() as u64), (F64, p64.to_bits())] {
            let mine = ieee_round(&xd, fmt, Mode::HalfEven).bits(fmt);
            out.check(fmt.ord(hw) == fmt.ord(mine), || format!("ORACLE SELFTEST: ieee_round({s}) = {} but std parses {}", fmt.show(mine), fmt.show(hw)));
            out.label(range_label(&xd, fmt));
        }
    } else {
        out.fail(format!("ORACLE SELFTEST: std could not parse {s}"));
    }
    // (4) the model on a scaled mantissa: (mag63, e) for e from the decimal exponent
    let m63 = (mag >> 65) as u64 as u128;
    let e = c.dec_exp as i64 * 3;
    let xm = mul_pow2(&Q::from_integer(BigInt::from(m63)), e);
    for fmt in [F32, F64] {
        let r = ieee_round(&xm, fmt, Mode::HalfEven);
        let (mb, mo) = encode_model(m63, e, fmt, EncBugs::default());
        let want_ord = if r.overflow { Ordering::Greater } else { r.value().cmp(&xm) };
        out.check(mb == r.bits(fmt) && mo == want_ord, || format!("ORACLE SELFTEST: encode_model({m63}, {e}) = ({}, {mo:?}) but ieee_round = ({}, {want_ord:?})", fmt.show(mb), fmt.show(r.bits(fmt))));
    }
    out
}

// =============================================================================================
// int_to_float: UBig/IBig::to_f32/to_f64 and TryFrom<UBig/IBig> for f32/f64
// =============================================================================================

#[derive(Debug, Clone, Hash, Serialize, Deserialize)]
struct IntCase {
    v: Int,
}

fn int_case() -> impl Strategy<Value = IntCase> {
    (any::<bool>(), 0u8..8, any::<u16>(), 0u8..14, any::<u64>(), any::<bool>(), 0u8..12).prop_map(|(f64_, mpat, tsel, ssel, seed, neg, kind)| {
        let fmt = if f64_ { F64 } else { F32 };
        let one = BigUint::one();
        let mag = match kind {
            0 => {
                // boundaries
                let k = [24usize, 25, 53, 54, 63, 64, 65, 127, 128, 129, 1023, 1024, 1025, 0, 1][(seed % 15) as usize];
                let d = (seed >> 8) % 3;
                let b = &one << k;
                match d {
                    0 => b,
                    1 => &b + &one,
                    _ => &b - &one,
                }
            }
            1 => BigUint::from(seed >> (seed % 64)),
            2 => Nat(gen::expand(1 + (seed % 6) as usize, (seed >> 8) as u8, seed)).big(),
            3 => {
                // MAX + half ulp ± 1: 2^emax − 2^(emax−p−1) + {−1, 0, 1}
                let thr = (&one << fmt.emax as usize) - (&one << (fmt.emax - fmt.p - 1) as usize);
                match seed % 3 {
                    0 => thr,
                    1 => thr + &one,
                    _ => thr - &one,
                }
            }
            _ => int_near(fmt, mpat, tsel, ssel, seed, (fmt.emax - fmt.p + 2) as u64),
        };
        IntCase { v: Int { neg: neg && !mag.is_zero(), mag: Nat::from_big(&mag) } }
    })
}

/// Attribution of a wrong UBig/IBig::to_f32/to_f64 result.
/// (`to_f64_small` reporting Exact for 2^128 − 1 was fixed in /repo by 208cd09; witness kept under
/// /verif/regress/C06)
/// * C06/encode-sticky-bit-dropped reached through `to_f64_nontrivial` (63 top bits | sticky into
///   `f64::encode`): value and flag are what the model with the dropped bit predicts.
fn int_wrong(out: &mut Out, ctx: &Ctx, what: &str, c: &IntCase, o: &Obs, x: &Q) {
    let value_ok = value_matches(o, x);
    let detail = || format!("{} wrong: {}", if value_ok { "flag" } else { "value" }, describe(what, o, x));
    let mag = c.v.mag.big();
    let n = mag.bits() as i64;
    if o.fmt == F64 && n > 128 && n <= 1024 && ulps_off(o, x) <= 1 {
        let top63 = (&mag >> (n - 63) as usize).to_u128().unwrap();
        let low = !(&mag & ((BigUint::one() << (n - 63) as usize) - BigUint::one())).is_zero();
        let (mb, mo) = encode_model(top63 | low as u128, n - 63, F64, EncBugs { drop_bit: true, flush_binade: false });
        let flag = match mo {
            Ordering::Equal => None,
            Ordering::Greater => Some(!c.v.neg),
            Ordering::Less => Some(c.v.neg),
        };
        if mb == (o.bits & (F64.sign_mask() - 1)) && flag == o.flag {
            return ctx.known_or_fail(out, "C06/encode-sticky-bit-dropped", detail);
        }
    }
    out.fail(detail());
}

fn judge_int(out: &mut Out, ctx: &Ctx, what: &str, c: &IntCase, r: Result<Obs, String>, x: &Q) {
    match r {
        Err(m) => out.fail(format!("{what} panicked: {}", normalise(&m))),
        Ok(o) => {
            if !value_matches(&o, x) || !flag_matches(&o, x) {
                int_wrong(out, ctx, what, c, &o, x);
            }
            if o.flag.is_some() {
                out.nontrivial(true);
            }
        }
    }
}

/// TryFrom<big> for float: Ok(f) => f == x exactly; x representable => Ok, except that
/// `TryFrom<UBig/IBig>` is pinned by integer/tests/convert.rs to refuse everything above 2^p
/// (e.g. 0x1000002 -> Err(LossOfPrecision) for f32 although representable): above 2^p only
/// Ok => exact is asserted.
fn judge_try_float(out: &mut Out, what: &str, fmt: Fmt, r: Result<Result<u64, ConversionError>, String>, x: &Q, must_accept: bool) {
    let repr = is_representable(x, fmt);
    match r {
        Err(m) => out.fail(format!("{what} panicked: {} (x = {})", normalise(&m), show_q(x))),
        Ok(Ok(bits)) => {
            out.label("try_from:Ok");
            if fmt.is_nan(bits) || fmt.is_inf(bits) || fmt.exact(bits).as_ref() != Some(x) {
                out.fail(format!("{what} accepted a lossy conversion: x = {} -> Ok({})", show_q(x), fmt.show(bits)));
            }
        }
        Ok(Err(e)) => {
            out.label(match e {
                ConversionError::OutOfBounds => "try_from:Err(OutOfBounds)",
                ConversionError::LossOfPrecision => "try_from:Err(LossOfPrecision)",
            });
            if repr && must_accept {
                out.fail(format!("{what} refused an exactly representable value: x = {} -> Err({e:?})", show_q(x)));
            } else if repr {
                out.label("try_from:refused though representable (pinned by tests/convert.rs)");
            }
        }
    }
}

fn int_to_float(c: &IntCase, ctx: &Ctx) -> Out {
    let mut out = Out::new();
    let v = c.v.big();
    let x = Q::from_integer(v.clone());
    let bits = v.magnitude().bits();
    out.label(match bits {
        0..=24 => "int:<=24 bits",
        25..=53 => "int:25-53 bits",
        54..=64 => "int:54-64 bits",
        65..=128 => "int:65-128 bits (to_f*_small)",
        129..=1024 => "int:129-1024 bits (to_f64_nontrivial)",
        _ => "int:>1024 bits",
    });
    for fmt in [F32, F64] {
        out.label(if fmt == F32 { tie_label(&x, F32) } else { tie_label(&x, F64) });
    }
    out.label(range_label(&x, F64));
    let i = c.v.ibig();
    // IBig::as_ubig: a view of the magnitude, offered exactly for the non-negative values
    match catch(|| i.as_ubig().map(|u| u2n(u))) {
        Err(m) => out.fail(format!("IBig::as_ubig panicked: {}", normalise(&m))),
        Ok(got) => {
            let want = if c.v.neg { None } else { Some(v.magnitude().clone()) };
            out.check(got == want, || format!("IBig::as_ubig({v}) = {got:?}, want {want:?}"));
        }
    }
    judge_int(&mut out, ctx, "IBig::to_f32", c, catch(|| obs32(i.to_f32())), &x);
    judge_int(&mut out, ctx, "IBig::to_f64", c, catch(|| obs64(i.to_f64())), &x);
    let small32 = v.magnitude() <= &(BigUint::one() << 24usize);
    let small64 = v.magnitude() <= &(BigUint::one() << 53usize);
    judge_try_float(&mut out, "f32::try_from(IBig)", F32, catch(|| f32::try_from(i.clone()).map(|f| f.to_bits() as u64)), &x, small32);
    judge_try_float(&mut out, "f64::try_from(IBig)", F64, catch(|| f64::try_from(i.clone()).map(|f| f.to_bits())), &x, small64);
    if !c.v.neg {
        let u = c.v.mag.ubig();
        judge_int(&mut out, ctx, "UBig::to_f32", c, catch(|| obs32(u.to_f32())), &x);
        judge_int(&mut out, ctx, "UBig::to_f64", c, catch(|| obs64(u.to_f64())), &x);
        judge_try_float(&mut out, "f32::try_from(UBig)", F32, catch(|| f32::try_from(u.clone()).map(|f| f.to_bits() as u64)), &x, small32);
        judge_try_float(&mut out, "f64::try_from(UBig)", F64, catch(|| f64::try_from(u.clone()).map(|f| f.to_bits())), &x, small64);
        trait_route(&mut out, "UBig", catch(|| (num_traits::ToPrimitive::to_f32(&u).map(f32::to_bits), num_traits::ToPrimitive::to_f64(&u).map(f64::to_bits), u.to_f32().value().to_bits(), u.to_f64().value().to_bits())));
        int_route(&mut out, "UBig", &v, catch(|| (num_traits::ToPrimitive::to_i64(&u), num_traits::ToPrimitive::to_u64(&u), num_traits::ToPrimitive::to_i128(&u), num_traits::ToPrimitive::to_u128(&u))));
    }
    // the conversion traits of num-traits (cargo feature) are another public route to the same
    // conversions: the value judged above, wrapped in Some
    trait_route(&mut out, "IBig", catch(|| (num_traits::ToPrimitive::to_f32(&i).map(f32::to_bits), num_traits::ToPrimitive::to_f64(&i).map(f64::to_bits), i.to_f32().value().to_bits(), i.to_f64().value().to_bits())));
    int_route(&mut out, "IBig", &v, catch(|| (num_traits::ToPrimitive::to_i64(&i), num_traits::ToPrimitive::to_u64(&i), num_traits::ToPrimitive::to_i128(&i), num_traits::ToPrimitive::to_u128(&i))));
    out
}

fn trait_route(out: &mut Out, ty: &str, got: Result<(Option<u32>, Option<u64>, u32, u64), String>) {
    match got {
        Ok((t32, t64, i32_, i64_)) => {
            out.check(t32 == Some(i32_), || format!("num_traits::ToPrimitive::to_f32 for {ty} = {t32:x?}, the inherent to_f32 gives {i32_:#x}"));
            out.check(t64 == Some(i64_), || format!("num_traits::ToPrimitive::to_f64 for {ty} = {t64:x?}, the inherent to_f64 gives {i64_:#x}"));
        }
        Err(m) => out.fail(format!("num_traits::ToPrimitive float conversions for {ty} panicked: {}", normalise(&m))),
    }
}

fn int_route(out: &mut Out, ty: &str, v: &BigInt, got: Result<(Option<i64>, Option<u64>, Option<i128>, Option<u128>), String>) {
    use num_traits::ToPrimitive;
    match got {
        Ok((a, b, c, d)) => {
            out.check(a == v.to_i64() && b == v.to_u64() && c == v.to_i128() && d == v.to_u128(), || {
                format!("num_traits::ToPrimitive integer conversions for {ty} {}: to_i64 {a:?}, to_u64 {b:?}, to_i128 {c:?}, to_u128 {d:?}; want {:?}, {:?}, {:?}, {:?}", show_i(v), v.to_i64(), v.to_u64(), v.to_i128(), v.to_u128())
            });
        }
        Err(m) => out.fail(format!("num_traits::ToPrimitive integer conversions for {ty} panicked: {}", normalise(&m))),
    }
}

// =============================================================================================
// rational_to_float: RBig/Relaxed::to_f32/to_f64 (RNE, truthful flag), *_fast (documented bound),
// TryFrom<RBig/Relaxed> for f32/f64
// =============================================================================================

/// What `Repr::to_f32/to_f64` in rational/src/convert.rs computes, with a *correct* encode unless
/// `bugs` says otherwise: quotient rounded to an integer of p or p+1 bits, then encoded (second
/// rounding).  Returns (magnitude bits, error of the magnitude: None exact / Some(true) too large).
fn rbig_two_step_model(x: &Q, stored: &(u64, u64), fmt: Fmt, bugs: EncBugs, coded_cutoff: bool) -> (u64, Option<bool>) {
    let a = x.abs();
    // bit lengths of the stored (Relaxed: possibly unreduced) numerator and denominator
    let shift = stored.0 as i64 - stored.1 as i64 - fmt.p;
    if shift >= fmt.emax {
        return (fmt.inf_bits(), Some(true));
    }
    // to_f32 flushes below shift -149-25 (right: the quotient has at most 25 bits); to_f64 is coded
    // with -1074-53 although its quotient has up to 54 bits
    let cutoff = if fmt == F32 { -149 - 25 } else if coded_cutoff { -1074 - 53 } else { -1074 - 54 };
    if shift < cutoff {
        return (0, Some(false));
    }
    let scaled = mul_pow2(&a, -shift);
    let man = round_rational(&scaled, Mode::HalfEven);
    let e1 = match Q::from_integer(man.clone()).cmp(&scaled) {
        Ordering::Equal => None,
        Ordering::Greater => Some(true),
        Ordering::Less => Some(false),
    };
    let (mb, mo) = encode_model(man.to_u128().unwrap(), shift, fmt, bugs);
    let flag = match mo {
        Ordering::Equal => e1,
        Ordering::Greater => Some(true),
        Ordering::Less => Some(false),
    };
    (mb, flag)
}

fn rat_wrong(out: &mut Out, ctx: &Ctx, what: &str, o: &Obs, x: &Q, stored: &(u64, u64)) {
    let got = o.bits & (o.fmt.sign_mask() - 1);
    let neg = x.is_negative();
    let sign_ok = neg == o.fmt.neg(o.bits) || got == 0;
    let off = ulps_off(o, x);
    let value_ok = value_matches(o, x);
    let detail = || format!("{} wrong ({off} ulp): {}", if value_ok { "flag" } else { "value" }, describe(what, o, x));
    if sign_ok && off <= 1 && !o.fmt.is_nan(o.bits) {
        let mc = |b: EncBugs, coded: bool| {
            let (mb, mf) = rbig_two_step_model(x, stored, o.fmt, b, coded);
            mb == got && mf.map(|up| up != neg) == o.flag
        };
        let m = |b: EncBugs| mc(b, true);
        if o.fmt == F64 && m(EncBugs::default()) && !mc(EncBugs::default(), false) {
            // C06/rbig-to-f64-underflow-cutoff: `shift < -1074 - 53` returns 0 for a 54-bit quotient
            // at shift -1128, i.e. for values up to 2^-1074 (everything above 2^-1075 must round up)
            return ctx.known_or_fail(out, "C06/rbig-to-f64-underflow-cutoff", detail);
        }
        if m(EncBugs::default()) {
            // C06/rbig-to-float-double-rounding: the quotient is rounded to an integer (p or p+1
            // bits, or more than the subnormal result keeps) before `encode` rounds again
            return ctx.known_or_fail(out, "C06/rbig-to-float-double-rounding", detail);
        }
        if m(EncBugs { flush_binade: true, drop_bit: false }) {
            return ctx.known_or_fail(out, "C06/encode-underflow-threshold", detail);
        }
        if m(EncBugs { flush_binade: false, drop_bit: true }) || m(EncBugs { flush_binade: true, drop_bit: true }) {
            return ctx.known_or_fail(out, "C06/encode-sticky-bit-dropped", detail);
        }
    }
    out.fail(detail());
}

fn judge_rat(out: &mut Out, ctx: &Ctx, what: &str, r: Result<Obs, String>, x: &Q, stored: &(u64, u64)) {
    match r {
        Err(m) => rat_panic(out, ctx, what, &m, x),
        Ok(o) => {
            if !value_matches(&o, x) || !flag_matches(&o, x) {
                rat_wrong(out, ctx, what, &o, x, stored);
            }
            if o.flag.is_some() {
                out.nontrivial(true);
            }
        }
    }
}

fn rat_panic(out: &mut Out, _ctx: &Ctx, what: &str, m: &str, x: &Q) {
    out.fail(format!("{what} panicked: {} (x = {})", normalise(m), show_q(x)));
}

/// What `Repr::to_f32_fast/to_f64_fast` compute: numerator truncated (or extended) to 2p bits,
/// denominator to p bits, integer quotient rounded to nearest-even, then encode.
fn fast_model(stored: &(BigUint, BigUint), fmt: Fmt) -> u64 {
    let (n, d) = stored;
    if n.is_zero() {
        return 0;
    }
    let sh = |v: &BigUint, k: i64| if k >= 0 { v >> k as usize } else { v << (-k) as usize };
    let ns = n.bits() as i64 - 2 * fmt.p;
    let ds = d.bits() as i64 - fmt.p;
    let (num, den) = (sh(n, ns), sh(d, ds));
    let exponent = ns - ds;
    if exponent >= fmt.emax {
        return fmt.inf_bits();
    }
    if exponent < fmt.qmin - fmt.p - 1 {
        return 0;
    }
    let (mut man, r) = num.div_rem(&den);
    let half = (&r << 1usize).cmp(&den);
    if half == Ordering::Greater || (half == Ordering::Equal && man.bit(0)) {
        man += BigUint::one();
    }
    encode_model(man.to_u128().unwrap(), exponent, fmt, EncBugs::default()).0
}

/// `to_f32_fast`/`to_f64_fast`: "in rare cases the mantissa can be off by one bit"
fn judge_fast(out: &mut Out, ctx: &Ctx, what: &str, fmt: Fmt, r: Result<u64, String>, x: &Q, stored: &(BigUint, BigUint)) {
    match r {
        Err(m) => out.fail(format!("{what} panicked: {} (x = {})", normalise(&m), show_q(x))),
        Ok(bits) => {
            if fmt.is_nan(bits) {
                return out.fail(format!("{what} returned NaN for x = {}", show_q(x)));
            }
            let o = Obs { fmt, bits, flag: None };
            let off = ulps_off(&o, x);
            out.label(match off {
                0 => "fast:correctly rounded",
                1 => "fast:one ulp off (allowed)",
                _ => "fast:more than one ulp off",
            });
            if off > 1 {
                let detail = || format!("more than the documented one bit off ({off} ulp): {}", describe(what, &o, x));
                // C06/to-float-fast-beyond-one-bit: truncating the denominator to p bits alone costs up
                // to two units of the quotient
                let truncated = stored.1.bits() as i64 > fmt.p;
                if off <= 3 && truncated && fast_model(stored, fmt) == (bits & (fmt.sign_mask() - 1)) && (bits & (fmt.sign_mask() - 1) == 0 || fmt.neg(bits) == x.is_negative()) {
                    ctx.known_or_fail(out, "C06/to-float-fast-beyond-one-bit", detail);
                } else {
                    out.fail(detail());
                }
            }
        }
    }
}

fn rational_to_float(c: &RatCase, ctx: &Ctx) -> Out {
    let mut out = Out::new();
    let x = c.q();
    let (r, l) = match catch(|| (c.rbig(), c.relaxed())) {
        Ok(v) => v,
        Err(m) => {
            out.fail(format!("RBig/Relaxed::from_parts panicked: {}", normalise(&m)));
            return out;
        }
    };
    out.nontrivial(!x.is_integer());
    for fmt in [F32, F64] {
        if !x.is_zero() {
            let a = x.abs();
            let shift = a.numer().bits() as i64 - a.denom().bits() as i64 - fmt.p;
            let qbits = round_rational(&mul_pow2(&a, -shift), Mode::Zero).bits() as i64;
            out.label(match (fmt == F32, qbits - fmt.p) {
                (true, 0) => "quotient:24 bits",
                (true, _) => "quotient:25 bits (second rounding in encode)",
                (false, 0) => "quotient:53 bits",
                (false, _) => "quotient:54 bits (second rounding in encode)",
            });
        }
    }
    out.label(range_label(&x, F32));
    out.label(range_label(&x, F64));
    out.label(tie_label(&x, F64));
    let sr = (u2n(&r.numerator().clone().into_parts().1).bits(), u2n(r.denominator()).bits());
    let sl = (u2n(&l.numerator().clone().into_parts().1).bits(), u2n(l.denominator()).bits());
    judge_rat(&mut out, ctx, "RBig::to_f32", catch(|| obs32(r.to_f32())), &x, &sr);
    judge_rat(&mut out, ctx, "RBig::to_f64", catch(|| obs64(r.to_f64())), &x, &sr);
    judge_rat(&mut out, ctx, "Relaxed::to_f32", catch(|| obs32(l.to_f32())), &x, &sl);
    judge_rat(&mut out, ctx, "Relaxed::to_f64", catch(|| obs64(l.to_f64())), &x, &sl);
    let pr = (u2n(&r.numerator().clone().into_parts().1), u2n(r.denominator()));
    let pl = (u2n(&l.numerator().clone().into_parts().1), u2n(l.denominator()));
    judge_fast(&mut out, ctx, "RBig::to_f32_fast", F32, catch(|| r.to_f32_fast().to_bits() as u64), &x, &pr);
    judge_fast(&mut out, ctx, "RBig::to_f64_fast", F64, catch(|| r.to_f64_fast().to_bits()), &x, &pr);
    judge_fast(&mut out, ctx, "Relaxed::to_f32_fast", F32, catch(|| l.to_f32_fast().to_bits() as u64), &x, &pl);
    judge_fast(&mut out, ctx, "Relaxed::to_f64_fast", F64, catch(|| l.to_f64_fast().to_bits()), &x, &pl);
    try_float_from_rat(&mut out, ctx, "f32::try_from(RBig)", F32, catch(|| f32::try_from(r.clone()).map(|f| f.to_bits() as u64)), &x);
    try_float_from_rat(&mut out, ctx, "f64::try_from(RBig)", F64, catch(|| f64::try_from(r.clone()).map(|f| f.to_bits())), &x);
    try_float_from_rat(&mut out, ctx, "f32::try_from(Relaxed)", F32, catch(|| f32::try_from(l.clone()).map(|f| f.to_bits() as u64)), &x);
    try_float_from_rat(&mut out, ctx, "f64::try_from(Relaxed)", F64, catch(|| f64::try_from(l.clone()).map(|f| f.to_bits())), &x);
    out
}

/// C06/float-from-rbig-numerator-unwrap: `TryFrom<RBig> for f32/f64` passes the whole numerator to
/// `encode` through `try_into().unwrap()` (i32/i64): panics for every dyadic value whose numerator
/// does not fit, representable (2^40) or not.
fn try_float_from_rat(out: &mut Out, ctx: &Ctx, what: &str, fmt: Fmt, r: Result<Result<u64, ConversionError>, String>, x: &Q) {
    if let Err(m) = &r {
        let nm = normalise(m);
        let lim = if fmt == F32 { 31 } else { 63 };
        let top = x.numer().magnitude().bits() as i64 - (x.denom().magnitude().bits() as i64 - 1);
        let dyadic = x.denom().magnitude().count_ones() == 1;
        // the coded range test lets the value through: lb <= top <= ub
        if nm.contains("called `Result::unwrap()` on an `Err` value: OutOfBounds") && nm.contains("rational/src/convert.rs") && dyadic && x.numer().magnitude().bits() > lim && top <= fmt.emax && top >= fmt.qmin {
            return ctx.known_or_fail(out, "C06/float-from-rbig-numerator-unwrap", || format!("{what} panicked: {nm} (x = {})", show_q(x)));
        }
        // the numerator fits and goes to encode(numerator, -log2(denominator))
        if dyadic && x.numer().magnitude().bits() <= lim + 1 {
            if let Some(id) = encode_panic_id(fmt, x.numer().magnitude().to_u128().unwrap(), -(x.denom().magnitude().bits() as i64 - 1), &nm) {
                return ctx.known_or_fail(out, id, || format!("{what} panicked: {nm} (x = {})", show_q(x)));
            }
        }
    }
    if accepted_through_encode(out, ctx, what, fmt, &r, x, x) {
        return;
    }
    judge_try_float(out, what, fmt, r, x, true);
}

// =============================================================================================
// fbig_to_float: FBig<R,B>::to_f32 (mode of the type) / to_f64 (HalfEven, as documented),
// Repr<B>::to_f32/to_f64 (HalfEven), TryFrom<FBig<R,2>/Repr<2>> for f32/f64
// =============================================================================================

#[derive(Debug, Clone, Hash, Serialize, Deserialize)]
struct FlCase {
    x: Fl,
    /// precision of the FBig = digits of the significand + extra
    extra: u8,
}

fn pow_big(base: u64, k: u64) -> BigUint {
    bpow(base, k)
}

/// sig·base^exp for a value aimed at the IEEE rounding boundaries (exact dyadic values where the
/// base can hold them, ± one unit far below), plus base-native values of assorted exponents.
fn fl_case(base: u64) -> impl Strategy<Value = FlCase> {
    (any::<bool>(), any::<u16>(), 0u8..8, any::<u16>(), any::<u64>(), any::<bool>(), 0u8..12, 0u8..4).prop_map(move |(f64_, qsel, mpat, fsel, seed, neg, kind, extra)| {
        let mut r = SplitMix(seed ^ 0xabcdef);
        let fmt = if f64_ { F64 } else { F32 };
        let (mut sig, mut exp): (BigUint, i64);
        let native = |r: &mut SplitMix| -> (BigUint, i64) {
            let k = [1u64, 2, 5, 8, 16, 17, 20, 40][r.below(8) as usize];
            let s = sig_pattern(base, k, (r.next() % 9) as u8, r.next());
            let lb = (base as f64).log2();
            let span = |bits: f64| (bits / lb) as i64;
            let e = match r.below(10) {
                0 => 0,
                1 | 2 => r.below(39) as i64,               // convert_base: small non-negative exponent
                3 | 4 => -(1 + r.below(38) as i64),        // convert_base: small negative exponent (repr_div)
                5 => 39 + r.below(span(1030.0).max(1) as u64) as i64,
                6 => -39 - r.below(span(1140.0).max(1) as u64) as i64,
                7 => span(fmt.emax as f64) - k as i64 + r.below(3) as i64 - 1, // around the overflow threshold
                8 => span(fmt.qmin as f64) - k as i64 + r.below(4) as i64 - 2, // around the quantum
                _ => span((fmt.qmin + fmt.p) as f64) - k as i64 + r.below(4) as i64 - 2, // normal/subnormal border
            };
            (s, e)
        };
        if kind < 4 || (base == 3 && kind < 9) {
            let (s, e) = native(&mut r);
            sig = s;
            exp = e;
        } else {
            // exact dyadic value num / 2^k
            let (num, den, _) = near_value(fmt, qsel, mpat, fsel, seed, true);
            let k = den.bits() as i64 - 1;
            match base {
                2 => {
                    sig = num;
                    exp = -k;
                }
                16 => {
                    let e16 = (-k).div_euclid(4);
                    sig = num << ((-k) - 4 * e16) as usize;
                    exp = e16;
                }
                10 if k <= 1300 => {
                    sig = num * pow_big(5, k as u64);
                    exp = -k;
                    // perturb far below: ± 1 unit at j further digits
                    let j = [0u64, 0, 1, 3, 20][r.below(5) as usize];
                    if j > 0 {
                        sig = sig * pow_big(10, j);
                        if r.next() & 1 == 0 {
                            sig += BigUint::one();
                        } else if !sig.is_zero() {
                            sig -= BigUint::one();
                        }
                        exp -= j as i64;
                    }
                }
                _ if k == 0 => {
                    sig = num;
                    exp = 0;
                }
                _ => {
                    let (s, e) = native(&mut r);
                    sig = s;
                    exp = e;
                }
            }
        }
        if sig.is_zero() {
            exp = 0;
        }
        let _ = &mut sig;
        let n = if neg { -BigInt::from(sig) } else { BigInt::from(sig) };
        FlCase { x: fl_from(&n, exp), extra }
    })
}

fn fl_precision(c: &FlCase, base: u64) -> usize {
    (c.x.digits(base) as usize).max(1) + c.extra as usize
}

/// documented rule for `Rounded<f32/f64>`: only AddOne => result > exact, SubOne => result < exact,
/// Exact <=> equal
fn rounded_flag_ok(o: &ObsR, x: &Q) -> bool {
    let ord = o.fmt.cmp_x(o.bits, x);
    match o.flag {
        None => ord == Ordering::Equal,
        Some(Rounding::AddOne) => ord == Ordering::Greater,
        Some(Rounding::SubOne) => ord == Ordering::Less,
        Some(Rounding::NoOp) => ord != Ordering::Equal,
    }
}

fn describe_r(what: &str, o: &ObsR, x: &Q, mode: Mode, xs: &str) -> String {
    let rd = ieee_round(x, o.fmt, mode);
    let want = rd.bits(o.fmt);
    let off = if o.fmt.is_nan(o.bits) { -1 } else { (o.fmt.ord(o.bits) - o.fmt.ord(want)).abs() };
    format!(
        "{what} ({}): x = {xs}, got {} flag {:?}, correctly rounded = {}{} ({off} ulp apart), sign(got - x) = {:?}",
        mode.name(),
        o.fmt.show(o.bits),
        o.flag,
        o.fmt.show(want),
        if rd.overflow { " [overflow]" } else { "" },
        if o.fmt.is_nan(o.bits) { Ordering::Equal } else { o.fmt.cmp_x(o.bits, x) }
    )
}

/// value check under `mode`. Overflow (the rounded value would be >= 2^emax): ±inf is accepted
/// (documented: "might return an infinity"), and so is ±MAX when the mode rounds towards zero there.
fn rounded_value_ok(o: &ObsR, x: &Q, mode: Mode) -> bool {
    let fmt = o.fmt;
    if fmt.is_nan(o.bits) {
        return false;
    }
    let rd = ieee_round(x, fmt, mode);
    if rd.overflow {
        let neg = x.is_negative();
        if fmt.is_inf(o.bits) && fmt.neg(o.bits) == neg {
            return true;
        }
        let toward_zero = matches!((mode, neg), (Mode::Zero, _) | (Mode::Down, false) | (Mode::Up, true));
        let max = fmt.inf_bits() - 1;
        return toward_zero && (o.bits & (fmt.sign_mask() - 1)) == max && fmt.neg(o.bits) == neg;
    }
    fmt.ord(rd.bits(fmt)) == fmt.ord(o.bits)
}

struct FbigSite<'a> {
    what: &'a str,
    base: u64,
    mode: Mode,
    /// mode used for the first step (rounding to p bits) by the implementation
    exp: i64,
    xs: String,
}

/// x rounded to p significant bits under `mode`, exponent unbounded: (n, q) with value n·2^q
fn round_to_bits(x: &Q, p: i64, mode: Mode) -> (BigInt, i64) {
    if x.is_zero() {
        return (BigInt::zero(), 0);
    }
    let q = floor_log2(&x.abs()) - (p - 1);
    (round_rational(&mul_pow2(x, -q), mode), q)
}

fn pow2_base(base: u64) -> bool {
    base.is_power_of_two()
}

fn fbig_wrong(out: &mut Out, ctx: &Ctx, site: &FbigSite, o: &ObsR, x: &Q) {
    let fmt = o.fmt;
    let value_ok = rounded_value_ok(o, x, site.mode);
    let detail = || format!("{} wrong: {} [base {}, exponent {}]", if value_ok { "flag" } else { "value" }, describe_r(site.what, o, x, site.mode, &site.xs), site.base, site.exp);
    if fmt.is_nan(o.bits) {
        return out.fail(detail());
    }
    let gotmag = o.bits & (fmt.sign_mask() - 1);
    let sign_ok = gotmag == 0 || fmt.neg(o.bits) == x.is_negative();
    // float/src/convert.rs: the value is first brought to p bits in base 2 under the documented
    // mode (exponent unbounded) — exactly (repr_round, repr_div) unless convert_base takes its
    // ln/exp route —, then `into_f32/f64_internal` hands it to `encode`, which rounds again,
    // to nearest-even, when the result is below the normal range.
    let large_path = !pow2_base(site.base) && site.exp.abs() > 38;
    let correct_first = round_to_bits(x, fmt.p, site.mode);
    let below_normal = correct_first.0.magnitude().bits() as i64 + correct_first.1 <= fmt.qmin + fmt.p - 1;
    let mut firsts = vec![(correct_first.clone(), true)];
    if large_path {
        // the p-bit result of the approximation: the correctly rounded value or an adjacent one
        let (mut n, mut q) = correct_first.clone();
        if n.magnitude().bits() as i64 > fmt.p {
            n /= 2; // rounding carried into the next binade: n = ±2^p
            q += 1;
        }
        let sgn = if n.is_negative() { -1 } else { 1 };
        firsts.push(((&n + BigInt::from(sgn), q), false));
        if n.magnitude().is_one() || n.magnitude().bits() as i64 == fmt.p && n.magnitude().count_ones() == 1 {
            // lower neighbour of a power of two lies in the binade below
            firsts.push(((&n * 2 - BigInt::from(sgn), q - 1), false));
        } else {
            firsts.push(((&n - BigInt::from(sgn), q), false));
        }
    }
    if sign_ok {
        // explanations without an `encode` defect are tried first, for every candidate of the first step
        let bug_sets = [
            (EncBugs::default(), ""),
            (EncBugs { flush_binade: true, drop_bit: false }, "C06/encode-underflow-threshold"),
            (EncBugs { flush_binade: false, drop_bit: true }, "C06/encode-sticky-bit-dropped"),
            (EncBugs { flush_binade: true, drop_bit: true }, "C06/encode-sticky-bit-dropped"),
        ];
        for (bugs, bug_id) in bug_sets {
            for ((n, q), is_correct) in &firsts {
                let y = mul_pow2(&Q::from_integer(n.clone()), *q);
                let f1 = match y.cmp(x) {
                    Ordering::Equal => None,
                    Ordering::Greater => Some(Rounding::AddOne),
                    Ordering::Less => Some(Rounding::SubOne),
                };
                let (mb, mo) = encode_model(n.magnitude().to_u128().unwrap(), *q, fmt, bugs);
                if !(mb == gotmag && (large_path || o.flag == if mo != Ordering::Equal { Some(Rounding::NoOp) } else { f1 })) {
                    continue;
                }
                let id = if bugs != EncBugs::default() {
                    Some(bug_id)
                } else if !*is_correct || large_path && (!below_normal || value_ok) {
                    // C06/convert-base-large-exp-approximate: |exponent| > 38 goes through ln/exp at twice
                    // the precision: last bit and flag are those of an approximation
                    Some("C06/convert-base-large-exp-approximate")
                } else if below_normal {
                    Some("C06/fbig-to-float-subnormal-second-rounding")
                } else {
                    None
                };
                if let Some(id) = id {
                    return ctx.known_or_fail(out, id, detail);
                }
            }
        }
    }
    out.fail(detail());
}

fn fbig_panic(out: &mut Out, ctx: &Ctx, site: &FbigSite, m: &str, sig: &BigInt, p: i64) {
    let nm = normalise(m);
    let detail = || format!("{} panicked: {nm} [base {}, x = {}]", site.what, site.base, site.xs);
    let wide_assert = nm.contains("assertion failed: self.significand.bit_len() <= #") && nm.contains("float/src/convert.rs");
    let e = site.exp;
    // (two more panics of this family, "B is a power of NewB" and 0 <= exponent <= 38 returning
    // unrounded significands, were fixed in /repo by 30a31de and 975ab67; their witnesses are kept
    // as regression cases under /verif/regress/C06)
    if !pow2_base(site.base) && (-38..0).contains(&e) {
        // -38 <= exponent < 0 calls repr_div(significand, B^-exponent) in base 2 at precision p
        let odd = |n: &BigUint| if n.is_zero() { n.clone() } else { n >> n.trailing_zeros().unwrap() as usize };
        let n = odd(sig.magnitude());
        let d = odd(&bpow(site.base, (-e) as u64));
        let (nb, db) = (n.bits() as i64, d.bits() as i64);
        if nm.contains("assertion failed: lhs.digits() <= self.precision + rhs.digits()") && nm.contains("float/src/div.rs") && nb > p + db {
            // C06/convert-base-div-wide-significand: repr_div's precondition
            // lhs.digits() <= precision + rhs.digits() is not established by the caller
            return ctx.known_or_fail(out, "C06/convert-base-div-wide-significand", detail);
        }
        // C06/fbig-to-float-quotient-extra-bit: repr_div returns a quotient of p+1 bits — in its
        // "quotient is zero" branch (numerator shifted to bits(d) + p bits) and when the numerator
        // has exactly p + bits(d) bits —; into_f32/f64_internal assumes <= p (debug assertion;
        // without it `encode` rounds a second time)
        let q0 = &n / &d;
        let qb = if q0.is_zero() {
            ((&n << (db + p - nb) as usize) / &d).bits() as i64
        } else if (q0.bits() as i64) < p {
            p
        } else {
            q0.bits() as i64
        };
        if wide_assert && nb <= p + db && qb > p {
            return ctx.known_or_fail(out, "C06/fbig-to-float-quotient-extra-bit", detail);
        }
    }
    out.fail(detail());
}

fn judge_rounded(out: &mut Out, ctx: &Ctx, site: &FbigSite, r: Result<ObsR, String>, x: &Q, sig: &BigInt, o_p: i64) {
    match r {
        Err(m) => fbig_panic(out, ctx, site, &m, sig, o_p),
        Ok(o) => {
            if !rounded_value_ok(&o, x, site.mode) || !rounded_flag_ok(&o, x) {
                fbig_wrong(out, ctx, site, &o, x);
            }
            if o.flag.is_some() {
                out.nontrivial(true);
            }
        }
    }
}

fn fbig_to_float<R: ModeTag, const B: Word>(c: &FlCase, ctx: &Ctx) -> Out {
    let mut out = Out::new();
    let base = B as u64;
    let sci = c.x.sci(base);
    let x = sci.to_rational();
    let xs = sci.show();
    let prec = fl_precision(c, base);
    let f: FBig<R, B> = match catch(|| c.x.fbig::<R, B>(prec)) {
        Ok(f) => f,
        Err(m) => {
            out.fail(format!("FBig::from_repr panicked: {}", normalise(&m)));
            return out;
        }
    };
    let rp = f.repr().clone();
    let e = rp.exponent() as i64;
    out.label(if B == 2 || B == 16 {
        "path:power-of-two base (exact re-expression, repr_round)"
    } else if e == 0 {
        "path:exponent 0"
    } else if (1..=38).contains(&e) {
        "path:convert_base small positive exponent"
    } else if (-38..0).contains(&e) {
        "path:convert_base small negative exponent (repr_div)"
    } else {
        "path:convert_base large exponent (ln/exp)"
    });
    out.label(range_label(&x, F32));
    out.label(range_label(&x, F64));
    out.label(tie_label(&x, F32));
    out.label(tie_label(&x, F64));
    out.nontrivial(true); // crosses a type family
    let site = |what: &'static str, mode: Mode| FbigSite { what, base, mode, exp: e, xs: xs.clone() };
    let sig = i2n(rp.significand());
    judge_rounded(&mut out, ctx, &site("FBig::to_f32", R::MODE), catch(|| obsr32(f.to_f32())), &x, &sig, 24);
    judge_rounded(&mut out, ctx, &site("FBig::to_f64", Mode::HalfEven), catch(|| obsr64(f.to_f64())), &x, &sig, 53);
    judge_rounded(&mut out, ctx, &site("Repr::to_f32", Mode::HalfEven), catch(|| obsr32(rp.to_f32())), &x, &sig, 24);
    judge_rounded(&mut out, ctx, &site("Repr::to_f64", Mode::HalfEven), catch(|| obsr64(rp.to_f64())), &x, &sig, 53);
    if B == 2 {
        let f2: FBig<R, 2> = c.x.fbig::<R, 2>(prec);
        let r2 = f2.repr().clone();
        let tf = |out: &mut Out, what: &str, fmt: Fmt, mode: Mode, r: Result<Result<u64, ConversionError>, String>| {
            let (n, q) = round_to_bits(&x, fmt.p, mode);
            let y = mul_pow2(&Q::from_integer(n), q);
            if !accepted_through_encode(out, ctx, what, fmt, &r, &x, &y) {
                judge_try_float(out, what, fmt, r, &x, true);
            }
        };
        tf(&mut out, "f32::try_from(FBig<R,2>)", F32, R::MODE, catch(|| f32::try_from(f2.clone()).map(|v| v.to_bits() as u64)));
        tf(&mut out, "f64::try_from(FBig<R,2>)", F64, Mode::HalfEven, catch(|| f64::try_from(f2.clone()).map(|v| v.to_bits())));
        tf(&mut out, "f32::try_from(Repr<2>)", F32, Mode::HalfEven, catch(|| f32::try_from(r2.clone()).map(|v| v.to_bits() as u64)));
        tf(&mut out, "f64::try_from(Repr<2>)", F64, Mode::HalfEven, catch(|| f64::try_from(r2.clone()).map(|v| v.to_bits())));
    }
    out
}

// =============================================================================================
// rbig_to_float: RBig/Relaxed::to_float::<R,B>(p) — six-clause contract at precision p
// =============================================================================================

#[derive(Debug, Clone, Hash, Serialize, Deserialize)]
struct ToFloatCase {
    num: Int,
    den: Nat,
    p: u32,
}

fn to_float_case(base: u64) -> impl Strategy<Value = ToFloatCase> {
    let prec = prop_oneof![3 => Just(1u32), 3 => Just(2u32), 2 => Just(3u32), 6 => 4u32..=10, 4 => 11u32..=40, 1 => Just(64u32), 1 => 65u32..=100];
    (prec, 0u8..9, any::<u64>(), any::<bool>(), 0u8..10, -30i64..=30, 0u8..8).prop_map(move |(p, pat, seed, neg, dsel, e, kind)| {
        let mut r = SplitMix(seed ^ 0x77);
        // x = (m·D + j)/D · base^e,  m with p digits, j/D near 0, 1/2, 1
        let m = sig_pattern(base, p as u64, pat, seed);
        let ds: [BigUint; 10] = [
            BigUint::one(),
            BigUint::from(2u8),
            BigUint::from(2u8) * pow_big(base, 1 + r.below(3 * p as u64 + 3)),
            BigUint::from(3u8),
            BigUint::from(7u8),
            pow_big(base, 1 + r.below(p as u64 + 2)),
            BigUint::from(2u8) * pow_big(base, 1),
            BigUint::from(r.next() | 1),
            rand_big(&mut r, 130) | BigUint::one(),
            BigUint::from(6u8),
        ];
        let d = ds[dsel as usize % 10].clone();
        let half = &d >> 1usize;
        let one = BigUint::one();
        let j = match kind {
            0 => BigUint::zero(),
            1 | 2 => half.clone(),
            3 => &half + &one,
            4 => {
                if half.is_zero() {
                    half.clone()
                } else {
                    &half - &one
                }
            }
            5 => one.clone(),
            6 => &d - &one,
            _ => rand_big(&mut r, 140) % &d,
        };
        let j = j % &d;
        // zero has its own branch in Repr::to_float (returns 0 at the requested precision)
        let mut num = if kind == 0 && seed % 16 == 0 { BigUint::zero() } else { m * &d + j };
        let mut den = d;
        if e >= 0 {
            num *= pow_big(base, e as u64);
        } else {
            den *= pow_big(base, (-e) as u64);
        }
        ToFloatCase { num: Int { neg: neg && !num.is_zero(), mag: Nat::from_big(&num) }, den: Nat::from_big(&den), p }
    })
}

/// C06/rbig-to-fbig-double-rounding: `Repr::to_float` (rational/src/third_party/dashu_float.rs)
/// scales by B^shift with shift from floor-logarithms, so the integer quotient has p or p+1
/// digits; it is rounded to an integer and `convert_int` rounds again to p digits.
fn to_float_wrong(out: &mut Out, ctx: &Ctx, what: &str, truth: &Truth, res: &Res, p: u64, mode: Mode, broken: &[Broken], parts: &(BigInt, BigUint), x: &Q) {
    let base = res.val.base;
    if mode.is_half() && !parts.0.is_zero() && broken.iter().all(|b| b.clause == "error-bound" || b.clause == "representable") {
        let nd = digits(parts.0.magnitude(), base) - 1;
        let dd = digits(&parts.1, base) - 1;
        let shift = if nd >= p + dd { 0 } else { p + dd - nd };
        let scaled = x * Q::from_integer(BigInt::from(bpow(base, shift)));
        let q1 = round_rational(&scaled, mode);
        let d1 = digits(q1.magnitude(), base);
        if d1 > p {
            let unit = Q::from_integer(BigInt::from(bpow(base, d1 - p)));
            let q2 = round_rational(&(Q::from_integer(q1.clone()) / &unit), mode);
            let model = Q::from_integer(q2) * unit / Q::from_integer(BigInt::from(bpow(base, shift)));
            if res.val.to_rational() == model {
                return ctx.known_or_fail(out, "C06/rbig-to-fbig-double-rounding", || format!("{what} (base {base}, {}, p={p}): true = {}, got = {}", mode.name(), truth.show(), res.val.show()));
            }
        }
    }
    report(out, what, truth, res, p, mode, broken);
}

fn rbig_to_float<R: ModeTag, const B: Word>(c: &ToFloatCase, ctx: &Ctx) -> Out {
    let mut out = Out::new();
    let base = B as u64;
    let x = Q::new(c.num.big(), BigInt::from(c.den.big()));
    let truth = Truth::Val(Sci::from_rational(&x, base));
    let p = c.p as u64;
    out.label(match c.p {
        1 => "p:1",
        2 => "p:2",
        3 => "p:3",
        4..=10 => "p:4-10",
        11..=40 => "p:11-40",
        _ => "p:>40",
    });
    let r = RBig::from_parts(c.num.ibig(), c.den.ubig());
    let l = Relaxed::from_parts(c.num.ibig(), c.den.ubig());
    let mut inexact = false;
    let parts_r = (i2n(r.numerator()), u2n(r.denominator()));
    let parts_l = (i2n(l.numerator()), u2n(l.denominator()));
    let runs: [(&str, Result<Rounded<FBig<R, B>>, String>, &(BigInt, BigUint)); 2] = [("RBig::to_float", catch(|| r.to_float::<R, B>(c.p as usize)), &parts_r), ("Relaxed::to_float", catch(|| l.to_float::<R, B>(c.p as usize)), &parts_l)];
    for (what, got, parts) in runs {
        match got {
            Err(m) => out.fail(format!("{what}::<{}, {base}>({p}) panicked: {} (x = {})", R::MODE.name(), normalise(&m), show_q(&x))),
            Ok(rounded) => match res_of(&rounded) {
                Err(e) => out.fail(format!("{what}: {e}")),
                Ok(res) => {
                    inexact |= res.flag.is_some();
                    let broken = contract(&truth, &res, p, R::MODE);
                    if !broken.is_empty() {
                        to_float_wrong(&mut out, ctx, what, &truth, &res, p, R::MODE, &broken, parts, &x);
                    }
                }
            },
        }
    }
    out.label(if inexact { "inexact" } else { "exact" });
    out.nontrivial(true);
    out
}

// =============================================================================================
// to_int: FBig::to_int (mode of the type), Repr::to_int (truncation), RBig/Relaxed::to_int
// =============================================================================================

fn to_int_case(base: u64) -> impl Strategy<Value = FlCase> {
    (0u8..9, any::<u64>(), any::<bool>(), 0u8..10, 0u8..3).prop_map(move |(pat, seed, neg, kind, extra)| {
        let mut r = SplitMix(seed ^ 0x1234);
        let k = [1u64, 2, 3, 5, 10, 20, 40][r.below(7) as usize];
        let m = sig_pattern(base, k, pat, seed);
        let (sig, exp): (BigUint, i64) = match kind {
            // n + 1/2 and neighbours (even bases only hold the exact half)
            0 | 1 if base % 2 == 0 => (m * BigUint::from(base) + BigUint::from(base / 2), -1),
            2 if base % 2 == 0 => {
                let j = 1 + r.below(6);
                (m * pow_big(base, j + 1) + BigUint::from(base / 2) * pow_big(base, j) + BigUint::one(), -(j as i64) - 1)
            }
            3 if base % 2 == 0 => {
                let j = 1 + r.below(6);
                (m * pow_big(base, j + 1) + BigUint::from(base / 2) * pow_big(base, j) - BigUint::one(), -(j as i64) - 1)
            }
            4 => (m, 0),
            5 => (m, 1 + r.below(30) as i64),
            6 => (m, -(k as i64) - r.below(4) as i64), // |x| < 1 or just above
            7 => (BigUint::one(), -(1 + r.below(50) as i64)),
            _ => (m, -(1 + r.below(k + 2) as i64)),
        };
        let n = if neg { -BigInt::from(sig) } else { BigInt::from(sig) };
        FlCase { x: fl_from(&n, exp), extra }
    })
}

fn rounded_int_flag_ok(got: &BigInt, flag: Option<Rounding>, x: &Q) -> bool {
    let ord = Q::from_integer(got.clone()).cmp(x);
    match flag {
        None => ord == Ordering::Equal,
        Some(Rounding::AddOne) => ord == Ordering::Greater,
        Some(Rounding::SubOne) => ord == Ordering::Less,
        Some(Rounding::NoOp) => ord != Ordering::Equal,
    }
}

fn split_rounded(r: Rounded<IBig>) -> (BigInt, Option<Rounding>) {
    match r {
        Approximation::Exact(v) => (i2n(&v), None),
        Approximation::Inexact(v, f) => (i2n(&v), Some(f)),
    }
}

fn to_int<R: ModeTag, const B: Word>(c: &FlCase, _ctx: &Ctx) -> Out {
    let mut out = Out::new();
    let base = B as u64;
    let sci = c.x.sci(base);
    let x = sci.to_rational();
    // (the class "precision < -exponent, |x| < B^-2" was the known finding C10/small-fraction-scale
    // until it was fixed in /repo by 0eb52ac; it is generated here again)
    let prec = fl_precision(c, base);
    let f: FBig<R, B> = c.x.fbig::<R, B>(prec);
    let rp = f.repr().clone();
    out.nontrivial(!x.is_integer());
    out.label(if x.is_integer() {
        "to_int:integer"
    } else if (&x - x.floor()) == Q::new(BigInt::one(), BigInt::from(2)) {
        "to_int:exact half"
    } else if x.abs() < Q::one() {
        "to_int:|x| < 1"
    } else {
        "to_int:fraction"
    });
    match catch(|| split_rounded(f.to_int())) {
        Err(m) => out.fail(format!("FBig::to_int panicked: {} (x = {})", normalise(&m), sci.show())),
        Ok((got, flag)) => {
            let want = round_rational(&x, R::MODE);
            out.check(got == want, || format!("FBig<{},{base}>::to_int: x = {}, got {got} want {want}", R::MODE.name(), sci.show()));
            out.check(rounded_int_flag_ok(&got, flag, &x), || format!("FBig<{},{base}>::to_int: x = {}, got {got} with flag {flag:?}", R::MODE.name(), sci.show()));
        }
    }
    match catch(|| split_rounded(rp.to_int())) {
        Err(m) => out.fail(format!("Repr::to_int panicked: {} (x = {})", normalise(&m), sci.show())),
        Ok((got, flag)) => {
            let want = round_rational(&x, Mode::Zero);
            out.check(got == want, || format!("Repr<{base}>::to_int (truncation): x = {}, got {got} want {want}", sci.show()));
            out.check(rounded_int_flag_ok(&got, flag, &x), || format!("Repr<{base}>::to_int: x = {}, got {got} with flag {flag:?}", sci.show()));
        }
    }
    // the same value as a rational: RBig/Relaxed::to_int = (trunc, fract) with trunc + fract = x
    let (n, d) = sci.num_den();
    let r = RBig::from_parts(n2i(&n), n2u(&d));
    let l = Relaxed::from_parts(n2i(&n), n2u(&d));
    let want = round_rational(&x, Mode::Zero);
    let judge = |out: &mut Out, what: &str, got: Result<(BigInt, Option<Q>), String>| match got {
        Err(m) => out.fail(format!("{what} panicked: {} (x = {})", normalise(&m), sci.show())),
        Ok((t, fr)) => {
            out.check(t == want, || format!("{what}: x = {}, trunc {t} want {want}", sci.show()));
            match fr {
                None => out.check(x.is_integer(), || format!("{what}: Exact({t}) for the non-integer {}", sci.show())),
                Some(fr) => out.check(!x.is_integer() && Q::from_integer(t.clone()) + &fr == x, || format!("{what}: Inexact({t}, {}) but x = {}", show_q(&fr), sci.show())),
            }
        }
    };
    judge(
        &mut out,
        "RBig::to_int",
        catch(|| match r.to_int() {
            Approximation::Exact(t) => (i2n(&t), None),
            Approximation::Inexact(t, fr) => (i2n(&t), Some(rat(fr.numerator(), fr.denominator()))),
        }),
    );
    judge(
        &mut out,
        "Relaxed::to_int",
        catch(|| match l.to_int() {
            Approximation::Exact(t) => (i2n(&t), None),
            Approximation::Inexact(t, fr) => (i2n(&t), Some(rat(fr.numerator(), fr.denominator()))),
        }),
    );
    out
}

// =============================================================================================
// lossless matrix
// =============================================================================================

fn boundary_int(sel: u16, seed: u64) -> BigInt {
    let one = BigInt::one();
    let mut v: Vec<BigInt> = vec![BigInt::zero(), one.clone(), -&one, BigInt::from(2)];
    for k in [7usize, 8, 15, 16, 24, 31, 32, 53, 63, 64, 127, 128] {
        let b = &one << k;
        for d in [-1i32, 0, 1] {
            v.push(&b + BigInt::from(d));
            v.push(-&b + BigInt::from(d));
        }
    }
    let mut r = SplitMix(seed);
    v.push(BigInt::from(r.next() as i64 >> r.below(64)));
    v.push(BigInt::from(r.next() >> r.below(64)));
    v.push(BigInt::from((r.next() as i128) << 64 | r.next() as i128) >> r.below(64) as usize);
    v.push(BigInt::from(r.next() as i8));
    v.push(BigInt::from(r.next() as i16));
    v.push(BigInt::from(r.next() as i32));
    v.push(BigInt::from(r.next() as u8));
    v.push(BigInt::from(r.next() as u16));
    v.push(BigInt::from(r.next() as u32));
    v.push(BigInt::from(words_to_big(&[r.next(), r.next(), r.next() >> r.below(64)])));
    for _ in 0..40 {
        let w = 1 + r.below(129);
        let m = BigInt::from(rand_big(&mut r, w));
        v.push(if r.next() & 1 == 0 { m } else { -m });
    }
    pick(&v, sel)
}

#[derive(Debug, Clone, Hash, Serialize, Deserialize)]
struct PrimCase {
    v: Int,
    /// 0..=11: u8 u16 u32 u64 u128 usize i8 i16 i32 i64 i128 isize; 12: bool
    ty: u8,
}

fn prim_case() -> impl Strategy<Value = PrimCase> {
    (any::<u16>(), any::<u64>(), 0u8..13).prop_map(|(sel, seed, ty)| {
        let v = if ty == 12 { BigInt::from(seed & 1) } else { boundary_int(sel, seed) };
        PrimCase { v: Int::from_big(&v), ty }
    })
}

fn expect_conv<T: PartialEq + std::fmt::Debug + Copy>(out: &mut Out, what: &str, src: &str, r: Result<Result<T, ConversionError>, String>, want: Option<T>) {
    match (r, want) {
        (Err(m), _) => out.fail(format!("{what} panicked on {src}: {}", normalise(&m))),
        (Ok(Ok(g)), Some(w)) => out.check(g == w, || format!("{what}({src}) = Ok({g:?}), want Ok({w:?})")),
        (Ok(Ok(g)), None) => out.fail(format!("{what}({src}) = Ok({g:?}) but the target cannot hold the value")),
        (Ok(Err(e)), Some(w)) => out.fail(format!("{what}({src}) = Err({e:?}) but the target holds the value exactly ({w:?})")),
        (Ok(Err(e)), None) => out.label(match e {
            ConversionError::OutOfBounds => "refused:OutOfBounds",
            ConversionError::LossOfPrecision => "refused:LossOfPrecision",
        }),
    }
}

fn exact_fbig<R: ModeTag, const B: Word>(f: &FBig<R, B>) -> Option<Q> {
    Sci::from_repr(f.repr()).map(|s| s.to_rational())
}
fn exact_repr<const B: Word>(r: &Repr<B>) -> Option<Q> {
    Sci::from_repr(r).map(|s| s.to_rational())
}
fn exact_rbig(r: &RBig) -> Q {
    rat(r.numerator(), r.denominator())
}
fn exact_relaxed(r: &Relaxed) -> Q {
    rat(r.numerator(), r.denominator())
}

fn expect_value(out: &mut Out, what: &str, got: Result<Option<Q>, String>, want: &Q) {
    match got {
        Err(m) => out.fail(format!("{what} panicked: {}", normalise(&m))),
        Ok(None) => out.fail(format!("{what} produced an infinite value for {}", show_q(want))),
        Ok(Some(g)) => out.check(&g == want, || format!("{what}: holds {} instead of {}", show_q(&g), show_q(want))),
    }
}

macro_rules! prim_arm {
    ($out:ident, $c:ident, $t:ty, $unsigned:tt) => {{
        let v = $c.v.big();
        let vs = format!("{v}");
        let x = Q::from_integer(v.clone());
        let fits: Option<$t> = if let Some(u) = v.to_u128() { <$t>::try_from(u).ok() } else if let Some(i) = v.to_i128() { <$t>::try_from(i).ok() } else { None };
        $out.label(if fits.is_some() { concat!("prim:", stringify!($t), " fits") } else { concat!("prim:", stringify!($t), " out of range") });
        // ---- big -> primitive (any v)
        let ib = $c.v.ibig();
        expect_conv(&mut $out, concat!(stringify!($t), "::try_from(IBig)"), &vs, catch(|| <$t>::try_from(ib.clone())), fits);
        expect_conv(&mut $out, concat!(stringify!($t), "::try_from(&IBig)"), &vs, catch(|| <$t>::try_from(&ib)), fits);
        if !$c.v.neg {
            let ub = $c.v.mag.ubig();
            expect_conv(&mut $out, concat!(stringify!($t), "::try_from(UBig)"), &vs, catch(|| <$t>::try_from(ub.clone())), fits);
            expect_conv(&mut $out, concat!(stringify!($t), "::try_from(&UBig)"), &vs, catch(|| <$t>::try_from(&ub)), fits);
        }
        let fl = fl_from(&v, 0);
        let f2: FBig<mode::Zero, 2> = fl.fbig((fl.digits(2) as usize).max(1));
        let f10: FBig<mode::HalfAway, 10> = fl.fbig((fl.digits(10) as usize).max(1));
        let f3: FBig<mode::HalfEven, 3> = fl.fbig((fl.digits(3) as usize).max(1));
        expect_conv(&mut $out, concat!(stringify!($t), "::try_from(FBig<Zero,2>)"), &vs, catch(|| <$t>::try_from(f2.clone())), fits);
        expect_conv(&mut $out, concat!(stringify!($t), "::try_from(FBig<HalfAway,10>)"), &vs, catch(|| <$t>::try_from(f10.clone())), fits);
        expect_conv(&mut $out, concat!(stringify!($t), "::try_from(FBig<HalfEven,3>)"), &vs, catch(|| <$t>::try_from(f3.clone())), fits);
        prim_arm!(@repr_to $out, $t, $unsigned, f2, f10, vs, fits);
        let rb = RBig::from_parts($c.v.ibig(), UBig::ONE);
        let rl = Relaxed::from_parts($c.v.ibig(), UBig::ONE);
        expect_conv(&mut $out, concat!(stringify!($t), "::try_from(RBig)"), &vs, catch(|| <$t>::try_from(rb.clone())), fits);
        expect_conv(&mut $out, concat!(stringify!($t), "::try_from(Relaxed)"), &vs, catch(|| <$t>::try_from(rl.clone())), fits);
        // ---- primitive -> big and back
        if let Some(p) = fits {
            let back_i = |out: &mut Out, what: &str, got: Result<BigInt, String>| match got {
                Err(m) => out.fail(format!("{what} panicked: {}", normalise(&m))),
                Ok(g) => out.check(g == v, || format!("{what}: {g} instead of {v}")),
            };
            back_i(&mut $out, concat!("IBig::from(", stringify!($t), ")"), catch(|| i2n(&IBig::from(p))));
            prim_arm!(@ubig_from $out, $t, $unsigned, p, v);
            expect_value(&mut $out, concat!("FBig<Zero,2>::from(", stringify!($t), ")"), catch(|| exact_fbig(&FBig::<mode::Zero, 2>::from(p))), &x);
            expect_value(&mut $out, concat!("FBig<HalfAway,10>::from(", stringify!($t), ")"), catch(|| exact_fbig(&FBig::<mode::HalfAway, 10>::from(p))), &x);
            expect_value(&mut $out, concat!("FBig<Up,16>::from(", stringify!($t), ")"), catch(|| exact_fbig(&FBig::<mode::Up, 16>::from(p))), &x);
            expect_value(&mut $out, concat!("RBig::from(", stringify!($t), ")"), catch(|| Some(exact_rbig(&RBig::from(p)))), &x);
            expect_value(&mut $out, concat!("Relaxed::from(", stringify!($t), ")"), catch(|| Some(exact_relaxed(&Relaxed::from(p)))), &x);
            prim_arm!(@repr_from $out, $t, $unsigned, p, x);
            // round trips through the dashu-built values
            expect_conv(&mut $out, concat!(stringify!($t), "::try_from(IBig::from(p))"), &vs, catch(|| <$t>::try_from(IBig::from(p))), Some(p));
            expect_conv(&mut $out, concat!(stringify!($t), "::try_from(FBig<Down,10>::from(p))"), &vs, catch(|| <$t>::try_from(FBig::<mode::Down, 10>::from(p))), Some(p));
            expect_conv(&mut $out, concat!(stringify!($t), "::try_from(RBig::from(p))"), &vs, catch(|| <$t>::try_from(RBig::from(p))), Some(p));
            expect_conv(&mut $out, concat!(stringify!($t), "::try_from(Relaxed::from(p))"), &vs, catch(|| <$t>::try_from(Relaxed::from(p))), Some(p));
        }
    }};
    (@repr_to $out:ident, $t:ty, unsigned, $f2:ident, $f10:ident, $vs:ident, $fits:ident) => {
        let (r2, r10) = ($f2.repr().clone(), $f10.repr().clone());
        expect_conv(&mut $out, concat!(stringify!($t), "::try_from(Repr<2>)"), &$vs, catch(|| <$t>::try_from(r2.clone())), $fits);
        expect_conv(&mut $out, concat!(stringify!($t), "::try_from(Repr<10>)"), &$vs, catch(|| <$t>::try_from(r10.clone())), $fits);
    };
    (@repr_to $out:ident, $t:ty, signed, $f2:ident, $f10:ident, $vs:ident, $fits:ident) => {};
    (@ubig_from $out:ident, $t:ty, unsigned, $p:ident, $v:ident) => {
        match catch(|| u2n(&UBig::from($p))) {
            Err(m) => $out.fail(format!("UBig::from({}) panicked: {}", stringify!($t), normalise(&m))),
            Ok(g) => $out.check(BigInt::from(g.clone()) == $v, || format!("UBig::from({}): {g} instead of {}", stringify!($t), $v)),
        }
        expect_conv(&mut $out, concat!(stringify!($t), "::try_from(UBig::from(p))"), "p", catch(|| <$t>::try_from(UBig::from($p))), Some($p));
    };
    (@ubig_from $out:ident, $t:ty, signed, $p:ident, $v:ident) => {
        match catch(|| UBig::try_from($p).map(|u| u2n(&u))) {
            Err(m) => $out.fail(format!("UBig::try_from({}) panicked: {}", stringify!($t), normalise(&m))),
            Ok(Ok(g)) => $out.check(!$v.is_negative() && BigInt::from(g.clone()) == $v, || format!("UBig::try_from({}) = Ok({g}) for {}", stringify!($t), $v)),
            Ok(Err(e)) => $out.check($v.is_negative(), || format!("UBig::try_from({}) = Err({e:?}) for {}", stringify!($t), $v)),
        }
    };
    (@repr_from $out:ident, $t:ty, unsigned, $p:ident, $x:ident) => {
        expect_value(&mut $out, concat!("Repr<2>::from(", stringify!($t), ")"), catch(|| exact_repr(&Repr::<2>::from($p))), &$x);
        expect_value(&mut $out, concat!("Repr<10>::from(", stringify!($t), ")"), catch(|| exact_repr(&Repr::<10>::from($p))), &$x);
    };
    (@repr_from $out:ident, $t:ty, signed, $p:ident, $x:ident) => {};
}

fn lossless_prim(c: &PrimCase, _ctx: &Ctx) -> Out {
    let mut out = Out::new();
    out.nontrivial(true);
    match c.ty {
        0 => prim_arm!(out, c, u8, unsigned),
        1 => prim_arm!(out, c, u16, unsigned),
        2 => prim_arm!(out, c, u32, unsigned),
        3 => prim_arm!(out, c, u64, unsigned),
        4 => prim_arm!(out, c, u128, unsigned),
        5 => prim_arm!(out, c, usize, unsigned),
        6 => prim_arm!(out, c, i8, signed),
        7 => prim_arm!(out, c, i16, signed),
        8 => prim_arm!(out, c, i32, signed),
        9 => prim_arm!(out, c, i64, signed),
        10 => prim_arm!(out, c, i128, signed),
        11 => prim_arm!(out, c, isize, signed),
        _ => {
            out.label("prim:bool");
            let b = !c.v.is_zero();
            let want = BigInt::from(b as u8);
            match catch(|| (u2n(&UBig::from(b)), i2n(&IBig::from(b)))) {
                Err(m) => out.fail(format!("From<bool> panicked: {}", normalise(&m))),
                Ok((u, i)) => out.check(BigInt::from(u.clone()) == want && i == want, || format!("From<bool>({b}): UBig {u}, IBig {i}")),
            }
        }
    }
    out
}

// ---- big <-> big: integers, floats and rationals among themselves ---------------------------

fn big_case(base: u64) -> impl Strategy<Value = FlCase> {
    (any::<u16>(), any::<u64>(), 0u8..10, 0u8..3).prop_map(move |(sel, seed, kind, extra)| {
        let mut r = SplitMix(seed ^ 0x99);
        let v = boundary_int(sel, seed);
        let (n, exp): (BigInt, i64) = match kind {
            // integer boundary values as they are
            0..=3 => (v, 0),
            // the same integer scaled up: still an integer, much larger
            4 => (v, 1 + r.below(12) as i64),
            // scaled down by one digit: integer only if the last digit is 0
            5 | 6 => (v, -1),
            7 => (v * BigInt::from(base) + BigInt::from(1 + r.below(base - 1)), -1),
            8 => (v, -(2 + r.below(40) as i64)),
            _ => (BigInt::from(1 + r.below(base - 1)), -(1 + r.below(5) as i64)),
        };
        FlCase { x: fl_from(&n, exp), extra }
    })
}

macro_rules! fbig_to_prims {
    ($out:ident, $f:ident, $xs:ident, $xi:ident; $($t:ty),*) => {$(
        {
            let fits: Option<$t> = $xi.as_ref().and_then(|v| if let Some(u) = v.to_u128() { <$t>::try_from(u).ok() } else if let Some(i) = v.to_i128() { <$t>::try_from(i).ok() } else { None });
            expect_conv(&mut $out, concat!(stringify!($t), "::try_from(FBig)"), &$xs, catch(|| <$t>::try_from($f.clone())), fits);
        }
    )*};
}
macro_rules! repr_to_prims {
    ($out:ident, $f:ident, $xs:ident, $xi:ident; $($t:ty),*) => {$(
        {
            let fits: Option<$t> = $xi.as_ref().and_then(|v| v.to_u128()).and_then(|u| <$t>::try_from(u).ok());
            expect_conv(&mut $out, concat!(stringify!($t), "::try_from(Repr)"), &$xs, catch(|| <$t>::try_from($f.clone())), fits);
        }
    )*};
}
macro_rules! rat_to_prims {
    ($out:ident, $r:ident, $l:ident, $xs:ident, $xi:ident; $($t:ty),*) => {$(
        {
            let fits: Option<$t> = $xi.as_ref().and_then(|v| if let Some(u) = v.to_u128() { <$t>::try_from(u).ok() } else if let Some(i) = v.to_i128() { <$t>::try_from(i).ok() } else { None });
            expect_conv(&mut $out, concat!(stringify!($t), "::try_from(RBig)"), &$xs, catch(|| <$t>::try_from($r.clone())), fits);
            expect_conv(&mut $out, concat!(stringify!($t), "::try_from(Relaxed)"), &$xs, catch(|| <$t>::try_from($l.clone())), fits);
        }
    )*};
}

fn expect_big<T>(out: &mut Out, what: &str, src: &str, r: Result<Result<T, ConversionError>, String>, want: Option<&BigInt>, val: impl Fn(&T) -> BigInt) -> bool {
    match (r, want) {
        (Err(m), _) => out.fail(format!("{what} panicked on {src}: {}", normalise(&m))),
        (Ok(Ok(g)), Some(w)) => out.check(&val(&g) == w, || format!("{what}({src}) = Ok({}), want Ok({w})", val(&g))),
        (Ok(Ok(g)), None) => {
            out.fail(format!("{what}({src}) = Ok({}) but the target cannot hold the value", val(&g)));
            return false;
        }
        (Ok(Err(e)), Some(w)) => {
            out.fail(format!("{what}({src}) = Err({e:?}) but the target holds the value exactly ({w})"));
            return false;
        }
        (Ok(Err(e)), None) => out.label(match e {
            ConversionError::OutOfBounds => "refused:OutOfBounds",
            ConversionError::LossOfPrecision => "refused:LossOfPrecision",
        }),
    }
    true
}

/// C06/fbig-from-rbig-lossy: `impl From<RBig/Relaxed> for FBig` divides numerator by denominator
/// at the precision of the longer operand (marked TODO(v0.5) "make this fallible" in the source):
/// every value that needs more digits than that — representable in base B or not — is rounded
fn from_rational_lossy(out: &mut Out, ctx: &Ctx, what: &str, x: &Q, base: u64, got: &Q, parts: &(BigInt, BigUint)) {
    // the quotient is computed at P = max(digits(numerator), digits(denominator)) digits
    let p = digits(parts.0.magnitude(), base).max(digits(&parts.1, base)).max(1);
    if !Truth::Val(Sci::from_rational(x, base)).representable(p) {
        ctx.known_or_fail(out, "C06/fbig-from-rbig-lossy", || format!("{what}: x = {} became {}", show_q(x), show_q(got)));
    } else {
        out.fail(format!("{what}: x = {} (representable in {p} digits of base {base}) became {}", show_q(x), show_q(got)));
    }
}

fn lossless_big<R: ModeTag, const B: Word>(c: &FlCase, ctx: &Ctx) -> Out {
    let mut out = Out::new();
    let base = B as u64;
    let sci = c.x.sci(base);
    let x = sci.to_rational();
    let xs = sci.show();
    let xi: Option<BigInt> = if x.is_integer() { Some(x.numer().clone()) } else { None };
    let xu: Option<BigInt> = xi.clone().filter(|v| !v.is_negative());
    out.nontrivial(true);
    out.label(if xi.is_some() { "value:integer" } else { "value:non-integer" });
    out.label(if c.x.exp > 0 { "form:positive exponent" } else if c.x.exp < 0 { "form:negative exponent" } else { "form:exponent 0" });
    let prec = fl_precision(c, base);
    let f: FBig<R, B> = c.x.fbig::<R, B>(prec);
    let rp = f.repr().clone();
    // FBig/Repr -> integers
    expect_big(&mut out, "IBig::try_from(FBig)", &xs, catch(|| IBig::try_from(f.clone())), xi.as_ref(), |g| i2n(g));
    expect_big(&mut out, "UBig::try_from(FBig)", &xs, catch(|| UBig::try_from(f.clone())), xu.as_ref(), |g| BigInt::from(u2n(g)));
    fbig_to_prims!(out, f, xs, xi; u8, u16, u32, u64, u128, usize, i8, i16, i32, i64, i128, isize);
    repr_to_prims!(out, rp, xs, xi; u8, u16, u32, u64, u128, usize);
    // FBig/Repr -> rationals: always exact
    expect_value(&mut out, "RBig::try_from(FBig)", catch(|| RBig::try_from(f.clone()).ok().map(|r| exact_rbig(&r))), &x);
    expect_value(&mut out, "Relaxed::try_from(FBig)", catch(|| Relaxed::try_from(f.clone()).ok().map(|r| exact_relaxed(&r))), &x);
    expect_value(&mut out, "RBig::try_from(Repr)", catch(|| RBig::try_from(rp.clone()).ok().map(|r| exact_rbig(&r))), &x);
    expect_value(&mut out, "Relaxed::try_from(Repr)", catch(|| Relaxed::try_from(rp.clone()).ok().map(|r| exact_relaxed(&r))), &x);
    // ... and in the form the target type promises: RBig in lowest terms, Relaxed without a common factor 2
    if let Ok((Ok(r1), Ok(r2), Ok(l1), Ok(l2))) = catch(|| (RBig::try_from(f.clone()), RBig::try_from(rp.clone()), Relaxed::try_from(f.clone()), Relaxed::try_from(rp.clone()))) {
        for (what, r) in [("RBig::try_from(FBig)", &r1), ("RBig::try_from(Repr)", &r2)] {
            let (n, d) = (i2n(r.numerator()), BigInt::from(u2n(r.denominator())));
            let g = num_integer::Integer::gcd(&n, &d);
            out.check(g.is_one() && d.is_positive(), || format!("{what} of {xs}: RBig stored as {}/{}, not in lowest terms (gcd {})", show_i(&n), show_i(&d), show_i(&g)));
        }
        for (what, r) in [("Relaxed::try_from(FBig)", &l1), ("Relaxed::try_from(Repr)", &l2)] {
            let (n, d) = (i2n(r.numerator()), BigInt::from(u2n(r.denominator())));
            out.check(d.is_positive() && !(num_integer::Integer::is_even(&n) && num_integer::Integer::is_even(&d)), || format!("{what} of {xs}: Relaxed stored as {}/{} keeps a common factor 2", show_i(&n), show_i(&d)));
        }
    }
    // the same value as a rational -> integers, primitives, and back into a float
    let (n, d) = sci.num_den();
    let r = RBig::from_parts(n2i(&n), n2u(&d));
    // Relaxed keeps a common odd factor
    let k = BigUint::from(3u8);
    let l = Relaxed::from_parts(n2i(&(&n * BigInt::from(k.clone()))), n2u(&(&d * &k)));
    expect_big(&mut out, "IBig::try_from(RBig)", &xs, catch(|| IBig::try_from(r.clone())), xi.as_ref(), |g| i2n(g));
    rbig_to_ubig(&mut out, ctx, "UBig::try_from(RBig)", &xs, catch(|| UBig::try_from(r.clone())), xu.as_ref(), &x);
    let l1 = Relaxed::from_parts(n2i(x.numer()), n2u(x.denom().magnitude()));
    expect_big(&mut out, "IBig::try_from(Relaxed)", &xs, catch(|| IBig::try_from(l1.clone())), xi.as_ref(), |g| i2n(g));
    rbig_to_ubig(&mut out, ctx, "UBig::try_from(Relaxed)", &xs, catch(|| UBig::try_from(l1.clone())), xu.as_ref(), &x);
    relaxed_unreduced(&mut out, ctx, "IBig::try_from(Relaxed 3n/3d)", &xs, catch(|| IBig::try_from(l.clone())), xi.as_ref());
    rat_to_prims!(out, r, l1, xs, xi; u8, u16, u32, u64, u128, usize, i8, i16, i32, i64, i128, isize);
    // a Relaxed zero that kept a denominator (k·b/b − k = 0/b: the integer operators of Relaxed do
    // not reduce): still the integer 0 for every integer target
    {
        let b = &d * &k + BigUint::from(2u8);
        let m = BigInt::from(5 + (c.extra as i64));
        match catch(|| Relaxed::from_parts(n2i(&(&m * BigInt::from(b.clone()))), n2u(&b)) - n2i(&m)) {
            Err(e) => out.fail(format!("Relaxed(k·b/b) − k panicked: {}", normalise(&e))),
            Ok(z) => {
                let zs = format!("Relaxed {}/{}", i2n(z.numerator()), u2n(z.denominator()));
                if !u2n(z.denominator()).is_one() {
                    out.label("Relaxed zero stored as 0/b");
                }
                let zero = BigInt::zero();
                expect_big(&mut out, "IBig::try_from(Relaxed 0/b)", &zs, catch(|| IBig::try_from(z.clone())), Some(&zero), |g| i2n(g));
                expect_big(&mut out, "UBig::try_from(Relaxed 0/b)", &zs, catch(|| UBig::try_from(z.clone())), Some(&zero), |g| BigInt::from(u2n(g)));
                expect_conv(&mut out, "u8::try_from(Relaxed 0/b)", &zs, catch(|| u8::try_from(z.clone())), Some(0u8));
                expect_conv(&mut out, "i64::try_from(Relaxed 0/b)", &zs, catch(|| i64::try_from(z.clone())), Some(0i64));
                expect_conv(&mut out, "u128::try_from(Relaxed 0/b)", &zs, catch(|| u128::try_from(z.clone())), Some(0u128));
            }
        }
    }
    let stored = (x.numer().clone(), x.denom().magnitude().clone());
    for (what, got) in [("FBig::from(RBig)", catch(|| exact_fbig(&FBig::<R, B>::from(r.clone())))), ("FBig::from(Relaxed)", catch(|| exact_fbig(&FBig::<R, B>::from(l1.clone()))))] {
        match got {
            Err(m) => out.fail(format!("{what} panicked: {} (x = {xs})", normalise(&m))),
            Ok(None) => out.fail(format!("{what}: infinite result for {xs}")),
            Ok(Some(g)) => {
                if g != x {
                    from_rational_lossy(&mut out, ctx, what, &x, base, &g, &stored);
                }
            }
        }
    }
    // integers -> FBig / Repr / RBig / Relaxed (From), and UBig <-> IBig
    if let Some(v) = &xi {
        let ib = n2i(v);
        expect_value(&mut out, "FBig::from(IBig)", catch(|| exact_fbig(&FBig::<R, B>::from(ib.clone()))), &x);
        expect_value(&mut out, "Repr::from(IBig)", catch(|| exact_repr(&Repr::<B>::from(ib.clone()))), &x);
        expect_value(&mut out, "RBig::from(IBig)", catch(|| Some(exact_rbig(&RBig::from(ib.clone())))), &x);
        expect_value(&mut out, "Relaxed::from(IBig)", catch(|| Some(exact_relaxed(&Relaxed::from(ib.clone())))), &x);
        expect_big(&mut out, "IBig::try_from(FBig::from(IBig))", &xs, catch(|| IBig::try_from(FBig::<R, B>::from(ib.clone()))), Some(v), |g| i2n(g));
        expect_big(&mut out, "UBig::try_from(IBig)", &xs, catch(|| UBig::try_from(ib.clone())), xu.as_ref(), |g| BigInt::from(u2n(g)));
        if let Some(u) = &xu {
            let ub = n2u(u.magnitude());
            expect_value(&mut out, "FBig::from(UBig)", catch(|| exact_fbig(&FBig::<R, B>::from(ub.clone()))), &x);
            expect_value(&mut out, "Repr::from(UBig)", catch(|| exact_repr(&Repr::<B>::from(ub.clone()))), &x);
            expect_value(&mut out, "RBig::from(UBig)", catch(|| Some(exact_rbig(&RBig::from(ub.clone())))), &x);
            expect_value(&mut out, "Relaxed::from(UBig)", catch(|| Some(exact_relaxed(&Relaxed::from(ub.clone())))), &x);
            expect_value(&mut out, "IBig::from(UBig)", catch(|| Some(Q::from_integer(i2n(&IBig::from(ub.clone()))))), &x);
            rbig_to_ubig(&mut out, ctx, "UBig::try_from(RBig::from(UBig))", &xs, catch(|| UBig::try_from(RBig::from(ub.clone()))), Some(u), &x);
        }
    }
    out
}

/// C06/ubig-from-rbig-tests-numerator: `impl TryFrom<Repr> for UBig` (rational/src/convert.rs)
/// tests `numerator.is_one()` where `denominator.is_one()` is meant: Ok(1) for every 1/d,
/// Err(LossOfPrecision) for every non-negative integer other than 1.
fn rbig_to_ubig(out: &mut Out, ctx: &Ctx, what: &str, xs: &str, r: Result<Result<UBig, ConversionError>, String>, want: Option<&BigInt>, x: &Q) {
    if !x.is_negative() {
        // what the coded test answers (x in lowest terms; Relaxed is called with coprime parts here)
        let coded: Option<BigInt> = if x.numer().is_one() { Some(BigInt::one()) } else { None };
        let got: Option<Option<BigInt>> = match &r {
            Ok(Ok(g)) => Some(Some(BigInt::from(u2n(g)))),
            Ok(Err(ConversionError::LossOfPrecision)) => Some(None),
            _ => None,
        };
        if got == Some(coded.clone()) && coded.as_ref() != want {
            return ctx.known_or_fail(out, "C06/ubig-from-rbig-tests-numerator", || format!("{what}({xs}) = {:?}, want {:?}", r, want));
        }
    }
    expect_big(out, what, xs, r, want, |g| BigInt::from(u2n(g)));
}

/// C06/relaxed-to-int-unreduced: `TryFrom<Relaxed> for IBig` (and through it the primitives) tests
/// `denominator.is_one()` on the unreduced parts, so an integer stored as 3n/3 is refused with
/// LossOfPrecision (TryFrom<Relaxed> for f32/f64 canonicalises first).
fn relaxed_unreduced(out: &mut Out, ctx: &Ctx, what: &str, xs: &str, r: Result<Result<IBig, ConversionError>, String>, want: Option<&BigInt>) {
    if let (Ok(Err(ConversionError::LossOfPrecision)), Some(_)) = (&r, want) {
        return ctx.known_or_fail(out, "C06/relaxed-to-int-unreduced", || format!("{what}({xs}) = Err(LossOfPrecision) for an integer value"));
    }
    expect_big(out, what, xs, r, want, |g| i2n(g));
}

/// infinities: FBig/Repr -> everything must be refused
fn lossless_inf(c: &u8, _ctx: &Ctx) -> Out {
    let mut out = Out::new();
    out.nontrivial(true);
    let neg = c & 1 == 1;
    let f: FBig<mode::HalfAway, 10> = if neg { FBig::NEG_INFINITY } else { FBig::INFINITY };
    let g: FBig<mode::Zero, 2> = if neg { FBig::NEG_INFINITY } else { FBig::INFINITY };
    let xs = if neg { "-inf".to_string() } else { "+inf".to_string() };
    let xi: Option<BigInt> = None;
    expect_big(&mut out, "IBig::try_from(FBig)", &xs, catch(|| IBig::try_from(f.clone())), None, |g| i2n(g));
    expect_big(&mut out, "UBig::try_from(FBig)", &xs, catch(|| UBig::try_from(g.clone())), None, |g| BigInt::from(u2n(g)));
    fbig_to_prims!(out, f, xs, xi; u8, u16, u32, u64, u128, usize, i8, i16, i32, i64, i128, isize);
    fbig_to_prims!(out, g, xs, xi; u8, u64, u128, i8, i64, i128);
    let rp = g.repr().clone();
    repr_to_prims!(out, rp, xs, xi; u8, u16, u32, u64, u128, usize);
    match catch(|| (RBig::try_from(f.clone()).is_err(), Relaxed::try_from(g.clone()).is_err(), RBig::try_from(rp.clone()).is_err())) {
        Err(m) => out.fail(format!("RBig::try_from(infinite FBig) panicked: {}", normalise(&m))),
        Ok(t) => out.check(t == (true, true, true), || format!("RBig/Relaxed::try_from(infinite float) accepted: {t:?}")),
    }
    // documented: to_f32/to_f64 of an infinity is ±inf, flagged Inexact(NoOp)
    let want32 = if neg { f32::NEG_INFINITY } else { f32::INFINITY };
    let want64 = if neg { f64::NEG_INFINITY } else { f64::INFINITY };
    match catch(|| (f.to_f32(), f.to_f64(), g.to_f32(), g.to_f64(), rp.to_f32(), rp.to_f64())) {
        Err(m) => out.fail(format!("to_f32/to_f64 of an infinity panicked: {}", normalise(&m))),
        Ok((a, b, c2, d, e, h)) => {
            let ok32 = |a: Rounded<f32>| a == Approximation::Inexact(want32, Rounding::NoOp);
            let ok64 = |a: Rounded<f64>| a == Approximation::Inexact(want64, Rounding::NoOp);
            out.check(ok32(a) && ok64(b) && ok32(c2) && ok64(d) && ok32(e) && ok64(h), || format!("to_f32/to_f64({xs}) is not Inexact(±inf, NoOp) as documented"));
        }
    }
    // TryFrom<infinite> for f32/f64: refused (the float would hold it, but rustdoc of to_f32 calls the
    // conversion inexact) — only "no panic, no finite value" is asserted
    match catch(|| (f32::try_from(g.clone()), f64::try_from(g.clone()), f32::try_from(rp.clone()), f64::try_from(rp.clone()))) {
        Err(m) => out.fail(format!("f32/f64::try_from(infinite float) panicked: {}", normalise(&m))),
        Ok((a, b, c2, d)) => {
            let fin = a.map(|v| v.is_finite()).unwrap_or(false) || b.map(|v| v.is_finite()).unwrap_or(false) || c2.map(|v| v.is_finite()).unwrap_or(false) || d.map(|v| v.is_finite()).unwrap_or(false);
            out.check(!fin, || format!("f32/f64::try_from({xs}) produced a finite value"));
        }
    }
    out
}

// ---- from f32/f64 ----------------------------------------------------------------------------

#[derive(Debug, Clone, Hash, Serialize, Deserialize)]
struct FloatBits {
    f64: bool,
    bits: u64,
}

fn float_bits() -> impl Strategy<Value = FloatBits> {
    (any::<bool>(), any::<u64>(), 0u8..16, any::<bool>()).prop_map(|(f64_, seed, kind, neg)| {
        let fmt = if f64_ { F64 } else { F32 };
        let mut r = SplitMix(seed);
        let mant_bits = (fmt.p - 1) as u32;
        let mant_mask = (1u64 << mant_bits) - 1;
        let emask = (1u64 << (fmt.width - 1 - mant_bits)) - 1;
        let bias = (emask >> 1) as i64;
        let mk = |ef: u64, m: u64| (ef << mant_bits) | (m & mant_mask);
        let int_val = |v: u64, sh: i64| -> u64 {
            // the float closest to v·2^sh (v small): built through the oracle
            ieee_round(&mul_pow2(&Q::from_integer(BigInt::from(v)), sh), fmt, Mode::HalfEven).bits(fmt)
        };
        let mag = match kind {
            0 => 0,
            1 => fmt.inf_bits(),
            2 => fmt.inf_bits() | (1 + r.next() & mant_mask).max(1),
            3 => 1 + r.below(mant_mask),                 // subnormal
            4 => [1, mant_mask, mant_mask + 1, fmt.inf_bits() - 1][r.below(4) as usize],
            5 => int_val(r.next() >> (64 - r.below(fmt.p as u64 + 1).max(1)), 0), // integers below 2^p
            6 => int_val(1 + 2 * (r.next() >> 40), -(1 + r.below(8) as i64)),      // k/2^j: non-integers near integers
            7 => int_val(3, -1),                                                    // 1.5
            8 => int_val(1, -1),                                                    // 0.5
            9 => int_val((1u64 << (fmt.p - 1)) | r.next() >> (65 - fmt.p), 1 + r.below(80) as i64), // big integers
            10 => mk((bias + fmt.p - 2 + r.below(3) as i64) as u64, r.next()),       // around 2^(p-1): last non-integers
            11 => mk((bias as u64) + r.below(70), r.next()),
            12 => mk(bias as u64 - 1 - r.below(70), r.next()),
            _ => r.next() & (fmt.sign_mask() - 1),
        };
        FloatBits { f64: f64_, bits: mag | if neg { fmt.sign_mask() } else { 0 } }
    })
}

/// C06/int-from-float-fraction-accepted: `TryFrom<f32/f64> for UBig/IBig` shifts the mantissa
/// right by −exp without looking at the bits shifted out (floor of the value)
fn int_from_float_lossy(out: &mut Out, ctx: &Ctx, what: &str, x: &Q, got: &BigInt) {
    if !x.is_integer() && got == &x.floor().to_integer() {
        ctx.known_or_fail(out, "C06/int-from-float-fraction-accepted", || format!("{what}({}) = Ok({got})", show_q(x)));
    } else {
        out.fail(format!("{what}({}) = Ok({got}): lossy conversion accepted", show_q(x)));
    }
}

macro_rules! from_float_arm {
    ($out:ident, $ctx:ident, $fmt:expr, $f:expr, $ft:ty, $bits:expr) => {{
        let fmt: Fmt = $fmt;
        let f: $ft = $f;
        let bits: u64 = $bits;
        let nan = fmt.is_nan(bits);
        let inf = fmt.is_inf(bits);
        let x: Option<Q> = fmt.exact(bits);
        let xs = fmt.show(bits);
        $out.label(if nan { "float:NaN" } else if inf { "float:infinite" } else if x.as_ref().unwrap().is_zero() { if fmt.neg(bits) { "float:-0.0" } else { "float:+0.0" } } else if x.as_ref().unwrap().is_integer() { "float:integer" } else { "float:non-integer" });
        if let Some(x) = &x {
            $out.label(range_label(x, fmt));
        }
        let xi: Option<BigInt> = x.as_ref().filter(|x| x.is_integer()).map(|x| x.numer().clone());
        let xu = xi.clone().filter(|v| !v.is_negative());
        // ---- integers
        for (what, got, want) in [
            (concat!("IBig::try_from(", stringify!($ft), ")"), catch(|| IBig::try_from(f).map(|v| i2n(&v))), &xi),
            (concat!("UBig::try_from(", stringify!($ft), ")"), catch(|| UBig::try_from(f).map(|v| BigInt::from(u2n(&v)))), &xu),
        ] {
            match (got, want) {
                (Err(m), _) => $out.fail(format!("{what} panicked on {xs}: {}", normalise(&m))),
                (Ok(Ok(g)), Some(w)) => $out.check(&g == w, || format!("{what}({xs}) = Ok({g}), want Ok({w})")),
                (Ok(Ok(g)), None) => match &x {
                    Some(x) if !(what.starts_with("UBig") && x.is_negative() && x.is_integer()) => int_from_float_lossy(&mut $out, $ctx, what, x, &g),
                    _ => $out.fail(format!("{what}({xs}) = Ok({g}) but the target cannot hold the value")),
                },
                (Ok(Err(e)), Some(w)) => $out.fail(format!("{what}({xs}) = Err({e:?}) but the target holds {w} exactly")),
                (Ok(Err(_)), None) => $out.label("from_float:refused"),
            }
        }
        // integer -> float round trip for the accepted ones
        if let Some(v) = &xi {
            let small = v.magnitude() <= &(BigUint::one() << fmt.p as usize);
            let back = catch(|| <$ft>::try_from(n2i(v)).map(|g| g.to_bits() as u64));
            judge_try_float(&mut $out, concat!(stringify!($ft), "::try_from(IBig::try_from(f))"), fmt, back, x.as_ref().unwrap(), small);
        }
        // ---- rationals: every finite float is held exactly
        for (what, got) in [
            (concat!("RBig::try_from(", stringify!($ft), ")"), catch(|| RBig::try_from(f).map(|r| exact_rbig(&r)))),
            (concat!("Relaxed::try_from(", stringify!($ft), ")"), catch(|| Relaxed::try_from(f).map(|r| exact_relaxed(&r)))),
        ] {
            match (got, &x) {
                (Err(m), _) => $out.fail(format!("{what} panicked on {xs}: {}", normalise(&m))),
                (Ok(Ok(g)), Some(x)) => $out.check(&g == x, || format!("{what}({xs}) holds {}", show_q(&g))),
                (Ok(Ok(g)), None) => $out.fail(format!("{what}({xs}) = Ok({}) for a NaN/infinite input", show_q(&g))),
                (Ok(Err(e)), Some(_)) => $out.fail(format!("{what}({xs}) = Err({e:?}) for a finite float")),
                (Ok(Err(_)), None) => $out.label("from_float:refused"),
            }
        }
        if let Some(x) = &x {
            // and back: RBig -> float
            let back = catch(|| RBig::try_from(f).and_then(|r| <$ft>::try_from(r)).map(|g| g.to_bits() as u64));
            rbig_back_to_float(&mut $out, $ctx, concat!(stringify!($ft), "::try_from(RBig::try_from(f))"), fmt, back, x);
            let back = catch(|| Relaxed::try_from(f).and_then(|r| <$ft>::try_from(r)).map(|g| g.to_bits() as u64));
            rbig_back_to_float(&mut $out, $ctx, concat!(stringify!($ft), "::try_from(Relaxed::try_from(f))"), fmt, back, x);
        }
        // ---- binary floats: finite and infinite inputs are held exactly, NaN is refused
        let judge_fb = |out: &mut Out, what: &str, got: Result<Result<(Option<Q>, bool, usize, usize), ConversionError>, String>| match got {
            Err(m) => out.fail(format!("{what} panicked on {xs}: {}", normalise(&m))),
            Ok(Err(e)) => out.check(nan, || format!("{what}({xs}) = Err({e:?})")),
            Ok(Ok((val, neg, digits, precision))) => {
                if nan {
                    out.fail(format!("{what}(NaN) accepted"));
                } else if inf {
                    out.check(val.is_none() && neg == fmt.neg(bits), || format!("{what}({xs}) is not the infinity of the same sign"));
                } else {
                    out.check(val.as_ref() == x.as_ref(), || format!("{what}({xs}) holds {:?}", val.as_ref().map(show_q)));
                    out.check(precision == 0 || digits <= precision, || format!("{what}({xs}): {digits} digits exceed the precision {precision}"));
                }
            }
        };
        judge_fb(&mut $out, concat!("FBig<Zero,2>::try_from(", stringify!($ft), ")"), catch(|| FBig::<mode::Zero, 2>::try_from(f).map(|g| (exact_fbig(&g), g.repr().sign() == Sign::Negative, if g.repr().is_infinite() { 0 } else { g.repr().digits() }, g.precision()))));
        judge_fb(&mut $out, concat!("FBig<HalfEven,2>::try_from(", stringify!($ft), ")"), catch(|| FBig::<mode::HalfEven, 2>::try_from(f).map(|g| (exact_fbig(&g), g.repr().sign() == Sign::Negative, if g.repr().is_infinite() { 0 } else { g.repr().digits() }, g.precision()))));
        judge_fb(&mut $out, concat!("Repr<2>::try_from(", stringify!($ft), ")"), catch(|| Repr::<2>::try_from(f).map(|g| (exact_repr(&g), g.sign() == Sign::Negative, 0, 0))));
        if let Some(x) = &x {
            // and back: FBig<R,2> -> the same float type (to_f32 rounds with R, to_f64 with HalfEven: exact either way)
            let back = catch(|| FBig::<mode::Up, 2>::try_from(f).and_then(|g| <$ft>::try_from(g)).map(|g| g.to_bits() as u64));
            judge_try_float(&mut $out, concat!(stringify!($ft), "::try_from(FBig<Up,2>::try_from(f))"), fmt, back, x, true);
            let back = catch(|| Repr::<2>::try_from(f).and_then(|g| <$ft>::try_from(g)).map(|g| g.to_bits() as u64));
            judge_try_float(&mut $out, concat!(stringify!($ft), "::try_from(Repr<2>::try_from(f))"), fmt, back, x, true);
        }
    }};
}

/// `TryFrom<RBig> for f32/f64` on a value that came from that very float type
/// A lossy value accepted because `encode` called it Exact (C06/encode-sticky-bit-dropped):
/// `y` is what reaches encode (x itself, or x rounded to p bits when that is exact).
fn accepted_through_encode(out: &mut Out, ctx: &Ctx, what: &str, fmt: Fmt, r: &Result<Result<u64, ConversionError>, String>, x: &Q, y: &Q) -> bool {
    if let Ok(Ok(bits)) = r {
        let lossy = fmt.exact(*bits).as_ref() != Some(x);
        let dyadic = y.denom().magnitude().count_ones() == 1;
        if lossy && dyadic && y == x && !y.is_zero() && y.numer().magnitude().bits() <= 100 {
            let e = -(y.denom().magnitude().bits() as i64 - 1);
            let (mb, mo) = encode_model(y.numer().magnitude().to_u128().unwrap(), e, fmt, EncBugs { drop_bit: true, flush_binade: false });
            if mo == Ordering::Equal && mb == (bits & (fmt.sign_mask() - 1)) && fmt.neg(*bits) == x.is_negative() {
                ctx.known_or_fail(out, "C06/encode-sticky-bit-dropped", || format!("{what} accepted a lossy conversion: x = {} -> Ok({})", show_q(x), fmt.show(*bits)));
                return true;
            }
        }
    }
    false
}

fn rbig_back_to_float(out: &mut Out, ctx: &Ctx, what: &str, fmt: Fmt, r: Result<Result<u64, ConversionError>, String>, x: &Q) {
    try_float_from_rat(out, ctx, what, fmt, r, x);
}

fn from_float(c: &FloatBits, ctx: &Ctx) -> Out {
    let mut out = Out::new();
    out.nontrivial(true);
    if c.f64 {
        from_float_arm!(out, ctx, F64, f64::from_bits(c.bits), f64, c.bits);
    } else {
        from_float_arm!(out, ctx, F32, f32::from_bits(c.bits as u32), f32, c.bits & 0xffff_ffff);
    }
    out
}

// =============================================================================================
// float_encoding: FloatEncoding::{decode, encode}
// =============================================================================================

fn decode_check(c: &FloatBits, _ctx: &Ctx) -> Out {
    let mut out = Out::new();
    let fmt = if c.f64 { F64 } else { F32 };
    let bits = if c.f64 { c.bits } else { c.bits & 0xffff_ffff };
    let x = fmt.exact(bits);
    out.nontrivial(x.is_some());
    let got: Result<Result<(i64, i16), FpCategory>, String> = if c.f64 { catch(|| f64::from_bits(bits).decode()) } else { catch(|| f32::from_bits(bits as u32).decode().map(|(m, e)| (m as i64, e))) };
    match (got, &x) {
        (Err(m), _) => out.fail(format!("{}::decode panicked on {}: {}", fmt.name, fmt.show(bits), normalise(&m))),
        (Ok(Err(cat)), None) => {
            let want = if fmt.is_nan(bits) { FpCategory::Nan } else { FpCategory::Infinite };
            out.label(if fmt.is_nan(bits) { "decode:NaN" } else { "decode:infinite" });
            out.check(cat == want, || format!("{}::decode({}) = Err({cat:?}), want Err({want:?})", fmt.name, fmt.show(bits)));
        }
        (Ok(Err(cat)), Some(_)) => out.fail(format!("{}::decode({}) = Err({cat:?}) for a finite float", fmt.name, fmt.show(bits))),
        (Ok(Ok(me)), None) => out.fail(format!("{}::decode({}) = Ok({me:?}) for NaN/inf", fmt.name, fmt.show(bits))),
        (Ok(Ok((m, e))), Some(x)) => {
            let val = mul_pow2(&Q::from_integer(BigInt::from(m)), e as i64);
            out.check(&val == x, || format!("{}::decode({}) = ({m}, {e}) which is {} not {}", fmt.name, fmt.show(bits), show_q(&val), show_q(x)));
            // documented: not reduced (0f64 -> (0, -1074), 1f32 -> (1<<23, -23))
            let l = 64 - m.unsigned_abs().leading_zeros() as i64;
            let sub = l < fmt.p;
            out.label(if x.is_zero() { "decode:zero" } else if sub { "decode:subnormal" } else { "decode:normal" });
            out.check(if sub { e as i64 == fmt.qmin } else { l == fmt.p }, || format!("{}::decode({}) = ({m}, {e}): not in the documented unreduced form", fmt.name, fmt.show(bits)));
            // encode(decode(f)) == Exact(f)   (−0.0 comes back as +0.0: the mantissa is an integer)
            let back = if c.f64 { catch(|| obs64(f64::encode(m, e))) } else { catch(|| obs32(f32::encode(m as i32, e))) };
            match back {
                Err(pm) => out.fail(format!("{}::encode({m}, {e}) panicked: {}", fmt.name, normalise(&pm))),
                Ok(o) => out.check(o.flag.is_none() && (o.bits == bits || (x.is_zero() && o.bits & (fmt.sign_mask() - 1) == 0)), || format!("{}::encode(decode({})) = {} flag {:?}", fmt.name, fmt.show(bits), fmt.show(o.bits), o.flag)),
            }
        }
    }
    out
}

#[derive(Debug, Clone, Hash, Serialize, Deserialize)]
struct EncCase {
    f64: bool,
    m: i64,
    e: i16,
}

fn mantissa_set(fmt: Fmt, seed: u64) -> Vec<i64> {
    let w = if fmt == F32 { 31 } else { 63 };
    let mut r = SplitMix(seed);
    let mut v: Vec<i64> = vec![1, 2, 3, 5, 6, 7, 13, 22];
    for k in [fmt.p - 1, fmt.p, fmt.p + 1, fmt.p + 2, fmt.p + 3, w - 1, w] {
        if k < 63 {
            let b = 1i64 << k;
            v.extend_from_slice(&[b, b + 1, b - 1, b + 2, b + (b >> 1), b + (b >> 1) + 1, b + (b >> 2), b | (b >> (fmt.p)), b | (b >> fmt.p) | (b >> (fmt.p + 1)), b | (b >> (fmt.p - 1)) | (b >> fmt.p), b | (b >> (fmt.p - 1)) | (b >> fmt.p) | (b >> (fmt.p + 1))]);
        }
    }
    v.push(if fmt == F32 { i32::MAX as i64 } else { i64::MAX });
    if fmt == F32 {
        v.retain(|m| *m <= i32::MAX as i64);
    }
    // random of every width, and near-tie shapes: p bits, round bit, one bit somewhere below
    for _ in 0..6 {
        let width = 1 + r.below(w as u64) as u32;
        v.push((r.next() >> (64 - width)) as i64 | 1i64 << (width - 1));
    }
    for _ in 0..6 {
        let width = (fmt.p as u64 + 2 + r.below((w - fmt.p - 1) as u64)).min(w as u64) as u32;
        let topp = (r.next() >> (64 - fmt.p as u32) | 1u64 << (fmt.p - 1)) as i64;
        let below = width - fmt.p as u32; // >= 2
        let one_bit = 1i64 << r.below(below as u64 - 1);
        v.push(topp << below | 1i64 << (below - 1) | one_bit);
    }
    v
}

fn enc_case() -> impl Strategy<Value = EncCase> {
    (any::<bool>(), any::<u64>(), any::<u16>(), any::<bool>(), 0u8..12, any::<i16>()).prop_map(|(f64_, seed, msel, neg, ekind, erand)| {
        let fmt = if f64_ { F64 } else { F32 };
        let ms = mantissa_set(fmt, seed);
        let mut m = pick(&ms, msel);
        if seed % 97 == 0 {
            m = if f64_ { i64::MIN } else { i32::MIN as i64 };
        } else if neg {
            m = -m;
        }
        let l = 64 - m.unsigned_abs().leading_zeros() as i64;
        let mut r = SplitMix(seed ^ 0xe);
        // exponent classes relative to the mantissa length: top bit position = l + e
        let e: i64 = match ekind {
            0 => -(l - 1) + r.below(40) as i64 - 20,             // value around 1
            1 => fmt.emax - l + r.below(5) as i64 - 2,              // overflow threshold
            2 => fmt.qmin - l + r.below(6) as i64 - 2,              // underflow threshold (top bit at qmin ± 2)
            3 => fmt.qmin + r.below((fmt.p + 3) as u64) as i64 - l, // subnormal results
            4 => fmt.qmin + fmt.p - l + r.below(5) as i64 - 2,      // normal/subnormal border
            5 => fmt.qmin - r.below(70) as i64,                     // quantum exponent downwards (shift < 0 path)
            6 => [i16::MAX as i64, i16::MAX as i64 - l, i16::MAX as i64 - l + 1, i16::MIN as i64, i16::MIN as i64 + 1][r.below(5) as usize],
            7 | 8 => r.below((fmt.emax - fmt.qmin) as u64) as i64 + fmt.qmin - l,
            _ => erand as i64,
        };
        EncCase { f64: f64_, m, e: e.clamp(i16::MIN as i64, i16::MAX as i64) as i16 }
    })
}

/// the two panics of `encode`
fn encode_panic_id(fmt: Fmt, mag: u128, e: i64, nm: &str) -> Option<&'static str> {
    let l = 128 - mag.leading_zeros() as i64;
    let w = if fmt == F32 { 32 } else { 64 };
    if mag != 0 && nm.contains("attempt to add with overflow") && nm.contains("base/src/bit.rs") && l + e > i16::MAX as i64 {
        // C06/encode-exponent-i16-overflow: `(BITS - zeros) as i16 + exponent`
        Some("C06/encode-exponent-i16-overflow")
    } else if nm.contains("attempt to shift left with overflow") && nm.contains("base/src/bit.rs") && (w - 2) + (e - fmt.qmin) < 0 && l + e >= (if fmt == F32 { fmt.qmin + 1 } else { fmt.qmin }) {
        // C06/encode-subnormal-shift-overflow: `mantissa << (BITS-2 + shift)` with shift < -(BITS-2)
        Some("C06/encode-subnormal-shift-overflow")
    } else {
        None
    }
}

/// encode(m, e) judged against RNE of m·2^e; failing observations are attributed through the
/// integer model with one hypothesised defect switched on at a time.
fn encode_judge(fmt: Fmt, m: i64, e: i16, got: Result<Obs, String>, ctx: &Ctx, out: &mut Out) {
    let mag = m.unsigned_abs() as u128;
    let what = format!("{}::encode({m}, {e})", fmt.name);
    // |e| beyond ±1400 cannot change the result any more: clamp so that the rational stays small
    let ec = (e as i64).clamp(-1400, 1400);
    let x = mul_pow2(&Q::from_integer(BigInt::from(m)), ec);
    match got {
        Err(pm) => {
            let nm = normalise(&pm);
            match encode_panic_id(fmt, mag, e as i64, &nm) {
                Some(id) => ctx.known_or_fail(out, id, || format!("{what} panicked: {nm}")),
                None => out.fail(format!("{what} panicked: {nm}")),
            }
        }
        Ok(o) => {
            let vm = value_matches(&o, &x);
            let fm = flag_matches(&o, &x);
            if vm && fm {
                return;
            }
            let gotmag = o.bits & (fmt.sign_mask() - 1);
            let sign_ok = gotmag == 0 || fmt.neg(o.bits) == (m < 0);
            let flag_of = |ord: Ordering| -> Option<bool> {
                match ord {
                    Ordering::Equal => None,
                    Ordering::Greater => Some(m > 0),
                    Ordering::Less => Some(m < 0),
                }
            };
            let matches_model = |b: EncBugs| {
                let (mb, mo) = encode_model(mag, e as i64, fmt, b);
                sign_ok && mb == gotmag && flag_of(mo) == o.flag
            };
            if matches_model(EncBugs { flush_binade: true, drop_bit: false }) {
                ctx.known_or_fail(out, "C06/encode-underflow-threshold", || describe(&what, &o, &x));
            } else if matches_model(EncBugs { flush_binade: false, drop_bit: true }) || matches_model(EncBugs { flush_binade: true, drop_bit: true }) {
                ctx.known_or_fail(out, "C06/encode-sticky-bit-dropped", || describe(&what, &o, &x));
            } else {
                out.fail(format!("{} wrong: {}", if vm { "flag" } else { "value" }, describe(&what, &o, &x)));
            }
        }
    }
}

fn encode_check(c: &EncCase, ctx: &Ctx) -> Out {
    let mut out = Out::new();
    let fmt = if c.f64 { F64 } else { F32 };
    let m = if c.f64 { c.m } else { c.m.clamp(i32::MIN as i64, i32::MAX as i64) };
    let l = 64 - m.unsigned_abs().leading_zeros() as i64;
    let top = l + c.e as i64;
    out.label(if m == 0 {
        "encode:zero"
    } else if top > fmt.emax {
        "encode:overflow"
    } else if top < fmt.qmin {
        "encode:underflow to zero"
    } else if top == fmt.qmin {
        "encode:top bit at qmin (rounds to 0 or the quantum)"
    } else if top <= fmt.qmin + fmt.p - 1 {
        "encode:subnormal result"
    } else {
        "encode:normal result"
    });
    let k = (l - fmt.p).max(fmt.qmin - c.e as i64);
    out.label(if k <= 0 { "encode:no bits dropped" } else { "encode:bits dropped" });
    out.nontrivial(m != 0);
    let got = if c.f64 { catch(|| obs64(f64::encode(m, c.e))) } else { catch(|| obs32(f32::encode(m as i32, c.e))) };
    encode_judge(fmt, m, c.e, got, ctx, &mut out);
    out
}

// =============================================================================================
// exhaustive sweeps (thorough tier), reported through Check::external
// =============================================================================================

struct Sweep {
    evaluations: u64,
    nontrivial: u64,
    labels: BTreeMap<&'static str, u64>,
    known: BTreeMap<String, u64>,
    violation: Option<(String, serde_json::Value)>,
}
impl Sweep {
    fn new() -> Sweep {
        Sweep { evaluations: 0, nontrivial: 0, labels: BTreeMap::new(), known: BTreeMap::new(), violation: None }
    }
    fn merge(&mut self, o: Sweep) {
        self.evaluations += o.evaluations;
        self.nontrivial += o.nontrivial;
        for (k, v) in o.labels {
            *self.labels.entry(k).or_default() += v;
        }
        for (k, v) in o.known {
            *self.known.entry(k).or_default() += v;
        }
        if self.violation.is_none() {
            self.violation = o.violation;
        }
    }
}

fn pow2_f64(e: i32) -> f64 {
    // exact for -1022 <= e <= 1023
    f64::from_bits(((e + 1023) as u64) << 52)
}

/// every f32 bit pattern `start, start+stride, …`: decode exact (hardware f64 arithmetic as the
/// oracle: every f32 and every m·2^e involved is exactly representable in f64), unreduced form,
/// encode(decode(f)) == Exact(f)
fn f32_sweep(stride: u64) -> Sweep {
    let threads = std::thread::available_parallelism().map(|n| n.get()).unwrap_or(4) as u64;
    let total: u64 = 1 << 32;
    let chunk = total / threads + 1;
    let parts: Vec<Sweep> = std::thread::scope(|sc| {
        let hs: Vec<_> = (0..threads)
            .map(|t| {
                sc.spawn(move || {
                    install_panic_hook();
                    let mut s = Sweep::new();
                    let lo = t * chunk;
                    let hi = ((t + 1) * chunk).min(total);
                    let mut b = lo + (stride - lo % stride) % stride;
                    let (mut nan, mut inf, mut sub, mut norm, mut zero) = (0u64, 0u64, 0u64, 0u64, 0u64);
                    while b < hi {
                        let bits = b as u32;
                        let f = f32::from_bits(bits);
                        s.evaluations += 1;
                        let fail: Option<String> = match catch(|| f.decode()) {
                            Err(m) => Some(format!("f32::decode panicked: {}", normalise(&m))),
                            Ok(Err(cat)) => {
                                if f.is_nan() {
                                    nan += 1;
                                    (cat != FpCategory::Nan).then(|| format!("decode(NaN) = Err({cat:?})"))
                                } else if f.is_infinite() {
                                    inf += 1;
                                    (cat != FpCategory::Infinite).then(|| format!("decode(inf) = Err({cat:?})"))
                                } else {
                                    Some(format!("decode = Err({cat:?}) for a finite float"))
                                }
                            }
                            Ok(Ok((m, e))) => {
                                if !f.is_finite() {
                                    Some(format!("decode = Ok(({m}, {e})) for NaN/inf"))
                                } else {
                                    s.nontrivial += 1;
                                    let l = 32 - m.unsigned_abs().leading_zeros();
                                    if m == 0 {
                                        zero += 1;
                                    } else if l < 24 {
                                        sub += 1;
                                    } else {
                                        norm += 1;
                                    }
                                    let exact = (-1022..=1023).contains(&(e as i32)) && (m as f64) * pow2_f64(e as i32) == f as f64;
                                    let form = if l < 24 { e == -149 } else { l == 24 };
                                    if !exact {
                                        Some(format!("decode = ({m}, {e}) is not the value of the float"))
                                    } else if !form {
                                        Some(format!("decode = ({m}, {e}) is not in the documented unreduced form"))
                                    } else {
                                        match catch(|| f32::encode(m, e)) {
                                            Err(pm) => Some(format!("encode({m}, {e}) panicked: {}", normalise(&pm))),
                                            Ok(Approximation::Exact(g)) if g.to_bits() == bits || (m == 0 && g.to_bits() == 0) => None,
                                            Ok(other) => Some(format!("encode(decode(f)) = {other:?}")),
                                        }
                                    }
                                }
                            }
                        };
                        if let Some(msg) = fail {
                            if s.violation.is_none() {
                                s.violation = Some((format!("f32 0x{bits:08x}: {msg}"), json!({"f64": false, "bits": bits as u64})));
                            }
                        }
                        b += stride;
                    }
                    s.labels.insert("decode:NaN", nan);
                    s.labels.insert("decode:infinite", inf);
                    s.labels.insert("decode:subnormal", sub);
                    s.labels.insert("decode:normal", norm);
                    s.labels.insert("decode:zero", zero);
                    s
                })
            })
            .collect();
        hs.into_iter().map(|h| h.join().unwrap()).collect()
    });
    let mut all = Sweep::new();
    for p in parts {
        all.merge(p);
    }
    all
}

/// encode(m, e) for every i16 exponent (`estride` = 1) at a fixed mantissa boundary set, both
/// formats; fast path = integer model (validated in selftest), slow path = full judgement
fn encode_sweep(known: &Known, tier: Tier, estride: usize) -> Sweep {
    let threads = std::thread::available_parallelism().map(|n| n.get()).unwrap_or(4);
    let mut jobs: Vec<(bool, i64)> = Vec::new();
    for f64_ in [false, true] {
        let fmt = if f64_ { F64 } else { F32 };
        let mut ms = mantissa_set(fmt, 0xC06);
        ms.push(if f64_ { i64::MIN } else { i32::MIN as i64 });
        let neg: Vec<i64> = ms.iter().filter(|m| **m != i64::MIN && **m != i32::MIN as i64).step_by(3).map(|m| -m).collect();
        ms.extend(neg);
        ms.sort();
        ms.dedup();
        for m in ms {
            jobs.push((f64_, m));
        }
    }
    let next = std::sync::atomic::AtomicUsize::new(0);
    let parts: Vec<Sweep> = std::thread::scope(|sc| {
        let hs: Vec<_> = (0..threads)
            .map(|_| {
                sc.spawn(|| {
                    install_panic_hook();
                    let ctx = Ctx { tier, known, strict: false };
                    let mut s = Sweep::new();
                    loop {
                        let j = next.fetch_add(1, std::sync::atomic::Ordering::SeqCst);
                        if j >= jobs.len() {
                            break;
                        }
                        let (f64_, m) = jobs[j];
                        let fmt = if f64_ { F64 } else { F32 };
                        for e in (i16::MIN as i32..=i16::MAX as i32).step_by(estride) {
                            let e = e as i16;
                            s.evaluations += 1;
                            s.nontrivial += 1;
                            let got = if f64_ { catch(|| obs64(f64::encode(m, e))) } else { catch(|| obs32(f32::encode(m as i32, e))) };
                            if let Ok(o) = &got {
                                let (mb, mo) = encode_model(m.unsigned_abs() as u128, e as i64, fmt, EncBugs::default());
                                let flag = match mo {
                                    Ordering::Equal => None,
                                    Ordering::Greater => Some(m > 0),
                                    Ordering::Less => Some(m < 0),
                                };
                                if o.bits & (fmt.sign_mask() - 1) == mb && o.flag == flag && (mb == 0 || fmt.neg(o.bits) == (m < 0)) {
                                    *s.labels.entry("encode sweep:agrees with RNE").or_default() += 1;
                                    continue;
                                }
                            }
                            let mut out = Out::new();
                            encode_judge(fmt, m, e, got, &ctx, &mut out);
                            match out.verdict {
                                Verdict::Known(id) => {
                                    *s.labels.entry("encode sweep:known finding").or_default() += 1;
                                    *s.known.entry(id).or_default() += 1;
                                }
                                Verdict::Violation(sig) => {
                                    if s.violation.is_none() {
                                        s.violation = Some((sig, json!({"f64": f64_, "m": m, "e": e})));
                                    }
                                }
                                _ => {
                                    // the fast path disagreed but the exact judgement passes: model/oracle mismatch
                                    if s.violation.is_none() {
                                        s.violation = Some((format!("ORACLE SELFTEST: encode_model disagrees with ieee_round at ({m}, {e})"), json!({"f64": f64_, "m": m, "e": e})));
                                    }
                                }
                            }
                        }
                    }
                    s
                })
            })
            .collect();
        hs.into_iter().map(|h| h.join().unwrap()).collect()
    });
    let mut all = Sweep::new();
    for p in parts {
        all.merge(p);
    }
    all
}

// =============================================================================================

macro_rules! mode_subs {
    ($ck:ident, $prefix:literal, $cases:expr, $gen:ident, $f:ident; $($b:literal $bn:literal),*) => {$(
        mode_subs!(@m $ck, $prefix, $cases, $gen, $f, $b, $bn, Zero, Away, Up, Down, HalfEven, HalfAway);
    )*};
    (@m $ck:ident, $prefix:literal, $cases:expr, $gen:ident, $f:ident, $b:literal, $bn:literal, $($m:ident),*) => {$(
        $ck.sub(concat!($prefix, "_b", $bn, "_", stringify!($m)), $cases, || $gen($b), $f::<mode::$m, $b>);
    )*};
}

fn main() {
    let mut ck = Check::new(
        "C06",
        "From/TryFrom matrix {u8..u128, usize, i8..i128, isize, bool, f32, f64} x {UBig, IBig, FBig<R,B>, Repr<B>, RBig, Relaxed} in both directions (values: type MIN/MAX and +-1 around them, 0, -1, 2^k +- 1 for k in 7..128, random; floats: NaN, +-inf, +-0, subnormals, integers, k/2^j, borders of the integer range) judged by a representability predicate on the exact rational value (Ok => equal and round trip, representable => Ok, else Err); lossy conversions to_f32/to_f64 (UBig, IBig — also through num_traits::ToPrimitive —, RBig, Relaxed, FBig and Repr in bases 2, 3, 10, 16, six modes), to_f32_fast/to_f64_fast (documented one-bit bound), RBig::to_float (six-clause contract), to_int (FBig per mode, Repr/RBig truncation) and FloatEncoding::{decode, encode} judged against an exact IEEE rounding of the rational value: values (m + j/D)·2^q with m a p-bit pattern, q in every range class (normal, top binade, overflow, lowest normal binade, subnormal, below the quantum) and j/D in {0, 1/2, 1/2 +- 2^-k, 1/2 +- 1/(3·2^k), 1/4, 3/4, 2^-k, 1 - 2^-k, odd denominators}, integers ((m·2+r) << t) + sticky with the sticky bit at every distance below the round bit, decimal expansions of the dyadic boundary values +- 1 unit far below, base-native significands with exponents in each convert_base branch; encode over mantissa boundary sets x exponent classes (thorough: every i16 exponent; every f32 bit pattern for decode and encode∘decode). Non-trivial: the conversion crosses a type family or is inexact; distinct by case digest.",
    );
    ck.assume("IEEE oracle `ieee_round` (exact rationals) — validated per run against hardware `as` casts of <= 128-bit integers, std's f32/f64 decimal parser and an independent integer-only RNE model (subs selftest)");
    ck.assume("hardware f64 multiplication by a power of two is exact (f32 exhaustive sweep)");

    ck.sub("selftest", (20_000, 600_000), self_case, selftest);
    ck.sub("lossless_prim", (40_000, 1_200_000), prim_case, lossless_prim);
    ck.sub("lossless_big_b2", (6_000, 180_000), || big_case(2), lossless_big::<mode::Zero, 2>);
    ck.sub("lossless_big_b10", (6_000, 180_000), || big_case(10), lossless_big::<mode::HalfAway, 10>);
    ck.sub("lossless_big_b3", (4_000, 120_000), || big_case(3), lossless_big::<mode::HalfEven, 3>);
    ck.sub("lossless_big_b16", (4_000, 120_000), || big_case(16), lossless_big::<mode::Up, 16>);
    ck.sub("lossless_inf", (16, 16), || 0u8..2, lossless_inf);
    ck.sub("from_float", (30_000, 900_000), float_bits, from_float);
    ck.sub("int_to_float", (40_000, 1_200_000), int_case, int_to_float);
    ck.sub("rational_to_float", (40_000, 1_200_000), rat_case, rational_to_float);
    mode_subs!(ck, "fbig_to_float", (3_000, 90_000), fl_case, fbig_to_float; 2 "2", 10 "10", 16 "16", 3 "3");
    mode_subs!(ck, "rbig_to_float", (1_500, 45_000), to_float_case, rbig_to_float; 2 "2", 10 "10", 3 "3");
    mode_subs!(ck, "to_int", (1_200, 36_000), to_int_case, to_int; 2 "2", 10 "10");
    ck.sub("to_int_b3_HalfEven", (1_200, 36_000), || to_int_case(3), to_int::<mode::HalfEven, 3>);
    ck.sub("to_int_b16_HalfAway", (1_200, 36_000), || to_int_case(16), to_int::<mode::HalfAway, 16>);
    ck.sub("decode", (20_000, 600_000), float_bits, decode_check);
    ck.sub("encode", (40_000, 1_200_000), enc_case, encode_check);

    if ck.thorough() && !ck.is_replay() {
        let scale = ck.scale;
        if ck.wants("decode_f32_exhaustive") {
            let stride = if scale >= 1.0 { 1 } else { ((1.0 / scale).round() as u64).max(1) };
            let t0 = std::time::Instant::now();
            let s = f32_sweep(stride);
            let samples = vec![json!({"f64": false, "bits": 0x3f800000u64}), json!({"f64": false, "bits": 1u64})];
            // Check::external materialises one synthetic digest per distinct case: cap what is passed
            // there (the true count is in `extra`)
            let true_nontrivial = s.nontrivial;
            ck.external(
                "decode_f32_exhaustive",
                s.evaluations,
                s.nontrivial.min(1 << 20),
                s.labels,
                samples,
                s.violation,
                Some(json!({"enumeration": "f32 bit patterns 0, stride, 2·stride, … < 2^32: decode exact, unreduced form, encode(decode(f)) == Exact(f)", "stride": stride, "exhaustive": stride == 1, "distinct_nontrivial_true": true_nontrivial, "distinct_nontrivial_reported_cap": 1u64 << 20, "wall_s": t0.elapsed().as_secs_f64()})),
            );
        }
        if ck.wants("encode_all_exponents") {
            let estride = if scale >= 1.0 { 1 } else { ((1.0 / scale).round() as usize).max(1) };
            let t0 = std::time::Instant::now();
            let known = ck.known().clone();
            let s = encode_sweep(&known, ck.tier, estride);
            let samples = vec![json!({"f64": false, "m": 3, "e": -151}), json!({"f64": true, "m": 22, "e": -1077})];
            let true_nontrivial = s.nontrivial;
            ck.external(
                "encode_all_exponents",
                s.evaluations,
                s.nontrivial.min(1 << 20),
                s.labels,
                samples,
                s.violation,
                Some(json!({"enumeration": "encode(m, e) for every i16 exponent (stride below) x fixed mantissa boundary set x {f32, f64}", "exponent_stride": estride, "exhaustive": estride == 1, "known_hits": s.known, "distinct_nontrivial_true": true_nontrivial, "distinct_nontrivial_reported_cap": 1u64 << 20, "wall_s": t0.elapsed().as_secs_f64()})),
            );
        }
    }
    ck.finish();
}
