//! C13 — reduced-ring (modular) arithmetic is the homomorphic image of integer arithmetic.
//!
//! `ConstDivisor::reduce` / `IntoRing`, `Reduced::{residue, modulus, pow, inv, sqr, dbl}`, the
//! operators `+ - * /` and `Neg` in every ownership / assign form, `==`, and the
//! `num_modular::Reducer<UBig>` impl of `ConstDivisor`, all compared with reduce-after-operate
//! evaluated in num-bigint.
use dashu_int::fast_div::ConstDivisor;
use dashu_int::modular::IntoRing;
use dashu_int::UBig;
use dv::gen;
use dv::*;
use num_bigint::{BigInt, BigUint};
use num_integer::Integer;
use num_modular::Reducer;
use num_traits::{One, Zero};
use proptest::prelude::*;
use proptest::strategy::Union;
use serde::{Deserialize, Serialize};

// ------------------------------------------------------------------------------------ cases

#[derive(Debug, Clone, Hash, Serialize, Deserialize)]
struct RingCase {
    m: Nat,
    a: Int,
    b: Int,
    e: Nat,
}

#[derive(Debug, Clone, Hash, Serialize, Deserialize)]
struct MixCase {
    m1: Nat,
    m2: Nat,
    a: Int,
    b: Int,
}

#[derive(Debug, Clone, Hash, Serialize, Deserialize)]
struct PrimCase {
    m: Nat,
    p: i128,
    width: u8, // 0..6: 8,16,32,64,128,size
}

// ------------------------------------------------------------------------------- generators

/// moduli of one or two words: the `ConstSingleDivisor` / `ConstDoubleDivisor` rings
fn modulus_small() -> BoxedStrategy<Nat> {
    const TOP: u64 = 1 << 63;
    const TOP2: u128 = 1 << 127;
    Union::new_weighted(vec![
        (1, Just(Nat(vec![1])).boxed()),
        (1, Just(Nat(vec![2])).boxed()),
        (2, (1u32..64).prop_map(|k| Nat(vec![1u64 << k])).boxed()),
        (2, (3u64..1000).prop_map(|w| Nat(vec![w])).boxed()),
        // one word, top bit set (no normalisation shift): odd, even
        (2, any::<u64>().prop_map(|w| Nat(vec![w | TOP | 1])).boxed()),
        (2, any::<u64>().prop_map(|w| Nat(vec![(w | TOP) & !1])).boxed()),
        // one word, normalisation shift s: odd, even
        (2, (any::<u64>(), 1u32..62).prop_map(|(w, s)| Nat(vec![((w | TOP) >> s) | 1])).boxed()),
        (2, (any::<u64>(), 1u32..62).prop_map(|(w, s)| Nat(vec![(((w | TOP) >> s) & !1).max(2)])).boxed()),
        (1, Just(Nat(vec![u64::MAX])).boxed()),
        (1, Just(Nat(vec![TOP + 1])).boxed()),
        // two words: 2^k, normalised, needing a shift, low word zero, extremes
        (2, (64u32..128).prop_map(|k| Nat::from_u128(1u128 << k)).boxed()),
        (3, any::<u128>().prop_map(|w| Nat::from_u128(w | TOP2)).boxed()),
        (3, (any::<u128>(), 1u32..64).prop_map(|(w, s)| Nat::from_u128(((w | TOP2) >> s) | (1u128 << 64))).boxed()),
        (1, any::<u64>().prop_map(|w| Nat(vec![0, w.max(1)])).boxed()),
        (1, Just(Nat::from_u128(u128::MAX)).boxed()),
        (1, Just(Nat::from_u128((1u128 << 64) + 1)).boxed()),
        (2, gen::nat_len(2, 2)),
    ])
    .boxed()
}

/// moduli of three and more words: the `ConstLargeDivisor` ring
fn modulus_large(thorough: bool) -> BoxedStrategy<Nat> {
    let mut v: Vec<(u32, BoxedStrategy<Nat>)> = vec![
        (4, gen::nat_len(3, 3)),
        (3, gen::nat_len(4, 4)),
        (3, gen::nat_len(5, 12)),
        (2, gen::nat_len(13, 32)),
        (2, gen::nat_len(33, 33)),
        (2, gen::nat_len(40, 40)),
        (1, gen::nat_len(34, 48)),
        // even multi-word
        (2, (3usize..=8, any::<u64>()).prop_map(|(n, s)| {
            let mut v = gen::expand(n, 1, s);
            v[0] &= !1;
            Nat(v)
        }).boxed()),
        // low words zero
        (2, (3usize..=8, 1usize..=7, any::<u64>()).prop_map(|(n, z, s)| {
            let mut v = gen::expand(n, 1, s);
            for w in v.iter_mut().take(z.min(n - 1)) {
                *w = 0;
            }
            Nat(v)
        }).boxed()),
        // 2^k, multi-word
        (2, (128usize..700).prop_map(|k| Nat::from_big(&(BigUint::one() << k))).boxed()),
    ];
    if thorough {
        v.push((1, gen::nat_len(49, 200)));
    }
    Union::new_weighted(v).boxed()
}

/// shared-factor moduli m = g·l (elements are then built as multiples of g); one in eight is a
/// perfect square (l = g)
fn modulus_with_factor() -> BoxedStrategy<(Nat, Nat, Nat)> {
    let factor = || {
        Union::new_weighted(vec![
            (2, Just(Nat(vec![1])).boxed()),
            (2, Just(Nat(vec![2])).boxed()),
            (3, (3u64..100).prop_map(|w| Nat(vec![w])).boxed()),
            (2, (1u32..64).prop_map(|k| Nat(vec![1u64 << k])).boxed()),
            (3, gen::nat_len(1, 1)),
            (3, gen::nat_len(2, 2)),
            (3, gen::nat_len(3, 4)),
            (1, gen::nat_len(5, 12)),
        ])
    };
    (factor(), factor(), 0u8..8)
        .prop_map(|(g, l, sq)| {
            let l = if sq == 0 { g.clone() } else { l };
            (Nat::from_big(&(g.big() * l.big())), g, l)
        })
        .boxed()
}

fn exponent(rich: bool) -> BoxedStrategy<Nat> {
    let mut v: Vec<(u32, BoxedStrategy<Nat>)> = vec![
        (3, Just(Nat(vec![])).boxed()),
        (3, Just(Nat(vec![1])).boxed()),
        (3, Just(Nat(vec![2])).boxed()),
        (6, (3u64..=20).prop_map(|w| Nat(vec![w])).boxed()),
        (3, (21u64..5000).prop_map(|w| Nat(vec![w])).boxed()),
        (2, any::<u64>().prop_map(|w| Nat(vec![w])).boxed()),
        (1, any::<u128>().prop_map(|w| Nat::from_u128(w | (1u128 << 64))).boxed()),
        (1, gen::nat_len(3, 3)),
    ];
    if rich {
        v.push((2, (0u32..64).prop_map(|k| Nat(vec![1u64 << k])).boxed()));
        v.push((1, Just(Nat(vec![u64::MAX])).boxed()));
        v.push((2, Just(Nat(vec![0, 1])).boxed()));
        v.push((1, Just(Nat(vec![1, 1])).boxed()));
        v.push((2, (64u32..128).prop_map(|k| Nat::from_u128(1u128 << k)).boxed()));
        v.push((3, any::<u128>().prop_map(|w| Nat::from_u128(w | (1u128 << 64))).boxed()));
        v.push((1, Just(Nat::from_u128(u128::MAX)).boxed()));
        v.push((4, gen::nat_len(3, 3)));
        v.push((4, gen::nat_len(4, 6)));
        v.push((3, gen::nat_len(7, 12)));
    }
    Union::new_weighted(v).boxed()
}

/// keep `pow` affordable: bits(e) · words(m)^2 bounded; at least three exponent words survive
fn cap_exponent(e: Nat, lm: usize) -> Nat {
    let cap = (1_300_000usize / (64 * lm.max(1) * lm.max(1))).clamp(3, 12);
    let n = e.trimmed_len().min(cap);
    let mut w = e.0[..n].to_vec();
    if n > 0 && w[n - 1] == 0 {
        w[n - 1] = 1;
    }
    Nat(w)
}

#[derive(Debug, Clone)]
struct ElemRecipe {
    sel: u8,
    pat: u8,
    seed: u64,
    neg: bool,
}

fn recipe() -> impl Strategy<Value = ElemRecipe> {
    (0u8..16, 0u8..gen::N_PATTERNS, any::<u64>(), any::<bool>()).prop_map(|(sel, pat, seed, neg)| ElemRecipe { sel, pat, seed, neg })
}

/// Element built relative to the modulus (construction, no rejection). `step` = 1 normally, or
/// the shared factor g (then every element is a multiple of g).
fn elem(nm: &BigUint, lm: usize, r: &ElemRecipe, other: Option<&Int>, step: &BigUint) -> Int {
    let one = BigUint::one();
    let k = BigUint::from(r.seed % 1000 + 2);
    let mag: BigUint = match r.sel {
        0 => BigUint::zero(),
        1 => one.clone(),
        2 => nm - &one,
        3 => nm.clone(),
        4 => nm + &one,
        5 => nm * 2u32 - &one,
        6 => nm * &k,
        7 => nm * &k + (nm - &one),
        8 => nm >> 1,
        9 => (nm >> 1) + &one,
        10 | 11 => Nat(gen::expand(lm, r.pat, r.seed)).big() % nm,
        12 => Nat(gen::expand((r.seed % (2 * lm as u64 + 3)) as usize, r.pat, r.seed)).big(),
        13 => Nat(gen::expand((r.seed % 3) as usize, r.pat, r.seed)).big(),
        14 => match other {
            Some(o) => return o.clone(),
            None => Nat(gen::expand(lm + 1, r.pat, r.seed)).big(),
        },
        _ => match other {
            // a + b == m exactly on the residues (the conditional subtract on equality)
            Some(o) => {
                let ro = red(&o.big(), nm);
                return Int { neg: false, mag: Nat::from_big(&(nm - ro)) };
            }
            None => Nat(gen::expand(lm, r.pat, !r.seed)).big() % nm,
        },
    };
    let mag = if step.is_one() { mag } else { (mag / step) * step };
    Int { neg: r.neg && !mag.is_zero(), mag: Nat::from_big(&mag) }
}

fn ring_case(modulus: BoxedStrategy<Nat>, rich_exp: bool) -> impl Strategy<Value = RingCase> {
    (modulus, recipe(), recipe(), exponent(rich_exp)).prop_map(|(m, ra, rb, e)| {
        let nm = m.big();
        let lm = m.trimmed_len();
        let one = BigUint::one();
        let a = elem(&nm, lm, &ra, None, &one);
        let b = elem(&nm, lm, &rb, Some(&a), &one);
        RingCase { a, b, e: cap_exponent(e, lm), m }
    })
}

fn gcd_case() -> impl Strategy<Value = RingCase> {
    (modulus_with_factor(), recipe(), recipe(), exponent(false), any::<bool>(), 0u8..8).prop_map(|((m, g, l), ra, rb, e, b_free, shape)| {
        let nm = m.big();
        let lm = m.trimmed_len();
        let ng = g.big();
        let one = BigUint::one();
        let (a, b) = match shape {
            // the integer product a·b is the modulus itself (the "product needs one subtraction" path)
            0 => (Int { neg: false, mag: g.clone() }, Int { neg: false, mag: l.clone() }),
            1 => (Int { neg: ra.neg, mag: l.clone() }, Int { neg: rb.neg, mag: g.clone() }),
            _ => {
                let a = elem(&nm, lm, &ra, None, &ng);
                // b: either also a multiple of g (division by it must panic) or free
                let b = elem(&nm, lm, &rb, Some(&a), if b_free { &one } else { &ng });
                (a, b)
            }
        };
        RingCase { a, b, e: cap_exponent(e, lm), m }
    })
}

// ---------------------------------------------------------------------------------- oracle

/// x mod m in [0, m), for any sign of x
fn red(x: &BigInt, m: &BigUint) -> BigUint {
    x.mod_floor(&BigInt::from(m.clone())).to_biguint().expect("mod_floor by a positive modulus is non-negative")
}

/// b^e mod m by plain left-to-right square-and-multiply (only `*` and `%` of the reference),
/// cross-checked against num-bigint's own `modpow`
fn modpow_ref(b: &BigUint, e: &BigUint, m: &BigUint) -> BigUint {
    let mut r = BigUint::one() % m;
    let b = b % m;
    for i in (0..e.bits()).rev() {
        r = (&r * &r) % m;
        if e.bit(i) {
            r = (&r * &b) % m;
        }
    }
    if !m.is_one() {
        assert!(r == b.modpow(e, m), "reference self-check: square-and-multiply != num-bigint modpow");
    }
    r
}

fn chk(out: &mut Out, what: &str, form: &str, got: &Result<UBig, String>, want: &BigUint, nm: &BigUint) {
    match got {
        Ok(g) => {
            let g = u2n(g);
            if &g >= nm {
                out.fail(format!("{what} [{form}]: residue {} is outside [0, m), m = {} (want {})", show_u(&g), show_u(nm), show_u(want)));
            } else if &g != want {
                out.fail(format!("{what} [{form}]: got {} want {} (mod {})", show_u(&g), show_u(want), show_u(nm)));
            }
        }
        Err(m) => out.fail(format!("{what} [{form}]: unexpected panic {}", normalise(m))),
    }
}

/// the documented panic: message of `panic_different_rings` / `panic_divide_by_invalid_modulo`
fn must_panic<T>(out: &mut Out, what: &str, form: &str, got: &Result<T, String>, needles: &[&str], why: &str) {
    match got {
        Ok(_) => out.fail(format!("{what} [{form}]: returned a value instead of panicking ({why})")),
        Err(m) => {
            if !needles.iter().any(|n| m.contains(n)) {
                out.fail(format!("{what} [{form}]: panicked ({why}), but not with the documented message: {}", normalise(m)));
            }
        }
    }
}

const MSG_RINGS: &str = "different rings";
const MSG_NONINV: &str = "non-invertible";

/// the six ownership / assign forms of a binary operator on `Reduced`, as residues
macro_rules! forms {
    ($x:expr, $y:expr, $op:tt, $opa:tt) => {{
        let (x, y) = (&$x, &$y);
        vec![
            ("val.val", catch(|| (x.clone() $op y.clone()).residue())),
            ("val.ref", catch(|| (x.clone() $op y).residue())),
            ("ref.val", catch(|| (x $op y.clone()).residue())),
            ("ref.ref", catch(|| (x $op y).residue())),
            ("assign.val", catch(|| { let mut t = x.clone(); t $opa y.clone(); t.residue() })),
            ("assign.ref", catch(|| { let mut t = x.clone(); t $opa y; t.residue() })),
        ]
    }};
}

fn mod_labels(out: &mut Out, m: &Nat) {
    let l = m.trimmed_len();
    let top = m.0[l - 1];
    let shifted = top.leading_zeros() != 0;
    let even = m.0[0] & 1 == 0;
    let nm = m.big();
    let pow2 = nm.count_ones() == 1;
    out.label(if nm.is_one() {
        "mod:1"
    } else if l == 1 && top == 2 {
        "mod:2"
    } else if pow2 {
        match l {
            1 => "mod:2^k, k<64",
            2 => "mod:2^k, 64<=k<128",
            _ => "mod:2^k, multi-word",
        }
    } else {
        match (l, even, shifted) {
            (1, false, false) => "mod:word odd, no shift",
            (1, false, true) => "mod:word odd, shifted",
            (1, true, false) => "mod:word even, no shift",
            (1, true, true) => "mod:word even, shifted",
            (2, _, false) => "mod:dword, no shift",
            (2, _, true) => "mod:dword, shifted",
            (3, _, _) => "mod:3 words",
            (4, _, _) => "mod:4 words",
            (5..=32, _, _) => "mod:5-32 words",
            (33..=40, _, _) => "mod:33-40 words",
            _ => "mod:>40 words",
        }
    });
    if l == 2 && m.0[0] == 0 {
        out.label("mod:dword, low word zero");
    }
    if l >= 3 {
        out.label(if shifted { "mod:multi-word, shifted" } else { "mod:multi-word, no shift" });
        if even {
            out.label("mod:multi-word, even");
        }
        if m.0[0] == 0 {
            out.label("mod:multi-word, low words zero");
        }
    }
}

fn exp_label(e: &Nat) -> &'static str {
    match e.trimmed_len() {
        0 => "exp:0",
        1 => match e.0[0] {
            1 => "exp:1",
            2 => "exp:2",
            3..=64 => "exp:3-64",
            _ => "exp:one word",
        },
        2 => "exp:two words (inline)",
        _ => "exp:multi-word",
    }
}

/// window length chosen by modular/pow.rs `choose_pow_window_len` for multi-word rings
fn window_label(bits: u64) -> &'static str {
    let n = bits as usize;
    let cost = |w: usize| (1usize << (w - 1)) - 1 + n / (w + 1);
    let mut w = 1;
    let mut c = cost(w);
    while w + 1 < 64 {
        let c2 = cost(w + 1);
        if c <= c2 {
            break;
        }
        w += 1;
        c = c2;
    }
    match w {
        1 => "pow(large):window 1",
        2 => "pow(large):window 2",
        3 => "pow(large):window 3",
        4 => "pow(large):window 4",
        5 => "pow(large):window 5",
        _ => "pow(large):window >=6",
    }
}

fn elem_label(x: &Int, rx: &BigUint, nm: &BigUint, lm: usize) -> &'static str {
    if rx.is_zero() {
        if x.is_zero() {
            "elem:0"
        } else {
            "elem:non-zero multiple of m"
        }
    } else if x.neg {
        "elem:negative"
    } else if &x.mag.big() < nm {
        "elem:already reduced"
    } else if x.mag.trimmed_len() > 2 * lm {
        "elem:> 2x modulus length"
    } else {
        "elem:>= m"
    }
}

/// `pow` with exponent 0 in the ring of modulus 1 is the one recorded finding
fn chk_pow(out: &mut Out, ctx: &Ctx, what: &str, got: &Result<UBig, String>, want: &BigUint, nm: &BigUint, e: &BigUint) {
    if nm.is_one() && e.is_zero() {
        let known_shape = match got {
            Ok(g) => u2n(g).is_one(),
            Err(m) => m.contains("is_valid"),
        };
        if known_shape {
            ctx.known_or_fail(out, "C13/pow0-modulus-one", || format!("{what}: x^0 in the ring of modulus 1 gives {got:?}, want residue 0"));
            return;
        }
    }
    chk(out, what, "-", got, want, nm);
}

fn ring_ops(c: &RingCase, ctx: &Ctx) -> Out {
    let mut out = Out::new();
    let nm = c.m.big();
    assert!(!nm.is_zero(), "generator: modulus must be >= 1");
    let lm = c.m.trimmed_len();
    let ne = c.e.big();
    out.nontrivial(lm >= 2 || ne >= BigUint::from(2u32));
    mod_labels(&mut out, &c.m);
    out.label(exp_label(&c.e));

    let ring = match catch(|| ConstDivisor::new(c.m.ubig())) {
        Ok(r) => r,
        Err(m) => {
            out.fail(format!("ConstDivisor::new: unexpected panic {}", normalise(&m)));
            return out;
        }
    };
    chk_plain(&mut out, "ConstDivisor::value", &catch(|| ring.value()), &nm);

    let (na, nb) = (c.a.big(), c.b.big());
    let (ra, rb) = (red(&na, &nm), red(&nb, &nm));
    out.label(elem_label(&c.a, &ra, &nm, lm));
    if ra == rb {
        out.label("pair:equal residues");
    }
    if !ra.is_zero() && &ra + &rb == nm {
        out.label("pair:residues sum to m exactly");
    }
    if &ra * &rb == nm {
        out.label("pair:residues multiply to m exactly");
    }
    if &ra * &ra == nm {
        out.label("elem:residue squared is m exactly");
    }

    // ---------- into the ring: IBig, UBig (magnitude), IntoRing directly
    chk(&mut out, "reduce(IBig).residue", "a", &catch(|| ring.reduce(c.a.ibig()).residue()), &ra, &nm);
    chk(&mut out, "reduce(IBig).residue", "b", &catch(|| ring.reduce(c.b.ibig()).residue()), &rb, &nm);
    let rua = c.a.mag.big() % &nm;
    chk(&mut out, "reduce(UBig).residue", "|a|", &catch(|| ring.reduce(c.a.mag.ubig()).residue()), &rua, &nm);
    chk(&mut out, "IntoRing::into_ring(IBig)", "a", &catch(|| IntoRing::into_ring(c.a.ibig(), &ring).residue()), &ra, &nm);
    chk(&mut out, "IntoRing::into_ring(UBig)", "|a|", &catch(|| IntoRing::into_ring(c.a.mag.ubig(), &ring).residue()), &rua, &nm);

    let (x, y) = match catch(|| (ring.reduce(c.a.ibig()), ring.reduce(c.b.ibig()))) {
        Ok(p) => p,
        Err(_) => return out, // already reported above
    };
    chk_plain(&mut out, "Reduced::modulus", &catch(|| x.modulus()), &nm);
    chk(&mut out, "Reduced::clone", "-", &catch(|| x.clone().residue()), &ra, &nm);
    chk(&mut out, "Reduced::clone_from", "-", &catch(|| { let mut t = y.clone(); t.clone_from(&x); t.residue() }), &ra, &nm);

    // ---------- equality within the ring
    match catch(|| (x == y, x != y, x == x.clone())) {
        Ok((eq, ne_, refl)) => {
            out.check(eq == (ra == rb) && ne_ != eq, || format!("Reduced ==: got eq={eq} ne={ne_}, residues equal = {}", ra == rb));
            out.check(refl, || "Reduced == is not reflexive".into());
        }
        Err(m) => out.fail(format!("Reduced ==: unexpected panic {}", normalise(&m))),
    }

    // ---------- + - *
    let sum = (&ra + &rb) % &nm;
    let diff = red(&(BigInt::from(ra.clone()) - BigInt::from(rb.clone())), &nm);
    let prod = (&ra * &rb) % &nm;
    // the homomorphism itself: operate on the integers, then reduce
    assert!(sum == red(&(&na + &nb), &nm) && diff == red(&(&na - &nb), &nm) && prod == red(&(&na * &nb), &nm), "reference self-check");
    for (form, r) in forms!(x, y, +, +=) {
        chk(&mut out, "Reduced + Reduced", form, &r, &sum, &nm);
    }
    for (form, r) in forms!(x, y, -, -=) {
        chk(&mut out, "Reduced - Reduced", form, &r, &diff, &nm);
    }
    for (form, r) in forms!(x, y, *, *=) {
        chk(&mut out, "Reduced * Reduced", form, &r, &prod, &nm);
    }
    let rdiff = red(&(&nb - &na), &nm);
    for (form, r) in forms!(y, x, -, -=) {
        chk(&mut out, "Reduced - Reduced (b - a)", form, &r, &rdiff, &nm);
    }
    // same operand on both sides (square shortcut of mul_in_place, x - x)
    let dbl = (&ra * 2u32) % &nm;
    let sq = (&ra * &ra) % &nm;
    chk(&mut out, "x + x", "ref.ref", &catch(|| (&x + &x).residue()), &dbl, &nm);
    chk(&mut out, "x - x", "ref.ref", &catch(|| (&x - &x).residue()), &BigUint::zero(), &nm);
    chk(&mut out, "x * x", "ref.ref", &catch(|| (&x * &x).residue()), &sq, &nm);
    chk(&mut out, "x * x.clone()", "val.val", &catch(|| (x.clone() * x.clone()).residue()), &sq, &nm);

    // ---------- neg dbl sqr
    let neg = red(&(-&na), &nm);
    chk(&mut out, "-Reduced", "val", &catch(|| (-x.clone()).residue()), &neg, &nm);
    chk(&mut out, "-Reduced", "ref", &catch(|| (-&x).residue()), &neg, &nm);
    chk(&mut out, "Reduced::dbl", "-", &catch(|| x.clone().dbl().residue()), &dbl, &nm);
    chk(&mut out, "Reduced::sqr", "-", &catch(|| x.sqr().residue()), &sq, &nm);
    chk(&mut out, "Reduced::dbl", "b", &catch(|| y.clone().dbl().residue()), &((&rb * 2u32) % &nm), &nm);
    chk(&mut out, "Reduced::sqr", "b", &catch(|| y.sqr().residue()), &((&rb * &rb) % &nm), &nm);

    // ---------- pow
    if lm >= 3 && ne >= BigUint::from(2u32) {
        out.label(window_label(ne.bits()));
    }
    let e = c.e.ubig();
    let pw = modpow_ref(&ra, &ne, &nm);
    chk_pow(&mut out, ctx, "Reduced::pow", &catch(|| x.pow(&e).residue()), &pw, &nm, &ne);
    // a^(e+1) = a^e · a  (exponent carries across a word boundary for e = 2^64k − 1)
    let e1 = n2u(&(&ne + BigUint::one()));
    chk(&mut out, "Reduced::pow(e+1)", "-", &catch(|| x.pow(&e1).residue()), &((&pw * &ra) % &nm), &nm);

    // ---------- inv, /
    inv_div(&mut out, "a", &x, &ra, &y, &rb, &nm);
    inv_div(&mut out, "b", &y, &rb, &x, &ra, &nm);
    out
}

fn chk_plain(out: &mut Out, what: &str, got: &Result<UBig, String>, want: &BigUint) {
    match got {
        Ok(g) => {
            if &u2n(g) != want {
                out.fail(format!("{what}: got {} want {}", show_u(&u2n(g)), show_u(want)));
            }
        }
        Err(m) => out.fail(format!("{what}: unexpected panic {}", normalise(m))),
    }
}

/// `d.inv()` and `n / d` in every form
fn inv_div(out: &mut Out, who: &str, d: &dashu_int::modular::Reduced, rd: &BigUint, n: &dashu_int::modular::Reduced, rn: &BigUint, nm: &BigUint) {
    let g = rd.gcd(nm);
    let invertible = g.is_one();
    out.label(if invertible {
        "inv:exists"
    } else if rd.is_zero() {
        "inv:none (element 0)"
    } else {
        "inv:none (gcd > 1)"
    });
    let one = BigUint::one() % nm;
    match catch(|| d.inv().map(|v| v.residue())) {
        Err(m) => out.fail(format!("Reduced::inv [{who}]: unexpected panic {}", normalise(&m))),
        Ok(None) => {
            if invertible {
                out.fail(format!("Reduced::inv [{who}]: None although gcd({}, {}) = 1", show_u(rd), show_u(nm)));
            }
        }
        Ok(Some(v)) => {
            let v = u2n(&v);
            if !invertible {
                out.fail(format!("Reduced::inv [{who}]: Some({}) although gcd({}, {}) = {}", show_u(&v), show_u(rd), show_u(nm), show_u(&g)));
            } else if &v >= nm {
                out.fail(format!("Reduced::inv [{who}]: residue {} outside [0, m), m = {}", show_u(&v), show_u(nm)));
            } else if (rd * &v) % nm != one {
                out.fail(format!("Reduced::inv [{who}]: {} * {} is not 1 (mod {})", show_u(rd), show_u(&v), show_u(nm)));
            }
        }
    }
    let what = if who == "a" { "Reduced / Reduced (b / a)" } else { "Reduced / Reduced (a / b)" };
    for (form, r) in forms!(*n, *d, /, /=) {
        if invertible {
            // the quotient is the unique q in [0, m) with q·d = n (mod m)
            match &r {
                Ok(q) => {
                    let q = u2n(q);
                    if &q >= nm {
                        out.fail(format!("{what} [{form}]: residue {} outside [0, m), m = {}", show_u(&q), show_u(nm)));
                    } else if (&q * rd) % nm != *rn {
                        out.fail(format!("{what} [{form}]: quotient {} times divisor {} is not {} (mod {})", show_u(&q), show_u(rd), show_u(rn), show_u(nm)));
                    }
                }
                Err(m) => out.fail(format!("{what} [{form}]: unexpected panic {}", normalise(m))),
            }
        } else {
            must_panic(out, what, form, &r, &[MSG_NONINV], "divisor has no inverse");
        }
    }
}

// ------------------------------------------------------------------- num_modular::Reducer

fn reducer_ops(c: &RingCase, ctx: &Ctx) -> Out {
    let mut out = Out::new();
    let nm = c.m.big();
    let lm = c.m.trimmed_len();
    let ne = c.e.big();
    out.nontrivial(lm >= 2 || ne >= BigUint::from(2u32));
    mod_labels(&mut out, &c.m);
    out.label(exp_label(&c.e));
    let ring = match catch(|| <ConstDivisor as Reducer<UBig>>::new(&c.m.ubig())) {
        Ok(r) => r,
        Err(m) => {
            out.fail(format!("Reducer::new: unexpected panic {}", normalise(&m)));
            return out;
        }
    };
    chk_plain(&mut out, "Reducer::modulus", &catch(|| Reducer::modulus(&ring)), &nm);
    // the Reducer works on naturals: the magnitudes are the integers here
    let (na, nb) = (c.a.mag.big(), c.b.mag.big());
    let (ra, rb) = (&na % &nm, &nb % &nm);
    if !ra.is_zero() && &ra + &rb == nm {
        out.label("pair:residues sum to m exactly");
    }
    let (ta, tb) = match catch(|| (Reducer::transform(&ring, c.a.mag.ubig()), Reducer::transform(&ring, c.b.mag.ubig()))) {
        Ok(p) => p,
        Err(m) => {
            out.fail(format!("Reducer::transform: unexpected panic {}", normalise(&m)));
            return out;
        }
    };
    // every value in reduced form must pass check(), and come back as the expected residue.
    // `sum_is_m`: the call is an addition/doubling whose unreduced sum equals the modulus exactly
    // in a multi-word ring (the one recorded finding of this sub-property: residue m instead of 0).
    let val = |out: &mut Out, what: &str, got: Result<UBig, String>, want: &BigUint, sum_is_m: bool| match got {
        Err(m) => out.fail(format!("{what}: unexpected panic {}", normalise(&m))),
        Ok(t) => {
            let res = catch(|| Reducer::residue(&ring, t.clone()));
            if sum_is_m && lm >= 3 && matches!(&res, Ok(r) if u2n(r) == nm) {
                ctx.known_or_fail(out, "C13/reducer-add-sum-equals-modulus", || format!("{what}: residues sum to the modulus {} exactly, result has residue m instead of 0", show_u(&nm)));
                return;
            }
            chk(out, what, "residue", &res, want, &nm);
            match catch(|| Reducer::check(&ring, &t)) {
                Ok(true) => {}
                Ok(false) => out.fail(format!("{what}: result {} does not pass Reducer::check", show_u(&u2n(&t)))),
                Err(m) => out.fail(format!("{what}: Reducer::check panicked {}", normalise(&m))),
            }
            match catch(|| Reducer::is_zero(&ring, &t)) {
                Ok(z) => out.check(z == want.is_zero(), || format!("{what}: Reducer::is_zero = {z}, expected residue {}", show_u(want))),
                Err(m) => out.fail(format!("{what}: Reducer::is_zero panicked {}", normalise(&m))),
            }
        }
    };
    let sum_ab = !ra.is_zero() && &ra + &rb == nm;
    let sum_aa = !ra.is_zero() && &ra * 2u32 == nm;
    let sum_bb = !rb.is_zero() && &rb * 2u32 == nm;
    val(&mut out, "Reducer::transform(a)", Ok(ta.clone()), &ra, false);
    val(&mut out, "Reducer::transform(b)", Ok(tb.clone()), &rb, false);
    let sum = (&ra + &rb) % &nm;
    let diff = red(&(BigInt::from(ra.clone()) - BigInt::from(rb.clone())), &nm);
    let prod = (&ra * &rb) % &nm;
    let dbl = (&ra * 2u32) % &nm;
    let sq = (&ra * &ra) % &nm;
    let neg = red(&(-BigInt::from(ra.clone())), &nm);
    val(&mut out, "Reducer::add", catch(|| Reducer::add(&ring, &ta, &tb)), &sum, sum_ab);
    val(&mut out, "Reducer::add (b, a)", catch(|| Reducer::add(&ring, &tb, &ta)), &sum, sum_ab);
    val(&mut out, "Reducer::add_in_place", catch(|| { let mut t = ta.clone(); Reducer::add_in_place(&ring, &mut t, &tb); t }), &sum, sum_ab);
    val(&mut out, "Reducer::sub", catch(|| Reducer::sub(&ring, &ta, &tb)), &diff, false);
    val(&mut out, "Reducer::sub (b, a)", catch(|| Reducer::sub(&ring, &tb, &ta)), &red(&(BigInt::from(rb.clone()) - BigInt::from(ra.clone())), &nm), false);
    val(&mut out, "Reducer::sub_in_place", catch(|| { let mut t = ta.clone(); Reducer::sub_in_place(&ring, &mut t, &tb); t }), &diff, false);
    val(&mut out, "Reducer::sub (a, a)", catch(|| Reducer::sub(&ring, &ta, &ta)), &BigUint::zero(), false);
    val(&mut out, "Reducer::mul", catch(|| Reducer::mul(&ring, &ta, &tb)), &prod, false);
    val(&mut out, "Reducer::mul_in_place", catch(|| { let mut t = ta.clone(); Reducer::mul_in_place(&ring, &mut t, &tb); t }), &prod, false);
    val(&mut out, "Reducer::dbl", catch(|| Reducer::dbl(&ring, ta.clone())), &dbl, sum_aa);
    val(&mut out, "Reducer::dbl (b)", catch(|| Reducer::dbl(&ring, tb.clone())), &((&rb * 2u32) % &nm), sum_bb);
    val(&mut out, "Reducer::neg", catch(|| Reducer::neg(&ring, ta.clone())), &neg, false);
    val(&mut out, "Reducer::sqr", catch(|| Reducer::sqr(&ring, ta.clone())), &sq, false);
    let e = c.e.ubig();
    let pw = modpow_ref(&ra, &ne, &nm);
    if nm.is_one() && ne.is_zero() {
        // same root cause as Reduced::pow (ReducedWord::one of the ring of modulus 1)
        let r = catch(|| Reducer::residue(&ring, Reducer::pow(&ring, ta.clone(), &e)));
        chk_pow(&mut out, ctx, "Reducer::pow", &r, &pw, &nm, &ne);
    } else {
        val(&mut out, "Reducer::pow", catch(|| Reducer::pow(&ring, ta.clone(), &e)), &pw, false);
    }
    // inverse
    let invertible = ra.gcd(&nm).is_one();
    match catch(|| Reducer::inv(&ring, ta.clone())) {
        Err(m) => out.fail(format!("Reducer::inv: unexpected panic {}", normalise(&m))),
        Ok(None) => out.check(!invertible, || format!("Reducer::inv: None although gcd({}, {}) = 1", show_u(&ra), show_u(&nm))),
        Ok(Some(t)) => {
            if !invertible {
                out.fail(format!("Reducer::inv: Some although gcd({}, {}) > 1", show_u(&ra), show_u(&nm)));
            } else {
                match catch(|| (Reducer::check(&ring, &t), Reducer::residue(&ring, t.clone()))) {
                    Err(m) => out.fail(format!("Reducer::inv: check/residue panicked {}", normalise(&m))),
                    Ok((ok, v)) => {
                        let v = u2n(&v);
                        out.check(ok, || "Reducer::inv: result does not pass Reducer::check".into());
                        if v >= nm {
                            out.fail(format!("Reducer::inv: residue {} outside [0, m), m = {}", show_u(&v), show_u(&nm)));
                        } else if (&ra * &v) % &nm != BigUint::one() % &nm {
                            out.fail(format!("Reducer::inv: {} * {} is not 1 (mod {})", show_u(&ra), show_u(&v), show_u(&nm)));
                        }
                    }
                }
            }
        }
    }
    out
}

// ------------------------------------------------------------------------------ mixed rings

fn mixed_rings(c: &MixCase, _ctx: &Ctx) -> Out {
    let mut out = Out::new();
    let (l1, l2) = (c.m1.trimmed_len(), c.m2.trimmed_len());
    out.nontrivial(l1 >= 2 || l2 >= 2);
    out.label(if c.m1.big() == c.m2.big() { "rings:equal moduli, two instances" } else { "rings:different moduli" });
    let kind = |l: usize| match l {
        1 => 0,
        2 => 1,
        _ => 2,
    };
    out.label(match (kind(l1), kind(l2)) {
        (0, 0) => "rings:single/single",
        (1, 1) => "rings:double/double",
        (2, 2) => "rings:large/large",
        _ => "rings:different representations",
    });
    let (r1, r2) = match catch(|| (ConstDivisor::new(c.m1.ubig()), ConstDivisor::new(c.m2.ubig()))) {
        Ok(p) => p,
        Err(m) => {
            out.fail(format!("ConstDivisor::new: unexpected panic {}", normalise(&m)));
            return out;
        }
    };
    let (x, y) = match catch(|| (r1.reduce(c.a.ibig()), r2.reduce(c.b.ibig()))) {
        Ok(p) => p,
        Err(m) => {
            out.fail(format!("reduce: unexpected panic {}", normalise(&m)));
            return out;
        }
    };
    let why = "operands belong to different ConstDivisor instances";
    for (form, r) in forms!(x, y, +, +=) {
        must_panic(&mut out, "Reduced + Reduced", form, &r, &[MSG_RINGS], why);
    }
    for (form, r) in forms!(x, y, -, -=) {
        must_panic(&mut out, "Reduced - Reduced", form, &r, &[MSG_RINGS], why);
    }
    for (form, r) in forms!(x, y, *, *=) {
        must_panic(&mut out, "Reduced * Reduced", form, &r, &[MSG_RINGS], why);
    }
    // division inverts the divisor first: a non-invertible divisor may be reported instead
    for (form, r) in forms!(x, y, /, /=) {
        must_panic(&mut out, "Reduced / Reduced", form, &r, &[MSG_RINGS, MSG_NONINV], why);
    }
    for (form, r) in forms!(y, x, -, -=) {
        must_panic(&mut out, "Reduced - Reduced (swapped)", form, &r, &[MSG_RINGS], why);
    }
    must_panic(&mut out, "Reduced == Reduced", "eq", &catch(|| x == y), &[MSG_RINGS], why);
    must_panic(&mut out, "Reduced != Reduced", "ne", &catch(|| x != y), &[MSG_RINGS], why);
    // the operands are untouched by the failed operations, and each ring still works alone
    let (n1, n2) = (c.m1.big(), c.m2.big());
    chk(&mut out, "x after failed mixing", "-", &catch(|| x.residue()), &red(&c.a.big(), &n1), &n1);
    chk(&mut out, "y after failed mixing", "-", &catch(|| y.residue()), &red(&c.b.big(), &n2), &n2);
    // clone_from across rings is an assignment, not arithmetic: the target joins the source's ring
    match catch(|| {
        let mut t = x.clone();
        t.clone_from(&y);
        let s = (&t + &y).residue();
        (t.residue(), t.modulus(), s)
    }) {
        Ok((r, m, s)) => {
            let rb = red(&c.b.big(), &n2);
            out.check(u2n(&r) == rb && u2n(&m) == n2 && u2n(&s) == (&rb * 2u32) % &n2, || "Reduced::clone_from across rings: target is not a copy of the source".into());
        }
        Err(m) => out.fail(format!("Reduced::clone_from across rings: unexpected panic {}", normalise(&m))),
    }
    out
}

// -------------------------------------------------------------------- primitives into ring

macro_rules! prim_into {
    ($out:ident, $ring:ident, $nm:ident, $p:expr, $($t:ty),*) => {$({
        let p = $p as $t;
        let want = red(&BigInt::from(p), &$nm);
        chk(&mut $out, concat!("reduce(", stringify!($t), ")"), "-", &catch(|| $ring.reduce(p).residue()), &want, &$nm);
        chk(&mut $out, concat!("IntoRing::into_ring(", stringify!($t), ")"), "-", &catch(|| IntoRing::into_ring(p, &$ring).residue()), &want, &$nm);
        // operate with an element that came from a big integer
        let q = $ring.reduce(p);
        chk(&mut $out, concat!("reduce(", stringify!($t), ") * reduce(-1)"), "-", &catch(|| (&q * $ring.reduce(-1i8)).residue()), &red(&(-BigInt::from(p)), &$nm), &$nm);
    })*};
}

fn prim_into_ring(c: &PrimCase, _ctx: &Ctx) -> Out {
    let mut out = Out::new();
    let nm = c.m.big();
    out.nontrivial(c.m.trimmed_len() >= 2);
    mod_labels(&mut out, &c.m);
    let ring = match catch(|| ConstDivisor::new(c.m.ubig())) {
        Ok(r) => r,
        Err(m) => {
            out.fail(format!("ConstDivisor::new: unexpected panic {}", normalise(&m)));
            return out;
        }
    };
    let p = c.p;
    match c.width {
        0 => {
            out.label("prim:8");
            prim_into!(out, ring, nm, p, u8, i8);
        }
        1 => {
            out.label("prim:16");
            prim_into!(out, ring, nm, p, u16, i16);
        }
        2 => {
            out.label("prim:32");
            prim_into!(out, ring, nm, p, u32, i32);
        }
        3 => {
            out.label("prim:64");
            prim_into!(out, ring, nm, p, u64, i64);
        }
        4 => {
            out.label("prim:128");
            prim_into!(out, ring, nm, p, u128, i128);
        }
        _ => {
            out.label("prim:size");
            prim_into!(out, ring, nm, p, usize, isize);
        }
    }
    let bit = p & 1 != 0;
    chk(&mut out, "reduce(bool)", "-", &catch(|| ring.reduce(bit).residue()), &(BigUint::from(bit as u8) % &nm), &nm);
    out
}

fn main() {
    let mut ck = Check::new(
        "C13",
        "rings built from modulus classes (1, 2, 2^k for k<64 / 64..127 / multi-word, one word odd/even with and without normalisation shift, two words normalised/shifted/low word zero, 3, 4, 5-32, 33, 40 words, even and low-words-zero multi-word, shared-factor moduli m=g·l) × operands up to 193 words longer than moduli of 1..386 words (sub reduce_long); elements built relative to the modulus (0, 1, m-1, m, m+1, 2m-1, k·m, m/2, random below m, random up to twice the modulus length, b=a, b=m-a, multiples of g; both signs; primitives of every width) × exponents (0, 1, 2, small, 2^k, 2^64±1, two-word, up to 12 words; sub pow_long_exponents: dense exponents of 769..72 000 bits, i.e. every window length up to 11, in rings of 1..6 words; sub inv_lehmer_dword: inverses in rings of 300+ words whose modulus / element pair has chosen partial quotients); every operator form of + - * /, Neg, dbl, sqr, pow, inv, ==, residue, modulus, IntoRing and the num_modular::Reducer impl compared with operate-then-reduce in num-bigint (square-and-multiply cross-checked with modpow); residues in [0,m); inv is Some exactly for gcd=1; division by a non-invertible element and any mixing of two ConstDivisor instances must panic with the documented message. Non-trivial: modulus >= 2 words or exponent >= 2; distinct by case digest.",
    );
    ck.assume("num-modular 0.6 only for the `Reducer` trait definition (its primitive-word arithmetic is part of what dashu delegates to, not of the oracle)");
    let th = ck.thorough();
    ck.sub("ring_small", (34_000, 1_000_000), || ring_case(modulus_small(), false), ring_ops);
    ck.sub("ring_large", (22_000, 650_000), move || ring_case(modulus_large(th), false), ring_ops);
    ck.sub("ring_shared_factor", (10_000, 300_000), gcd_case, ring_ops);
    ck.sub(
        "pow_exponents",
        (8_000, 240_000),
        move || ring_case(prop_oneof![modulus_small(), modulus_large(th)].boxed(), true),
        ring_ops,
    );
    ck.sub(
        "reducer",
        (14_000, 420_000),
        move || ring_case(prop_oneof![3 => modulus_small(), 3 => modulus_large(th), 1 => modulus_with_factor().prop_map(|(m, _, _)| m)].boxed(), true),
        reducer_ops,
    );
    // long exponents: the sliding window of modular/pow.rs grows with the exponent length
    // (window 9 from 11 521 bits, 10 from 28 161, 11 from 67 585), its table of odd powers with it
    ck.sub(
        "pow_long_exponents",
        (250, 6_000),
        || {
            let ebits = prop_oneof![3 => 769usize..=4000, 3 => 4001usize..=11_520, 4 => 11_521usize..=28_160, 2 => 28_161usize..=67_584, 1 => 67_585usize..=72_000];
            (ebits, 1usize..=6, 0u8..4, 0u8..gen::N_PATTERNS, any::<u64>(), any::<u64>(), any::<u64>()).prop_map(|(bits, lm, epat, pm, sm, sa, se)| {
                let mut mw = gen::expand(lm, pm, sm);
                if lm == 1 && mw[0] < 2 {
                    mw[0] = 3;
                }
                let le = (bits + 63) / 64;
                // dense exponents mostly (random / all ones), sometimes the block pattern
                let mut ew = gen::expand(le, [1u8, 1, 2, 12][epat as usize], se);
                let top = bits - 64 * (le - 1);
                ew[le - 1] &= if top == 64 { u64::MAX } else { (1u64 << top) - 1 };
                ew[le - 1] |= 1 << (top - 1);
                RingCase { m: Nat(mw), a: Int { neg: false, mag: Nat(gen::expand(lm, 1, sa)) }, b: Int { neg: false, mag: Nat(vec![1]) }, e: Nat(ew) }
            })
        },
        |c: &RingCase, ctx: &Ctx| {
            let mut out = Out::new();
            let (nm, ne) = (c.m.big(), c.e.big());
            let lm = c.m.trimmed_len();
            out.nontrivial(true);
            mod_labels(&mut out, &c.m);
            if lm >= 3 {
                out.label(window_label(ne.bits()));
            }
            out.label(match ne.bits() {
                0..=11_520 => "long exponent: up to 11 520 bits",
                11_521..=28_160 => "long exponent: 11 521..28 160 bits (window 9)",
                28_161..=67_584 => "long exponent: 28 161..67 584 bits (window 10)",
                _ => "long exponent: above 67 584 bits (window 11)",
            });
            let ring = match catch(|| ConstDivisor::new(c.m.ubig())) {
                Ok(r) => r,
                Err(m) => {
                    out.fail(format!("ConstDivisor::new: unexpected panic {}", normalise(&m)));
                    return out;
                }
            };
            let ra = red(&c.a.big(), &nm);
            let x = ring.reduce(c.a.ibig());
            let pw = modpow_ref(&ra, &ne, &nm);
            let e = c.e.ubig();
            chk_pow(&mut out, ctx, "Reduced::pow (long exponent)", &catch(|| x.pow(&e).residue()), &pw, &nm, &ne);
            out
        },
    );
    // inverses in rings of 300 words and more: `inv` runs the extended Lehmer gcd with its
    // double-word guesses; modulus and element are a pair whose continued fraction starts with
    // chosen partial quotients (see dv::gen::lehmer_quotient_pair)
    ck.sub(
        "inv_lehmer_dword",
        (1_500, 60_000),
        || {
            (300usize..=312, 0usize..6, any::<u64>(), 0u8..8, 0usize..3).prop_map(|(lp, gap, seed, shape, pre)| {
                let (p, q) = gen::lehmer_quotient_pair(lp, gap, seed, shape, pre);
                RingCase { m: Nat::from_big(&p), a: Int { neg: false, mag: Nat::from_big(&q) }, b: Int { neg: false, mag: Nat(vec![1]) }, e: Nat(vec![1]) }
            })
        },
        |c: &RingCase, _ctx: &Ctx| {
            let mut out = Out::new();
            let nm = c.m.big();
            out.nontrivial(true);
            mod_labels(&mut out, &c.m);
            let ring = match catch(|| ConstDivisor::new(c.m.ubig())) {
                Ok(r) => r,
                Err(m) => {
                    out.fail(format!("ConstDivisor::new: unexpected panic {}", normalise(&m)));
                    return out;
                }
            };
            let ra = red(&c.a.big(), &nm);
            let x = ring.reduce(c.a.ibig());
            let one = ring.reduce(1u8);
            inv_div(&mut out, "a", &x, &ra, &one, &(BigUint::one() % &nm), &nm);
            out
        },
    );
    // reduction of operands much longer than the modulus: the division inside `reduce` runs with
    // its own scratch memory and switches algorithm at 32-word quotients / divisors
    ck.sub(
        "reduce_long",
        (3_000, 90_000),
        || {
            let mlens: Vec<usize> = vec![1, 2, 3, 4, 31, 32, 33, 34, 57, 58, 59, 63, 64, 65, 100, 128, 200, 386];
            let extra: Vec<usize> = vec![0, 1, 2, 3, 30, 31, 32, 33, 34, 63, 64, 65, 100, 191, 192, 193];
            (prop::sample::select(mlens), prop::sample::select(extra), 0u8..gen::N_PATTERNS, 0u8..gen::N_PATTERNS, any::<u64>(), any::<u64>(), 0u8..4, any::<bool>()).prop_map(|(lm, ex, pm, px, sm, sx, top, neg)| {
                let mut mw = gen::expand(lm, pm, sm);
                // top word of the modulus: normalised (high bit set), 1, or as generated (shifted)
                match top {
                    0 => mw[lm - 1] |= 1 << 63,
                    1 => mw[lm - 1] = 1,
                    _ => {}
                }
                if lm == 1 && mw[0] < 2 {
                    mw[0] = 3;
                }
                let mut xw = gen::expand(lm + ex, px, sx);
                if top != 3 {
                    // leading bits of the operand set: the normalisation shift carries into a new word
                    let l = xw.len();
                    xw[l - 1] |= 0xf000_0000_0000_0000;
                }
                RingCase { m: Nat(mw), a: Int { neg, mag: Nat(xw) }, b: Int { neg: false, mag: Nat(vec![1]) }, e: Nat(vec![1]) }
            })
        },
        |c: &RingCase, _ctx: &Ctx| {
            let mut out = Out::new();
            let (nm, na) = (c.m.big(), c.a.big());
            let want = na.mod_floor(&BigInt::from(nm.clone())).magnitude().clone();
            let (lm, la) = (c.m.trimmed_len(), c.a.mag.trimmed_len());
            out.nontrivial(true);
            out.label(if la >= lm + 32 { "reduce: operand >= 32 words longer than the modulus" } else { "reduce: operand < 32 words longer" });
            out.label(if lm > 32 { "reduce: modulus > 32 words" } else if lm >= 3 { "reduce: modulus 3-32 words" } else { "reduce: modulus 1-2 words" });
            let ring = ConstDivisor::new(c.m.ubig());
            for (form, r) in [
                ("reduce(IBig)", catch(|| ring.reduce(c.a.ibig()).residue())),
                ("reduce(UBig of |a|) with the sign applied afterwards", catch(|| { let r = ring.reduce(c.a.mag.ubig()); if c.a.neg { (-r).residue() } else { r.residue() } })),
                ("IBig % &ConstDivisor, then rem_euclid", catch(|| { let r = c.a.ibig() % &ring; let m = c.m.ubig(); dashu_base::RemEuclid::rem_euclid(r, dashu_int::IBig::from(m)) })),
            ] {
                match r {
                    Ok(g) => out.check(u2n(&g) == want, || format!("{form}: got {} want {} (modulus of {lm} words, operand of {la} words)", show_u(&u2n(&g)), show_u(&want))),
                    Err(m) => out.fail(format!("{form} panicked on valid operands (modulus of {lm} words, operand of {la} words): {}", normalise(&m))),
                }
            }
            out
        },
    );
    ck.sub(
        "mixed_rings",
        (6_000, 180_000),
        move || {
            let modulus = || prop_oneof![modulus_small(), modulus_large(false)];
            (modulus(), modulus(), any::<bool>(), recipe(), recipe()).prop_map(|(m1, m2, same, ra, rb)| {
                let m2 = if same { m1.clone() } else { m2 };
                let one = BigUint::one();
                let a = elem(&m1.big(), m1.trimmed_len(), &ra, None, &one);
                let b = elem(&m2.big(), m2.trimmed_len(), &rb, Some(&a), &one);
                MixCase { m1, m2, a, b }
            })
        },
        mixed_rings,
    );
    ck.sub(
        "prim_into_ring",
        (6_000, 180_000),
        move || {
            (prop_oneof![modulus_small(), modulus_large(false)], any::<i128>(), 0u8..6, 0u8..8).prop_map(|(m, p, width, shape)| {
                let p = match shape {
                    0 => 0,
                    1 => 1,
                    2 => -1,
                    3 => i128::MAX,
                    4 => i128::MIN,
                    _ => p,
                };
                PrimCase { m, p, width }
            })
        },
        prim_into_ring,
    );
    ck.finish();
}
