//! C16 — operations terminate and panic only where the documentation says so.
//!
//! An operation catalogue (built by macros over the public API of dashu-base/-int/-float/-ratio)
//! is crossed with edge values of every argument domain.  A *precondition table* computes from the
//! inputs alone whether a documented precondition is violated ("# Panics" rustdoc sections and the
//! central panic helpers in {integer,float,rational}/src/error.rs): then the call MUST panic (with
//! the dedicated message where error.rs has one); otherwise it MUST return.  Calls for which the
//! documentation is silent or contradictory are labelled "unspecified" (panic or return accepted).
//! No call may hang, abort or exhaust memory on a small input.
//!
//! Every call is executed in a *worker process* (`c16 --worker`, started through `prlimit --as=4GiB`,
//! one JSON case per line on stdin, one JSON answer per line on stdout), because non-termination and
//! allocation failure cannot be caught in-thread.  The parent supervises with a deadline.
//!
//! Two builds of the worker are used.  The harness profile has debug assertions and overflow checks
//! on ("checked build"); several dashu preconditions are guarded by nothing else (`ln` of a negative
//! number trips a `debug_assert!`, exponent arithmetic merely overflows), so what an ordinary release
//! build does would stay invisible.  `c16` therefore builds itself a second time with both switched
//! off (cargo profile overrides through the environment, target dir `<target>-plain`) and runs in
//! that "plain build" every case whose table entry is not "must return", every case that panicked in
//! the checked build and a fixed quarter (by case digest) of the rest.
//!
//! Development aid: `C16_SURVEY=1` lists every violating (entry, expectation) once instead of
//! stopping at the first violation (exit status meaningless).  Entries named `selftest: ...` are never
//! generated; they validate the supervision (hang, abort, allocation failure) through `--replay`.
//!
//! Hang rule (the only place where wall-clock enters a verdict): small input (<= 8 words,
//! precision <= 100, |exponent| <= 1000, strings <= 200 bytes, size-driving counts <= 4096), no
//! answer within 10 s while the worker consumed >= 50 % CPU, and again no answer within 30 s in a
//! FRESH worker.  Everything else that times out or dies is `inconclusive`.
#![allow(clippy::all)]
#![allow(unused_macros, unused_imports, deprecated, dead_code)]
use dashu_base::{
    Abs, AbsEq, AbsOrd, Approximation, BitTest, CubicRoot, CubicRootRem, DivEuclid, DivRem, DivRemAssign, DivRemEuclid, EstimatedLog2, ExtendedGcd, FloatEncoding, Gcd, Inverse, PowerOfTwo, RemEuclid, Sign,
    Signed, SquareRoot, SquareRootRem, UnsignedAbs,
};
use dashu_float::round::{mode, Round};
use dashu_float::{Context, FBig, Repr};
use dashu_int::fast_div::ConstDivisor;
use dashu_int::modular::{IntoRing, Reduced};

use dashu_int::{IBig, UBig, Word};
use dashu_ratio::{RBig, Relaxed};
use dv::fl::{bpow, ModeTag, Sci};
use dv::gen;
use dv::nb::NbInt;
use dv::*;
use num_bigint::{BigInt, BigUint};
use num_traits::{Signed as NSigned, ToPrimitive, Zero};
use proptest::prelude::*;
use serde::{Deserialize, Serialize};
use serde_json::json;
use std::cmp::Ordering;
use std::collections::{BTreeMap, HashMap};
use std::convert::TryFrom;
use std::io::{BufRead, BufReader, Write};
use std::process::{Child, ChildStdin, Command, Stdio};
use std::str::FromStr;
use std::sync::mpsc::{channel, Receiver, RecvTimeoutError};
use std::sync::{Arc, Mutex, OnceLock};
use std::time::{Duration, Instant};

// ================================================================================================
// cases
// ================================================================================================

/// float operand as plain data: value = sig · B^exp (B from the operation), or ±infinity;
/// `prec` = requested precision of the FBig (0 = unlimited; raised to the number of digits of the
/// normalised significand when smaller, because `FBig::from_repr` forbids anything else)
#[derive(Debug, Clone, Hash, Serialize, Deserialize, Default, PartialEq, Eq)]
struct Flt {
    inf: i8,
    sig: Int,
    exp: i64,
    prec: u32,
}

/// one call: catalogue entry + argument tuple (slots the entry does not use are left at default)
#[derive(Debug, Clone, Hash, Serialize, Deserialize, Default)]
struct Case {
    op: String,
    a: Int,
    b: Int,
    c: Int,
    d: Int,
    /// count argument: shift, exponent, root order, radix, bit index, chunk bits, precision
    n: u64,
    /// primitive operand (cast to the primitive type of the entry with `as`), |k| <= 2^128
    k: Int,
    s: String,
    x: Flt,
    y: Flt,
    /// precision of the Context
    p: u32,
}

fn low128(n: &Nat) -> u128 {
    let w = &n.0;
    (w.first().copied().unwrap_or(0) as u128) | ((w.get(1).copied().unwrap_or(0) as u128) << 64)
}

impl Case {
    fn ua(&self) -> UBig {
        self.a.mag.ubig()
    }
    fn ub(&self) -> UBig {
        self.b.mag.ubig()
    }
    fn uc(&self) -> UBig {
        self.c.mag.ubig()
    }
    fn ud(&self) -> UBig {
        self.d.mag.ubig()
    }
    fn ia(&self) -> IBig {
        self.a.ibig()
    }
    fn ib(&self) -> IBig {
        self.b.ibig()
    }
    fn ic(&self) -> IBig {
        self.c.ibig()
    }
    fn id(&self) -> IBig {
        self.d.ibig()
    }
    fn nu(&self) -> usize {
        self.n as usize
    }
    /// the primitive operand as i128 (two's complement wrap of the low 128 bits)
    fn k128(&self) -> i128 {
        let m = low128(&self.k.mag);
        if self.k.neg {
            (m as i128).wrapping_neg()
        } else {
            m as i128
        }
    }
    fn rx<const B: Word>(&self) -> Repr<B> {
        flt_repr::<B>(&self.x)
    }
    fn ry<const B: Word>(&self) -> Repr<B> {
        flt_repr::<B>(&self.y)
    }
    fn fx<R: Round, const B: Word>(&self) -> FBig<R, B> {
        flt_fbig::<R, B>(&self.x)
    }
    fn fy<R: Round, const B: Word>(&self) -> FBig<R, B> {
        flt_fbig::<R, B>(&self.y)
    }
    fn cx<R: Round>(&self) -> Context<R> {
        Context::<R>::new(self.p as usize)
    }
    /// first rational operand a / |b| (a zero denominator is replaced by 1: constructors with a
    /// zero denominator are separate catalogue entries)
    fn q1(&self) -> RBig {
        RBig::from_parts(self.ia(), nz(self.ub()))
    }
    fn q2(&self) -> RBig {
        RBig::from_parts(self.ic(), nz(self.ud()))
    }
    fn l1(&self) -> Relaxed {
        Relaxed::from_parts(self.ia(), nz(self.ub()))
    }
    fn l2(&self) -> Relaxed {
        Relaxed::from_parts(self.ic(), nz(self.ud()))
    }
}

fn nz(u: UBig) -> UBig {
    if u.is_zero() {
        UBig::ONE
    } else {
        u
    }
}

fn flt_repr<const B: Word>(f: &Flt) -> Repr<B> {
    match f.inf {
        0 => Repr::<B>::new(f.sig.ibig(), f.exp as isize),
        i if i > 0 => Repr::<B>::infinity(),
        _ => Repr::<B>::neg_infinity(),
    }
}

fn flt_fbig<R: Round, const B: Word>(f: &Flt) -> FBig<R, B> {
    let r = flt_repr::<B>(f);
    let p = if f.inf != 0 || f.prec == 0 { f.prec as usize } else { (f.prec as usize).max(r.digits()) };
    FBig::from_repr(r, Context::<R>::new(p))
}

/// parent-side facts about a float operand (computed with num-bigint only)
#[derive(Clone, Debug)]
struct FV {
    inf: i8,
    zero: bool,
    neg: bool,
    /// exponent and digit count of the normalised significand (0 for zero / infinities)
    exp: i64,
    digits: u64,
    /// effective precision of the FBig built from it (0 = unlimited)
    prec: u64,
    /// value (finite only)
    sci: Sci,
    sig_words: usize,
}

fn fv(f: &Flt, base: u64) -> FV {
    if f.inf != 0 || f.sig.is_zero() {
        return FV { inf: f.inf, zero: f.inf == 0, neg: f.inf < 0, exp: 0, digits: 0, prec: f.prec as u64, sci: Sci::zero(base), sig_words: 0 };
    }
    let mut m = f.sig.mag.big();
    let b = BigUint::from(base);
    let mut e = f.exp as i128;
    loop {
        let (q, r) = m.div_rem(&b);
        if !r.is_zero() {
            break;
        }
        m = q;
        e += 1;
    }
    let digits = dv::fl::digits(&m, base);
    let n = if f.sig.neg { -BigInt::from(m) } else { BigInt::from(m) };
    let e = e.clamp(i64::MIN as i128, i64::MAX as i128) as i64;
    let prec = if f.prec == 0 { 0 } else { (f.prec as u64).max(digits) };
    FV { inf: 0, zero: false, neg: f.sig.neg, exp: e, digits, prec, sci: Sci::new(n, e, base), sig_words: f.sig.mag.trimmed_len() }
}

impl FV {
    fn finite(&self) -> bool {
        self.inf == 0
    }
    /// exponent so extreme that exponent arithmetic may overflow isize: "operations panic if the
    /// result overflows or underflows" — either outcome is accepted for such operands
    fn extreme(&self) -> bool {
        self.finite() && !self.zero && (self.exp.unsigned_abs() > (1u64 << 60))
    }
    /// |exponent| so large that materialising the digits is legitimately infeasible
    fn far(&self) -> bool {
        self.finite() && !self.zero && (self.exp.unsigned_abs() > (1u64 << 20))
    }
    /// compare the (finite) value with a small integer; only meaningful for moderate exponents
    fn cmp_int(&self, k: i64) -> Ordering {
        if self.zero {
            return 0.cmp(&k);
        }
        // decide by magnitude class first so that huge exponents never get materialised
        let top = self.exp as i128 + self.digits as i128; // |x| < B^top, |x| >= B^(top-1)
        if top > 70 {
            return if self.neg { Ordering::Less } else { Ordering::Greater };
        }
        if top < -70 {
            // |x| < 1 tiny
            return if k == 0 {
                if self.neg {
                    Ordering::Less
                } else {
                    Ordering::Greater
                }
            } else {
                0.cmp(&k)
            };
        }
        self.sci.cmp(&Sci::new(BigInt::from(k), 0, self.sci.base))
    }
    fn is_int(&self) -> bool {
        self.finite() && (self.zero || self.exp >= 0)
    }
}

// ================================================================================================
// short renderings of results (through raw words, never through dashu's Display)
// ================================================================================================

trait Sh {
    fn sh(&self) -> String;
}
fn words(w: &[u64]) -> String {
    match w.len() {
        0 => "0".into(),
        n => format!("{}w:{:x}", n, w[0]),
    }
}
impl Sh for UBig {
    fn sh(&self) -> String {
        words(self.as_words())
    }
}
impl Sh for IBig {
    fn sh(&self) -> String {
        let (s, w) = self.as_sign_words();
        format!("{}{}", if s == Sign::Negative { "-" } else { "" }, words(w))
    }
}
macro_rules! sh_display {
    ($($t:ty)*) => {$(impl Sh for $t { fn sh(&self) -> String { format!("{}", self) } })*};
}
sh_display!(u8 u16 u32 u64 u128 usize i8 i16 i32 i64 i128 isize bool);
impl Sh for f32 {
    fn sh(&self) -> String {
        format!("f32:{:08x}", self.to_bits())
    }
}
impl Sh for f64 {
    fn sh(&self) -> String {
        format!("f64:{:016x}", self.to_bits())
    }
}
impl Sh for () {
    fn sh(&self) -> String {
        "()".into()
    }
}
impl Sh for String {
    fn sh(&self) -> String {
        format!("str[{}]:{}", self.len(), truncate(self, 24))
    }
}
impl Sh for Sign {
    fn sh(&self) -> String {
        format!("{:?}", self)
    }
}
impl Sh for Ordering {
    fn sh(&self) -> String {
        format!("{:?}", self)
    }
}
/// anything Debug (error enums, FpCategory ...)
struct D<T>(T);
impl<T: std::fmt::Debug> Sh for D<T> {
    fn sh(&self) -> String {
        truncate(&format!("{:?}", self.0), 40)
    }
}
impl<T: Sh> Sh for Option<T> {
    fn sh(&self) -> String {
        match self {
            Some(x) => format!("Some({})", x.sh()),
            None => "None".into(),
        }
    }
}
impl<T: Sh, E: std::fmt::Debug> Sh for Result<T, E> {
    fn sh(&self) -> String {
        match self {
            Ok(x) => format!("Ok({})", x.sh()),
            Err(e) => format!("Err({:?})", e),
        }
    }
}
impl<T: Sh, E> Sh for Approximation<T, E> {
    fn sh(&self) -> String {
        match self {
            Approximation::Exact(x) => format!("Exact({})", x.sh()),
            Approximation::Inexact(x, _) => format!("Inexact({})", x.sh()),
        }
    }
}
impl<X: Sh, Y: Sh> Sh for (X, Y) {
    fn sh(&self) -> String {
        format!("({}, {})", self.0.sh(), self.1.sh())
    }
}
impl<X: Sh, Y: Sh, Z: Sh> Sh for (X, Y, Z) {
    fn sh(&self) -> String {
        format!("({}, {}, {})", self.0.sh(), self.1.sh(), self.2.sh())
    }
}
impl<T: Sh> Sh for Box<[T]> {
    fn sh(&self) -> String {
        format!("[{} items{}]", self.len(), self.first().map(|x| format!(": {}", x.sh())).unwrap_or_default())
    }
}
impl<T: Sh> Sh for Vec<T> {
    fn sh(&self) -> String {
        format!("[{} items{}]", self.len(), self.first().map(|x| format!(": {}", x.sh())).unwrap_or_default())
    }
}
impl<const B: Word> Sh for Repr<B> {
    fn sh(&self) -> String {
        if self.is_infinite() {
            return if self.exponent() < 0 { "-inf".into() } else { "+inf".into() };
        }
        format!("{}·{}^{}", self.significand().sh(), B, self.exponent())
    }
}
impl<R: Round, const B: Word> Sh for FBig<R, B> {
    fn sh(&self) -> String {
        format!("{}@p{}", self.repr().sh(), self.precision())
    }
}
impl Sh for RBig {
    fn sh(&self) -> String {
        format!("{}/{}", self.numerator().sh(), self.denominator().sh())
    }
}
impl Sh for Relaxed {
    fn sh(&self) -> String {
        format!("{}/{}", self.numerator().sh(), self.denominator().sh())
    }
}
impl Sh for Reduced<'_> {
    fn sh(&self) -> String {
        format!("{} mod {}", self.residue().sh(), self.modulus().sh())
    }
}
impl Sh for ConstDivisor {
    fn sh(&self) -> String {
        format!("ring {}", self.value().sh())
    }
}

// ================================================================================================
// expectations (the precondition table is made of functions returning these)
// ================================================================================================

#[derive(Clone, Copy, PartialEq, Eq, Debug)]
enum Kind {
    Ret,
    Pan,
    Unspec,
}

/// which failing observation a known finding covers
#[derive(Clone, Copy, Debug)]
enum On {
    /// an (undocumented / wrongly worded) panic whose message contains the text
    Panic(&'static str),
    /// does not return, or exhausts memory / aborts
    HangOrMem,
    /// returned a value although the call must panic
    Returns,
}

#[derive(Clone, Debug)]
struct KnownSpec {
    id: &'static str,
    on: On,
}

#[derive(Clone, Debug)]
struct Exp {
    kind: Kind,
    label: &'static str,
    /// acceptable panic messages (any of; empty = any message)
    msgs: Vec<&'static str>,
    /// the call is legitimately expensive for these inputs (never "small")
    heavy: bool,
    /// the cost of the call does not depend on the size of the exponents (a far exponent does not
    /// make the input "large")
    cheap_exp: bool,
    known: Vec<KnownSpec>,
}

/// builder: collect violated documented preconditions / unspecified aspects
struct Pre {
    viol: Vec<(&'static str, &'static str)>,
    unspec: Option<&'static str>,
    /// the unspecified aspect is "returns, or panics with this dedicated message"
    may: Option<&'static str>,
    heavy: bool,
    cheap_exp: bool,
    known: Vec<KnownSpec>,
}

impl Pre {
    fn new() -> Pre {
        Pre { viol: Vec::new(), unspec: None, may: None, heavy: false, cheap_exp: false, known: Vec::new() }
    }
    /// the documentation leaves open whether the call is rejected or answered when `cond`, but
    /// names the message of the rejection: returning is fine, a panic must carry `msg` (or the
    /// message of another violated precondition)
    fn may(mut self, cond: bool, label: &'static str, msg: &'static str) -> Pre {
        if cond && self.unspec.is_none() {
            self.unspec = Some(label);
            self.may = Some(msg);
        }
        self
    }
    /// documented precondition `label` is violated when `cond`; `msg` = dedicated message ("" = any)
    fn must(mut self, cond: bool, label: &'static str, msg: &'static str) -> Pre {
        if cond {
            self.viol.push((label, msg));
        }
        self
    }
    fn unspec(mut self, cond: bool, label: &'static str) -> Pre {
        if cond && self.unspec.is_none() {
            self.unspec = Some(label);
        }
        self
    }
    fn heavy(mut self, cond: bool) -> Pre {
        self.heavy |= cond;
        self
    }
    fn cheap_exp(mut self, cond: bool) -> Pre {
        self.cheap_exp |= cond;
        self
    }
    fn known(mut self, cond: bool, id: &'static str, on: On) -> Pre {
        if cond {
            self.known.push(KnownSpec { id, on });
        }
        self
    }
    fn done(self) -> Exp {
        if let Some(l) = self.unspec {
            let msgs = match self.may {
                Some(m) if self.viol.iter().all(|v| !v.1.is_empty()) => std::iter::once(m).chain(self.viol.iter().map(|v| v.1)).collect(),
                _ => vec![],
            };
            return Exp { kind: Kind::Unspec, label: l, msgs, heavy: self.heavy, cheap_exp: false, known: self.known };
        }
        if let Some((l, _)) = self.viol.first() {
            let any = self.viol.iter().any(|v| v.1.is_empty());
            let msgs = if any { vec![] } else { self.viol.iter().map(|v| v.1).collect() };
            return Exp { kind: Kind::Pan, label: l, msgs, heavy: self.heavy, cheap_exp: self.cheap_exp, known: self.known };
        }
        Exp { kind: Kind::Ret, label: "must return", msgs: vec![], heavy: self.heavy, cheap_exp: self.cheap_exp, known: self.known }
    }
}

fn ret() -> Exp {
    Pre::new().done()
}

// documented messages (integer/src/error.rs, float/src/error.rs, rational/src/error.rs)
const M_DIV0: &str = "divisor must not be 0";
const M_NEG_UBIG: &str = "UBig result must not be negative";
const M_RINGS: &str = "Modulo values from different rings";
const M_RADIX: &str = "invalid radix";
const M_LOG: &str = "logarithm is not defined for 0, base 0 and base 1";
const M_ROOT0: &str = "finding 0th root is not allowed";
const M_ROOTNEG: &str = "the root is a complex number";
const M_NONINV: &str = "Division by a non-invertible Modulo";
const M_INF: &str = "arithmetic operations with the infinity are not allowed";
const M_UNLIM: &str = "precision cannot be 0 (unlimited) for this operation";
const M_POWNEG: &str = "powering on negative bases could result in complex number";
const M_QDIV0: &str = "Divisor or denominator must not be zero";

// labels of precondition kinds
const L_DIV0: &str = "must panic: division / reduction by zero";
const L_NEGU: &str = "must panic: unsigned subtraction below zero";
const L_GCD00: &str = "must panic: gcd(0, 0)";
const L_ROOT0: &str = "must panic: zeroth root";
const L_ROOTNEG: &str = "must panic: even root / sqrt of a negative";
const L_LOG: &str = "must panic: logarithm of 0 / negative, or base < 2";
const L_INF: &str = "must panic: arithmetic on an infinity";
const L_UNLIM: &str = "must panic: inexact result at unlimited precision";
const L_RADIX: &str = "must panic: radix outside 2..=36";
const L_OVER: &str = "must panic: exponent overflow";
const L_CHUNK0: &str = "must panic: chunk_bits = 0";
const L_RINGS: &str = "must panic: operands from different rings";
const L_NONINV: &str = "must panic: division by a non-invertible residue";
const L_POWNEG: &str = "must panic: non-integer power of a negative base";
const L_NAN: &str = "must panic: NaN / infinite primitive float";

// ================================================================================================
// catalogue
// ================================================================================================

/// how the count argument `n` of an entry is drawn
#[derive(Clone, Copy, PartialEq, Eq, Debug)]
enum NK {
    None,
    /// left shift / bit to set / ones: the result grows with n (n <= 2^20 unless the operand is 0)
    Grow,
    /// right shift / bit to test / split position: any n is fine
    Pos,
    /// exponent of an integer / rational power (result <= ~2^22 bits)
    Pow,
    Root,
    Radix,
    Chunk,
    /// a precision
    Prec,
    /// bit pattern of an f32 / f64
    F32,
    F64,
    /// small selector (0..16)
    Sel,
}

/// string pools
#[derive(Clone, Copy, PartialEq, Eq, Debug)]
enum SK {
    None,
    Int,
    Float,
    Ratio,
}

/// which slots an entry reads: ints 0 = unused, 1 = magnitude only, 2 = signed
#[derive(Clone, Copy, Debug)]
struct Uses {
    a: u8,
    b: u8,
    c: u8,
    d: u8,
    n: NK,
    k: bool,
    s: SK,
    x: bool,
    y: bool,
    p: bool,
    /// slot b is an exponent (powi): drawn from the exponent pool
    bexp: bool,
    /// slot c is a denominator limit: mostly small (the Farey walk is linear in it)
    climit: bool,
    /// x is the argument of a logarithm: three quarters of the negative draws are made positive
    /// (every call outside the domain costs seconds while C16/float-ln-domain-unchecked is open)
    lnx: bool,
}

const U0: Uses = Uses { a: 0, b: 0, c: 0, d: 0, n: NK::None, k: false, s: SK::None, x: false, y: false, p: false, bexp: false, climit: false, lnx: false };
impl Uses {
    const fn a(mut self, v: u8) -> Uses {
        self.a = v;
        self
    }
    const fn b(mut self, v: u8) -> Uses {
        self.b = v;
        self
    }
    const fn c(mut self, v: u8) -> Uses {
        self.c = v;
        self
    }
    const fn d(mut self, v: u8) -> Uses {
        self.d = v;
        self
    }
    const fn n(mut self, v: NK) -> Uses {
        self.n = v;
        self
    }
    const fn k(mut self) -> Uses {
        self.k = true;
        self
    }
    const fn s(mut self, v: SK) -> Uses {
        self.s = v;
        self
    }
    const fn x(mut self) -> Uses {
        self.x = true;
        self
    }
    const fn y(mut self) -> Uses {
        self.y = true;
        self
    }
    const fn p(mut self) -> Uses {
        self.p = true;
        self
    }
    const fn lnx(mut self) -> Uses {
        self.lnx = true;
        self.x = true;
        self
    }
    const fn climit(mut self) -> Uses {
        self.climit = true;
        self.c = 1;
        self
    }
    const fn bexp(mut self) -> Uses {
        self.bexp = true;
        self.b = 2;
        self
    }
}

struct Op {
    name: String,
    krate: &'static str,
    fam: &'static str,
    /// numeric base of the float operands (0 = no floats)
    base: u64,
    uses: Uses,
    run: fn(&Case) -> String,
    pre: fn(&Case) -> Exp,
}

macro_rules! entry {
    ($v:ident, $kr:expr, $fam:expr, $base:expr, $name:expr, $uses:expr, |$c:ident| $run:expr, |$d:ident| $pre:expr) => {
        $v.push(Op {
            name: ($name).to_string(),
            krate: $kr,
            fam: $fam,
            base: $base,
            uses: $uses,
            run: |$c: &Case| -> String { Sh::sh(&($run)) },
            pre: |$d: &Case| -> Exp { $pre },
        });
    };
}

/// `a ∘ b` in the four ownership forms
macro_rules! bin4 {
    ($v:ident, $kr:expr, $fam:expr, $tn:expr, $uses:expr, $ga:ident, $gb:ident, $op:tt, |$d:ident| $pre:expr) => {
        entry!($v, $kr, $fam, 0, format!("{} {} val.val", $tn, stringify!($op)), $uses, |c| c.$ga() $op c.$gb(), |$d| $pre);
        entry!($v, $kr, $fam, 0, format!("{} {} val.ref", $tn, stringify!($op)), $uses, |c| c.$ga() $op &c.$gb(), |$d| $pre);
        entry!($v, $kr, $fam, 0, format!("{} {} ref.val", $tn, stringify!($op)), $uses, |c| &c.$ga() $op c.$gb(), |$d| $pre);
        entry!($v, $kr, $fam, 0, format!("{} {} ref.ref", $tn, stringify!($op)), $uses, |c| &c.$ga() $op &c.$gb(), |$d| $pre);
    };
}
/// `a ∘= b` in the two forms
macro_rules! asg2 {
    ($v:ident, $kr:expr, $fam:expr, $tn:expr, $uses:expr, $ga:ident, $gb:ident, $op:tt, |$d:ident| $pre:expr) => {
        entry!($v, $kr, $fam, 0, format!("{} {} val", $tn, stringify!($op)), $uses, |c| { let mut x = c.$ga(); x $op c.$gb(); x }, |$d| $pre);
        entry!($v, $kr, $fam, 0, format!("{} {} ref", $tn, stringify!($op)), $uses, |c| { let mut x = c.$ga(); x $op &c.$gb(); x }, |$d| $pre);
    };
}
/// `a.m(b)` in the four ownership forms
macro_rules! met4 {
    ($v:ident, $kr:expr, $fam:expr, $tn:expr, $uses:expr, $ga:ident, $gb:ident, $m:ident, |$d:ident| $pre:expr) => {
        entry!($v, $kr, $fam, 0, format!("{} {} val.val", $tn, stringify!($m)), $uses, |c| c.$ga().$m(c.$gb()), |$d| $pre);
        entry!($v, $kr, $fam, 0, format!("{} {} val.ref", $tn, stringify!($m)), $uses, |c| c.$ga().$m(&c.$gb()), |$d| $pre);
        entry!($v, $kr, $fam, 0, format!("{} {} ref.val", $tn, stringify!($m)), $uses, |c| (&c.$ga()).$m(c.$gb()), |$d| $pre);
        entry!($v, $kr, $fam, 0, format!("{} {} ref.ref", $tn, stringify!($m)), $uses, |c| (&c.$ga()).$m(&c.$gb()), |$d| $pre);
    };
}

const UU: Uses = U0.a(1).b(1);
const II: Uses = U0.a(2).b(2);
const UI: Uses = U0.a(1).b(2);
const IU: Uses = U0.a(2).b(1);

fn zero_b(c: &Case) -> Exp {
    Pre::new().must(c.b.is_zero(), L_DIV0, M_DIV0).done()
}

//CATALOGUE-FAMILIES

fn build_catalogue() -> Vec<Op> {
    let mut v: Vec<Op> = Vec::new();
    selftest(&mut v);
    int_arith(&mut v);
    int_div(&mut v);
    int_prim(&mut v);
    int_bits(&mut v);
    int_math(&mut v);
    int_text(&mut v);
    int_convert(&mut v);
    int_modular(&mut v);
    float_ops::<mode::Zero, 2>(&mut v);
    float_ops::<mode::HalfEven, 2>(&mut v);
    float_ops::<mode::HalfAway, 10>(&mut v);
    float_ops::<mode::Up, 10>(&mut v);
    float_b2::<mode::Zero>(&mut v);
    float_b2::<mode::HalfEven>(&mut v);
    float_b2_repr(&mut v);
    ratio_ops(&mut v);
    base_ops(&mut v);
    num_order_ops(&mut v);
    //CATALOGUE-CALLS
    // entries on Repr<B> do not depend on the rounding mode: keep the first of each
    let mut seen = std::collections::HashSet::new();
    v.retain(|o| !o.name.contains("Repr<") || seen.insert(o.name.clone()));
    v
}

const M_GCD00: &str = "the greatest common divisor is not defined between zeros";

fn below(c: &Case) -> Exp {
    Pre::new().must(c.a.mag.big() < c.b.mag.big(), L_NEGU, M_NEG_UBIG).done()
}
fn gcd00(c: &Case) -> Exp {
    Pre::new().must(c.a.is_zero() && c.b.is_zero(), L_GCD00, M_GCD00).done()
}

/// entries used only to validate the supervision machinery (through --replay); never generated
fn selftest(v: &mut Vec<Op>) {
    entry!(v, "selftest", "selftest", 0, "selftest: loop forever", U0, |_c| {
        let mut x = 1u64;
        loop {
            x = std::hint::black_box(x.wrapping_mul(6364136223846793005).wrapping_add(1));
            if x == 0 {
                break;
            }
        }
        x
    }, |_d| ret());
    entry!(v, "selftest", "selftest", 0, "selftest: allocate 64 GiB", U0, |_c| {
        let b: Vec<u8> = std::hint::black_box(vec![1u8; std::hint::black_box(64usize << 30)]);
        b.iter().map(|x| *x as usize).sum::<usize>()
    }, |_d| ret());
    entry!(v, "selftest", "selftest", 0, "selftest: abort", U0, |_c| {
        std::process::abort();
        #[allow(unreachable_code)]
        0u8
    }, |_d| ret());
    entry!(v, "selftest", "selftest", 0, "selftest: sleep 15 s", U0, |_c| {
        std::thread::sleep(Duration::from_secs(15));
        0u8
    }, |_d| ret());
    entry!(v, "selftest", "selftest", 0, "selftest: panic", U0, |_c| {
        if std::hint::black_box(true) {
            panic!("divisor must not be 0");
        }
        0u8
    }, |_d| Pre::new().must(true, L_DIV0, M_DIV0).done());
}

fn int_arith(v: &mut Vec<Op>) {
    const F: &str = "int: + - * (big operands)";
    bin4!(v, "int", F, "UBig,UBig", UU, ua, ub, +, |_d| ret());
    asg2!(v, "int", F, "UBig,UBig", UU, ua, ub, +=, |_d| ret());
    bin4!(v, "int", F, "UBig,UBig", UU, ua, ub, -, |d| below(d));
    asg2!(v, "int", F, "UBig,UBig", UU, ua, ub, -=, |d| below(d));
    bin4!(v, "int", F, "UBig,UBig", UU, ua, ub, *, |_d| ret());
    asg2!(v, "int", F, "UBig,UBig", UU, ua, ub, *=, |_d| ret());
    bin4!(v, "int", F, "IBig,IBig", II, ia, ib, +, |_d| ret());
    asg2!(v, "int", F, "IBig,IBig", II, ia, ib, +=, |_d| ret());
    bin4!(v, "int", F, "IBig,IBig", II, ia, ib, -, |_d| ret());
    asg2!(v, "int", F, "IBig,IBig", II, ia, ib, -=, |_d| ret());
    bin4!(v, "int", F, "IBig,IBig", II, ia, ib, *, |_d| ret());
    asg2!(v, "int", F, "IBig,IBig", II, ia, ib, *=, |_d| ret());
    bin4!(v, "int", F, "UBig,IBig", UI, ua, ib, +, |_d| ret());
    bin4!(v, "int", F, "UBig,IBig", UI, ua, ib, -, |_d| ret());
    bin4!(v, "int", F, "UBig,IBig", UI, ua, ib, *, |_d| ret());
    bin4!(v, "int", F, "IBig,UBig", IU, ia, ub, +, |_d| ret());
    bin4!(v, "int", F, "IBig,UBig", IU, ia, ub, -, |_d| ret());
    bin4!(v, "int", F, "IBig,UBig", IU, ia, ub, *, |_d| ret());
    asg2!(v, "int", F, "IBig,UBig", IU, ia, ub, +=, |_d| ret());
    asg2!(v, "int", F, "IBig,UBig", IU, ia, ub, -=, |_d| ret());
    asg2!(v, "int", F, "IBig,UBig", IU, ia, ub, *=, |_d| ret());
    // unary / sign
    const S: &str = "int: sign, unary, constants";
    entry!(v, "int", S, 0, "-UBig", U0.a(1), |c| -c.ua(), |_d| ret());
    entry!(v, "int", S, 0, "-&UBig", U0.a(1), |c| -&c.ua(), |_d| ret());
    entry!(v, "int", S, 0, "-IBig", U0.a(2), |c| -c.ia(), |_d| ret());
    entry!(v, "int", S, 0, "-&IBig", U0.a(2), |c| -&c.ia(), |_d| ret());
    entry!(v, "int", S, 0, "IBig::abs", U0.a(2), |c| c.ia().abs(), |_d| ret());
    entry!(v, "int", S, 0, "&IBig::abs", U0.a(2), |c| Abs::abs(&c.ia()), |_d| ret());
    entry!(v, "int", S, 0, "IBig::unsigned_abs", U0.a(2), |c| c.ia().unsigned_abs(), |_d| ret());
    entry!(v, "int", S, 0, "IBig::signum", U0.a(2), |c| c.ia().signum(), |_d| ret());
    entry!(v, "int", S, 0, "IBig::sign", U0.a(2), |c| c.ia().sign(), |_d| ret());
    entry!(v, "int", S, 0, "IBig::is_positive/is_negative", U0.a(2), |c| (Signed::is_positive(&c.ia()), Signed::is_negative(&c.ia())), |_d| ret());
    entry!(v, "int", S, 0, "IBig::into_parts", U0.a(2), |c| c.ia().into_parts(), |_d| ret());
    entry!(v, "int", S, 0, "IBig::from_parts", U0.a(2), |c| IBig::from_parts(if c.a.neg { Sign::Negative } else { Sign::Positive }, c.ua()), |_d| ret());
    entry!(v, "int", S, 0, "IBig::from_parts(Negative, ..)", U0.a(1), |c| IBig::from_parts(Sign::Negative, c.ua()), |_d| ret());
    entry!(v, "int", S, 0, "IBig::from_parts_const", U0.a(2), |c| IBig::from_parts_const(if c.a.neg { Sign::Negative } else { Sign::Positive }, low128(&c.a.mag)), |_d| ret());
    entry!(v, "int", S, 0, "UBig * Sign", U0.a(1).n(NK::Sel), |c| c.ua() * if c.n % 2 == 0 { Sign::Positive } else { Sign::Negative }, |_d| ret());
    entry!(v, "int", S, 0, "Sign * UBig", U0.a(1).n(NK::Sel), |c| (if c.n % 2 == 0 { Sign::Positive } else { Sign::Negative }) * c.ua(), |_d| ret());
    entry!(v, "int", S, 0, "IBig * Sign", U0.a(2).n(NK::Sel), |c| c.ia() * if c.n % 2 == 0 { Sign::Positive } else { Sign::Negative }, |_d| ret());
    entry!(v, "int", S, 0, "Sign * IBig", U0.a(2).n(NK::Sel), |c| (if c.n % 2 == 0 { Sign::Positive } else { Sign::Negative }) * c.ia(), |_d| ret());
    entry!(v, "int", S, 0, "IBig *= Sign", U0.a(2).n(NK::Sel), |c| { let mut x = c.ia(); x *= if c.n % 2 == 0 { Sign::Positive } else { Sign::Negative }; x }, |_d| ret());
    entry!(v, "int", S, 0, "UBig::is_zero/is_one", U0.a(1), |c| (c.ua().is_zero(), c.ua().is_one()), |_d| ret());
    entry!(v, "int", S, 0, "IBig::is_zero/is_one", U0.a(2), |c| (c.ia().is_zero(), c.ia().is_one()), |_d| ret());
    entry!(v, "int", S, 0, "UBig::clone/clone_from", UU, |c| { let mut x = c.ua().clone(); x.clone_from(&c.ub()); x }, |_d| ret());
    entry!(v, "int", S, 0, "IBig::clone/clone_from", II, |c| { let mut x = c.ia().clone(); x.clone_from(&c.ib()); x }, |_d| ret());
    entry!(v, "int", S, 0, "UBig cmp/eq", UU, |c| (c.ua().cmp(&c.ub()), c.ua() == c.ub()), |_d| ret());
    entry!(v, "int", S, 0, "IBig cmp/eq", II, |c| (c.ia().cmp(&c.ib()), c.ia() == c.ib()), |_d| ret());
    entry!(v, "int", S, 0, "UBig abs_cmp IBig", UI, |c| (c.ua().abs_cmp(&c.ib()), c.ib().abs_cmp(&c.ua())), |_d| ret());
    entry!(v, "int", S, 0, "IBig abs_cmp/abs_eq IBig", II, |c| (c.ia().abs_cmp(&c.ib()), c.ia().abs_eq(&c.ib())), |_d| ret());
    entry!(v, "int", S, 0, "UBig hash", U0.a(1), |c| { use std::hash::{Hash, Hasher}; let mut h = std::collections::hash_map::DefaultHasher::new(); c.ua().hash(&mut h); h.finish() }, |_d| ret());
    entry!(v, "int", S, 0, "IBig hash", U0.a(2), |c| { use std::hash::{Hash, Hasher}; let mut h = std::collections::hash_map::DefaultHasher::new(); c.ia().hash(&mut h); h.finish() }, |_d| ret());
    entry!(v, "int", S, 0, "UBig sum/product", UU, |c| { let xs = [c.ua(), c.ub(), c.ua()]; (xs.iter().sum::<UBig>(), xs.iter().product::<UBig>()) }, |_d| ret());
    entry!(v, "int", S, 0, "IBig sum/product", II, |c| { let xs = [c.ia(), c.ib(), c.ia()]; (xs.iter().sum::<IBig>(), xs.iter().product::<IBig>()) }, |_d| ret());
    entry!(v, "int", S, 0, "UBig::default / IBig::default", U0, |_c| (UBig::default(), IBig::default()), |_d| ret());
}

fn int_div(v: &mut Vec<Op>) {
    const G: &str = "int: division forms (big operands)";
    bin4!(v, "int", G, "UBig,UBig", UU, ua, ub, /, |d| zero_b(d));
    bin4!(v, "int", G, "UBig,UBig", UU, ua, ub, %, |d| zero_b(d));
    asg2!(v, "int", G, "UBig,UBig", UU, ua, ub, /=, |d| zero_b(d));
    asg2!(v, "int", G, "UBig,UBig", UU, ua, ub, %=, |d| zero_b(d));
    met4!(v, "int", G, "UBig,UBig", UU, ua, ub, div_rem, |d| zero_b(d));
    met4!(v, "int", G, "UBig,UBig", UU, ua, ub, div_euclid, |d| zero_b(d));
    met4!(v, "int", G, "UBig,UBig", UU, ua, ub, rem_euclid, |d| zero_b(d));
    met4!(v, "int", G, "UBig,UBig", UU, ua, ub, div_rem_euclid, |d| zero_b(d));
    entry!(v, "int", G, 0, "UBig,UBig div_rem_assign val", UU, |c| { let mut x = c.ua(); let r = x.div_rem_assign(c.ub()); (x, r) }, |d| zero_b(d));
    entry!(v, "int", G, 0, "UBig,UBig div_rem_assign ref", UU, |c| { let mut x = c.ua(); let r = x.div_rem_assign(&c.ub()); (x, r) }, |d| zero_b(d));
    entry!(v, "int", G, 0, "UBig::is_multiple_of", UU, |c| c.ua().is_multiple_of(&c.ub()), |d| zero_b(d));
    bin4!(v, "int", G, "IBig,IBig", II, ia, ib, /, |d| zero_b(d));
    bin4!(v, "int", G, "IBig,IBig", II, ia, ib, %, |d| zero_b(d));
    asg2!(v, "int", G, "IBig,IBig", II, ia, ib, /=, |d| zero_b(d));
    asg2!(v, "int", G, "IBig,IBig", II, ia, ib, %=, |d| zero_b(d));
    met4!(v, "int", G, "IBig,IBig", II, ia, ib, div_rem, |d| zero_b(d));
    met4!(v, "int", G, "IBig,IBig", II, ia, ib, div_euclid, |d| zero_b(d));
    met4!(v, "int", G, "IBig,IBig", II, ia, ib, rem_euclid, |d| zero_b(d));
    met4!(v, "int", G, "IBig,IBig", II, ia, ib, div_rem_euclid, |d| zero_b(d));
    entry!(v, "int", G, 0, "IBig,IBig div_rem_assign val", II, |c| { let mut x = c.ia(); let r = x.div_rem_assign(c.ib()); (x, r) }, |d| zero_b(d));
    entry!(v, "int", G, 0, "IBig,IBig div_rem_assign ref", II, |c| { let mut x = c.ia(); let r = x.div_rem_assign(&c.ib()); (x, r) }, |d| zero_b(d));
    entry!(v, "int", G, 0, "IBig::is_multiple_of", II, |c| c.ia().is_multiple_of(&c.ib()), |d| zero_b(d));
    bin4!(v, "int", G, "UBig,IBig", UI, ua, ib, /, |d| zero_b(d));
    bin4!(v, "int", G, "UBig,IBig", UI, ua, ib, %, |d| zero_b(d));
    met4!(v, "int", G, "UBig,IBig", UI, ua, ib, div_rem, |d| zero_b(d));
    asg2!(v, "int", G, "UBig,IBig", UI, ua, ib, %=, |d| zero_b(d));
    bin4!(v, "int", G, "IBig,UBig", IU, ia, ub, /, |d| zero_b(d));
    bin4!(v, "int", G, "IBig,UBig", IU, ia, ub, %, |d| zero_b(d));
    met4!(v, "int", G, "IBig,UBig", IU, ia, ub, div_rem, |d| zero_b(d));
    asg2!(v, "int", G, "IBig,UBig", IU, ia, ub, /=, |d| zero_b(d));
    asg2!(v, "int", G, "IBig,UBig", IU, ia, ub, %=, |d| zero_b(d));
    // the const forms take a double word; the rustdoc does not say what a zero divisor does
    entry!(v, "int", G, 0, "UBig::is_multiple_of_const", U0.a(1).k(), |c| c.ua().is_multiple_of_const(c.k128() as u128), |d| Pre::new().unspec(d.k128() == 0, "unspecified: is_multiple_of_const(0)").done());
    entry!(v, "int", G, 0, "IBig::is_multiple_of_const", U0.a(2).k(), |c| c.ia().is_multiple_of_const(c.k128() as u128), |d| Pre::new().unspec(d.k128() == 0, "unspecified: is_multiple_of_const(0)").done());
    // ConstDivisor
    const H: &str = "int: ConstDivisor";
    entry!(v, "int", H, 0, "ConstDivisor::new", U0.b(1), |c| ConstDivisor::new(c.ub()), |d| zero_b(d));
    entry!(v, "int", H, 0, "ConstDivisor::from_word", U0.k(), |c| ConstDivisor::from_word(c.k128() as u64), |d| Pre::new().must(d.k128() as u64 == 0, L_DIV0, M_DIV0).done());
    entry!(v, "int", H, 0, "ConstDivisor::from_dword", U0.k(), |c| ConstDivisor::from_dword(c.k128() as u128), |d| Pre::new().must(d.k128() as u128 == 0, L_DIV0, M_DIV0).done());
    entry!(v, "int", H, 0, "ConstDivisor::value", U0.b(1), |c| ConstDivisor::new(c.ub()).value(), |d| zero_b(d));
    entry!(v, "int", H, 0, "UBig / &ConstDivisor", UU, |c| c.ua() / &ConstDivisor::new(c.ub()), |d| zero_b(d));
    entry!(v, "int", H, 0, "&UBig / &ConstDivisor", UU, |c| &c.ua() / &ConstDivisor::new(c.ub()), |d| zero_b(d));
    entry!(v, "int", H, 0, "UBig % &ConstDivisor", UU, |c| c.ua() % &ConstDivisor::new(c.ub()), |d| zero_b(d));
    entry!(v, "int", H, 0, "&UBig % &ConstDivisor", UU, |c| &c.ua() % &ConstDivisor::new(c.ub()), |d| zero_b(d));
    entry!(v, "int", H, 0, "UBig div_rem &ConstDivisor", UU, |c| c.ua().div_rem(&ConstDivisor::new(c.ub())), |d| zero_b(d));
    entry!(v, "int", H, 0, "&UBig div_rem &ConstDivisor", UU, |c| (&c.ua()).div_rem(&ConstDivisor::new(c.ub())), |d| zero_b(d));
    entry!(v, "int", H, 0, "UBig /= &ConstDivisor", UU, |c| { let mut x = c.ua(); x /= &ConstDivisor::new(c.ub()); x }, |d| zero_b(d));
    entry!(v, "int", H, 0, "UBig %= &ConstDivisor", UU, |c| { let mut x = c.ua(); x %= &ConstDivisor::new(c.ub()); x }, |d| zero_b(d));
    entry!(v, "int", H, 0, "UBig div_rem_assign &ConstDivisor", UU, |c| { let mut x = c.ua(); let r = x.div_rem_assign(&ConstDivisor::new(c.ub())); (x, r) }, |d| zero_b(d));
    entry!(v, "int", H, 0, "IBig / &ConstDivisor", IU, |c| c.ia() / &ConstDivisor::new(c.ub()), |d| zero_b(d));
    entry!(v, "int", H, 0, "&IBig / &ConstDivisor", IU, |c| &c.ia() / &ConstDivisor::new(c.ub()), |d| zero_b(d));
    entry!(v, "int", H, 0, "IBig % &ConstDivisor", IU, |c| c.ia() % &ConstDivisor::new(c.ub()), |d| zero_b(d));
    entry!(v, "int", H, 0, "&IBig % &ConstDivisor", IU, |c| &c.ia() % &ConstDivisor::new(c.ub()), |d| zero_b(d));
    entry!(v, "int", H, 0, "IBig div_rem &ConstDivisor", IU, |c| c.ia().div_rem(&ConstDivisor::new(c.ub())), |d| zero_b(d));
    entry!(v, "int", H, 0, "IBig /= &ConstDivisor", IU, |c| { let mut x = c.ia(); x /= &ConstDivisor::new(c.ub()); x }, |d| zero_b(d));
    entry!(v, "int", H, 0, "IBig %= &ConstDivisor", IU, |c| { let mut x = c.ia(); x %= &ConstDivisor::new(c.ub()); x }, |d| zero_b(d));
    entry!(v, "int", H, 0, "IBig div_rem_assign &ConstDivisor", IU, |c| { let mut x = c.ia(); let r = x.div_rem_assign(&ConstDivisor::new(c.ub())); (x, r) }, |d| zero_b(d));
    // remove: documented to return None for self = 0, factor 0 or 1
    entry!(v, "int", H, 0, "UBig::remove", UU, |c| { let mut x = c.ua(); let r = x.remove(&c.ub()); (x, r) }, |_d| ret());
}

/// operations with a primitive operand; `$uns` = the primitive type is unsigned
macro_rules! prim_ubig {
    ($v:ident, $($t:ident)*) => {$(
        {
            const F: &str = "int: UBig with primitive operand";
            const U: Uses = U0.a(1).k();
            let t = stringify!($t);
            entry!($v, "int", F, 0, format!("UBig + {t}"), U, |c| c.ua() + (c.k128() as $t), |_d| ret());
            entry!($v, "int", F, 0, format!("&UBig + &{t}"), U, |c| &c.ua() + &(c.k128() as $t), |_d| ret());
            entry!($v, "int", F, 0, format!("{t} + UBig"), U, |c| (c.k128() as $t) + c.ua(), |_d| ret());
            entry!($v, "int", F, 0, format!("UBig += {t}"), U, |c| { let mut x = c.ua(); x += c.k128() as $t; x }, |_d| ret());
            entry!($v, "int", F, 0, format!("UBig - {t}"), U, |c| c.ua() - (c.k128() as $t), |d| Pre::new().must(d.a.mag.big() < BigUint::from(d.k128() as $t), L_NEGU, M_NEG_UBIG).done());
            entry!($v, "int", F, 0, format!("{t} - &UBig"), U, |c| (c.k128() as $t) - &c.ua(), |d| Pre::new().must(BigUint::from(d.k128() as $t) < d.a.mag.big(), L_NEGU, M_NEG_UBIG).done());
            entry!($v, "int", F, 0, format!("UBig -= {t}"), U, |c| { let mut x = c.ua(); x -= c.k128() as $t; x }, |d| Pre::new().must(d.a.mag.big() < BigUint::from(d.k128() as $t), L_NEGU, M_NEG_UBIG).done());
            entry!($v, "int", F, 0, format!("UBig * {t}"), U, |c| c.ua() * (c.k128() as $t), |_d| ret());
            entry!($v, "int", F, 0, format!("&{t} * &UBig"), U, |c| &(c.k128() as $t) * &c.ua(), |_d| ret());
            entry!($v, "int", F, 0, format!("UBig *= &{t}"), U, |c| { let mut x = c.ua(); x *= &(c.k128() as $t); x }, |_d| ret());
            entry!($v, "int", F, 0, format!("UBig / {t}"), U, |c| c.ua() / (c.k128() as $t), |d| Pre::new().must(d.k128() as $t == 0, L_DIV0, M_DIV0).done());
            entry!($v, "int", F, 0, format!("&UBig / &{t}"), U, |c| &c.ua() / &(c.k128() as $t), |d| Pre::new().must(d.k128() as $t == 0, L_DIV0, M_DIV0).done());
            entry!($v, "int", F, 0, format!("{t} / UBig"), U, |c| (c.k128() as $t) / c.ua(), |d| Pre::new().must(d.a.is_zero(), L_DIV0, M_DIV0).done());
            entry!($v, "int", F, 0, format!("UBig /= {t}"), U, |c| { let mut x = c.ua(); x /= c.k128() as $t; x }, |d| Pre::new().must(d.k128() as $t == 0, L_DIV0, M_DIV0).done());
            entry!($v, "int", F, 0, format!("UBig % {t}"), U, |c| c.ua() % (c.k128() as $t), |d| Pre::new().must(d.k128() as $t == 0, L_DIV0, M_DIV0).done());
            entry!($v, "int", F, 0, format!("&UBig % &{t}"), U, |c| &c.ua() % &(c.k128() as $t), |d| Pre::new().must(d.k128() as $t == 0, L_DIV0, M_DIV0).done());
            entry!($v, "int", F, 0, format!("UBig div_rem {t}"), U, |c| c.ua().div_rem(c.k128() as $t), |d| Pre::new().must(d.k128() as $t == 0, L_DIV0, M_DIV0).done());
            entry!($v, "int", F, 0, format!("&UBig div_rem &{t}"), U, |c| (&c.ua()).div_rem(&(c.k128() as $t)), |d| Pre::new().must(d.k128() as $t == 0, L_DIV0, M_DIV0).done());
            entry!($v, "int", F, 0, format!("UBig div_rem_assign {t}"), U, |c| { let mut x = c.ua(); let r = x.div_rem_assign(c.k128() as $t); (x, r) }, |d| Pre::new().must(d.k128() as $t == 0, L_DIV0, M_DIV0).done());
            entry!($v, "int", F, 0, format!("UBig & {t}"), U, |c| c.ua() & (c.k128() as $t), |_d| ret());
            entry!($v, "int", F, 0, format!("{t} & &UBig"), U, |c| (c.k128() as $t) & &c.ua(), |_d| ret());
            entry!($v, "int", F, 0, format!("UBig | {t}"), U, |c| c.ua() | (c.k128() as $t), |_d| ret());
            entry!($v, "int", F, 0, format!("{t} ^ UBig"), U, |c| (c.k128() as $t) ^ c.ua(), |_d| ret());
            entry!($v, "int", F, 0, format!("UBig &= {t}, |= , ^="), U, |c| { let mut x = c.ua(); x &= c.k128() as $t; x |= c.k128() as $t; x ^= &(c.k128() as $t); x }, |_d| ret());
        }
    )*};
}

fn rem_neg_known(d: &Case, k_big: BigInt) -> bool {
    // C16/ibig-rem-unsigned-primitive-negative: dividend < 0 and dividend % p != 0
    d.a.neg && !k_big.is_zero() && !(d.a.big() % k_big).is_zero()
}

const KF_REM: &str = "C16/ibig-rem-unsigned-primitive-negative";

macro_rules! prim_ibig {
    ($v:ident, $uns:expr, $($t:ident)*) => {$(
        {
            const F: &str = "int: IBig with primitive operand";
            const U: Uses = U0.a(2).k();
            let t = stringify!($t);
            entry!($v, "int", F, 0, format!("IBig + {t}"), U, |c| c.ia() + (c.k128() as $t), |_d| ret());
            entry!($v, "int", F, 0, format!("&{t} + &IBig"), U, |c| &(c.k128() as $t) + &c.ia(), |_d| ret());
            entry!($v, "int", F, 0, format!("IBig += {t}"), U, |c| { let mut x = c.ia(); x += c.k128() as $t; x }, |_d| ret());
            entry!($v, "int", F, 0, format!("IBig - {t}"), U, |c| c.ia() - (c.k128() as $t), |_d| ret());
            entry!($v, "int", F, 0, format!("{t} - &IBig"), U, |c| (c.k128() as $t) - &c.ia(), |_d| ret());
            entry!($v, "int", F, 0, format!("IBig -= &{t}"), U, |c| { let mut x = c.ia(); x -= &(c.k128() as $t); x }, |_d| ret());
            entry!($v, "int", F, 0, format!("IBig * {t}"), U, |c| c.ia() * (c.k128() as $t), |_d| ret());
            entry!($v, "int", F, 0, format!("{t} * IBig"), U, |c| (c.k128() as $t) * c.ia(), |_d| ret());
            entry!($v, "int", F, 0, format!("IBig *= {t}"), U, |c| { let mut x = c.ia(); x *= c.k128() as $t; x }, |_d| ret());
            entry!($v, "int", F, 0, format!("IBig / {t}"), U, |c| c.ia() / (c.k128() as $t), |d| Pre::new().must(d.k128() as $t == 0, L_DIV0, M_DIV0).done());
            entry!($v, "int", F, 0, format!("&IBig / &{t}"), U, |c| &c.ia() / &(c.k128() as $t), |d| Pre::new().must(d.k128() as $t == 0, L_DIV0, M_DIV0).done());
            entry!($v, "int", F, 0, format!("IBig /= {t}"), U, |c| { let mut x = c.ia(); x /= c.k128() as $t; x }, |d| Pre::new().must(d.k128() as $t == 0, L_DIV0, M_DIV0).done());
            // primitive / IBig -> primitive: the quotient may not fit the primitive type
            entry!($v, "int", F, 0, format!("{t} / IBig"), U, |c| (c.k128() as $t) / c.ia(), |d| {
                let k = BigInt::from(d.k128() as $t);
                let a = d.a.big();
                let q = if a.is_zero() { BigInt::zero() } else { &k / &a };
                let fits = q >= BigInt::from(<$t>::MIN) && q <= BigInt::from(<$t>::MAX);
                Pre::new()
                    .must(a.is_zero(), L_DIV0, M_DIV0)
                    .unspec(!$uns && !fits, "unspecified: MIN / -1 overflows the signed primitive (as for the primitive itself)")
                    .known($uns && !fits, "C16/unsigned-primitive-div-ibig-negative", On::Panic("OutOfBounds"))
                    .done()
            });
            entry!($v, "int", F, 0, format!("IBig % {t}"), U, |c| c.ia() % (c.k128() as $t), |d| Pre::new().must(d.k128() as $t == 0, L_DIV0, M_DIV0).known($uns && rem_neg_known(d, BigInt::from(d.k128() as $t)), KF_REM, On::Panic("OutOfBounds")).done());
            entry!($v, "int", F, 0, format!("&IBig % &{t}"), U, |c| &c.ia() % &(c.k128() as $t), |d| Pre::new().must(d.k128() as $t == 0, L_DIV0, M_DIV0).known($uns && rem_neg_known(d, BigInt::from(d.k128() as $t)), KF_REM, On::Panic("OutOfBounds")).done());
            entry!($v, "int", F, 0, format!("IBig div_rem {t}"), U, |c| c.ia().div_rem(c.k128() as $t), |d| Pre::new().must(d.k128() as $t == 0, L_DIV0, M_DIV0).known($uns && rem_neg_known(d, BigInt::from(d.k128() as $t)), KF_REM, On::Panic("OutOfBounds")).done());
            entry!($v, "int", F, 0, format!("&IBig div_rem &{t}"), U, |c| (&c.ia()).div_rem(&(c.k128() as $t)), |d| Pre::new().must(d.k128() as $t == 0, L_DIV0, M_DIV0).known($uns && rem_neg_known(d, BigInt::from(d.k128() as $t)), KF_REM, On::Panic("OutOfBounds")).done());
            entry!($v, "int", F, 0, format!("IBig div_rem_assign {t}"), U, |c| { let mut x = c.ia(); let r = x.div_rem_assign(c.k128() as $t); (x, r) }, |d| Pre::new().must(d.k128() as $t == 0, L_DIV0, M_DIV0).known($uns && rem_neg_known(d, BigInt::from(d.k128() as $t)), KF_REM, On::Panic("OutOfBounds")).done());
            entry!($v, "int", F, 0, format!("IBig & {t}"), U, |c| c.ia() & (c.k128() as $t), |_d| ret());
            entry!($v, "int", F, 0, format!("{t} & &IBig"), U, |c| (c.k128() as $t) & &c.ia(), |_d| ret());
            entry!($v, "int", F, 0, format!("IBig | {t}"), U, |c| c.ia() | (c.k128() as $t), |_d| ret());
            entry!($v, "int", F, 0, format!("{t} ^ IBig"), U, |c| (c.k128() as $t) ^ c.ia(), |_d| ret());
            entry!($v, "int", F, 0, format!("IBig &= {t}, |= , ^="), U, |c| { let mut x = c.ia(); x &= c.k128() as $t; x |= c.k128() as $t; x ^= &(c.k128() as $t); x }, |_d| ret());
        }
    )*};
}

fn int_prim(v: &mut Vec<Op>) {
    prim_ubig!(v, u8 u16 u32 u64 u128 usize);
    prim_ibig!(v, true, u8 u16 u32 u64 u128 usize);
    prim_ibig!(v, false, i8 i16 i32 i64 i128 isize);
}

fn int_bits(v: &mut Vec<Op>) {
    const F: &str = "int: bit operations";
    bin4!(v, "int", F, "UBig,UBig", UU, ua, ub, &, |_d| ret());
    bin4!(v, "int", F, "UBig,UBig", UU, ua, ub, |, |_d| ret());
    bin4!(v, "int", F, "UBig,UBig", UU, ua, ub, ^, |_d| ret());
    asg2!(v, "int", F, "UBig,UBig", UU, ua, ub, &=, |_d| ret());
    asg2!(v, "int", F, "UBig,UBig", UU, ua, ub, |=, |_d| ret());
    asg2!(v, "int", F, "UBig,UBig", UU, ua, ub, ^=, |_d| ret());
    bin4!(v, "int", F, "IBig,IBig", II, ia, ib, &, |_d| ret());
    bin4!(v, "int", F, "IBig,IBig", II, ia, ib, |, |_d| ret());
    bin4!(v, "int", F, "IBig,IBig", II, ia, ib, ^, |_d| ret());
    asg2!(v, "int", F, "IBig,IBig", II, ia, ib, &=, |_d| ret());
    asg2!(v, "int", F, "IBig,IBig", II, ia, ib, |=, |_d| ret());
    asg2!(v, "int", F, "IBig,IBig", II, ia, ib, ^=, |_d| ret());
    bin4!(v, "int", F, "UBig,IBig", UI, ua, ib, &, |_d| ret());
    bin4!(v, "int", F, "UBig,IBig", UI, ua, ib, |, |_d| ret());
    bin4!(v, "int", F, "UBig,IBig", UI, ua, ib, ^, |_d| ret());
    bin4!(v, "int", F, "IBig,UBig", IU, ia, ub, &, |_d| ret());
    bin4!(v, "int", F, "IBig,UBig", IU, ia, ub, |, |_d| ret());
    bin4!(v, "int", F, "IBig,UBig", IU, ia, ub, ^, |_d| ret());
    asg2!(v, "int", F, "UBig,IBig", UI, ua, ib, &=, |_d| ret());
    asg2!(v, "int", F, "IBig,UBig", IU, ia, ub, &=, |_d| ret());
    asg2!(v, "int", F, "IBig,UBig", IU, ia, ub, |=, |_d| ret());
    asg2!(v, "int", F, "IBig,UBig", IU, ia, ub, ^=, |_d| ret());
    entry!(v, "int", F, 0, "!IBig", U0.a(2), |c| !c.ia(), |_d| ret());
    entry!(v, "int", F, 0, "!&IBig", U0.a(2), |c| !&c.ia(), |_d| ret());
    const UN: Uses = U0.a(1).n(NK::Pos);
    const IN: Uses = U0.a(2).n(NK::Pos);
    entry!(v, "int", F, 0, "UBig::bit", UN, |c| c.ua().bit(c.nu()), |_d| ret());
    entry!(v, "int", F, 0, "IBig::bit", IN, |c| c.ia().bit(c.nu()), |_d| ret());
    entry!(v, "int", F, 0, "UBig::bit_len", U0.a(1), |c| c.ua().bit_len(), |_d| ret());
    entry!(v, "int", F, 0, "IBig::bit_len", U0.a(2), |c| c.ia().bit_len(), |_d| ret());
    entry!(v, "int", F, 0, "UBig::set_bit", U0.a(1).n(NK::Grow), |c| { let mut x = c.ua(); x.set_bit(c.nu()); x }, |_d| ret());
    entry!(v, "int", F, 0, "UBig::set_bit (bit beyond 2^20 on zero)", U0.n(NK::Grow), |c| { let mut x = UBig::ZERO; x.set_bit(c.nu()); x.bit_len() }, |_d| ret());
    entry!(v, "int", F, 0, "UBig::clear_bit", UN, |c| { let mut x = c.ua(); x.clear_bit(c.nu()); x }, |_d| ret());
    entry!(v, "int", F, 0, "UBig::clear_high_bits", UN, |c| { let mut x = c.ua(); x.clear_high_bits(c.nu()); x }, |_d| ret());
    entry!(v, "int", F, 0, "UBig::split_bits", UN, |c| c.ua().split_bits(c.nu()), |_d| ret());
    entry!(v, "int", F, 0, "UBig::trailing_zeros/ones", U0.a(1), |c| (c.ua().trailing_zeros(), c.ua().trailing_ones()), |_d| ret());
    entry!(v, "int", F, 0, "IBig::trailing_zeros/ones", U0.a(2), |c| (c.ia().trailing_zeros(), c.ia().trailing_ones()), |_d| ret());
    entry!(v, "int", F, 0, "UBig::count_ones/zeros", U0.a(1), |c| (c.ua().count_ones(), c.ua().count_zeros()), |_d| ret());
    entry!(v, "int", F, 0, "UBig::is_power_of_two", U0.a(1), |c| c.ua().is_power_of_two(), |_d| ret());
    entry!(v, "int", F, 0, "UBig::next_power_of_two", U0.a(1), |c| c.ua().next_power_of_two(), |_d| ret());
    entry!(v, "int", F, 0, "UBig::ones", U0.n(NK::Grow), |c| UBig::ones(c.nu()), |_d| ret());
    const G: &str = "int: shifts";
    const US: Uses = U0.a(1).n(NK::Grow);
    const IS: Uses = U0.a(2).n(NK::Grow);
    entry!(v, "int", G, 0, "UBig << usize", US, |c| c.ua() << c.nu(), |_d| ret());
    entry!(v, "int", G, 0, "&UBig << &usize", US, |c| &c.ua() << &c.nu(), |_d| ret());
    entry!(v, "int", G, 0, "UBig <<= usize", US, |c| { let mut x = c.ua(); x <<= c.nu(); x }, |_d| ret());
    entry!(v, "int", G, 0, "UBig <<= &usize", US, |c| { let mut x = c.ua(); x <<= &c.nu(); x }, |_d| ret());
    entry!(v, "int", G, 0, "IBig << usize", IS, |c| c.ia() << c.nu(), |_d| ret());
    entry!(v, "int", G, 0, "&IBig << &usize", IS, |c| &c.ia() << &c.nu(), |_d| ret());
    entry!(v, "int", G, 0, "IBig <<= usize", IS, |c| { let mut x = c.ia(); x <<= c.nu(); x }, |_d| ret());
    entry!(v, "int", G, 0, "UBig >> usize", UN, |c| c.ua() >> c.nu(), |_d| ret());
    entry!(v, "int", G, 0, "&UBig >> &usize", UN, |c| &c.ua() >> &c.nu(), |_d| ret());
    entry!(v, "int", G, 0, "UBig >>= usize", UN, |c| { let mut x = c.ua(); x >>= c.nu(); x }, |_d| ret());
    entry!(v, "int", G, 0, "IBig >> usize", IN, |c| c.ia() >> c.nu(), |_d| ret());
    entry!(v, "int", G, 0, "&IBig >> &usize", IN, |c| &c.ia() >> &c.nu(), |_d| ret());
    entry!(v, "int", G, 0, "IBig >>= &usize", IN, |c| { let mut x = c.ia(); x >>= &c.nu(); x }, |_d| ret());
}

fn int_math(v: &mut Vec<Op>) {
    const F: &str = "int: pow, sqr, cubic";
    entry!(v, "int", F, 0, "UBig::pow", U0.a(1).n(NK::Pow), |c| c.ua().pow(c.nu()), |_d| ret());
    entry!(v, "int", F, 0, "IBig::pow", U0.a(2).n(NK::Pow), |c| c.ia().pow(c.nu()), |_d| ret());
    entry!(v, "int", F, 0, "UBig::sqr", U0.a(1), |c| c.ua().sqr(), |_d| ret());
    entry!(v, "int", F, 0, "IBig::sqr", U0.a(2), |c| c.ia().sqr(), |_d| ret());
    entry!(v, "int", F, 0, "UBig::cubic", U0.a(1), |c| c.ua().cubic(), |_d| ret());
    entry!(v, "int", F, 0, "IBig::cubic", U0.a(2), |c| c.ia().cubic(), |_d| ret());
    const G: &str = "int: roots";
    entry!(v, "int", G, 0, "UBig::sqrt", U0.a(1), |c| c.ua().sqrt(), |_d| ret());
    entry!(v, "int", G, 0, "UBig::sqrt_rem", U0.a(1), |c| c.ua().sqrt_rem(), |_d| ret());
    entry!(v, "int", G, 0, "UBig::cbrt", U0.a(1), |c| c.ua().cbrt(), |_d| ret());
    entry!(v, "int", G, 0, "UBig::cbrt_rem", U0.a(1), |c| c.ua().cbrt_rem(), |_d| ret());
    entry!(v, "int", G, 0, "UBig::nth_root", U0.a(1).n(NK::Root), |c| c.ua().nth_root(c.nu()), |d| Pre::new().must(d.n == 0, L_ROOT0, M_ROOT0).done());
    entry!(v, "int", G, 0, "IBig::sqrt", U0.a(2), |c| c.ia().sqrt(), |d| Pre::new().must(d.a.neg, L_ROOTNEG, M_ROOTNEG).done());
    entry!(v, "int", G, 0, "IBig::cbrt", U0.a(2), |c| c.ia().cbrt(), |_d| ret());
    entry!(v, "int", G, 0, "IBig::nth_root", U0.a(2).n(NK::Root), |c| c.ia().nth_root(c.nu()), |d| Pre::new().must(d.n == 0, L_ROOT0, M_ROOT0).must(d.a.neg && d.n % 2 == 0, L_ROOTNEG, M_ROOTNEG).done());
    const H: &str = "int: logarithms";
    entry!(v, "int", H, 0, "UBig::ilog", UU, |c| c.ua().ilog(&c.ub()), |d| Pre::new().must(d.a.is_zero() || d.b.mag.big() < BigUint::from(2u8), L_LOG, M_LOG).done());
    entry!(v, "int", H, 0, "IBig::ilog", IU, |c| c.ia().ilog(&c.ub()), |d| Pre::new().must(d.a.is_zero() || d.b.mag.big() < BigUint::from(2u8), L_LOG, M_LOG).done());
    // EstimatedLog2: the trait rustdoc says "Panics if the number is 0", the method rustdoc says
    // "If the number is zero, then negative infinity will be returned": contradictory -> unspecified
    entry!(v, "int", H, 0, "UBig::log2_bounds/log2_est", U0.a(1), |c| { let (l, h) = c.ua().log2_bounds(); (l, h, c.ua().log2_est()) }, |d| Pre::new().unspec(d.a.is_zero(), "unspecified: log2_bounds(0) (trait and method rustdoc disagree)").done());
    entry!(v, "int", H, 0, "IBig::log2_bounds/log2_est", U0.a(2), |c| { let (l, h) = c.ia().log2_bounds(); (l, h, c.ia().log2_est()) }, |d| Pre::new().unspec(d.a.is_zero(), "unspecified: log2_bounds(0) (trait and method rustdoc disagree)").done());
    const K: &str = "int: gcd";
    met4!(v, "int", K, "UBig,UBig", UU, ua, ub, gcd, |d| gcd00(d));
    met4!(v, "int", K, "UBig,UBig", UU, ua, ub, gcd_ext, |d| gcd00(d));
    met4!(v, "int", K, "IBig,IBig", II, ia, ib, gcd, |d| gcd00(d));
    met4!(v, "int", K, "IBig,IBig", II, ia, ib, gcd_ext, |d| gcd00(d));
    met4!(v, "int", K, "UBig,IBig", UI, ua, ib, gcd, |d| gcd00(d));
    met4!(v, "int", K, "UBig,IBig", UI, ua, ib, gcd_ext, |d| gcd00(d));
    met4!(v, "int", K, "IBig,UBig", IU, ia, ub, gcd, |d| gcd00(d));
    met4!(v, "int", K, "IBig,UBig", IU, ia, ub, gcd_ext, |d| gcd00(d));
}

fn bad_radix(n: u64) -> bool {
    !(2..=36).contains(&n)
}
fn radix_pre(c: &Case) -> Exp {
    Pre::new().must(bad_radix(c.n), L_RADIX, M_RADIX).done()
}

/// one formatting spec per entry
macro_rules! fmt_entries {
    ($v:ident, $kr:expr, $fam:expr, $base:expr, $tn:expr, $uses:expr, |$c:ident| $val:expr, |$d:ident| $pre:expr, $($spec:literal)*) => {$(
        entry!($v, $kr, $fam, $base, format!("{} format {:?}", $tn, $spec), $uses, |$c| format!($spec, $val), |$d| $pre);
    )*};
}

fn bytes_of(c: &Case) -> Vec<u8> {
    let mut b: Vec<u8> = c.a.mag.0.iter().flat_map(|w| w.to_le_bytes()).collect();
    let cut = (c.n % 8) as usize;
    b.truncate(b.len().saturating_sub(cut));
    b
}

fn int_text(v: &mut Vec<Op>) {
    const P: &str = "int: parsing";
    const SN: Uses = U0.s(SK::Int).n(NK::Radix);
    const S: Uses = U0.s(SK::Int);
    entry!(v, "int", P, 0, "UBig::from_str_radix", SN, |c| UBig::from_str_radix(&c.s, c.n as u32), |_d| ret());
    entry!(v, "int", P, 0, "IBig::from_str_radix", SN, |c| IBig::from_str_radix(&c.s, c.n as u32), |_d| ret());
    entry!(v, "int", P, 0, "UBig::from_str_with_radix_prefix", S, |c| UBig::from_str_with_radix_prefix(&c.s), |_d| ret());
    entry!(v, "int", P, 0, "IBig::from_str_with_radix_prefix", S, |c| IBig::from_str_with_radix_prefix(&c.s), |_d| ret());
    entry!(v, "int", P, 0, "UBig::from_str_with_radix_default", SN, |c| UBig::from_str_with_radix_default(&c.s, c.n as u32), |_d| ret());
    entry!(v, "int", P, 0, "IBig::from_str_with_radix_default", SN, |c| IBig::from_str_with_radix_default(&c.s, c.n as u32), |_d| ret());
    entry!(v, "int", P, 0, "UBig::from_str", S, |c| UBig::from_str(&c.s), |_d| ret());
    entry!(v, "int", P, 0, "IBig::from_str", S, |c| IBig::from_str(&c.s), |_d| ret());
    entry!(v, "int", P, 0, "str::parse::<UBig>", S, |c| c.s.parse::<UBig>(), |_d| ret());
    const F: &str = "int: printing";
    const UR: Uses = U0.a(1).n(NK::Radix);
    const IR: Uses = U0.a(2).n(NK::Radix);
    entry!(v, "int", F, 0, "UBig::in_radix {}", UR, |c| format!("{}", c.ua().in_radix(c.n as u32)), |d| radix_pre(d));
    entry!(v, "int", F, 0, "UBig::in_radix {:#}", UR, |c| format!("{:#}", c.ua().in_radix(c.n as u32)), |d| radix_pre(d));
    entry!(v, "int", F, 0, "UBig::in_radix {:+010}", UR, |c| format!("{:+010}", c.ua().in_radix(c.n as u32)), |d| radix_pre(d));
    entry!(v, "int", F, 0, "UBig::in_radix (not formatted)", UR, |c| { let x = c.ua(); let _r = x.in_radix(c.n as u32); 0u8 }, |d| radix_pre(d));
    entry!(v, "int", F, 0, "IBig::in_radix {}", IR, |c| format!("{}", c.ia().in_radix(c.n as u32)), |d| radix_pre(d));
    entry!(v, "int", F, 0, "IBig::in_radix {:#}", IR, |c| format!("{:#}", c.ia().in_radix(c.n as u32)), |d| radix_pre(d));
    entry!(v, "int", F, 0, "IBig::in_radix {:>80}", IR, |c| format!("{:>80}", c.ia().in_radix(c.n as u32)), |d| radix_pre(d));
    entry!(v, "int", F, 0, "IBig::in_radix {:^7.3}", IR, |c| format!("{:^7.3}", c.ia().in_radix(c.n as u32)), |d| radix_pre(d));
    fmt_entries!(v, "int", F, 0, "UBig", U0.a(1), |c| c.ua(), |_d| ret(), "{}" "{:?}" "{:#?}" "{:b}" "{:#b}" "{:o}" "{:#o}" "{:x}" "{:#x}" "{:X}" "{:#X}" "{:+}" "{:>80}" "{:<5}" "{:^33}" "{:010}" "{:+#0200x}" "{:.3}" "{:5.1?}");
    fmt_entries!(v, "int", F, 0, "IBig", U0.a(2), |c| c.ia(), |_d| ret(), "{}" "{:?}" "{:#?}" "{:b}" "{:#b}" "{:o}" "{:#o}" "{:x}" "{:#x}" "{:X}" "{:#X}" "{:+}" "{:>80}" "{:<5}" "{:^33}" "{:010}" "{:+#0200x}" "{:.3}" "{:5.1?}");
    entry!(v, "int", F, 0, "UBig::to_string", U0.a(1), |c| c.ua().to_string(), |_d| ret());
    entry!(v, "int", F, 0, "IBig::to_string", U0.a(2), |c| c.ia().to_string(), |_d| ret());
    const B: &str = "int: bytes, words, chunks";
    const AB: Uses = U0.a(1).n(NK::Sel);
    entry!(v, "int", B, 0, "UBig::from_le_bytes", AB, |c| UBig::from_le_bytes(&bytes_of(c)), |_d| ret());
    entry!(v, "int", B, 0, "UBig::from_be_bytes", AB, |c| UBig::from_be_bytes(&bytes_of(c)), |_d| ret());
    entry!(v, "int", B, 0, "IBig::from_le_bytes", AB, |c| IBig::from_le_bytes(&bytes_of(c)), |_d| ret());
    entry!(v, "int", B, 0, "IBig::from_be_bytes", AB, |c| IBig::from_be_bytes(&bytes_of(c)), |_d| ret());
    entry!(v, "int", B, 0, "UBig::to_le_bytes/to_be_bytes", U0.a(1), |c| (c.ua().to_le_bytes().len(), c.ua().to_be_bytes().len()), |_d| ret());
    entry!(v, "int", B, 0, "IBig::to_le_bytes/to_be_bytes", U0.a(2), |c| (c.ia().to_le_bytes().len(), c.ia().to_be_bytes().len()), |_d| ret());
    entry!(v, "int", B, 0, "UBig::from_words/as_words", U0.a(1), |c| UBig::from_words(c.ua().as_words()), |_d| ret());
    entry!(v, "int", B, 0, "UBig::from_words (untrimmed)", U0.a(1), |c| { let mut w = c.a.mag.0.clone(); w.extend_from_slice(&[0, 0, 0]); UBig::from_words(&w) }, |_d| ret());
    entry!(v, "int", B, 0, "UBig::from_word/from_dword", U0.k(), |c| (UBig::from_word(c.k128() as u64), UBig::from_dword(c.k128() as u128)), |_d| ret());
    entry!(v, "int", B, 0, "IBig::as_sign_words", U0.a(2), |c| { let x = c.ia(); let (s, w) = x.as_sign_words(); (s, w.len()) }, |_d| ret());
    entry!(v, "int", B, 0, "UBig::to_chunks", U0.a(1).n(NK::Chunk), |c| c.ua().to_chunks(c.nu()), |d| Pre::new().must(d.n == 0, L_CHUNK0, "").done());
    // every chunk buffer is sized by chunk_bits, not by the number: 2^58 words for a 3-word value
    entry!(v, "int", B, 0, "UBig::to_chunks(usize::MAX)", U0.a(1), |c| c.ua().to_chunks(usize::MAX), |d| Pre::new().known(d.a.mag.trimmed_len() >= 3, "C16/to-chunks-buffer-sized-by-chunk-bits", On::Panic("MAX_CAPACITY")).known(d.a.mag.trimmed_len() >= 3, "C16/to-chunks-buffer-sized-by-chunk-bits", On::HangOrMem).done());
    entry!(v, "int", B, 0, "UBig::from_chunks", U0.a(1).b(1).c(1).n(NK::Chunk), |c| UBig::from_chunks([c.ua(), c.ub(), c.uc()].iter(), c.nu()), |d| Pre::new().must(d.n == 0, L_CHUNK0, "").done());
    entry!(v, "int", B, 0, "UBig::from_chunks (no chunks)", U0.n(NK::Chunk), |c| UBig::from_chunks([].iter(), c.nu()), |d| Pre::new().must(d.n == 0, L_CHUNK0, "").done());
    entry!(v, "int", B, 0, "UBig::from_chunks (one chunk, usize::MAX bits)", U0.a(1), |c| UBig::from_chunks([c.ua()].iter(), usize::MAX), |_d| ret());
}

macro_rules! conv_prims {
    ($v:ident, $($t:ident)*) => {$(
        {
            const F: &str = "int: conversions";
            let t = stringify!($t);
            entry!($v, "int", F, 0, format!("{t}::try_from(UBig)"), U0.a(1), |c| <$t>::try_from(c.ua()), |_d| ret());
            entry!($v, "int", F, 0, format!("{t}::try_from(&UBig)"), U0.a(1), |c| <$t>::try_from(&c.ua()), |_d| ret());
            entry!($v, "int", F, 0, format!("{t}::try_from(IBig)"), U0.a(2), |c| <$t>::try_from(c.ia()), |_d| ret());
            entry!($v, "int", F, 0, format!("{t}::try_from(&IBig)"), U0.a(2), |c| <$t>::try_from(&c.ia()), |_d| ret());
            entry!($v, "int", F, 0, format!("UBig::try_from({t})"), U0.k(), |c| UBig::try_from(c.k128() as $t), |_d| ret());
            entry!($v, "int", F, 0, format!("IBig::from({t})"), U0.k(), |c| IBig::from(c.k128() as $t), |_d| ret());
            entry!($v, "int", F, 0, format!("ConstDivisor::reduce({t})"), U0.k().c(1), |c| ConstDivisor::new(c.uc()).reduce(c.k128() as $t).residue(), |d| Pre::new().must(d.c.is_zero(), L_DIV0, M_DIV0).done());
        }
    )*};
}

fn int_convert(v: &mut Vec<Op>) {
    conv_prims!(v, u8 u16 u32 u64 u128 usize i8 i16 i32 i64 i128 isize);
    const F: &str = "int: conversions";
    entry!(v, "int", F, 0, "UBig::try_from(IBig)", U0.a(2), |c| UBig::try_from(c.ia()), |_d| ret());
    entry!(v, "int", F, 0, "IBig::from(UBig)", U0.a(1), |c| IBig::from(c.ua()), |_d| ret());
    entry!(v, "int", F, 0, "UBig::from(bool) / IBig::from(bool)", U0.n(NK::Sel), |c| (UBig::from(c.n % 2 == 1), IBig::from(c.n % 2 == 1)), |_d| ret());
    entry!(v, "int", F, 0, "UBig::as_ibig", U0.a(1), |c| c.ua().as_ibig().clone(), |_d| ret());
    entry!(v, "int", F, 0, "IBig::as_ubig", U0.a(2), |c| c.ia().as_ubig().cloned(), |_d| ret());
    entry!(v, "int", F, 0, "UBig::to_f32", U0.a(1), |c| c.ua().to_f32(), |_d| ret());
    entry!(v, "int", F, 0, "UBig::to_f64", U0.a(1), |c| c.ua().to_f64(), |_d| ret());
    entry!(v, "int", F, 0, "IBig::to_f32", U0.a(2), |c| c.ia().to_f32(), |_d| ret());
    entry!(v, "int", F, 0, "IBig::to_f64", U0.a(2), |c| c.ia().to_f64(), |_d| ret());
    entry!(v, "int", F, 0, "f32::try_from(UBig)", U0.a(1), |c| f32::try_from(c.ua()), |_d| ret());
    entry!(v, "int", F, 0, "f64::try_from(UBig)", U0.a(1), |c| f64::try_from(c.ua()), |_d| ret());
    entry!(v, "int", F, 0, "f32::try_from(IBig)", U0.a(2), |c| f32::try_from(c.ia()), |_d| ret());
    entry!(v, "int", F, 0, "f64::try_from(IBig)", U0.a(2), |c| f64::try_from(c.ia()), |_d| ret());
    entry!(v, "int", F, 0, "UBig::try_from(f32)", U0.n(NK::F32), |c| UBig::try_from(f32::from_bits(c.n as u32)), |_d| ret());
    entry!(v, "int", F, 0, "UBig::try_from(f64)", U0.n(NK::F64), |c| UBig::try_from(f64::from_bits(c.n)), |_d| ret());
    entry!(v, "int", F, 0, "IBig::try_from(f32)", U0.n(NK::F32), |c| IBig::try_from(f32::from_bits(c.n as u32)), |_d| ret());
    entry!(v, "int", F, 0, "IBig::try_from(f64)", U0.n(NK::F64), |c| IBig::try_from(f64::from_bits(c.n)), |_d| ret());
}

/// residue class of a signed value
fn residue(x: &Int, m: &BigUint) -> BigUint {
    let mi = BigInt::from(m.clone());
    x.big().mod_floor(&mi).magnitude().clone()
}
fn invertible(x: &Int, m: &BigUint) -> bool {
    residue(x, m).gcd(m).is_one_()
}
trait IsOne {
    fn is_one_(&self) -> bool;
}
impl IsOne for BigUint {
    fn is_one_(&self) -> bool {
        *self == BigUint::from(1u8)
    }
}

fn ring0(c: &Case) -> Pre {
    Pre::new().must(c.c.is_zero(), L_DIV0, M_DIV0)
}

/// `x ∘ y` with both operands reduced into the same ring (modulus c)
macro_rules! mod_bin {
    ($v:ident, $op:tt, $opa:tt, |$d:ident| $pre:expr, |$e:ident| $pre2:expr) => {
        const F: &str = "int: modular arithmetic";
        const U: Uses = U0.a(2).b(2).c(1);
        entry!($v, "int", F, 0, format!("Reduced {} Reduced val.val", stringify!($op)), U, |c| { let r = ConstDivisor::new(c.uc()); let (x, y) = (r.reduce(c.ia()), r.reduce(c.ib())); (x $op y).residue() }, |$d| $pre);
        entry!($v, "int", F, 0, format!("Reduced {} Reduced ref.ref", stringify!($op)), U, |c| { let r = ConstDivisor::new(c.uc()); let (x, y) = (r.reduce(c.ia()), r.reduce(c.ib())); (&x $op &y).residue() }, |$d| $pre);
        entry!($v, "int", F, 0, format!("Reduced {} Reduced val.ref", stringify!($op)), U, |c| { let r = ConstDivisor::new(c.uc()); let (x, y) = (r.reduce(c.ia()), r.reduce(c.ib())); (x $op &y).residue() }, |$d| $pre);
        entry!($v, "int", F, 0, format!("Reduced {} Reduced ref.val", stringify!($op)), U, |c| { let r = ConstDivisor::new(c.uc()); let (x, y) = (r.reduce(c.ia()), r.reduce(c.ib())); (&x $op y).residue() }, |$d| $pre);
        entry!($v, "int", F, 0, format!("Reduced {} Reduced val", stringify!($opa)), U, |c| { let r = ConstDivisor::new(c.uc()); let (mut x, y) = (r.reduce(c.ia()), r.reduce(c.ib())); x $opa y; x.residue() }, |$d| $pre);
        entry!($v, "int", F, 0, format!("Reduced {} Reduced ref", stringify!($opa)), U, |c| { let r = ConstDivisor::new(c.uc()); let (mut x, y) = (r.reduce(c.ia()), r.reduce(c.ib())); x $opa &y; x.residue() }, |$d| $pre);
        // operands from two different rings (moduli c and d): documented panic
        const U2: Uses = U0.a(2).b(2).c(1).d(1);
        entry!($v, "int", F, 0, format!("Reduced {} Reduced (different rings)", stringify!($op)), U2, |c| { let (r, s) = (ConstDivisor::new(c.uc()), ConstDivisor::new(c.ud())); let (x, y) = (r.reduce(c.ia()), s.reduce(c.ib())); (x $op y).residue() },
            |$e| $pre2);
        entry!($v, "int", F, 0, format!("Reduced {} &Reduced (different rings)", stringify!($opa)), U2, |c| { let (r, s) = (ConstDivisor::new(c.uc()), ConstDivisor::new(c.ud())); let (mut x, y) = (r.reduce(c.ia()), s.reduce(c.ib())); x $opa &y; x.residue() },
            |$e| $pre2);
    };
}

fn rings2(c: &Case) -> Pre {
    Pre::new().must(c.c.is_zero() || c.d.is_zero(), L_DIV0, M_DIV0).must(true, L_RINGS, M_RINGS)
}

fn div_pre(d: &Case) -> Exp {
    let m = d.c.mag.big();
    if m.is_zero() {
        return ring0(d).done();
    }
    Pre::new().unspec(m.is_one_(), "unspecified: division in the ring of integers modulo 1").must(!invertible(&d.b, &m), L_NONINV, M_NONINV).done()
}

fn int_modular(v: &mut Vec<Op>) {
    {
        mod_bin!(v, +, +=, |d| ring0(d).done(), |e| rings2(e).done());
    }
    {
        mod_bin!(v, -, -=, |d| ring0(d).done(), |e| rings2(e).done());
    }
    {
        mod_bin!(v, *, *=, |d| ring0(d).done(), |e| rings2(e).done());
    }
    {
        mod_bin!(v, /, /=, |d| div_pre(d), |e| {
            // the divisor is inverted in its own ring (modulus d) before the rings are compared
            let m = e.d.mag.big();
            let p = rings2(e);
            if m.is_zero() || e.c.is_zero() {
                p.done()
            } else {
                p.unspec(m.is_one_(), "unspecified: division in the ring of integers modulo 1").must(!invertible(&e.b, &m), L_NONINV, M_NONINV).done()
            }
        });
    }
    const F: &str = "int: modular arithmetic";
    const U: Uses = U0.a(2).c(1);
    entry!(v, "int", F, 0, "ConstDivisor::reduce(IBig)", U, |c| ConstDivisor::new(c.uc()).reduce(c.ia()).residue(), |d| ring0(d).done());
    entry!(v, "int", F, 0, "ConstDivisor::reduce(UBig)", U0.a(1).c(1), |c| ConstDivisor::new(c.uc()).reduce(c.ua()).residue(), |d| ring0(d).done());
    entry!(v, "int", F, 0, "IBig::into_ring", U, |c| { let r = ConstDivisor::new(c.uc()); c.ia().into_ring(&r).residue() }, |d| ring0(d).done());
    entry!(v, "int", F, 0, "Reduced::modulus", U, |c| ConstDivisor::new(c.uc()).reduce(c.ia()).modulus(), |d| ring0(d).done());
    entry!(v, "int", F, 0, "-Reduced", U, |c| { let r = ConstDivisor::new(c.uc()); (-r.reduce(c.ia())).residue() }, |d| ring0(d).done());
    entry!(v, "int", F, 0, "-&Reduced", U, |c| { let r = ConstDivisor::new(c.uc()); (-&r.reduce(c.ia())).residue() }, |d| ring0(d).done());
    entry!(v, "int", F, 0, "Reduced::sqr", U, |c| { let r = ConstDivisor::new(c.uc()); r.reduce(c.ia()).sqr().residue() }, |d| ring0(d).done());
    entry!(v, "int", F, 0, "Reduced::dbl", U, |c| { let r = ConstDivisor::new(c.uc()); r.reduce(c.ia()).dbl().residue() }, |d| ring0(d).done());
    entry!(v, "int", F, 0, "Reduced::inv", U, |c| { let r = ConstDivisor::new(c.uc()); r.reduce(c.ia()).inv().map(|x| x.residue()) }, |d| ring0(d).done());
    entry!(v, "int", F, 0, "Reduced::pow", U0.a(2).b(1).c(1), |c| { let r = ConstDivisor::new(c.uc()); r.reduce(c.ia()).pow(&c.ub()).residue() }, |d| ring0(d).done());
    entry!(v, "int", F, 0, "Reduced == Reduced", U0.a(2).b(2).c(1), |c| { let r = ConstDivisor::new(c.uc()); r.reduce(c.ia()) == r.reduce(c.ib()) }, |d| ring0(d).done());
    entry!(v, "int", F, 0, "Reduced == Reduced (different rings)", U0.a(2).b(2).c(1).d(1), |c| { let (r, s) = (ConstDivisor::new(c.uc()), ConstDivisor::new(c.ud())); r.reduce(c.ia()) == s.reduce(c.ib()) },
        |d| Pre::new().must(d.c.is_zero() || d.d.is_zero(), L_DIV0, M_DIV0).must(true, L_RINGS, M_RINGS).done());
    entry!(v, "int", F, 0, "Reduced clone/clone_from", U0.a(2).b(2).c(1), |c| { let r = ConstDivisor::new(c.uc()); let mut x = r.reduce(c.ia()).clone(); x.clone_from(&r.reduce(c.ib())); x.residue() }, |d| ring0(d).done());
    fmt_entries!(v, "int", F, 0, "Reduced", U, |c| ConstDivisor::new(c.uc()).reduce(c.ia()), |d| ring0(d).done(), "{}" "{:?}" "{:#?}" "{:b}" "{:o}" "{:#x}" "{:X}" "{:>60}");
}

// ------------------------------------------------------------------------------------------------
// dashu-float
// ------------------------------------------------------------------------------------------------

const L_EXT: &str = "unspecified: exponent near the isize limits (overflow / underflow panics are documented)";
const L_FAR: &str = "unspecified: |exponent| > 2^20, the digits would not fit memory";
const L_INFU: &str = "unspecified: non-arithmetic operation on an infinity";

fn any_extreme(v: &[&FV]) -> bool {
    v.iter().any(|f| f.extreme())
}
fn any_far(v: &[&FV]) -> bool {
    v.iter().any(|f| f.far())
}
fn any_inf(v: &[&FV]) -> bool {
    v.iter().any(|f| f.inf != 0)
}

/// is x / y (both finite, y != 0) a finite base-B fraction?
fn quotient_exact(x: &FV, y: &FV, base: u64) -> bool {
    if x.zero {
        return true;
    }
    let n = x.sci.n.magnitude().clone();
    let mut d = y.sci.n.magnitude().clone();
    let g = n.gcd(&d);
    d /= g;
    let b = BigUint::from(base);
    loop {
        let g = d.gcd(&b);
        if g.is_one_() {
            break;
        }
        d /= g;
    }
    d.is_one_()
}

/// precision of the result context of a binary FBig operator: Context::max = numeric maximum
fn ctx_max(x: &FV, y: &FV) -> u64 {
    x.prec.max(y.prec)
}

/// + - * of two floats under a context of precision `p`
fn pre_arith(x: &FV, y: &FV, p: u64, additive: bool) -> Exp {
    let gap = (x.exp as i128 - y.exp as i128).unsigned_abs();
    Pre::new()
        .unspec(any_extreme(&[x, y]), L_EXT)
        .must(any_inf(&[x, y]), L_INF, M_INF)
        .unspec(additive && p == 0 && !x.zero && !y.zero && x.finite() && y.finite() && gap > (1 << 20), L_FAR)
        .heavy(additive && p == 0 && gap > 4096)
        .done()
}

const KF_DIVWIDE: &str = "C16/fbig-div-operator-wide-dividend";

/// FBig `/` operators call repr_div without shortening the dividend (Context::div does): with an
/// unlimited-precision dividend of more than p + digits(divisor) digits the debug assertion
/// `lhs.digits() <= self.precision + rhs.digits()` fires
fn pre_div_op(x: &FV, y: &FV, p: u64, base: u64) -> Exp {
    let mut e = pre_div(x, y, p, base);
    if x.finite() && y.finite() && !y.zero && p != 0 && x.digits > p + y.digits {
        e.known.push(KnownSpec { id: KF_DIVWIDE, on: On::Panic("lhs.digits() <= self.precision + rhs.digits()") });
    }
    e
}

fn pre_div(x: &FV, y: &FV, p: u64, base: u64) -> Exp {
    let fin = x.finite() && y.finite();
    Pre::new()
        .unspec(any_extreme(&[x, y]), L_EXT)
        .must(any_inf(&[x, y]), L_INF, M_INF)
        .must(fin && y.zero, L_DIV0, "")
        .unspec(fin && !y.zero && p == 0 && !any_far(&[x, y]) && quotient_exact(x, y, base), "unspecified: exact quotient at unlimited precision")
        .unspec(fin && !y.zero && p == 0 && any_far(&[x, y]), L_FAR)
        .must(fin && p == 0, L_UNLIM, M_UNLIM)
        .done()
}

/// % and the Euclidean forms align the operands as integers
fn pre_rem(x: &FV, y: &FV) -> Exp {
    pre_rem_gen(x, y, true)
}

/// `modular`: the operation is `%` itself. When the dividend's exponent is the higher one it scales
/// the dividend with a modular power of the base (any gap is cheap), except in base 2 where the
/// power of two is shifted in; every other case (divisor's exponent higher, base 2, the
/// Euclidean forms, which also produce the quotient) aligns the operands digit by digit
fn pre_rem_gen(x: &FV, y: &FV, modular: bool) -> Exp {
    let gap = (x.exp as i128 - y.exp as i128).unsigned_abs();
    let aligns = !modular || x.sci.base == 2 || y.exp > x.exp;
    Pre::new()
        .unspec(any_extreme(&[x, y]), L_EXT)
        .must(any_inf(&[x, y]), L_INF, M_INF)
        .must(x.finite() && y.finite() && y.zero, L_DIV0, "")
        .unspec(x.finite() && y.finite() && !x.zero && !y.zero && gap > (1 << 20) && aligns, L_FAR)
        .heavy(gap > 4096 && aligns)
        .cheap_exp(!aligns && !any_extreme(&[x, y]))
        .done()
}

const KF_EUCLID: &str = "C16/float-euclid-infinity-unchecked";

/// div_euclid / rem_euclid / div_rem_euclid: as `%`
fn pre_euclid(x: &FV, y: &FV) -> Exp {
    let mut e = pre_rem_gen(x, y, false);
    if any_inf(&[x, y]) {
        e.known.push(KnownSpec { id: KF_EUCLID, on: On::Returns });
        e.known.push(KnownSpec { id: KF_EUCLID, on: On::Panic("divisor must not be 0") });
    }
    e
}

/// functions of one argument that need a limited precision whenever the result is inexact
fn pre_unlim1(x: &FV, p: u64, exact: bool) -> Pre {
    Pre::new().unspec(x.extreme(), L_EXT).must(x.inf != 0, L_INF, M_INF).unspec(x.finite() && p == 0 && exact, "unspecified: exact result at unlimited precision").must(x.finite() && p == 0 && !exact, L_UNLIM, M_UNLIM)
}

fn pre_sqrt(x: &FV, p: u64) -> Exp {
    // exact iff the value is a perfect square; deciding that is not needed: at unlimited precision the
    // rustdoc of Context::sqrt promises a panic regardless
    Pre::new().unspec(x.extreme(), L_EXT).must(x.inf != 0, L_INF, M_INF).must(x.finite() && p == 0, L_UNLIM, M_UNLIM).must(x.finite() && x.neg && !x.zero, L_ROOTNEG, M_ROOTNEG).done()
}

/// |x| so large that B^(x / ln B) overflows the exponent: certainly when |x| >= 2^70; certainly
/// not when |x| <= 2^55
fn exp_class(x: &FV) -> u8 {
    if x.zero || !x.finite() {
        return 0;
    }
    let top = (x.exp as i128 + x.digits as i128) as f64 * (x.sci.base as f64).log2(); // |x| < 2^top
    let bot = (x.exp as i128 + x.digits as i128 - 1) as f64 * (x.sci.base as f64).log2(); // |x| >= 2^bot
    if bot >= 70.0 {
        2
    } else if top <= 55.0 {
        0
    } else {
        1
    }
}

fn pre_exp(x: &FV, p: u64) -> Exp {
    let cls = exp_class(x);
    pre_unlim1(x, p, x.zero)
        .unspec(x.finite() && p != 0 && cls == 1, "unspecified: exp of an argument near the overflow threshold")
        .must(x.finite() && p != 0 && cls == 2, L_OVER, "")
        .heavy(x.finite() && !x.zero && x.exp as i128 + x.digits as i128 > 12)
        .done()
}

const KF_LN: &str = "C16/float-ln-domain-unchecked";

fn pre_ln(x: &FV, p: u64, one_plus: bool, base: u64) -> Exp {
    // domain: ln x needs x > 0, ln_1p x needs x > -1
    let (at_pole, below) = if one_plus {
        let c = if x.finite() { x.cmp_int(-1) } else { Ordering::Greater };
        (c == Ordering::Equal, c == Ordering::Less)
    } else {
        (x.finite() && x.zero, x.finite() && x.neg && !x.zero)
    };
    let trivial = if one_plus { x.zero } else { x.finite() && x.cmp_int(1) == Ordering::Equal };
    pre_unlim1(x, p, trivial)
        .must(at_pole || below, L_LOG, "")
        .known((at_pole || below) && p != 0 && !x.extreme(), KF_LN, On::HangOrMem)
        .known((at_pole || below) && p != 0 && !x.extreme(), KF_LN, On::Returns)
        // binary floats are scaled by an exact shift: ln x = ln(m·2^-s) + (e+s)·ln 2 costs the same
        // for every exponent (stated for |e| <= 2^31; beyond that only "far" is known)
        .unspec(x.far() && !(base == 2 && !one_plus && x.exp.unsigned_abs() <= 1 << 31), L_FAR)
        .cheap_exp(base == 2 && !one_plus && x.exp.unsigned_abs() <= 1 << 31)
        .done()
}

fn pre_powi(x: &FV, e: &Int, p: u64) -> Exp {
    let eb = e.mag.big().bits();
    let big_result = p == 0 && !x.zero && x.finite() && (x.sig_words as u64 * 64).saturating_mul(if eb > 40 { u64::MAX } else { e.mag.0.first().copied().unwrap_or(0) }) > (1 << 22);
    let huge_e = eb > 40;
    Pre::new()
        .unspec(x.extreme(), L_EXT)
        .must(x.inf != 0, L_INF, M_INF)
        .must(x.finite() && e.neg && !e.is_zero() && p == 0, L_UNLIM, M_UNLIM)
        .must(x.finite() && x.zero && e.neg && !e.is_zero(), L_DIV0, "")
        .unspec(x.finite() && !x.zero && (huge_e || x.far()), "unspecified: power whose exponent may overflow")
        .unspec(big_result, "unspecified: exact power of more than 2^22 bits")
        .heavy(big_result || huge_e || (p == 0 && eb > 12))
        .done()
}

fn pre_powf(x: &FV, y: &FV, p: u64) -> Exp {
    let fin = x.finite() && y.finite();
    let y01 = y.finite() && (y.zero || y.cmp_int(1) == Ordering::Equal);
    let neg = x.finite() && x.neg && !x.zero;
    let ybig = fin && !y.zero && y.exp as i128 + y.digits as i128 > 12;
    Pre::new()
        .unspec(any_extreme(&[x, y]), L_EXT)
        .must(any_inf(&[x, y]), L_INF, M_INF)
        .must(x.finite() && p == 0, L_UNLIM, M_UNLIM)
        .unspec(fin && neg && y01, "unspecified: negative base with exponent 0 or 1")
        .unspec(fin && neg && !y01 && y.is_int() && (any_far(&[x, y]) || ybig), "unspecified: power whose exponent may overflow")
        // error.rs documents the rejection of negative bases; the source announces that integer
        // exponents may be answered one day: a value or the documented rejection, nothing else
        .may(fin && neg && !y01 && y.is_int(), "negative base with an integer exponent: value or the documented rejection", M_POWNEG)
        .must(neg && !y01 && !(y.finite() && y.is_int()), L_POWNEG, M_POWNEG)
        .must(fin && x.zero && y.neg && !y.zero, L_DIV0, "")
        .known(fin && p != 0 && x.zero && y.neg && !y.zero, KF_POWF0, On::Returns)
        // only the base is checked with assert_finite: the zero-base shortcut answers before the
        // infinite exponent reaches an operation that rejects it
        .known(x.finite() && x.zero && y.inf != 0 && p != 0, "C16/powf-infinite-exponent-unchecked", On::Returns)
        .unspec(fin && !x.zero && !y.zero && (any_far(&[x, y]) || ybig), "unspecified: power whose exponent may overflow")
        .heavy(ybig)
        .done()
}

const KF_POWF0: &str = "C16/powf-zero-base-negative-exponent";

/// trunc / fract / ceil / floor / round / to_int: documented to panic on infinities
fn pre_round(x: &FV) -> Exp {
    Pre::new().unspec(x.extreme(), L_EXT).must(x.inf != 0, L_INF, M_INF).unspec(x.far(), L_FAR).heavy(x.far()).done()
}

/// the same, except that a number below one in magnitude never needs its digits: the answer is 0, ±1
/// or the number itself however far the exponent lies below zero
fn pre_round_lt1(x: &FV) -> Exp {
    if x.finite() && !x.zero && !x.extreme() && x.far() && x.exp < 0 && x.exp.saturating_add(x.digits.min(i64::MAX as u64) as i64) <= 0 {
        Pre::new().cheap_exp(true).done()
    } else {
        pre_round(x)
    }
}

/// sign / precision / cloning ...: infinities are "only supposed to be used as sentinels"
fn pre_passive(x: &FV) -> Exp {
    Pre::new().unspec(x.inf != 0, L_INFU).done()
}

/// FBig / Repr -> f32 / f64 in a base that is not a power of two, -38 <= exponent < 0: two known
/// debug-assertion classes of C06 (predicates as in c06.rs `fbig_panic`)
fn pre_to_float(x: &FV, base: u64, p: i64) -> Exp {
    let mut e = Pre::new().unspec(x.extreme(), L_EXT).done();
    if x.finite() && !x.zero && !base.is_power_of_two() && (-38..0).contains(&x.exp) {
        let odd = |n: &BigUint| if n.is_zero() { n.clone() } else { n >> n.trailing_zeros().unwrap() as usize };
        let n = odd(x.sci.n.magnitude());
        let d = odd(&bpow(base, x.exp.unsigned_abs()));
        let (nb, db) = (n.bits() as i64, d.bits() as i64);
        if nb > p + db {
            e.known.push(KnownSpec { id: "C06/convert-base-div-wide-significand", on: On::Panic("lhs.digits() <= self.precision + rhs.digits()") });
            // without debug assertions the over-long quotient reaches `significand.try_into().unwrap()`
            e.known.push(KnownSpec { id: "C06/convert-base-div-wide-significand", on: On::Panic("OutOfBounds") });
        } else {
            let q0 = &n / &d;
            let qb = if q0.is_zero() {
                ((&n << (db + p - nb) as usize) / &d).bits() as i64
            } else if (q0.bits() as i64) < p {
                p
            } else {
                q0.bits() as i64
            };
            if qb > p {
                e.known.push(KnownSpec { id: "C06/fbig-to-float-quotient-extra-bit", on: On::Panic("self.significand.bit_len() <=") });
            }
        }
    }
    e
}

/// operations that have to materialise digits (printing, conversion to other types)
fn pre_digits(x: &FV) -> Exp {
    Pre::new().unspec(x.inf != 0, L_INFU).unspec(x.extreme(), L_EXT).unspec(x.far(), L_FAR).heavy(x.far()).done()
}

const KF_TINY: &str = "C08/with-base-tiny-precision-panics";
const KF_WIDE: &str = "C08/convert-base-small-neg-exponent-long-significand";

/// with_base::<NB>() / with_base_and_precision::<NB>(target): `target` = None for with_base
fn pre_with_base(x: &FV, b: u64, nb: u64, target: Option<u64>) -> Exp {
    let related = {
        // one base is a power of the other
        let (lo, hi) = (b.min(nb), b.max(nb));
        let mut t = lo;
        while t < hi {
            t = t.saturating_mul(lo);
        }
        t == hi
    };
    // precision chosen by with_base: max k with NB^k <= B^p (0 stays 0)
    let auto = |p: u64| -> u64 {
        if p == 0 {
            return 0;
        }
        let lim = bpow(b, p);
        let mut k = 0u64;
        let mut t = BigUint::from(1u8);
        loop {
            t *= nb;
            if t > lim {
                break;
            }
            k += 1;
        }
        k
    };
    let tp = match target {
        Some(t) => t,
        None => auto(x.prec),
    };
    // lossless iff the value is representable in base NB
    let lossless = x.zero || !x.finite() || {
        if x.exp >= 0 {
            true
        } else if x.far() {
            false
        } else {
            // sig / B^|e| with all prime factors of the reduced denominator dividing NB
            let mut d = bpow(b, x.exp.unsigned_abs());
            let g = d.gcd(x.sci.n.magnitude());
            d /= g;
            let nbb = BigUint::from(nb);
            loop {
                let g = d.gcd(&nbb);
                if g.is_one_() {
                    break;
                }
                d /= g;
            }
            d.is_one_()
        }
    };
    Pre::new()
        .unspec(x.inf != 0, L_INFU)
        .unspec(x.extreme(), L_EXT)
        .unspec(x.far(), L_FAR)
        .heavy(x.far())
        .must(x.finite() && !related && tp == 0 && (target.is_some() || x.prec == 0) && !lossless, L_UNLIM, M_UNLIM)
        .unspec(x.finite() && !related && tp == 0 && (target.is_some() || x.prec == 0) && lossless, "unspecified: lossless base conversion at unlimited precision")
        .known(x.finite() && !related && target.is_none() && x.prec != 0 && tp == 0, KF_TINY, On::Panic("precision cannot be 0"))
        .known(x.finite() && !related && !x.zero && (-38..0).contains(&x.exp), KF_WIDE, On::Panic("lhs.digits() <= self.precision + rhs.digits()"))
        .done()
}

macro_rules! fentry {
    ($v:ident, $fam:expr, $B:expr, $name:expr, $uses:expr, |$c:ident| $run:expr, |$d:ident| $pre:expr) => {
        entry!($v, "float", $fam, $B as u64, $name, $uses, |$c| $run, |$d| $pre);
    };
}

const FX: Uses = U0.x();
const FXY: Uses = U0.x().y();
const CX: Uses = U0.x().p();
const CXY: Uses = U0.x().y().p();

macro_rules! f_bin_forms {
    ($v:ident, $fam:expr, $t:expr, $R:ty, $B:expr, $op:tt, $opa:tt, |$d:ident| $pre:expr) => {
        fentry!($v, $fam, $B, format!("{} {} val.val", $t, stringify!($op)), FXY, |c| c.fx::<$R, $B>() $op c.fy::<$R, $B>(), |$d| $pre);
        fentry!($v, $fam, $B, format!("{} {} val.ref", $t, stringify!($op)), FXY, |c| c.fx::<$R, $B>() $op &c.fy::<$R, $B>(), |$d| $pre);
        fentry!($v, $fam, $B, format!("{} {} ref.val", $t, stringify!($op)), FXY, |c| &c.fx::<$R, $B>() $op c.fy::<$R, $B>(), |$d| $pre);
        fentry!($v, $fam, $B, format!("{} {} ref.ref", $t, stringify!($op)), FXY, |c| &c.fx::<$R, $B>() $op &c.fy::<$R, $B>(), |$d| $pre);
        fentry!($v, $fam, $B, format!("{} {} val", $t, stringify!($opa)), FXY, |c| { let mut x = c.fx::<$R, $B>(); x $opa c.fy::<$R, $B>(); x }, |$d| $pre);
        fentry!($v, $fam, $B, format!("{} {} ref", $t, stringify!($opa)), FXY, |c| { let mut x = c.fx::<$R, $B>(); x $opa &c.fy::<$R, $B>(); x }, |$d| $pre);
    };
}

/// FBig ∘ primitive / big integer operand (converted with FBig::from: precision = its digits)
macro_rules! f_prim_forms {
    ($v:ident, $t:expr, $R:ty, $B:expr, $pt:expr, $uses:expr, |$c:ident| $k:expr, |$e:ident| $kbig:expr) => {
        const FP: &str = "float: FBig with primitive / integer operand";
        fentry!($v, FP, $B, format!("{} + {}", $t, $pt), $uses, |$c| $c.fx::<$R, $B>() + $k, |$e| { let x = fv(&$e.x, $B as u64); let k = int_fv(&$kbig, $B as u64); pre_arith(&x, &k, ctx_max(&x, &k), true) });
        fentry!($v, FP, $B, format!("{} + &{}", $pt, $t), $uses, |$c| $k + &$c.fx::<$R, $B>(), |$e| { let x = fv(&$e.x, $B as u64); let k = int_fv(&$kbig, $B as u64); pre_arith(&x, &k, ctx_max(&x, &k), true) });
        fentry!($v, FP, $B, format!("{} -= {}", $t, $pt), $uses, |$c| { let mut x = $c.fx::<$R, $B>(); x -= $k; x }, |$e| { let x = fv(&$e.x, $B as u64); let k = int_fv(&$kbig, $B as u64); pre_arith(&x, &k, ctx_max(&x, &k), true) });
        fentry!($v, FP, $B, format!("&{} * &{}", $t, $pt), $uses, |$c| &$c.fx::<$R, $B>() * &$k, |$e| { let x = fv(&$e.x, $B as u64); let k = int_fv(&$kbig, $B as u64); pre_arith(&x, &k, ctx_max(&x, &k), false) });
        fentry!($v, FP, $B, format!("{} *= {}", $t, $pt), $uses, |$c| { let mut x = $c.fx::<$R, $B>(); x *= $k; x }, |$e| { let x = fv(&$e.x, $B as u64); let k = int_fv(&$kbig, $B as u64); pre_arith(&x, &k, ctx_max(&x, &k), false) });
        fentry!($v, FP, $B, format!("{} / {}", $t, $pt), $uses, |$c| $c.fx::<$R, $B>() / $k, |$e| { let x = fv(&$e.x, $B as u64); let k = int_fv(&$kbig, $B as u64); pre_div_op(&x, &k, ctx_max(&x, &k), $B as u64) });
        fentry!($v, FP, $B, format!("{} / {}", $pt, $t), $uses, |$c| $k / $c.fx::<$R, $B>(), |$e| { let x = fv(&$e.x, $B as u64); let k = int_fv(&$kbig, $B as u64); pre_div_op(&k, &x, ctx_max(&x, &k), $B as u64) });
        fentry!($v, FP, $B, format!("{} /= &{}", $t, $pt), $uses, |$c| { let mut x = $c.fx::<$R, $B>(); x /= &$k; x }, |$e| { let x = fv(&$e.x, $B as u64); let k = int_fv(&$kbig, $B as u64); pre_div_op(&x, &k, ctx_max(&x, &k), $B as u64) });
    };
}

/// an integer as a float operand: FBig::from(n) has precision = number of digits (0 for zero)
fn int_fv(n: &BigInt, base: u64) -> FV {
    let f = Flt { inf: 0, sig: Int::from_big(n), exp: 0, prec: 0 };
    let mut v = fv(&f, base);
    v.prec = dv::fl::digits(n.magnitude(), base);
    v
}

fn float_ops<R: ModeTag, const B: Word>(v: &mut Vec<Op>) {
    let t = format!("FBig<{},{}>", R::MODE.name(), B);
    let ct = format!("Context<{}>/{}", R::MODE.name(), B);
    let b = B as u64;
    let _ = b;
    const A: &str = "float: + - * (FBig operators)";
    f_bin_forms!(v, A, t, R, B, +, +=, |d| { let (x, y) = (fv(&d.x, B as u64), fv(&d.y, B as u64)); pre_arith(&x, &y, ctx_max(&x, &y), true) });
    f_bin_forms!(v, A, t, R, B, -, -=, |d| { let (x, y) = (fv(&d.x, B as u64), fv(&d.y, B as u64)); pre_arith(&x, &y, ctx_max(&x, &y), true) });
    f_bin_forms!(v, A, t, R, B, *, *=, |d| { let (x, y) = (fv(&d.x, B as u64), fv(&d.y, B as u64)); pre_arith(&x, &y, ctx_max(&x, &y), false) });
    const D: &str = "float: / % and Euclidean forms";
    f_bin_forms!(v, D, t, R, B, /, /=, |d| { let (x, y) = (fv(&d.x, B as u64), fv(&d.y, B as u64)); pre_div_op(&x, &y, ctx_max(&x, &y), B as u64) });
    f_bin_forms!(v, D, t, R, B, %, %=, |d| { let (x, y) = (fv(&d.x, B as u64), fv(&d.y, B as u64)); pre_rem(&x, &y) });
    fentry!(v, D, B, format!("{t} div_euclid ref.ref"), FXY, |c| (&c.fx::<R, B>()).div_euclid(&c.fy::<R, B>()), |d| pre_euclid(&fv(&d.x, B as u64), &fv(&d.y, B as u64)));
    fentry!(v, D, B, format!("{t} div_euclid val.val"), FXY, |c| c.fx::<R, B>().div_euclid(c.fy::<R, B>()), |d| pre_euclid(&fv(&d.x, B as u64), &fv(&d.y, B as u64)));
    fentry!(v, D, B, format!("{t} rem_euclid ref.ref"), FXY, |c| (&c.fx::<R, B>()).rem_euclid(&c.fy::<R, B>()), |d| pre_euclid(&fv(&d.x, B as u64), &fv(&d.y, B as u64)));
    fentry!(v, D, B, format!("{t} rem_euclid val.ref"), FXY, |c| c.fx::<R, B>().rem_euclid(&c.fy::<R, B>()), |d| pre_euclid(&fv(&d.x, B as u64), &fv(&d.y, B as u64)));
    fentry!(v, D, B, format!("{t} div_rem_euclid ref.ref"), FXY, |c| (&c.fx::<R, B>()).div_rem_euclid(&c.fy::<R, B>()), |d| pre_euclid(&fv(&d.x, B as u64), &fv(&d.y, B as u64)));
    fentry!(v, D, B, format!("{t} div_rem_euclid val.val"), FXY, |c| c.fx::<R, B>().div_rem_euclid(c.fy::<R, B>()), |d| pre_euclid(&fv(&d.x, B as u64), &fv(&d.y, B as u64)));
    fentry!(v, D, B, format!("{t}::inv"), FX, |c| Inverse::inv(c.fx::<R, B>()), |d| { let x = fv(&d.x, B as u64); pre_div(&int_fv(&BigInt::from(1), B as u64), &x, x.prec, B as u64) });
    fentry!(v, D, B, format!("&{t}::inv"), FX, |c| Inverse::inv(&c.fx::<R, B>()), |d| { let x = fv(&d.x, B as u64); pre_div(&int_fv(&BigInt::from(1), B as u64), &x, x.prec, B as u64) });
    {
        f_prim_forms!(v, t, R, B, "u8", U0.x().k(), |c| c.k128() as u8, |e| BigInt::from(e.k128() as u8));
    }
    {
        f_prim_forms!(v, t, R, B, "i64", U0.x().k(), |c| c.k128() as i64, |e| BigInt::from(e.k128() as i64));
    }
    {
        f_prim_forms!(v, t, R, B, "u128", U0.x().k(), |c| c.k128() as u128, |e| BigInt::from(e.k128() as u128));
    }
    {
        f_prim_forms!(v, t, R, B, "UBig", U0.x().a(1), |c| c.ua(), |e| BigInt::from(e.a.mag.big()));
    }
    {
        f_prim_forms!(v, t, R, B, "IBig", U0.x().a(2), |c| c.ia(), |e| e.a.big());
    }
    // ---- functions (FBig methods)
    const M: &str = "float: sqr, cubic, sqrt, exp, ln, powers (FBig methods)";
    fentry!(v, M, B, format!("{t}::sqr"), FX, |c| c.fx::<R, B>().sqr(), |d| { let x = fv(&d.x, B as u64); pre_arith(&x, &x, x.prec, false) });
    fentry!(v, M, B, format!("{t}::cubic"), FX, |c| c.fx::<R, B>().cubic(), |d| { let x = fv(&d.x, B as u64); pre_arith(&x, &x, x.prec, false) });
    fentry!(v, M, B, format!("{t}::sqrt"), FX, |c| SquareRoot::sqrt(&c.fx::<R, B>()), |d| { let x = fv(&d.x, B as u64); pre_sqrt(&x, x.prec) });
    fentry!(v, M, B, format!("{t}::exp"), FX, |c| c.fx::<R, B>().exp(), |d| { let x = fv(&d.x, B as u64); pre_exp(&x, x.prec) });
    fentry!(v, M, B, format!("{t}::exp_m1"), FX, |c| c.fx::<R, B>().exp_m1(), |d| { let x = fv(&d.x, B as u64); pre_exp(&x, x.prec) });
    fentry!(v, M, B, format!("{t}::ln"), U0.lnx(), |c| c.fx::<R, B>().ln(), |d| { let x = fv(&d.x, B as u64); pre_ln(&x, x.prec, false, B as u64) });
    fentry!(v, M, B, format!("{t}::ln_1p"), U0.lnx(), |c| c.fx::<R, B>().ln_1p(), |d| { let x = fv(&d.x, B as u64); pre_ln(&x, x.prec, true, B as u64) });
    fentry!(v, M, B, format!("{t}::powi"), U0.x().bexp(), |c| c.fx::<R, B>().powi(c.ib()), |d| { let x = fv(&d.x, B as u64); pre_powi(&x, &d.b, x.prec) });
    fentry!(v, M, B, format!("{t}::powf"), FXY, |c| c.fx::<R, B>().powf(&c.fy::<R, B>()), |d| { let (x, y) = (fv(&d.x, B as u64), fv(&d.y, B as u64)); pre_powf(&x, &y, ctx_max(&x, &y)) });
    // ---- Context methods
    const C: &str = "float: Context methods";
    fentry!(v, C, B, format!("{ct}::add"), CXY, |c| c.cx::<R>().add(&c.rx::<B>(), &c.ry::<B>()), |d| pre_arith(&fv(&d.x, B as u64), &fv(&d.y, B as u64), d.p as u64, true));
    fentry!(v, C, B, format!("{ct}::sub"), CXY, |c| c.cx::<R>().sub(&c.rx::<B>(), &c.ry::<B>()), |d| pre_arith(&fv(&d.x, B as u64), &fv(&d.y, B as u64), d.p as u64, true));
    fentry!(v, C, B, format!("{ct}::mul"), CXY, |c| c.cx::<R>().mul(&c.rx::<B>(), &c.ry::<B>()), |d| pre_arith(&fv(&d.x, B as u64), &fv(&d.y, B as u64), d.p as u64, false));
    fentry!(v, C, B, format!("{ct}::div"), CXY, |c| c.cx::<R>().div(&c.rx::<B>(), &c.ry::<B>()), |d| pre_div(&fv(&d.x, B as u64), &fv(&d.y, B as u64), d.p as u64, B as u64));
    fentry!(v, C, B, format!("{ct}::rem"), CXY, |c| c.cx::<R>().rem(&c.rx::<B>(), &c.ry::<B>()), |d| pre_rem(&fv(&d.x, B as u64), &fv(&d.y, B as u64)));
    fentry!(v, C, B, format!("{ct}::inv"), CX, |c| c.cx::<R>().inv(&c.rx::<B>()), |d| pre_div(&int_fv(&BigInt::from(1), B as u64), &fv(&d.x, B as u64), d.p as u64, B as u64));
    fentry!(v, C, B, format!("{ct}::sqr"), CX, |c| c.cx::<R>().sqr(&c.rx::<B>()), |d| { let x = fv(&d.x, B as u64); pre_arith(&x, &x, d.p as u64, false) });
    fentry!(v, C, B, format!("{ct}::cubic"), CX, |c| c.cx::<R>().cubic(&c.rx::<B>()), |d| { let x = fv(&d.x, B as u64); pre_arith(&x, &x, d.p as u64, false) });
    fentry!(v, C, B, format!("{ct}::sqrt"), CX, |c| c.cx::<R>().sqrt(&c.rx::<B>()), |d| pre_sqrt(&fv(&d.x, B as u64), d.p as u64));
    fentry!(v, C, B, format!("{ct}::exp"), CX, |c| c.cx::<R>().exp(&c.rx::<B>()), |d| pre_exp(&fv(&d.x, B as u64), d.p as u64));
    fentry!(v, C, B, format!("{ct}::exp_m1"), CX, |c| c.cx::<R>().exp_m1(&c.rx::<B>()), |d| pre_exp(&fv(&d.x, B as u64), d.p as u64));
    fentry!(v, C, B, format!("{ct}::ln"), U0.lnx().p(), |c| c.cx::<R>().ln(&c.rx::<B>()), |d| pre_ln(&fv(&d.x, B as u64), d.p as u64, false, B as u64));
    fentry!(v, C, B, format!("{ct}::ln_1p"), U0.lnx().p(), |c| c.cx::<R>().ln_1p(&c.rx::<B>()), |d| pre_ln(&fv(&d.x, B as u64), d.p as u64, true, B as u64));
    fentry!(v, C, B, format!("{ct}::powi"), U0.x().p().bexp(), |c| c.cx::<R>().powi(&c.rx::<B>(), c.ib()), |d| pre_powi(&fv(&d.x, B as u64), &d.b, d.p as u64));
    fentry!(v, C, B, format!("{ct}::powf"), CXY, |c| c.cx::<R>().powf(&c.rx::<B>(), &c.ry::<B>()), |d| pre_powf(&fv(&d.x, B as u64), &fv(&d.y, B as u64), d.p as u64));
    fentry!(v, C, B, format!("{ct}::convert_int"), U0.a(2).p(), |c| c.cx::<R>().convert_int::<B>(c.ia()), |_d| ret());
    fentry!(v, C, B, format!("{ct}::new / max / precision / is_limited"), U0.p().n(NK::Prec), |c| { let (x, y) = (Context::<R>::new(c.p as usize), Context::<R>::new(c.nu())); (Context::max(x, y).precision(), x.precision()) }, |_d| ret());
    // ---- rounding to integers
    const Rr: &str = "float: trunc, fract, ceil, floor, round, to_int";
    fentry!(v, Rr, B, format!("{t}::trunc"), FX, |c| c.fx::<R, B>().trunc(), |d| pre_round_lt1(&fv(&d.x, B as u64)));
    fentry!(v, Rr, B, format!("{t}::fract"), FX, |c| c.fx::<R, B>().fract(), |d| pre_round_lt1(&fv(&d.x, B as u64)));
    fentry!(v, Rr, B, format!("{t}::ceil"), FX, |c| c.fx::<R, B>().ceil(), |d| pre_round_lt1(&fv(&d.x, B as u64)));
    fentry!(v, Rr, B, format!("{t}::floor"), FX, |c| c.fx::<R, B>().floor(), |d| pre_round_lt1(&fv(&d.x, B as u64)));
    fentry!(v, Rr, B, format!("{t}::round"), FX, |c| c.fx::<R, B>().round(), |d| pre_round_lt1(&fv(&d.x, B as u64)));
    fentry!(v, Rr, B, format!("{t}::to_int"), FX, |c| c.fx::<R, B>().to_int(), |d| pre_round(&fv(&d.x, B as u64)));
    fentry!(v, Rr, B, format!("Repr<{B}>::to_int"), FX, |c| c.rx::<B>().to_int(), |d| pre_round(&fv(&d.x, B as u64)));
    // split_at_point has no "# Panics" section
    fentry!(v, Rr, B, format!("{t}::split_at_point"), FX, |c| c.fx::<R, B>().split_at_point(), |d| pre_digits(&fv(&d.x, B as u64)));
    // ---- conversions
    const V: &str = "float: conversions";
    fentry!(v, V, B, format!("{t}::to_f32"), FX, |c| c.fx::<R, B>().to_f32(), |d| pre_to_float(&fv(&d.x, B as u64), B as u64, 24));
    fentry!(v, V, B, format!("{t}::to_f64"), FX, |c| c.fx::<R, B>().to_f64(), |d| pre_to_float(&fv(&d.x, B as u64), B as u64, 53));
    fentry!(v, V, B, format!("Repr<{B}>::to_f32"), FX, |c| c.rx::<B>().to_f32(), |d| pre_to_float(&fv(&d.x, B as u64), B as u64, 24));
    fentry!(v, V, B, format!("Repr<{B}>::to_f64"), FX, |c| c.rx::<B>().to_f64(), |d| pre_to_float(&fv(&d.x, B as u64), B as u64, 53));
    fentry!(v, V, B, format!("IBig::try_from({t})"), FX, |c| IBig::try_from(c.fx::<R, B>()), |d| { let x = fv(&d.x, B as u64); Pre::new().unspec(x.extreme(), L_EXT).unspec(x.far(), L_FAR).heavy(x.far()).done() });
    fentry!(v, V, B, format!("UBig::try_from({t})"), FX, |c| UBig::try_from(c.fx::<R, B>()), |d| { let x = fv(&d.x, B as u64); Pre::new().unspec(x.extreme(), L_EXT).unspec(x.far(), L_FAR).heavy(x.far()).done() });
    // the primitive integer targets are decided from the magnitude estimate: no exponent, however
    // large, needs B^|e| for an answer that is Err(OutOfBounds) / Err(LossOfPrecision)
    fentry!(v, V, B, format!("i8/i64/i128::try_from({t})"), FX, |c| (i8::try_from(c.fx::<R, B>()), i64::try_from(c.fx::<R, B>()), i128::try_from(c.fx::<R, B>())), |d| { let x = fv(&d.x, B as u64); Pre::new().unspec(x.extreme(), L_EXT).cheap_exp(true).done() });
    fentry!(v, V, B, format!("u8/u64/u128::try_from({t})"), FX, |c| (u8::try_from(c.fx::<R, B>()), u64::try_from(c.fx::<R, B>()), u128::try_from(c.fx::<R, B>())), |d| { let x = fv(&d.x, B as u64); Pre::new().unspec(x.extreme(), L_EXT).cheap_exp(true).done() });
    fentry!(v, V, B, format!("{t}::from(UBig)"), U0.a(1), |c| FBig::<R, B>::from(c.ua()), |_d| ret());
    fentry!(v, V, B, format!("{t}::from(IBig)"), U0.a(2), |c| FBig::<R, B>::from(c.ia()), |_d| ret());
    fentry!(v, V, B, format!("{t}::from(i64) / from(u128)"), U0.k(), |c| (FBig::<R, B>::from(c.k128() as i64), FBig::<R, B>::from(c.k128() as u128)), |_d| ret());
    fentry!(v, V, B, format!("{t}::from_parts"), U0.a(2).k(), |c| FBig::<R, B>::from_parts(c.ia(), c.k128() as isize), |d| Pre::new().unspec((d.k128() as isize).unsigned_abs() > (1 << 60), L_EXT).done());
    fentry!(v, V, B, format!("{t}::from_parts_const"), U0.a(2).k().n(NK::Prec), |c| FBig::<R, B>::from_parts_const(if c.a.neg { Sign::Negative } else { Sign::Positive }, low128(&c.a.mag), c.k128() as isize, if c.n == 0 { None } else { Some(c.nu()) }), |d| Pre::new().unspec((d.k128() as isize).unsigned_abs() > (1 << 60), L_EXT).done());
    fentry!(v, V, B, format!("Repr<{B}>::new / into_parts"), U0.a(2).k(), |c| Repr::<B>::new(c.ia(), c.k128() as isize).into_parts(), |d| Pre::new().unspec((d.k128() as isize).unsigned_abs() > (1 << 60), L_EXT).done());
    fentry!(v, V, B, format!("{t}::with_precision"), U0.x().n(NK::Prec), |c| c.fx::<R, B>().with_precision(c.nu()), |d| { let x = fv(&d.x, B as u64); if x.extreme() { Pre::new().unspec(true, L_EXT).done() } else { pre_passive(&x) } });
    fentry!(v, V, B, format!("{t}::with_rounding"), FX, |c| c.fx::<R, B>().with_rounding::<mode::Down>(), |_d| ret());
    fentry!(v, V, B, format!("{t}::to_decimal"), FX, |c| c.fx::<R, B>().to_decimal(), |d| pre_with_base(&fv(&d.x, B as u64), B as u64, 10, None));
    fentry!(v, V, B, format!("{t}::to_binary"), FX, |c| c.fx::<R, B>().to_binary(), |d| pre_with_base(&fv(&d.x, B as u64), B as u64, 2, None));
    fentry!(v, V, B, format!("{t}::with_base::<3>"), FX, |c| c.fx::<R, B>().with_base::<3>(), |d| pre_with_base(&fv(&d.x, B as u64), B as u64, 3, None));
    fentry!(v, V, B, format!("{t}::with_base::<16>"), FX, |c| c.fx::<R, B>().with_base::<16>(), |d| pre_with_base(&fv(&d.x, B as u64), B as u64, 16, None));
    fentry!(v, V, B, format!("{t}::with_base::<100>"), FX, |c| c.fx::<R, B>().with_base::<100>(), |d| pre_with_base(&fv(&d.x, B as u64), B as u64, 100, None));
    fentry!(v, V, B, format!("{t}::with_base_and_precision::<10>"), U0.x().n(NK::Prec), |c| c.fx::<R, B>().with_base_and_precision::<10>(c.nu()), |d| pre_with_base(&fv(&d.x, B as u64), B as u64, 10, Some(d.n)));
    fentry!(v, V, B, format!("{t}::with_base_and_precision::<2>"), U0.x().n(NK::Prec), |c| c.fx::<R, B>().with_base_and_precision::<2>(c.nu()), |d| pre_with_base(&fv(&d.x, B as u64), B as u64, 2, Some(d.n)));
    fentry!(v, V, B, format!("{t}::with_base_and_precision::<7>"), U0.x().n(NK::Prec), |c| c.fx::<R, B>().with_base_and_precision::<7>(c.nu()), |d| pre_with_base(&fv(&d.x, B as u64), B as u64, 7, Some(d.n)));
    // ---- inspection, sign, comparison
    const S: &str = "float: sign, comparison, inspection, shifts";
    fentry!(v, S, B, format!("{t}::ulp"), FX, |c| c.fx::<R, B>().ulp(), |d| { let x = fv(&d.x, B as u64); Pre::new().unspec(x.extreme(), L_EXT).must(x.prec == 0, L_UNLIM, M_UNLIM).unspec(x.inf != 0, L_INFU).done() });
    fentry!(v, S, B, format!("{t}::precision/digits/context"), FX, |c| { let x = c.fx::<R, B>(); (x.precision(), x.digits(), x.context().precision()) }, |d| pre_passive(&fv(&d.x, B as u64)));
    fentry!(v, S, B, format!("Repr<{B}>::digits/digits_ub/digits_lb"), FX, |c| { let x = c.rx::<B>(); (x.digits(), x.digits_ub(), x.digits_lb()) }, |d| pre_passive(&fv(&d.x, B as u64)));
    fentry!(v, S, B, format!("Repr<{B}>::is_zero/is_one/is_int/is_finite/is_infinite/sign"), FX, |c| { let x = c.rx::<B>(); (x.is_zero(), x.is_one(), (x.is_finite(), x.is_infinite(), x.sign())) }, |d| { let x = fv(&d.x, B as u64); Pre::new().unspec(x.extreme(), L_EXT).done() });
    fentry!(v, S, B, format!("Repr<{B}>::is_int"), FX, |c| c.rx::<B>().is_int(), |d| pre_passive(&fv(&d.x, B as u64)));
    fentry!(v, S, B, format!("{t}::repr/into_repr/significand/exponent"), FX, |c| { let x = c.fx::<R, B>(); let e = x.repr().exponent(); (x.repr().significand().clone(), e, x.into_repr()) }, |_d| ret());
    fentry!(v, S, B, format!("-{t}"), FX, |c| -c.fx::<R, B>(), |d| pre_passive(&fv(&d.x, B as u64)));
    fentry!(v, S, B, format!("-&{t}"), FX, |c| -&c.fx::<R, B>(), |d| pre_passive(&fv(&d.x, B as u64)));
    fentry!(v, S, B, format!("-Repr<{B}>"), FX, |c| -c.rx::<B>(), |d| pre_passive(&fv(&d.x, B as u64)));
    fentry!(v, S, B, format!("{t}::abs"), FX, |c| Abs::abs(c.fx::<R, B>()), |d| pre_passive(&fv(&d.x, B as u64)));
    fentry!(v, S, B, format!("{t}::signum"), FX, |c| c.fx::<R, B>().signum(), |d| pre_passive(&fv(&d.x, B as u64)));
    fentry!(v, S, B, format!("{t}::sign/is_positive/is_negative"), FX, |c| { let x = c.fx::<R, B>(); (x.sign(), Signed::is_positive(&x), Signed::is_negative(&x)) }, |d| pre_passive(&fv(&d.x, B as u64)));
    fentry!(v, S, B, format!("{t} * Sign / Sign * {t} / *= Sign"), U0.x().n(NK::Sel), |c| { let s = if c.n % 2 == 0 { Sign::Positive } else { Sign::Negative }; let mut z = c.fx::<R, B>(); z *= s; (c.fx::<R, B>() * s, s * c.fx::<R, B>(), z) }, |d| pre_passive(&fv(&d.x, B as u64)));
    // equality and ordering are the operations documented to work with infinities
    fentry!(v, S, B, format!("{t} == / cmp / partial_cmp"), FXY, |c| { let (x, y) = (c.fx::<R, B>(), c.fy::<R, B>()); (x == y, x.cmp(&y), x.partial_cmp(&y)) }, |d| Pre::new().unspec(any_extreme(&[&fv(&d.x, B as u64), &fv(&d.y, B as u64)]), L_EXT).cheap_exp(true).done());
    fentry!(v, S, B, format!("{t} == / partial_cmp FBig<Down,{B}>"), FXY, |c| { let (x, y) = (c.fx::<R, B>(), c.fy::<mode::Down, B>()); (x == y, x.partial_cmp(&y)) }, |d| Pre::new().unspec(any_extreme(&[&fv(&d.x, B as u64), &fv(&d.y, B as u64)]), L_EXT).cheap_exp(true).done());
    // the precision is a bound on the digits, never a count of digits to produce
    fentry!(v, S, B, format!("{t} == / cmp / abs_cmp at a precision of 10^6..10^9 digits"), U0.x().y().n(NK::Sel), |c| { let p = [1_000_000usize, 1 << 20, 50_000_000, 1_000_000_000, 1 << 31, 4_000_000_000][(c.n % 6) as usize]; let (x, y) = (c.fx::<R, B>().with_precision(p).value(), c.fy::<R, B>().with_precision(p).value()); (x == y, x.cmp(&y), x.abs_cmp(&y)) }, |d| Pre::new().unspec(any_extreme(&[&fv(&d.x, B as u64), &fv(&d.y, B as u64)]), L_EXT).unspec(any_inf(&[&fv(&d.x, B as u64), &fv(&d.y, B as u64)]), L_INFU).cheap_exp(true).done());
    fentry!(v, S, B, format!("Repr<{B}> == / cmp"), FXY, |c| { let (x, y) = (c.rx::<B>(), c.ry::<B>()); (x == y, x.cmp(&y)) }, |d| Pre::new().unspec(any_extreme(&[&fv(&d.x, B as u64), &fv(&d.y, B as u64)]), L_EXT).cheap_exp(true).done());
    fentry!(v, S, B, format!("{t}::abs_cmp"), FXY, |c| c.fx::<R, B>().abs_cmp(&c.fy::<R, B>()), |d| Pre::new().unspec(any_extreme(&[&fv(&d.x, B as u64), &fv(&d.y, B as u64)]), L_EXT).cheap_exp(true).done());
    fentry!(v, S, B, format!("{t}::abs_cmp(UBig) / abs_cmp(IBig)"), U0.x().a(2), |c| (c.fx::<R, B>().abs_cmp(&c.ua()), c.fx::<R, B>().abs_cmp(&c.ia()), c.ia().abs_cmp(&c.fx::<R, B>())), |d| { let x = fv(&d.x, B as u64); Pre::new().unspec(x.extreme(), L_EXT).unspec(x.inf != 0, L_INFU).done() });
    fentry!(v, S, B, format!("{t}::log2_bounds/log2_est"), FX, |c| { let x = c.fx::<R, B>(); let (l, h) = x.log2_bounds(); (l, h, x.log2_est()) }, |d| { let x = fv(&d.x, B as u64); Pre::new().unspec(x.zero || x.inf != 0, "unspecified: log2_bounds of 0 / infinity").done() });
    fentry!(v, S, B, format!("{t} clone/clone_from/default"), FXY, |c| { let mut x = c.fx::<R, B>().clone(); x.clone_from(&c.fy::<R, B>()); (x, FBig::<R, B>::default()) }, |_d| ret());
    fentry!(v, S, B, format!("{t} sum/product"), FXY, |c| { let xs = [c.fx::<R, B>(), c.fy::<R, B>()]; (xs.iter().sum::<FBig<R, B>>(), xs.iter().product::<FBig<R, B>>()) }, |d| { let (x, y) = (fv(&d.x, B as u64), fv(&d.y, B as u64)); let p = ctx_max(&x, &y); Pre::new().unspec(any_extreme(&[&x, &y]), L_EXT).unspec(any_inf(&[&x, &y]), "unspecified: sum / product over infinities").unspec(p == 0 && any_far(&[&x, &y]), L_FAR).heavy(p == 0).done() });
    // shifts move the exponent: overflow of the exponent is a documented panic
    fentry!(v, S, B, format!("{t} << isize"), U0.x().k(), |c| c.fx::<R, B>() << (c.k128() as isize), |d| pre_shift(&fv(&d.x, B as u64), d.k128() as isize as i128, 1));
    fentry!(v, S, B, format!("{t} >> isize"), U0.x().k(), |c| c.fx::<R, B>() >> (c.k128() as isize), |d| pre_shift(&fv(&d.x, B as u64), -(d.k128() as isize as i128), 1));
    fentry!(v, S, B, format!("{t} <<= isize"), U0.x().k(), |c| { let mut x = c.fx::<R, B>(); x <<= c.k128() as isize; x }, |d| pre_shift(&fv(&d.x, B as u64), d.k128() as isize as i128, 1));
    fentry!(v, S, B, format!("{t} >>= isize"), U0.x().k(), |c| { let mut x = c.fx::<R, B>(); x >>= c.k128() as isize; x }, |d| pre_shift(&fv(&d.x, B as u64), -(d.k128() as isize as i128), 2));
    // ---- text
    const T: &str = "float: printing";
    fmt_entries!(v, "float", T, B as u64, t, FX, |c| c.fx::<R, B>(), |d| pre_digits(&fv(&d.x, B as u64)), "{}" "{:?}" "{:#?}" "{:e}" "{:E}" "{:.3}" "{:.0}" "{:20.5}" "{:+}" "{:<40}" "{:^+15.2e}" "{:030}" "{:.100}" "{:#.3?}");
    fmt_entries!(v, "float", T, B as u64, format!("Repr<{B}>"), FX, |c| c.rx::<B>(), |d| pre_digits(&fv(&d.x, B as u64)), "{}" "{:?}" "{:#?}" "{:e}" "{:.2}");
    fentry!(v, T, B, format!("{t}::to_string"), FX, |c| c.fx::<R, B>().to_string(), |d| pre_digits(&fv(&d.x, B as u64)));
    const P: &str = "float: parsing";
    fentry!(v, P, B, format!("{t}::from_str"), U0.s(SK::Float), |c| FBig::<R, B>::from_str(&c.s), |d| pre_parse_float(&d.s, B as u64));
    fentry!(v, P, B, format!("{t}::from_str_native"), U0.s(SK::Float), |c| FBig::<R, B>::from_str_native(&c.s), |d| pre_parse_float(&d.s, B as u64));
    fentry!(v, P, B, format!("Repr<{B}>::from_str_native"), U0.s(SK::Float), |c| Repr::<B>::from_str_native(&c.s), |d| pre_parse_float(&d.s, B as u64));
    fentry!(v, P, B, format!("str::parse::<{t}>"), U0.s(SK::Float), |c| c.s.parse::<FBig<R, B>>(), |d| pre_parse_float(&d.s, B as u64));
}

const KF_SHIFT: &str = "C16/float-shift-exponent-overflow-unchecked";

/// `x << k` adds k to the exponent of a non-zero finite x
fn pre_shift(x: &FV, k: i128, _times: i128) -> Exp {
    let moved = x.exp as i128 + k;
    let fits = |e: i128| e >= isize::MIN as i128 && e <= isize::MAX as i128;
    let over = x.finite() && !x.zero && !fits(moved);
    Pre::new()
        .must(x.inf != 0, L_INF, M_INF)
        .unspec(x.extreme(), L_EXT)
        .must(over, L_OVER, "")
        // the exponent is moved with a plain `+=` / `-=`: without overflow checks it wraps
        .known(over, KF_SHIFT, On::Returns)
        .unspec(x.finite() && !x.zero && fits(moved) && moved.unsigned_abs() > (1 << 60), L_EXT)
        .done()
}

/// C08/parse-exponent-overflow-panics: the scale fits isize and |scale| > isize::MAX - 4·len - 8
fn extreme_scale(text: &str, base: u64) -> bool {
    let t = text.strip_prefix(['+', '-']).unwrap_or(text);
    let has_prefix = t.starts_with("0x") || t.starts_with("0X");
    let pos = match base {
        10 => t.rfind(['e', 'E', '@']),
        2 => {
            if has_prefix {
                t.rfind(['p', 'P', '@'])
            } else {
                t.rfind(['b', 'B', '@'])
            }
        }
        8 => t.rfind(['o', 'O', '@']),
        16 => t.rfind(['h', 'H', '@']),
        _ => t.rfind('@'),
    };
    match pos.and_then(|p| t[p + 1..].parse::<isize>().ok()) {
        Some(v) => (v as i128).unsigned_abs() + 4 * text.len() as u128 + 8 > isize::MAX as u128,
        None => false,
    }
}

fn pre_parse_float(s: &str, base: u64) -> Exp {
    Pre::new().known(extreme_scale(s, base), "C08/parse-exponent-overflow-panics", On::Panic("overflow")).done()
}

/// base-2 only API
fn float_b2<R: ModeTag>(v: &mut Vec<Op>) {
    let t = format!("FBig<{},2>", R::MODE.name());
    const V: &str = "float: conversions";
    fentry!(v, V, 2, format!("{t}::try_from(f32)"), U0.n(NK::F32), |c| FBig::<R, 2>::try_from(f32::from_bits(c.n as u32)), |_d| ret());
    fentry!(v, V, 2, format!("{t}::try_from(f64)"), U0.n(NK::F64), |c| FBig::<R, 2>::try_from(f64::from_bits(c.n)), |_d| ret());
    fentry!(v, V, 2, format!("f32::try_from({t})"), FX, |c| f32::try_from(c.fx::<R, 2>()), |d| { let x = fv(&d.x, 2); Pre::new().unspec(x.extreme(), L_EXT).done() });
    fentry!(v, V, 2, format!("f64::try_from({t})"), FX, |c| f64::try_from(c.fx::<R, 2>()), |d| { let x = fv(&d.x, 2); Pre::new().unspec(x.extreme(), L_EXT).done() });
    const T: &str = "float: printing";
    fmt_entries!(v, "float", T, 2, t, FX, |c| c.fx::<R, 2>(), |d| pre_digits(&fv(&d.x, 2)), "{:b}" "{:#b}" "{:x}" "{:#X}" "{:.3x}" "{:40.10b}");
}

fn float_b2_repr(v: &mut Vec<Op>) {
    const V: &str = "float: conversions";
    fentry!(v, V, 2, "Repr<2>::try_from(f32)", U0.n(NK::F32), |c| Repr::<2>::try_from(f32::from_bits(c.n as u32)), |_d| ret());
    fentry!(v, V, 2, "Repr<2>::try_from(f64)", U0.n(NK::F64), |c| Repr::<2>::try_from(f64::from_bits(c.n)), |_d| ret());
}


// ------------------------------------------------------------------------------------------------
// dashu-ratio
// ------------------------------------------------------------------------------------------------

const Q1: Uses = U0.a(2).b(1);
const Q2: Uses = U0.a(2).b(1).c(2).d(1);

/// division of rationals by zero: the rational crate has its own helper, `%` and the Euclidean forms
/// reach the integer crate's helper; both name the documented failure
fn q2_zero(c: &Case) -> Exp {
    Pre::new().must(c.c.is_zero(), L_DIV0, M_QDIV0).must(c.c.is_zero(), L_DIV0, M_DIV0).done()
}

const KF_QPARSE: &str = "C16/relaxed-parse-zero-denominator-panics";
const KF_FAREY: &str = "C16/farey-neighbors-linear-walk";

/// number of mediant steps of `RBig::farey_neighbors` for a target t = n/d in (0, 1] and a
/// denominator limit L (simulated with run lengths; capped)
fn farey_steps(n: &BigUint, d: &BigUint, limit: &BigUint) -> u64 {
    use num_traits::One;
    let (n, d, l) = (BigInt::from(n.clone()), BigInt::from(d.clone()), BigInt::from(limit.clone()));
    let (mut a, mut b, mut c, mut e) = (BigInt::zero(), BigInt::one(), BigInt::one(), BigInt::one());
    let mut count = BigInt::zero();
    let cap = BigInt::from(u64::MAX / 4);
    for _ in 0..100_000 {
        let mut moved = false;
        // right bound moves towards the left one: right_k = (c + k a) / (e + k b) while > t and denominator <= L
        {
            let room = (&l - &e).div_floor(&b);
            let den = &n * &b - &a * &d; // >= 0
            let k = if den.is_zero() {
                room
            } else {
                let num = &c * &d - &n * &e; // > 0
                let kmax = (&num + &den - BigInt::one()).div_floor(&den) - BigInt::one(); // largest k with k·den < num
                kmax.min(room)
            };
            if k > BigInt::zero() {
                c += &k * &a;
                e += &k * &b;
                count += &k;
                moved = true;
            }
        }
        // left bound moves towards the right one: left_k = (a + k c) / (b + k e) while <= t and denominator <= L
        {
            let room = (&l - &b).div_floor(&e);
            let den = &c * &d - &n * &e; // > 0
            let num = &n * &b - &a * &d; // >= 0
            let k = if den.is_zero() { BigInt::zero() } else { num.div_floor(&den).min(room) };
            if k > BigInt::zero() {
                a += &k * &c;
                b += &k * &e;
                count += &k;
                moved = true;
            }
        }
        if !moved || count > cap {
            break;
        }
    }
    count.to_u64().unwrap_or(u64::MAX)
}

/// mediant steps that nearest / next_up / next_down will take (0 when they return at once)
fn farey_cost(c: &Case, which: u8) -> u64 {
    use num_traits::One;
    let limit = c.c.mag.big();
    if limit.is_zero() {
        return 0;
    }
    let den = if c.b.is_zero() { BigUint::one() } else { c.b.mag.big() };
    let q = num_rational::BigRational::new(c.a.big(), BigInt::from(den));
    let simple = q.denom().magnitude() <= &limit;
    if which == 0 && simple {
        return 0;
    }
    let fract = q.fract();
    let l2 = num_rational::BigRational::new(BigInt::one(), BigInt::from(&limit * &limit));
    let target = match (which, simple) {
        (1, true) => fract + l2,
        (2, true) => fract - l2,
        _ => fract,
    };
    let t = if target < num_rational::BigRational::from_integer(BigInt::zero()) { -target } else { target };
    if t.numer().is_zero() {
        return 0;
    }
    farey_steps(t.numer().magnitude(), t.denom().magnitude(), &limit)
}

fn pre_farey(c: &Case, which: u8) -> Exp {
    let steps = farey_cost(c, which);
    Pre::new().unspec(c.c.is_zero(), "unspecified: denominator limit 0").known(steps > 1_000_000, KF_FAREY, On::HangOrMem).done()
}

/// the text has the shape `<numerator>/<zero denominator>` (C16/relaxed-parse-zero-denominator-panics)
fn zero_denominator_text(s: &str) -> bool {
    match s.find('/') {
        Some(i) => {
            let d = &s[i + 1..];
            let d = d.strip_prefix(['+', '-']).unwrap_or(d);
            let d = d.strip_prefix("0x").or_else(|| d.strip_prefix("0o")).or_else(|| d.strip_prefix("0b")).unwrap_or(d);
            !d.is_empty() && d.bytes().all(|b| b == b'0' || b == b'_') && d.bytes().any(|b| b == b'0')
        }
        None => false,
    }
}

macro_rules! q_bin {
    ($v:ident, $fam:expr, $t:expr, $g1:ident, $g2:ident, $op:tt, $opa:tt, |$d:ident| $pre:expr) => {
        entry!($v, "ratio", $fam, 0, format!("{} {} val.val", $t, stringify!($op)), Q2, |c| c.$g1() $op c.$g2(), |$d| $pre);
        entry!($v, "ratio", $fam, 0, format!("{} {} val.ref", $t, stringify!($op)), Q2, |c| c.$g1() $op &c.$g2(), |$d| $pre);
        entry!($v, "ratio", $fam, 0, format!("{} {} ref.val", $t, stringify!($op)), Q2, |c| &c.$g1() $op c.$g2(), |$d| $pre);
        entry!($v, "ratio", $fam, 0, format!("{} {} ref.ref", $t, stringify!($op)), Q2, |c| &c.$g1() $op &c.$g2(), |$d| $pre);
        entry!($v, "ratio", $fam, 0, format!("{} {} val", $t, stringify!($opa)), Q2, |c| { let mut x = c.$g1(); x $opa c.$g2(); x }, |$d| $pre);
        entry!($v, "ratio", $fam, 0, format!("{} {} ref", $t, stringify!($opa)), Q2, |c| { let mut x = c.$g1(); x $opa &c.$g2(); x }, |$d| $pre);
    };
}

macro_rules! ratio_type {
    ($v:ident, $T:ident, $g1:ident, $g2:ident) => {{
        let t = stringify!($T);
        const A: &str = "ratio: arithmetic";
        q_bin!($v, A, t, $g1, $g2, +, +=, |_d| ret());
        q_bin!($v, A, t, $g1, $g2, -, -=, |_d| ret());
        q_bin!($v, A, t, $g1, $g2, *, *=, |_d| ret());
        q_bin!($v, A, t, $g1, $g2, /, /=, |d| q2_zero(d));
        q_bin!($v, A, t, $g1, $g2, %, %=, |d| q2_zero(d));
        entry!($v, "ratio", A, 0, format!("{t} div_euclid"), Q2, |c| c.$g1().div_euclid(c.$g2()), |d| q2_zero(d));
        entry!($v, "ratio", A, 0, format!("{t} rem_euclid ref.ref"), Q2, |c| (&c.$g1()).rem_euclid(&c.$g2()), |d| q2_zero(d));
        entry!($v, "ratio", A, 0, format!("{t} div_rem_euclid"), Q2, |c| c.$g1().div_rem_euclid(c.$g2()), |d| q2_zero(d));
        entry!($v, "ratio", A, 0, format!("{t}::inv"), Q1, |c| Inverse::inv(c.$g1()), |d| Pre::new().must(d.a.is_zero(), L_DIV0, M_QDIV0).done());
        entry!($v, "ratio", A, 0, format!("&{t}::inv"), Q1, |c| Inverse::inv(&c.$g1()), |d| Pre::new().must(d.a.is_zero(), L_DIV0, M_QDIV0).done());
        entry!($v, "ratio", A, 0, format!("{t}::pow"), Q1.n(NK::Pow), |c| c.$g1().pow(c.nu()), |_d| ret());
        entry!($v, "ratio", A, 0, format!("{t}::sqr/cubic"), Q1, |c| (c.$g1().sqr(), c.$g1().cubic()), |_d| ret());
        // with integers
        const I: &str = "ratio: arithmetic with UBig / IBig";
        const QI: Uses = U0.a(2).b(1).c(2);
        entry!($v, "ratio", I, 0, format!("{t} + UBig / UBig + {t}"), QI, |c| (c.$g1() + c.uc(), c.uc() + c.$g1(), &c.$g1() + &c.uc()), |_d| ret());
        entry!($v, "ratio", I, 0, format!("{t} + IBig / IBig + {t}"), QI, |c| (c.$g1() + c.ic(), c.ic() + c.$g1()), |_d| ret());
        entry!($v, "ratio", I, 0, format!("{t} - UBig / UBig - {t}"), QI, |c| (c.$g1() - c.uc(), c.uc() - c.$g1()), |_d| ret());
        entry!($v, "ratio", I, 0, format!("{t} - IBig / IBig - {t}"), QI, |c| (c.$g1() - c.ic(), c.ic() - &c.$g1()), |_d| ret());
        entry!($v, "ratio", I, 0, format!("{t} * UBig / UBig * {t}"), QI, |c| (c.$g1() * c.uc(), c.uc() * c.$g1()), |_d| ret());
        entry!($v, "ratio", I, 0, format!("{t} * IBig / IBig * {t}"), QI, |c| (c.$g1() * c.ic(), &c.ic() * &c.$g1()), |_d| ret());
        entry!($v, "ratio", I, 0, format!("{t} / UBig"), QI, |c| c.$g1() / c.uc(), |d| q2_zero(d));
        entry!($v, "ratio", I, 0, format!("{t} / IBig"), QI, |c| c.$g1() / c.ic(), |d| q2_zero(d));
        entry!($v, "ratio", I, 0, format!("&{t} / &IBig"), QI, |c| &c.$g1() / &c.ic(), |d| q2_zero(d));
        entry!($v, "ratio", I, 0, format!("UBig / {t}"), QI, |c| c.uc() / c.$g1(), |d| Pre::new().must(d.a.is_zero(), L_DIV0, M_QDIV0).done());
        entry!($v, "ratio", I, 0, format!("IBig / {t}"), QI, |c| c.ic() / c.$g1(), |d| Pre::new().must(d.a.is_zero(), L_DIV0, M_QDIV0).done());
        // construction
        const C: &str = "ratio: construction, parts, sign";
        entry!($v, "ratio", C, 0, format!("{t}::from_parts"), Q1, |c| $T::from_parts(c.ia(), c.ub()), |d| Pre::new().must(d.b.is_zero(), L_DIV0, M_QDIV0).done());
        entry!($v, "ratio", C, 0, format!("{t}::from_parts_signed"), U0.a(2).b(2), |c| $T::from_parts_signed(c.ia(), c.ib()), |d| Pre::new().must(d.b.is_zero(), L_DIV0, M_QDIV0).done());
        entry!($v, "ratio", C, 0, format!("{t}::from_parts_const"), U0.a(2).b(1), |c| $T::from_parts_const(if c.a.neg { Sign::Negative } else { Sign::Positive }, low128(&c.a.mag), low128(&c.b.mag)), |d| Pre::new().must(low128(&d.b.mag) == 0, L_DIV0, M_QDIV0).done());
        entry!($v, "ratio", C, 0, format!("{t}::into_parts/numerator/denominator"), Q1, |c| { let x = c.$g1(); (x.numerator().clone(), x.denominator().clone(), x.into_parts()) }, |_d| ret());
        entry!($v, "ratio", C, 0, format!("{t}::is_zero/is_one"), Q1, |c| (c.$g1().is_zero(), c.$g1().is_one()), |_d| ret());
        entry!($v, "ratio", C, 0, format!("-{t} / -&{t}"), Q1, |c| (-c.$g1(), -&c.$g1()), |_d| ret());
        entry!($v, "ratio", C, 0, format!("{t}::abs/signum/sign"), Q1, |c| (Abs::abs(c.$g1()), c.$g1().signum(), c.$g1().sign()), |_d| ret());
        entry!($v, "ratio", C, 0, format!("{t} * Sign"), Q1.n(NK::Sel), |c| c.$g1() * if c.n % 2 == 0 { Sign::Positive } else { Sign::Negative }, |_d| ret());
        entry!($v, "ratio", C, 0, format!("{t} == / cmp / abs_cmp / abs_eq"), Q2, |c| { let (x, y) = (c.$g1(), c.$g2()); (x == y, x.cmp(&y), (x.abs_cmp(&y), x.abs_eq(&y))) }, |_d| ret());
        entry!($v, "ratio", C, 0, format!("{t} clone/clone_from/default"), Q2, |c| { let mut x = c.$g1().clone(); x.clone_from(&c.$g2()); (x, $T::default()) }, |_d| ret());
        entry!($v, "ratio", C, 0, format!("{t}::from(UBig) / from(IBig) / from(i64)"), U0.a(2).k(), |c| ($T::from(c.ua()), $T::from(c.ia()), $T::from(c.k128() as i64)), |_d| ret());
        // rounding
        const Rn: &str = "ratio: rounding to integers";
        entry!($v, "ratio", Rn, 0, format!("{t}::trunc/floor/ceil/round"), Q1, |c| { let x = c.$g1(); (x.trunc(), x.floor(), (x.ceil(), x.round())) }, |_d| ret());
        entry!($v, "ratio", Rn, 0, format!("{t}::fract/split_at_point"), Q1, |c| (c.$g1().fract(), c.$g1().split_at_point()), |_d| ret());
        entry!($v, "ratio", Rn, 0, format!("{t}::to_int"), Q1, |c| c.$g1().to_int().value(), |_d| ret());
        // conversions
        const V: &str = "ratio: conversions";
        entry!($v, "ratio", V, 0, format!("{t}::to_f32/to_f64"), Q1, |c| (c.$g1().to_f32(), c.$g1().to_f64()), |_d| ret());
        entry!($v, "ratio", V, 0, format!("{t}::to_f32_fast/to_f64_fast"), Q1, |c| (c.$g1().to_f32_fast(), c.$g1().to_f64_fast()), |_d| ret());
        entry!($v, "ratio", V, 0, format!("f32::try_from({t}) / f64::try_from({t})"), Q1, |c| (f32::try_from(c.$g1()), f64::try_from(c.$g1())), |_d| ret());
        entry!($v, "ratio", V, 0, format!("{t}::try_from(f32)"), U0.n(NK::F32), |c| $T::try_from(f32::from_bits(c.n as u32)), |_d| ret());
        entry!($v, "ratio", V, 0, format!("{t}::try_from(f64)"), U0.n(NK::F64), |c| $T::try_from(f64::from_bits(c.n)), |_d| ret());
        entry!($v, "ratio", V, 0, format!("UBig::try_from({t}) / IBig::try_from({t})"), Q1, |c| (UBig::try_from(c.$g1()), IBig::try_from(c.$g1())), |_d| ret());
        entry!($v, "ratio", V, 0, format!("u8/i64/u128::try_from({t})"), Q1, |c| (u8::try_from(c.$g1()), i64::try_from(c.$g1()), u128::try_from(c.$g1())), |_d| ret());
        // to_float: the rustdoc names no panic; precision 0 cannot hold an inexact quotient
        entry!($v, "ratio", V, 0, format!("{t}::to_float::<HalfAway,10>"), Q1.n(NK::Prec), |c| c.$g1().to_float::<mode::HalfAway, 10>(c.nu()), |d| Pre::new().unspec(d.n == 0, "unspecified: to_float with precision 0").done());
        entry!($v, "ratio", V, 0, format!("{t}::to_float::<Zero,2>"), Q1.n(NK::Prec), |c| c.$g1().to_float::<mode::Zero, 2>(c.nu()), |d| Pre::new().unspec(d.n == 0, "unspecified: to_float with precision 0").done());
        entry!($v, "ratio", V, 2, format!("{t}::try_from(FBig<Zero,2>)"), FX, |c| $T::try_from(c.fx::<mode::Zero, 2>()), |d| pre_digits_ret(&fv(&d.x, 2)));
        entry!($v, "ratio", V, 10, format!("{t}::try_from(FBig<HalfAway,10>)"), FX, |c| $T::try_from(c.fx::<mode::HalfAway, 10>()), |d| pre_digits_ret(&fv(&d.x, 10)));
        entry!($v, "ratio", V, 10, format!("FBig<HalfAway,10>::from({t})"), Q1, |c| FBig::<mode::HalfAway, 10>::from(c.$g1()), |_d| ret());
        entry!($v, "ratio", V, 2, format!("FBig<Zero,2>::from({t})"), Q1, |c| FBig::<mode::Zero, 2>::from(c.$g1()), |_d| ret());
        entry!($v, "ratio", V, 0, format!("{t}::log2_bounds/log2_est"), Q1, |c| { let x = c.$g1(); let (l, h) = x.log2_bounds(); (l, h, x.log2_est()) }, |d| Pre::new().unspec(d.a.is_zero(), "unspecified: log2_bounds(0) (trait and method rustdoc disagree)").done());
        // text
        const T: &str = "ratio: printing";
        fmt_entries!($v, "ratio", T, 0, t, Q1, |c| c.$g1(), |_d| ret(), "{}" "{:?}" "{:#?}" "{:>50}" "{:+}" "{:.3}" "{:010}");
        entry!($v, "ratio", T, 0, format!("{t}::to_string"), Q1, |c| c.$g1().to_string(), |_d| ret());
        const P: &str = "ratio: parsing";
        entry!($v, "ratio", P, 0, format!("{t}::from_str"), U0.s(SK::Ratio), |c| $T::from_str(&c.s), |d| Pre::new().known(zero_denominator_text(&d.s), KF_QPARSE, On::Panic("Option::unwrap()")).done());
        entry!($v, "ratio", P, 0, format!("{t}::from_str_radix"), U0.s(SK::Ratio).n(NK::Radix), |c| $T::from_str_radix(&c.s, c.n as u32), |d| Pre::new().known(zero_denominator_text(&d.s), KF_QPARSE, On::Panic("Option::unwrap()")).done());
        entry!($v, "ratio", P, 0, format!("{t}::from_str_with_radix_prefix"), U0.s(SK::Ratio), |c| $T::from_str_with_radix_prefix(&c.s), |d| Pre::new().known(zero_denominator_text(&d.s), KF_QPARSE, On::Panic("Option::unwrap()")).done());
    }};
}

/// conversions that must return Ok / Err (infinities included), but may need the digits
fn pre_digits_ret(x: &FV) -> Exp {
    Pre::new().unspec(x.extreme(), L_EXT).unspec(x.far(), L_FAR).heavy(x.far()).done()
}

fn ratio_ops(v: &mut Vec<Op>) {
    ratio_type!(v, RBig, q1, q2);
    ratio_type!(v, Relaxed, l1, l2);
    const S: &str = "ratio: simplification (RBig)";
    entry!(v, "ratio", S, 0, "RBig::simplest_in", Q2, |c| RBig::simplest_in(c.q1(), c.q2()), |_d| ret());
    entry!(v, "ratio", S, 0, "RBig::is_simpler_than", Q2, |c| c.q1().is_simpler_than(&c.q2()), |_d| ret());
    entry!(v, "ratio", S, 0, "RBig::simplest_from_f32", U0.n(NK::F32), |c| RBig::simplest_from_f32(f32::from_bits(c.n as u32)), |_d| ret());
    entry!(v, "ratio", S, 0, "RBig::simplest_from_f64", U0.n(NK::F64), |c| RBig::simplest_from_f64(f64::from_bits(c.n)), |_d| ret());
    entry!(v, "ratio", S, 2, "RBig::simplest_from_float(FBig<Zero,2>)", FX, |c| RBig::simplest_from_float(&c.fx::<mode::Zero, 2>()), |d| pre_digits_ret(&fv(&d.x, 2)));
    entry!(v, "ratio", S, 10, "RBig::simplest_from_float(FBig<HalfAway,10>)", FX, |c| RBig::simplest_from_float(&c.fx::<mode::HalfAway, 10>()), |d| pre_digits_ret(&fv(&d.x, 10)));
    // a zero limit: the code panics with the division-by-zero helper, the rustdoc does not mention it
    const QL: Uses = U0.a(2).b(1).climit();
    entry!(v, "ratio", S, 0, "RBig::nearest", QL, |c| c.q1().nearest(&c.uc()), |d| pre_farey(d, 0));
    entry!(v, "ratio", S, 0, "RBig::next_up", QL, |c| c.q1().next_up(&c.uc()), |d| pre_farey(d, 1));
    entry!(v, "ratio", S, 0, "RBig::next_down", QL, |c| c.q1().next_down(&c.uc()), |d| pre_farey(d, 2));
    entry!(v, "ratio", S, 0, "RBig::relax / Relaxed::canonicalize / as_relaxed", Q1, |c| (c.q1().relax(), c.l1().canonicalize(), c.q1().as_relaxed().clone()), |_d| ret());
    entry!(v, "ratio", S, 0, "RBig::is_int", Q1, |c| c.q1().is_int(), |_d| ret());
    entry!(v, "ratio", S, 0, "RBig hash", Q1, |c| { use std::hash::{Hash, Hasher}; let mut h = std::collections::hash_map::DefaultHasher::new(); c.q1().hash(&mut h); h.finish() }, |_d| ret());
    entry!(v, "ratio", S, 10, "RBig abs_cmp FBig / FBig abs_cmp Relaxed", Q1.x(), |c| (c.q1().abs_cmp(&c.fx::<mode::HalfAway, 10>()), c.fx::<mode::HalfAway, 10>().abs_cmp(&c.l1())), |d| { let x = fv(&d.x, 10); Pre::new().unspec(x.inf != 0, L_INFU).unspec(x.extreme(), L_EXT).unspec(x.far(), L_FAR).heavy(x.far()).done() });
}

// ------------------------------------------------------------------------------------------------
// dashu-base (traits implemented for the primitive types, helpers)
// ------------------------------------------------------------------------------------------------

macro_rules! base_uint {
    ($v:ident, $($t:ident)*) => {$(
        {
            let t = stringify!($t);
            const U: Uses = U0.k().a(2);
            // second operand: low bits of slot a
            const G: &str = "base: gcd / division / roots on primitives";
            entry!($v, "base", G, 0, format!("Gcd::gcd({t}, {t})"), U, |c| Gcd::gcd(c.k128() as $t, low128(&c.a.mag) as $t), |d| Pre::new().must(d.k128() as $t == 0 && low128(&d.a.mag) as $t == 0, L_GCD00, M_GCD00).done());
            entry!($v, "base", G, 0, format!("ExtendedGcd::gcd_ext({t}, {t})"), U, |c| ExtendedGcd::gcd_ext(c.k128() as $t, low128(&c.a.mag) as $t), |d| Pre::new().must(d.k128() as $t == 0 && low128(&d.a.mag) as $t == 0, L_GCD00, M_GCD00).done());
            entry!($v, "base", G, 0, format!("DivRem::div_rem({t}, {t})"), U, |c| DivRem::div_rem(c.k128() as $t, low128(&c.a.mag) as $t), |d| Pre::new().must(low128(&d.a.mag) as $t == 0, L_DIV0, "").done());
            entry!($v, "base", G, 0, format!("DivEuclid/RemEuclid/DivRemEuclid ({t})"), U, |c| { let (x, y) = (c.k128() as $t, low128(&c.a.mag) as $t); (DivEuclid::div_euclid(x, y), RemEuclid::rem_euclid(x, y), DivRemEuclid::div_rem_euclid(x, y)) }, |d| Pre::new().must(low128(&d.a.mag) as $t == 0, L_DIV0, "").done());
            entry!($v, "base", G, 0, format!("DivRemAssign::div_rem_assign({t})"), U, |c| { let mut x = c.k128() as $t; let r = DivRemAssign::div_rem_assign(&mut x, low128(&c.a.mag) as $t); (x, r) }, |d| Pre::new().must(low128(&d.a.mag) as $t == 0, L_DIV0, "").done());
            const B: &str = "base: bits, logarithm estimates, sign on primitives";
            entry!($v, "base", B, 0, format!("BitTest::bit/bit_len ({t})"), U0.k().n(NK::Pos), |c| { let x = c.k128() as $t; (BitTest::bit(&x, c.nu()), BitTest::bit_len(&x)) }, |_d| ret());
            entry!($v, "base", B, 0, format!("PowerOfTwo::is_power_of_two ({t})"), U0.k(), |c| PowerOfTwo::is_power_of_two(&(c.k128() as $t)), |_d| ret());
            // next_power_of_two of the primitive types overflows above 2^(BITS-1) (std panics / wraps)
            entry!($v, "base", B, 0, format!("PowerOfTwo::next_power_of_two ({t})"), U0.k(), |c| PowerOfTwo::next_power_of_two(c.k128() as $t), |d| Pre::new().unspec((d.k128() as $t) > (<$t>::MAX >> 1) + 1, "unspecified: next_power_of_two does not fit the primitive").done());
            entry!($v, "base", B, 0, format!("EstimatedLog2 ({t})"), U0.k(), |c| { let x = c.k128() as $t; let (l, h) = x.log2_bounds(); (l, h, x.log2_est()) }, |d| Pre::new().unspec(d.k128() as $t == 0, "unspecified: log2_bounds(0) (trait and method rustdoc disagree)").done());
        }
    )*};
}

macro_rules! base_roots {
    ($v:ident, $($t:ident)*) => {$(
        {
            let t = stringify!($t);
            const G: &str = "base: gcd / division / roots on primitives";
            entry!($v, "base", G, 0, format!("SquareRoot/CubicRoot ({t})"), U0.k(), |c| { let x = c.k128() as $t; (SquareRoot::sqrt(&x), CubicRoot::cbrt(&x)) }, |_d| ret());
            entry!($v, "base", G, 0, format!("SquareRootRem/CubicRootRem ({t})"), U0.k(), |c| { let x = c.k128() as $t; (SquareRootRem::sqrt_rem(&x), CubicRootRem::cbrt_rem(&x)) }, |_d| ret());
        }
    )*};
}

macro_rules! base_sint {
    ($v:ident, $($t:ident)*) => {$(
        {
            let t = stringify!($t);
            const U: Uses = U0.k().a(2);
            const B: &str = "base: bits, logarithm estimates, sign on primitives";
            // abs of MIN overflows the primitive (std: panic with overflow checks)
            entry!($v, "base", B, 0, format!("Abs::abs ({t})"), U0.k(), |c| Abs::abs(c.k128() as $t), |d| Pre::new().unspec(d.k128() as $t == <$t>::MIN, "unspecified: |MIN| does not fit the signed primitive").done());
            entry!($v, "base", B, 0, format!("UnsignedAbs::unsigned_abs ({t})"), U0.k(), |c| UnsignedAbs::unsigned_abs(c.k128() as $t), |_d| ret());
            entry!($v, "base", B, 0, format!("Signed::sign/is_positive/is_negative ({t})"), U0.k(), |c| { let x = c.k128() as $t; (Signed::sign(&x), Signed::is_positive(&x), Signed::is_negative(&x)) }, |_d| ret());
            entry!($v, "base", B, 0, format!("AbsOrd::abs_cmp / AbsEq::abs_eq ({t})"), U, |c| { let (x, y) = (c.k128() as $t, low128(&c.a.mag) as $t); (AbsOrd::abs_cmp(&x, &y), AbsEq::abs_eq(&x, &y)) }, |_d| ret());
            entry!($v, "base", B, 0, format!("EstimatedLog2 ({t})"), U0.k(), |c| { let x = c.k128() as $t; let (l, h) = x.log2_bounds(); (l, h, x.log2_est()) }, |d| Pre::new().unspec(d.k128() as $t == 0, "unspecified: log2_bounds(0) (trait and method rustdoc disagree)").done());
            entry!($v, "base", B, 0, format!("{t} * Sign"), U0.k().n(NK::Sel), |c| (c.k128() as $t) * if c.n % 2 == 0 { Sign::Positive } else { Sign::Negative }, |d| Pre::new().unspec(d.k128() as $t == <$t>::MIN, "unspecified: -MIN does not fit the signed primitive").done());
        }
    )*};
}

fn base_ops(v: &mut Vec<Op>) {
    base_uint!(v, u8 u16 u32 u64 u128 usize);
    base_sint!(v, i8 i16 i32 i64 i128 isize);
    base_roots!(v, u8 u16 u32 u64 u128);
    const F: &str = "base: primitive floats";
    let nanf = |b: u64| f32::from_bits(b as u32).is_nan();
    let _ = nanf;
    entry!(v, "base", F, 0, "utils::next_up(f32)", U0.n(NK::F32), |c| dashu_base::utils::next_up(f32::from_bits(c.n as u32)), |d| { let f = f32::from_bits(d.n as u32); Pre::new().must(f.is_nan() || f.is_infinite(), L_NAN, "").done() });
    entry!(v, "base", F, 0, "utils::next_down(f32)", U0.n(NK::F32), |c| dashu_base::utils::next_down(f32::from_bits(c.n as u32)), |d| { let f = f32::from_bits(d.n as u32); Pre::new().must(f.is_nan() || f.is_infinite(), L_NAN, "").done() });
    entry!(v, "base", F, 0, "EstimatedLog2 (f32)", U0.n(NK::F32), |c| { let x = f32::from_bits(c.n as u32); let (l, h) = x.log2_bounds(); (l, h, x.log2_est()) }, |d| { let f = f32::from_bits(d.n as u32); Pre::new().unspec(f.is_nan() || f.is_infinite() || f == 0.0, "unspecified: log2_bounds of 0 / NaN / infinite float").done() });
    entry!(v, "base", F, 0, "EstimatedLog2 (f64)", U0.n(NK::F64), |c| { let x = f64::from_bits(c.n); let (l, h) = x.log2_bounds(); (l, h, x.log2_est()) }, |d| { let f = f64::from_bits(d.n); Pre::new().unspec(f.is_nan() || f.is_infinite() || f == 0.0, "unspecified: log2_bounds of 0 / NaN / infinite float").done() });
    entry!(v, "base", F, 0, "Inverse::inv (f32, f64)", U0.n(NK::F64), |c| (Inverse::inv(f32::from_bits(c.n as u32)), Inverse::inv(f64::from_bits(c.n)), Inverse::inv(&f64::from_bits(c.n))), |_d| ret());
    entry!(v, "base", F, 0, "Abs / Signed (f32, f64)", U0.n(NK::F64), |c| { let (x, y) = (f32::from_bits(c.n as u32), f64::from_bits(c.n)); (Abs::abs(x), Abs::abs(y), (Signed::sign(&x), Signed::sign(&y))) }, |d| { let (x, y) = (f32::from_bits(d.n as u32), f64::from_bits(d.n)); Pre::new().unspec(x.is_nan() || y.is_nan(), "unspecified: sign of NaN").done() });
    // documented: abs_cmp panics if either number is NaN
    entry!(v, "base", F, 0, "AbsOrd::abs_cmp (f64)", U0.n(NK::F64).k(), |c| AbsOrd::abs_cmp(&f64::from_bits(c.n), &f64::from_bits(c.k128() as u64)), |d| Pre::new().must(f64::from_bits(d.n).is_nan() || f64::from_bits(d.k128() as u64).is_nan(), L_NAN, "").done());
    entry!(v, "base", F, 0, "AbsOrd::abs_cmp (f32)", U0.n(NK::F32).k(), |c| AbsOrd::abs_cmp(&f32::from_bits(c.n as u32), &f32::from_bits(c.k128() as u32)), |d| Pre::new().must(f32::from_bits(d.n as u32).is_nan() || f32::from_bits(d.k128() as u32).is_nan(), L_NAN, "").done());
    entry!(v, "base", F, 0, "AbsEq::abs_eq (f64)", U0.n(NK::F64).k(), |c| AbsEq::abs_eq(&f64::from_bits(c.n), &f64::from_bits(c.k128() as u64)), |_d| ret());
    entry!(v, "base", F, 0, "FloatEncoding::decode (f32, f64)", U0.n(NK::F64), |c| (f32::from_bits(c.n as u32).decode(), f64::from_bits(c.n).decode()), |_d| ret());
    entry!(v, "base", F, 0, "FloatEncoding::encode (f32)", U0.k().a(2), |c| f32::encode(c.k128() as i32, c.a.big().to_i64().unwrap_or(0) as i16), |_d| ret());
    entry!(v, "base", F, 0, "FloatEncoding::encode (f64)", U0.k().a(2), |c| f64::encode(c.k128() as i64, c.a.big().to_i64().unwrap_or(0) as i16), |_d| ret());
    const S: &str = "base: Sign, Approximation";
    entry!(v, "base", S, 0, "Sign ops", U0.n(NK::Sel), |c| { let s = Sign::from(c.n % 2 == 1); let t = Sign::from(c.n % 4 >= 2); (-s, s * t, (s.cmp(&t), bool::from(s), { let mut u = s; u *= t; u })) }, |_d| ret());
    entry!(v, "base", S, 0, "Sign * Ordering / Ordering * Sign", U0.n(NK::Sel), |c| { let s = Sign::from(c.n % 2 == 1); let o = [Ordering::Less, Ordering::Equal, Ordering::Greater][(c.n % 3) as usize]; (s * o, o * s) }, |_d| ret());
    entry!(v, "base", S, 0, "Approximation methods", U0.k().n(NK::Sel), |c| { let a: Approximation<i128, Sign> = if c.n % 2 == 0 { Approximation::Exact(c.k128()) } else { Approximation::Inexact(c.k128(), Sign::Negative) }; (a.clone().value(), *a.value_ref(), (a.clone().error().map(D), a.clone().map(|v| v as u8).value(), a.and_then(|v| Approximation::<i128, Sign>::Exact(v)).value())) }, |_d| ret());
    entry!(v, "base", S, 0, "Approximation::unwrap", U0.k().n(NK::Sel), |c| { let a: Approximation<i128, Sign> = if c.n % 2 == 0 { Approximation::Exact(c.k128()) } else { Approximation::Inexact(c.k128(), Sign::Negative) }; a.unwrap() }, |d| Pre::new().unspec(d.n % 2 == 1, "unspecified: Approximation::unwrap of an Inexact value").done());
    entry!(v, "base", S, 0, "ParseError / ConversionError Display", U0.n(NK::Sel), |c| { use dashu_base::{ConversionError, ParseError}; let e = [ParseError::NoDigits, ParseError::InvalidDigit, ParseError::UnsupportedRadix, ParseError::InconsistentRadix][(c.n % 4) as usize]; (format!("{e}"), format!("{}", ConversionError::OutOfBounds), format!("{:?}", ConversionError::LossOfPrecision)) }, |_d| ret());
}

// ------------------------------------------------------------------------------------------------
// num-order impls (default feature of the three numeric crates): comparison / hashing across types.
// NaN operands give `None` from num_partial_cmp; nothing here is documented to panic.
// ------------------------------------------------------------------------------------------------

fn num_order_ops(v: &mut Vec<Op>) {
    use num_order::{NumHash, NumOrd};
    fn nh<T: NumHash>(x: &T) -> u64 {
        use std::hash::Hasher;
        let mut h = std::collections::hash_map::DefaultHasher::new();
        x.num_hash(&mut h);
        h.finish()
    }
    const I: &str = "int: num-order (NumOrd / NumHash)";
    entry!(v, "int", I, 0, "UBig NumOrd UBig/IBig", UI, |c| (c.ua().num_partial_cmp(&c.ub()), c.ua().num_partial_cmp(&c.ib()), c.ib().num_partial_cmp(&c.ua())), |_d| ret());
    entry!(v, "int", I, 0, "IBig NumOrd IBig + num_eq/num_lt", II, |c| (c.ia().num_partial_cmp(&c.ib()), c.ia().num_eq(&c.ib()), c.ia().num_lt(&c.ib())), |_d| ret());
    entry!(v, "int", I, 0, "UBig NumOrd u8/i64/u128 (both directions)", U0.a(1).k(), |c| (c.ua().num_partial_cmp(&(c.k128() as u8)), (c.k128() as i64).num_partial_cmp(&c.ua()), c.ua().num_partial_cmp(&(c.k128() as u128))), |_d| ret());
    entry!(v, "int", I, 0, "IBig NumOrd i8/u64/i128 (both directions)", U0.a(2).k(), |c| (c.ia().num_partial_cmp(&(c.k128() as i8)), (c.k128() as u64).num_partial_cmp(&c.ia()), c.ia().num_partial_cmp(&c.k128())), |_d| ret());
    entry!(v, "int", I, 0, "UBig NumOrd f32 (both directions)", U0.a(1).n(NK::F32), |c| { let f = f32::from_bits(c.n as u32); (c.ua().num_partial_cmp(&f), f.num_partial_cmp(&c.ua())) }, |_d| ret());
    entry!(v, "int", I, 0, "UBig NumOrd f64 (both directions)", U0.a(1).n(NK::F64), |c| { let f = f64::from_bits(c.n); (c.ua().num_partial_cmp(&f), f.num_partial_cmp(&c.ua())) }, |_d| ret());
    entry!(v, "int", I, 0, "IBig NumOrd f32 (both directions)", U0.a(2).n(NK::F32), |c| { let f = f32::from_bits(c.n as u32); (c.ia().num_partial_cmp(&f), f.num_partial_cmp(&c.ia())) }, |_d| ret());
    entry!(v, "int", I, 0, "IBig NumOrd f64 (both directions)", U0.a(2).n(NK::F64), |c| { let f = f64::from_bits(c.n); (c.ia().num_partial_cmp(&f), f.num_partial_cmp(&c.ia())) }, |_d| ret());
    entry!(v, "int", I, 0, "UBig/IBig NumHash", U0.a(2), |c| (nh(&c.ua()), nh(&c.ia())), |_d| ret());
    const F: &str = "float: num-order (NumOrd / NumHash)";
    let xe = |d: &Case, b: u64| -> Exp { let x = fv(&d.x, b); Pre::new().unspec(x.extreme(), L_EXT).unspec(x.far(), L_FAR).heavy(x.far()).done() };
    let _ = xe;
    fn pre_no(d: &Case, b: u64, two: bool) -> Exp {
        let x = fv(&d.x, b);
        let y = fv(&d.y, b);
        let bad = x.extreme() || (two && y.extreme());
        let far = x.far() || (two && y.far());
        Pre::new().unspec(bad, L_EXT).unspec(far, L_FAR).heavy(far).done()
    }
    entry!(v, "float", F, 2, "FBig<Zero,2> NumOrd FBig<HalfAway,10>", FXY, |c| (c.fx::<mode::Zero, 2>().num_partial_cmp(&c.fy::<mode::HalfAway, 10>()), c.fy::<mode::HalfAway, 10>().num_partial_cmp(&c.fx::<mode::Zero, 2>())), |d| pre_no(d, 2, true));
    // within one base: magnitudes that differ by more than a digit or two are ordered from the
    // logarithm estimates whatever the exponents; only numbers of about the same magnitude are aligned
    // digit by digit (as for two different bases, and then a far exponent needs its digits)
    fn pre_no_same(d: &Case, b: u64) -> Exp {
        let (x, y) = (fv(&d.x, b), fv(&d.y, b));
        // "about the same magnitude" is relative: the estimates are f32 values, 24 bits of log2 |x|
        let (mx, my) = (x.exp as i128 + x.digits as i128, y.exp as i128 + y.digits as i128);
        let near = x.finite() && y.finite() && !x.zero && !y.zero && x.neg == y.neg && (mx - my).abs() <= 3 + (mx.abs().max(my.abs()) >> 18);
        let far = x.far() || y.far();
        Pre::new().unspec(x.extreme() || y.extreme(), L_EXT).unspec(far && near, L_FAR).heavy(far && near).cheap_exp(!near).done()
    }
    entry!(v, "float", F, 10, "FBig<HalfAway,10> NumOrd FBig<Zero,10> / Repr<10> NumOrd Repr<10>", FXY, |c| (c.fx::<mode::HalfAway, 10>().num_partial_cmp(&c.fy::<mode::Zero, 10>()), c.rx::<10>().num_partial_cmp(&c.ry::<10>())), |d| pre_no_same(d, 10));
    entry!(v, "float", F, 2, "FBig<Zero,2> NumOrd FBig<Down,2> / Repr<2> NumOrd Repr<2>", FXY, |c| (c.fx::<mode::Zero, 2>().num_partial_cmp(&c.fy::<mode::Down, 2>()), c.rx::<2>().num_partial_cmp(&c.ry::<2>())), |d| pre_no_same(d, 2));
    entry!(v, "float", F, 10, "Repr<10> NumOrd Repr<2>", FXY, |c| c.rx::<10>().num_partial_cmp(&c.ry::<2>()), |d| pre_no(d, 10, true));
    entry!(v, "float", F, 10, "FBig<HalfAway,10> NumOrd UBig/IBig (both directions)", U0.x().a(2), |c| { let x = c.fx::<mode::HalfAway, 10>(); (x.num_partial_cmp(&c.ua()), x.num_partial_cmp(&c.ia()), c.ia().num_partial_cmp(&x)) }, |d| pre_no(d, 10, false));
    entry!(v, "float", F, 2, "FBig<Zero,2> NumOrd u8/i64/u128 (both directions)", U0.x().k(), |c| { let x = c.fx::<mode::Zero, 2>(); (x.num_partial_cmp(&(c.k128() as u8)), (c.k128() as i64).num_partial_cmp(&x), x.num_partial_cmp(&(c.k128() as u128))) }, |d| pre_no(d, 2, false));
    entry!(v, "float", F, 2, "FBig<Zero,2> NumOrd f32/f64 (both directions)", U0.x().n(NK::F64), |c| { let x = c.fx::<mode::Zero, 2>(); let (f, g) = (f32::from_bits(c.n as u32), f64::from_bits(c.n)); (x.num_partial_cmp(&f), g.num_partial_cmp(&x), x.num_partial_cmp(&g)) }, |d| pre_no(d, 2, false));
    entry!(v, "float", F, 10, "FBig<HalfAway,10> NumOrd f32/f64 (both directions)", U0.x().n(NK::F64), |c| { let x = c.fx::<mode::HalfAway, 10>(); let (f, g) = (f32::from_bits(c.n as u32), f64::from_bits(c.n)); (x.num_partial_cmp(&f), g.num_partial_cmp(&x), x.num_partial_cmp(&g)) }, |d| pre_no(d, 10, false));
    entry!(v, "float", F, 2, "FBig<Zero,2> NumHash", FX, |c| nh(&c.fx::<mode::Zero, 2>()), |d| pre_no(d, 2, false));
    entry!(v, "float", F, 10, "FBig<HalfAway,10> NumHash", FX, |c| nh(&c.fx::<mode::HalfAway, 10>()), |d| pre_no(d, 10, false));
    const Q: &str = "ratio: num-order (NumOrd / NumHash)";
    entry!(v, "ratio", Q, 0, "RBig NumOrd Relaxed/UBig/IBig", Q2, |c| (c.q1().num_partial_cmp(&c.l2()), c.q1().num_partial_cmp(&c.uc()), c.ic().num_partial_cmp(&c.q1())), |_d| ret());
    entry!(v, "ratio", Q, 0, "Relaxed NumOrd i64/u128", Q1.k(), |c| (c.l1().num_partial_cmp(&(c.k128() as i64)), (c.k128() as u128).num_partial_cmp(&c.l1())), |_d| ret());
    entry!(v, "ratio", Q, 0, "RBig NumOrd f32/f64 (both directions)", Q1.n(NK::F64), |c| { let (f, g) = (f32::from_bits(c.n as u32), f64::from_bits(c.n)); (c.q1().num_partial_cmp(&f), g.num_partial_cmp(&c.q1()), c.l1().num_partial_cmp(&g)) }, |_d| ret());
    entry!(v, "ratio", Q, 10, "RBig NumOrd FBig<HalfAway,10> (both directions)", Q1.x(), |c| { let x = c.fx::<mode::HalfAway, 10>(); (c.q1().num_partial_cmp(&x), x.num_partial_cmp(&c.l1())) }, |d| pre_no(d, 10, false));
    entry!(v, "ratio", Q, 0, "RBig/Relaxed NumHash", Q1, |c| (nh(&c.q1()), nh(&c.l1())), |_d| ret());
}

static CAT: OnceLock<Vec<Op>> = OnceLock::new();
static INDEX: OnceLock<HashMap<String, usize>> = OnceLock::new();

fn cat() -> &'static Vec<Op> {
    CAT.get_or_init(build_catalogue)
}
fn index() -> &'static HashMap<String, usize> {
    INDEX.get_or_init(|| {
        let mut m = HashMap::new();
        for (i, o) in cat().iter().enumerate() {
            if m.insert(o.name.clone(), i).is_some() {
                infra(&format!("catalogue: duplicate entry name {}", o.name));
            }
        }
        m
    })
}

// ================================================================================================
// worker process
// ================================================================================================

fn worker_main() -> ! {
    install_panic_hook();
    // die with the parent, even in the middle of a call that never returns
    let ppid = std::os::unix::process::parent_id();
    std::thread::spawn(move || loop {
        std::thread::sleep(Duration::from_millis(500));
        if std::os::unix::process::parent_id() != ppid {
            std::process::exit(3);
        }
    });
    let idx = index();
    let stdin = std::io::stdin();
    let stdout = std::io::stdout();
    for line in stdin.lock().lines() {
        let line = match line {
            Ok(l) => l,
            Err(_) => break,
        };
        if line.trim().is_empty() {
            continue;
        }
        let answer = match serde_json::from_str::<Case>(&line) {
            Err(e) => json!({"ok": false, "panic": null, "value": null, "error": format!("bad request: {e}")}),
            Ok(case) => match idx.get(&case.op) {
                None => json!({"ok": false, "panic": null, "value": null, "error": format!("unknown operation {}", case.op)}),
                Some(&i) => {
                    let op = &cat()[i];
                    match catch(|| (op.run)(&case)) {
                        Ok(v) => json!({"ok": true, "panic": null, "value": truncate(&v, 200)}),
                        Err(m) => json!({"ok": false, "panic": truncate(&m, 600), "value": null}),
                    }
                }
            },
        };
        let mut o = stdout.lock();
        if writeln!(o, "{}", answer).is_err() || o.flush().is_err() {
            break;
        }
    }
    std::process::exit(0);
}

// ================================================================================================
// parent side: supervised workers
// ================================================================================================

struct Worker {
    child: Child,
    stdin: Option<ChildStdin>,
    rx: Receiver<String>,
    err_tail: Arc<Mutex<String>>,
    pid: u32,
    calls: u64,
}

enum Raw {
    Line(String),
    /// no answer within the limit; CPU seconds the worker consumed meanwhile
    Timeout { cpu_s: f64, wall_s: f64 },
    /// the worker is gone (EOF on its stdout): exit status + last stderr text
    Dead(String),
}

fn have_prlimit() -> bool {
    static P: OnceLock<bool> = OnceLock::new();
    *P.get_or_init(|| Command::new("prlimit").arg("--version").stdout(Stdio::null()).stderr(Stdio::null()).status().map(|s| s.success()).unwrap_or(false))
}

const AS_LIMIT: u64 = 4 << 30;

/// The harness is built with debug assertions and overflow checks; dashu guards several
/// preconditions only by `debug_assert!` or by arithmetic that merely overflows (e.g. `ln` of a
/// negative number).  To observe what an ordinary release build does, the same binary is built a
/// second time with both switched off ("plain" worker) into `<target dir>-plain`.
fn plain_exe() -> &'static std::path::PathBuf {
    static P: OnceLock<std::path::PathBuf> = OnceLock::new();
    P.get_or_init(|| {
        let exe = std::env::current_exe().unwrap_or_else(|e| infra(&format!("current_exe: {e}")));
        // <target>/release/c16
        let target = exe.parent().and_then(|p| p.parent()).unwrap_or_else(|| infra("cannot locate the target directory"));
        let plain_target = std::path::PathBuf::from(format!("{}-plain", target.display()));
        let ws = std::path::Path::new(env!("CARGO_MANIFEST_DIR")).parent().unwrap().to_path_buf();
        let out = Command::new("cargo")
            .current_dir(&ws)
            .args(["build", "--release", "--bin", "c16", "--target-dir"])
            .arg(&plain_target)
            .env("CARGO_PROFILE_RELEASE_DEBUG_ASSERTIONS", "false")
            .env("CARGO_PROFILE_RELEASE_OVERFLOW_CHECKS", "false")
            .env("CARGO_NET_OFFLINE", "true")
            .env("CARGO_TERM_COLOR", "never")
            .env("RUSTFLAGS", std::env::var("RUSTFLAGS").unwrap_or_else(|_| "--cfg dashu_verif".into()))
            .output()
            .unwrap_or_else(|e| infra(&format!("cannot run cargo for the plain worker: {e}")));
        if !out.status.success() {
            let err = String::from_utf8_lossy(&out.stderr);
            let tail: Vec<&str> = err.lines().filter(|l| l.starts_with("error") || l.contains("-->")).take(8).collect();
            infra(&format!("build of the plain worker (no debug assertions / overflow checks) failed: {}", truncate(&tail.join(" | "), 600)));
        }
        let p = plain_target.join("release").join("c16");
        if !p.exists() {
            infra(&format!("plain worker binary missing: {}", p.display()));
        }
        p
    })
}

impl Worker {
    fn spawn(plain: bool) -> Worker {
        let exe = if plain { plain_exe().clone() } else { std::env::current_exe().unwrap_or_else(|e| infra(&format!("current_exe: {e}"))) };
        let mut cmd = if have_prlimit() {
            let mut c = Command::new("prlimit");
            c.arg(format!("--as={AS_LIMIT}")).arg("--").arg(&exe).arg("--worker");
            c
        } else {
            let mut c = Command::new(&exe);
            c.arg("--worker");
            c
        };
        cmd.stdin(Stdio::piped()).stdout(Stdio::piped()).stderr(Stdio::piped());
        let mut child = cmd.spawn().unwrap_or_else(|e| infra(&format!("cannot start worker: {e}")));
        let stdin = child.stdin.take();
        let stdout = child.stdout.take().unwrap();
        let stderr = child.stderr.take().unwrap();
        let (tx, rx) = channel::<String>();
        std::thread::spawn(move || {
            let r = BufReader::new(stdout);
            for l in r.lines() {
                match l {
                    Ok(l) => {
                        if tx.send(l).is_err() {
                            break;
                        }
                    }
                    Err(_) => break,
                }
            }
        });
        let err_tail = Arc::new(Mutex::new(String::new()));
        let et = err_tail.clone();
        std::thread::spawn(move || {
            let r = BufReader::new(stderr);
            for l in r.lines() {
                match l {
                    Ok(l) => {
                        let mut g = et.lock().unwrap();
                        g.push_str(&l);
                        g.push(' ');
                        if g.len() > 1200 {
                            let cut = g.len() - 800;
                            let mut k = cut;
                            while !g.is_char_boundary(k) {
                                k += 1;
                            }
                            *g = g[k..].to_string();
                        }
                    }
                    Err(_) => break,
                }
            }
        });
        let pid = child.id();
        Worker { child, stdin, rx, err_tail, pid, calls: 0 }
    }

    fn cpu_seconds(&self) -> f64 {
        // /proc/<pid>/stat: fields 14 and 15 (utime, stime) in clock ticks (100 Hz on Linux)
        let s = match std::fs::read_to_string(format!("/proc/{}/stat", self.pid)) {
            Ok(s) => s,
            Err(_) => return 0.0,
        };
        let rest = match s.rfind(')') {
            Some(i) => &s[i + 1..],
            None => return 0.0,
        };
        let f: Vec<&str> = rest.split_whitespace().collect();
        // rest starts at field 3 (state): utime = field 14 -> index 11, stime = index 12
        let u: f64 = f.get(11).and_then(|x| x.parse().ok()).unwrap_or(0.0);
        let st: f64 = f.get(12).and_then(|x| x.parse().ok()).unwrap_or(0.0);
        (u + st) / 100.0
    }

    fn call(&mut self, line: &str, limit: Duration) -> Raw {
        self.calls += 1;
        let cpu0 = self.cpu_seconds();
        let t0 = Instant::now();
        let sent = match self.stdin.as_mut() {
            Some(si) => si.write_all(line.as_bytes()).and_then(|_| si.write_all(b"\n")).and_then(|_| si.flush()).is_ok(),
            None => false,
        };
        if !sent {
            return Raw::Dead(self.obituary());
        }
        match self.rx.recv_timeout(limit) {
            Ok(l) => Raw::Line(l),
            Err(RecvTimeoutError::Timeout) => Raw::Timeout { cpu_s: self.cpu_seconds() - cpu0, wall_s: t0.elapsed().as_secs_f64() },
            Err(RecvTimeoutError::Disconnected) => Raw::Dead(self.obituary()),
        }
    }

    /// exit status and last words of a worker that closed its stdout
    fn obituary(&mut self) -> String {
        let mut status = String::from("still running");
        for _ in 0..200 {
            match self.child.try_wait() {
                Ok(Some(st)) => {
                    use std::os::unix::process::ExitStatusExt;
                    status = match (st.code(), st.signal()) {
                        (Some(c), _) => format!("exit status {c}"),
                        (None, Some(s)) => format!("killed by signal {s}"),
                        _ => "ended".into(),
                    };
                    break;
                }
                Ok(None) => std::thread::sleep(Duration::from_millis(10)),
                Err(_) => break,
            }
        }
        std::thread::sleep(Duration::from_millis(20));
        let tail = self.err_tail.lock().unwrap().clone();
        format!("{status}; stderr: {}", truncate(tail.trim(), 300))
    }

    fn kill(&mut self) {
        self.stdin = None;
        let _ = self.child.kill();
        let _ = self.child.wait();
    }
}

impl Drop for Worker {
    fn drop(&mut self) {
        self.kill();
    }
}

static POOLS: [Mutex<Vec<Worker>>; 2] = [Mutex::new(Vec::new()), Mutex::new(Vec::new())];

fn pool_take(plain: bool) -> Worker {
    let w = POOLS[plain as usize].lock().unwrap().pop();
    w.unwrap_or_else(|| Worker::spawn(plain))
}
fn pool_give(plain: bool, w: Worker) {
    POOLS[plain as usize].lock().unwrap().push(w);
}
fn pool_shutdown() {
    for p in &POOLS {
        let ws: Vec<Worker> = std::mem::take(&mut *p.lock().unwrap());
        drop(ws);
    }
}

/// what the parent observed for one call
#[derive(Debug, Clone)]
enum Obs {
    Ret(String),
    Panic(String),
    /// confirmed per the hang rule
    Hang(String),
    /// confirmed: the worker died / the call ran out of memory, twice
    Mem(String),
    /// timed out under the shortened limit used for *active known* hang classes (not confirmed)
    KnownSlow(String),
    Inconclusive(String),
}

const LIMIT1: Duration = Duration::from_secs(10);
const LIMIT2: Duration = Duration::from_secs(30);
const LIMIT_KNOWN: Duration = Duration::from_secs(2);
/// inputs that are not small can only ever be inconclusive: do not wait long for them
const LIMIT_BIG: Duration = Duration::from_secs(2);

enum Once {
    Ret(String),
    Panic(String),
    Timeout { cpu_s: f64, wall_s: f64 },
    Dead(String),
    Infra(String),
}

fn one_call(w: &mut Worker, line: &str, limit: Duration) -> Once {
    match w.call(line, limit) {
        Raw::Line(l) => match serde_json::from_str::<serde_json::Value>(&l) {
            Err(e) => Once::Infra(format!("unreadable worker answer {l:?}: {e}")),
            Ok(v) => {
                if let Some(e) = v.get("error").and_then(|e| e.as_str()) {
                    Once::Infra(e.to_string())
                } else if v["ok"].as_bool() == Some(true) {
                    Once::Ret(v["value"].as_str().unwrap_or("").to_string())
                } else {
                    Once::Panic(v["panic"].as_str().unwrap_or("<panic>").to_string())
                }
            }
        },
        Raw::Timeout { cpu_s, wall_s } => Once::Timeout { cpu_s, wall_s },
        Raw::Dead(s) => Once::Dead(s),
    }
}

fn is_mem_panic(m: &str) -> bool {
    m.contains("out of memory") || m.contains("allocate too much memory") || m.contains("capacity overflow") || m.contains("memory allocation")
}

/// run one case under supervision; `small` and `known_hang` come from the precondition table
fn observe(c: &Case, small: bool, known_hang: bool, plain: bool) -> Obs {
    let line = serde_json::to_string(c).unwrap_or_else(|e| infra(&format!("cannot encode case: {e}")));
    let mut w = pool_take(plain);
    let first = one_call(&mut w, &line, if known_hang { LIMIT_KNOWN } else if small { LIMIT1 } else { LIMIT_BIG });
    match first {
        Once::Ret(v) => {
            pool_give(plain, w);
            Obs::Ret(v)
        }
        Once::Panic(m) => {
            pool_give(plain, w);
            if is_mem_panic(&m) {
                if !small {
                    return Obs::Inconclusive(format!("memory exhausted on an input that is not small: {}", normalise(&m)));
                }
                // confirm in a fresh worker (the address-space cap is per process)
                let mut f = Worker::spawn(plain);
                let again = one_call(&mut f, &line, LIMIT2);
                let r = match again {
                    Once::Panic(m2) if is_mem_panic(&m2) => Obs::Mem(format!("panicked with {}", normalise(&m2))),
                    Once::Dead(s) => Obs::Mem(format!("panicked with {} and then killed the worker ({s})", normalise(&m))),
                    Once::Timeout { .. } => Obs::Mem(format!("panicked with {} and did not return within {} s in a fresh worker", normalise(&m), LIMIT2.as_secs())),
                    Once::Ret(_) | Once::Panic(_) => Obs::Inconclusive(format!("memory panic not reproduced in a fresh worker: {}", normalise(&m))),
                    Once::Infra(e) => infra(&e),
                };
                if matches!(again_alive(&r), true) {
                    pool_give(plain, f);
                }
                r
            } else {
                Obs::Panic(m)
            }
        }
        Once::Infra(e) => infra(&e),
        Once::Timeout { cpu_s, wall_s } => {
            drop(w); // kills it
            if known_hang {
                return Obs::KnownSlow(format!("no answer within {:.0} s (worker used {:.1} s CPU)", wall_s, cpu_s));
            }
            if !small {
                return Obs::Inconclusive(format!("no answer within {:.0} s on an input that is not small", wall_s));
            }
            if cpu_s < 0.5 * wall_s {
                return Obs::Inconclusive(format!("no answer within {:.0} s but the worker only got {:.1} s CPU (machine overloaded)", wall_s, cpu_s));
            }
            let mut f = Worker::spawn(plain);
            match one_call(&mut f, &line, LIMIT2) {
                Once::Timeout { cpu_s: c2, wall_s: w2 } => {
                    drop(f);
                    if c2 < 0.5 * w2 {
                        Obs::Inconclusive(format!("no answer within {:.0} s, and in a fresh worker within {:.0} s with only {:.1} s CPU (machine overloaded)", wall_s, w2, c2))
                    } else {
                        Obs::Hang(format!("no answer within {:.0} s, and none within {:.0} s in a fresh worker ({:.0} s CPU)", wall_s, w2, c2))
                    }
                }
                Once::Dead(s) => Obs::Mem(format!("no answer within {:.0} s; in a fresh worker the process died: {s}", wall_s)),
                Once::Panic(m) if is_mem_panic(&m) => {
                    pool_give(plain, f);
                    Obs::Mem(format!("no answer within {:.0} s; in a fresh worker: {}", wall_s, normalise(&m)))
                }
                Once::Ret(_) | Once::Panic(_) => {
                    pool_give(plain, f);
                    Obs::Inconclusive(format!("no answer within {:.0} s but answered within {} s in a fresh worker", wall_s, LIMIT2.as_secs()))
                }
                Once::Infra(e) => infra(&e),
            }
        }
        Once::Dead(s) => {
            drop(w);
            if !small {
                return Obs::Inconclusive(format!("worker died on an input that is not small: {s}"));
            }
            let mut f = Worker::spawn(plain);
            match one_call(&mut f, &line, LIMIT2) {
                Once::Dead(s2) => Obs::Mem(format!("worker died twice: {s2}")),
                Once::Timeout { wall_s, .. } => Obs::Mem(format!("worker died ({s}); in a fresh worker no answer within {:.0} s", wall_s)),
                Once::Panic(m) if is_mem_panic(&m) => {
                    pool_give(plain, f);
                    Obs::Mem(format!("worker died ({s}); in a fresh worker: {}", normalise(&m)))
                }
                Once::Ret(_) | Once::Panic(_) => {
                    pool_give(plain, f);
                    Obs::Inconclusive(format!("worker died once ({s}), not reproduced in a fresh worker"))
                }
                Once::Infra(e) => infra(&e),
            }
        }
    }
}

fn again_alive(o: &Obs) -> bool {
    !matches!(o, Obs::Mem(m) if m.contains("killed the worker") || m.contains("did not return"))
}

// ================================================================================================
// the oracle
// ================================================================================================

fn words_of(i: &Int) -> usize {
    i.mag.trimmed_len()
}

fn flt_small(f: &Flt, cheap_exp: bool) -> bool {
    f.inf != 0 || (words_of(&f.sig) <= 8 && (cheap_exp || f.exp.unsigned_abs() <= 1000) && f.prec <= 100)
}

fn is_small(c: &Case, op: &Op, e: &Exp) -> bool {
    let u = &op.uses;
    !e.heavy
        && (u.a == 0 || words_of(&c.a) <= 8)
        && (u.b == 0 || words_of(&c.b) <= 8)
        && (u.c == 0 || words_of(&c.c) <= 8)
        && (u.d == 0 || words_of(&c.d) <= 8)
        && (!u.x || flt_small(&c.x, e.cheap_exp))
        && (!u.y || flt_small(&c.y, e.cheap_exp))
        && (!u.p || c.p <= 100)
        && c.s.len() <= 200
        && (!matches!(u.n, NK::Grow | NK::Pow | NK::Prec) || c.n <= 4096)
}

/// an edge value is involved (zero, one, infinity, empty string, zero count ...)
fn has_edge(c: &Case, op: &Op) -> bool {
    let u = &op.uses;
    let ie = |i: &Int| i.is_zero() || (i.mag.trimmed_len() == 1 && i.mag.0[0] == 1);
    let fe = |f: &Flt| f.inf != 0 || f.sig.is_zero() || f.prec <= 1;
    (u.a != 0 && ie(&c.a))
        || (u.b != 0 && ie(&c.b))
        || (u.c != 0 && ie(&c.c))
        || (u.d != 0 && ie(&c.d))
        || (u.n != NK::None && (c.n <= 1 || c.n >= u32::MAX as u64))
        || (u.k && ie(&c.k))
        || (u.s != SK::None && (c.s.is_empty() || !c.s.is_ascii() || c.s.len() > 1000 || c.s.len() <= 1))
        || (u.x && fe(&c.x))
        || (u.y && fe(&c.y))
        || (u.p && c.p <= 1)
}

fn describe(c: &Case, op: &Op) -> String {
    let u = &op.uses;
    let mut s = format!("{}(", op.name);
    let mut first = true;
    let mut add = |t: String| {
        if !first {
            s.push_str(", ");
        }
        first = false;
        s.push_str(&t);
    };
    let fl = |f: &Flt| match f.inf {
        0 => format!("{:?}·B^{}@p{}", f.sig, f.exp, f.prec),
        i if i > 0 => format!("+inf@p{}", f.prec),
        _ => format!("-inf@p{}", f.prec),
    };
    if u.a != 0 {
        add(format!("a={:?}", c.a));
    }
    if u.b != 0 {
        add(format!("b={:?}", c.b));
    }
    if u.c != 0 {
        add(format!("c={:?}", c.c));
    }
    if u.d != 0 {
        add(format!("d={:?}", c.d));
    }
    if u.n != NK::None {
        add(format!("n={}", c.n));
    }
    if u.k {
        add(format!("k={:?}", c.k));
    }
    if u.s != SK::None {
        add(format!("s={:?}", truncate(&c.s, 60)));
    }
    if u.x {
        add(format!("x={}", fl(&c.x)));
    }
    if u.y {
        add(format!("y={}", fl(&c.y)));
    }
    if u.p {
        add(format!("ctx p={}", c.p));
    }
    s.push(')');
    s
}

fn krate_label(k: &str) -> &'static str {
    match k {
        "int" => "crate:dashu-int",
        "float" => "crate:dashu-float",
        "ratio" => "crate:dashu-ratio",
        _ => "crate:dashu-base",
    }
}

/// development aid: C16_SURVEY=1 prints every violating (entry, expectation) once instead of stopping
/// at the first violation (the exit status is meaningless in that mode)
fn survey() -> bool {
    static S: OnceLock<bool> = OnceLock::new();
    *S.get_or_init(|| std::env::var("C16_SURVEY").is_ok())
}
static SURVEYED: Mutex<Option<std::collections::HashSet<String>>> = Mutex::new(None);

fn judge(c: &Case, ctx: &Ctx) -> Out {
    let mut out = judge_inner(c, ctx);
    if survey() {
        if let Verdict::Violation(sig) = &out.verdict {
            let op = c.op.clone();
            let exp = index().get(&c.op).map(|&i| (cat()[i].pre)(c).label).unwrap_or("");
            let key = format!("{op}|{exp}");
            let mut g = SURVEYED.lock().unwrap();
            if g.get_or_insert_with(Default::default).insert(key) {
                eprintln!("SURVEY {}\n       case={}", truncate(sig, 500), truncate(&serde_json::to_string(c).unwrap_or_default(), 700));
            }
            out.verdict = Verdict::Pass;
        }
    }
    out
}

fn judge_inner(c: &Case, ctx: &Ctx) -> Out {
    let mut out = Out::new();
    let op = match index().get(&c.op) {
        Some(&i) => &cat()[i],
        None => {
            out.fail(format!("case names an operation that is not in the catalogue: {}", c.op));
            return out;
        }
    };
    let exp = (op.pre)(c);
    out.label(op.fam);
    out.label(krate_label(op.krate));
    out.label(exp.label);
    out.label(match exp.kind {
        Kind::Ret => "expect: must return",
        Kind::Pan => "expect: must panic",
        Kind::Unspec => "expect: unspecified (panic or return)",
    });
    out.nontrivial(exp.kind == Kind::Pan || has_edge(c, op));
    let small = is_small(c, op, &exp);
    out.label(if small { "size: small (hang rule applies)" } else { "size: not small" });
    let known_hang = !ctx.strict && exp.known.iter().any(|k| matches!(k.on, On::HangOrMem) && ctx.known.active(k.id));
    let what = describe(c, op);
    // build with debug assertions + overflow checks (the harness profile)
    let obs = observe(c, small, known_hang, false);
    let debug_panicked = matches!(obs, Obs::Panic(_));
    assess(&mut out, ctx, &exp, obs, &what, "checked build");
    // ordinary release build: every call whose precondition table entry is not "must return",
    // every call that panicked in the checked build, and a fixed quarter of the rest
    let quarter = {
        use std::hash::{Hash, Hasher};
        let mut h = std::collections::hash_map::DefaultHasher::new();
        c.hash(&mut h);
        h.finish() % 4 == 0
    };
    if !matches!(out.verdict, Verdict::Violation(_)) && (exp.kind != Kind::Ret || debug_panicked || quarter) {
        out.label("also run in the plain release build");
        let obs = observe(c, small, known_hang, true);
        assess(&mut out, ctx, &exp, obs, &what, "plain release build");
    }
    out
}

/// judge one observation against the expectation
fn assess(out: &mut Out, ctx: &Ctx, exp: &Exp, obs: Obs, what: &str, build: &'static str) {
    let plain = build != "checked build";
    // a failing observation: known finding if one of the entry's specs covers it, else violation
    let failing = |out: &mut Out, kind: u8, panic_msg: &str, detail: String| {
        for k in &exp.known {
            let hit = match k.on {
                On::Panic(t) => kind == 0 && panic_msg.contains(t),
                On::HangOrMem => kind == 1,
                On::Returns => kind == 2,
            };
            if hit {
                ctx.known_or_fail(out, k.id, || detail.clone());
                return;
            }
        }
        out.fail(detail);
    };
    match obs {
        Obs::Ret(v) => {
            out.label(if plain { "observed (plain build): returned" } else { "observed: returned" });
            if exp.kind == Kind::Pan {
                failing(out, 2, "", format!("{what} [{build}]: returned {v} although a documented precondition is violated ({})", exp.label));
            }
        }
        Obs::Panic(m) => {
            out.label(if plain { "observed (plain build): panicked" } else { "observed: panicked" });
            match exp.kind {
                Kind::Ret => failing(out, 0, &m, format!("{what} [{build}]: panicked although no documented precondition is violated: {}", normalise(&m))),
                Kind::Pan => {
                    if !exp.msgs.is_empty() && !exp.msgs.iter().any(|t| m.contains(t)) {
                        failing(out, 0, &m, format!("{what} [{build}]: panicked, but not with the documented message {:?} ({}): {}", exp.msgs, exp.label, normalise(&m)));
                    }
                }
                Kind::Unspec => {
                    if !exp.msgs.is_empty() && !exp.msgs.iter().any(|t| m.contains(t)) {
                        failing(out, 0, &m, format!("{what} [{build}]: panicked, but not with the message documented for this rejection {:?} ({}): {}", exp.msgs, exp.label, normalise(&m)));
                    }
                }
            }
        }
        Obs::Hang(s) => {
            out.label("observed: did not return");
            failing(out, 1, "", format!("{what} [{build}]: does not return ({s}; expectation: {})", exp.label));
        }
        Obs::Mem(s) => {
            out.label("observed: exhausted memory / aborted");
            failing(out, 1, "", format!("{what} [{build}]: exhausts memory / aborts ({}; expectation: {})", normalise(&s), exp.label));
        }
        Obs::KnownSlow(s) => {
            out.label("observed: did not return (known class, short limit)");
            failing(out, 1, "", format!("{what} [{build}]: does not return ({s}; expectation: {})", exp.label));
        }
        Obs::Inconclusive(s) => {
            out.label("observed: inconclusive");
            out.inconclusive(format!("{what} [{build}]: {s}"));
        }
    }
}

// ================================================================================================
// edge-value pools and case strategies
// ================================================================================================

fn nat_edge() -> BoxedStrategy<Nat> {
    prop_oneof![
        6 => Just(Nat(vec![])),
        5 => Just(Nat(vec![1])),
        3 => Just(Nat(vec![2])),
        3 => prop::sample::select(vec![3u64, 4, 7, 10, 36, 37, 255, 256, 1 << 32, 1 << 63]).prop_map(|w| Nat(vec![w])),
        3 => Just(Nat(vec![u64::MAX])),
        3 => Just(Nat(vec![0, 1])),
        1 => Just(Nat(vec![1, 1])),
        2 => Just(Nat(vec![u64::MAX, u64::MAX])),
        3 => Just(Nat(vec![0, 0, 1])),
        1 => Just(Nat(vec![1, 0, 1])),
        3 => (2u64..1000).prop_map(|w| Nat(vec![w])),
        3 => any::<u64>().prop_map(|w| Nat(vec![w.max(1)])),
        2 => gen::nat_len(2, 2),
        4 => gen::nat_len(3, 8),
        3 => (0u8..gen::N_PATTERNS, any::<u64>()).prop_map(|(p, s)| Nat(gen::expand(40, p, s))),
        1 => gen::nat_len(9, 80),
        // lengths at which the multiplication / division / conversion algorithms switch
        2 => (prop::sample::select(vec![31usize, 32, 33, 64, 65, 191, 192, 193]), 0u8..gen::N_PATTERNS, any::<u64>()).prop_map(|(l, p, s)| Nat(gen::expand(l, p, s))),
    ]
    .boxed()
}

fn int_edge() -> BoxedStrategy<Int> {
    (nat_edge(), any::<bool>()).prop_map(|(m, neg)| Int { neg: neg && !m.is_zero(), mag: m }).boxed()
}

/// exponents of powi
fn exp_edge() -> BoxedStrategy<Int> {
    prop_oneof![
        8 => prop::sample::select(vec![0i128, 1, -1, 2, -2, 3, -3, 10, -10, 64, 100, -100, 1000, -1000]).prop_map(Int::from_i128),
        2 => prop::sample::select(vec![1i128 << 16, -(1i128 << 16), 1i128 << 40, 1i128 << 64, -(1i128 << 64), i64::MAX as i128]).prop_map(Int::from_i128),
        1 => int_edge(),
    ]
    .boxed()
}

fn prim_edge() -> BoxedStrategy<Int> {
    prop_oneof![
        10 => prop::sample::select(vec![
            0i128, 1, -1, 2, -2, 3, 7, 10, 127, 128, -128, -129, 255, 256, 32767, -32768, 65535, 65536,
            i32::MAX as i128, i32::MIN as i128, u32::MAX as i128, 1 << 32,
            i64::MAX as i128, i64::MIN as i128, u64::MAX as i128, 1 << 64, i128::MAX, i128::MIN,
        ])
        .prop_map(Int::from_i128),
        1 => Just(Int { neg: false, mag: Nat(vec![u64::MAX, u64::MAX]) }),
        3 => any::<i128>().prop_map(Int::from_i128),
        2 => (any::<i64>()).prop_map(|v| Int::from_i128(v as i128)),
        2 => (-300i128..300).prop_map(Int::from_i128),
    ]
    .boxed()
}

fn prec_edge() -> BoxedStrategy<u32> {
    prop_oneof![
        4 => Just(0u32),
        4 => Just(1u32),
        6 => prop::sample::select(vec![2u32, 3, 5, 10, 20, 53, 64, 100]),
        1 => prop::sample::select(vec![101u32, 300, 1000]),
    ]
    .boxed()
}

fn count_edge(k: NK) -> BoxedStrategy<u64> {
    let sel = |v: Vec<u64>| prop::sample::select(v).boxed();
    match k {
        NK::None => Just(0u64).boxed(),
        NK::Grow => sel(vec![0, 1, 2, 63, 64, 65, 127, 128, 129, 191, 192, 1000, 4096, 1 << 16, 1 << 20]),
        NK::Pos => sel(vec![0, 1, 2, 63, 64, 65, 127, 128, 129, 191, 192, 1000, 4096, 1 << 16, 1 << 20, 1 << 40, u64::MAX - 1, u64::MAX]),
        NK::Pow => sel(vec![0, 1, 2, 3, 4, 5, 10, 64, 100, 1000, 1 << 16, 1 << 20, 1 << 32, u64::MAX]),
        NK::Root => sel(vec![0, 1, 2, 3, 4, 5, 7, 63, 64, 65, 1000, 1 << 32, u64::MAX - 1, u64::MAX]),
        NK::Radix => sel(vec![0, 1, 2, 3, 8, 10, 16, 35, 36, 37, 64, 255, 256, u32::MAX as u64]),
        NK::Chunk => sel(vec![0, 1, 2, 7, 8, 63, 64, 65, 128, 1000, 1 << 16]),
        NK::Prec => sel(vec![0, 1, 2, 3, 10, 53, 64, 100, 1000]),
        NK::F32 => prop_oneof![
            4 => sel(vec![0, 0x8000_0000, 0x3f80_0000, 0xbf80_0000, 0x7f80_0000, 0xff80_0000, 0x7fc0_0000, 0xffc0_0001, 1, 0x007f_ffff, 0x0080_0000, 0x7f7f_ffff, 0x3f00_0000, 0x4b80_0000, 0x5f00_0000]),
            1 => any::<u32>().prop_map(|v| v as u64),
        ]
        .boxed(),
        NK::F64 => prop_oneof![
            4 => sel(vec![
                0, 1 << 63, 0x3ff0_0000_0000_0000, 0xbff0_0000_0000_0000, 0x7ff0_0000_0000_0000, 0xfff0_0000_0000_0000, 0x7ff8_0000_0000_0000, 0xfff8_0000_0000_0001, 1, 0x000f_ffff_ffff_ffff,
                0x0010_0000_0000_0000, 0x7fef_ffff_ffff_ffff, 0x3fe0_0000_0000_0000, 0x4340_0000_0000_0000, 0x43e0_0000_0000_0000, 0x47f0_0000_0000_0000,
            ]),
            1 => any::<u64>(),
        ]
        .boxed(),
        NK::Sel => (0u64..16).boxed(),
    }
}

fn flt_edge(base: u64) -> BoxedStrategy<Flt> {
    let fixed: Vec<(i64, i64)> = vec![
        (0, 0),
        (1, 0),
        (-1, 0),
        (2, 0),
        (-2, 0),
        (3, 0),
        (-3, 0),
        (1, -1),
        (-1, -1),
        (1, 1),
        (1, 2),
        (5, -1),
        (25, -1),
        (-3, -1),
        (-11, -1),
        (-9, -1),
        (15, -1),
        (7, -2),
        (1, 64),
        (1, -64),
        (-1, 64),
        (1, 1000),
        (1, -1000),
        (-1, 1000),
        (-1, -1000),
        (3, 1000),
        (12345, -2),
        (99, 0),
        (101, -2),
        (1, 40),
    ];
    let far: Vec<(i64, i64)> = vec![(1, 1 << 21), (1, -(1 << 21)), (7, 1 << 27), (12345, 300_000_000), (-9973, 1 << 30), (5, -(1 << 28)), (3, 1 << 40), (-3, -(1 << 40)), (1, 1 << 62), (-1, -(1 << 62)), (1, i64::MAX), (1, i64::MIN + 1), (-7, i64::MAX - 1)];
    let mk = |(s, e): (i64, i64)| (Int::from_i128(s as i128), e);
    let val = prop_oneof![
        24 => prop::sample::select(fixed).prop_map(mk),
        4 => prop::sample::select(far).prop_map(mk),
        12 => (int_edge(), prop::sample::select(vec![0i64, 1, -1, 2, -2, 10, -10, 63, -64, 100, -100, 999, -999])),
    ];
    (prop_oneof![18 => Just(0i8), 1 => Just(1i8), 1 => Just(-1i8)], val, prec_edge(), 0u8..4)
        .prop_map(move |(inf, (sig, exp), prec, pm)| {
            if inf != 0 {
                return Flt { inf, sig: Int::default(), exp: 0, prec };
            }
            let f = Flt { inf: 0, sig, exp, prec };
            // half of the time give the operand exactly as many digits of precision as it has
            let v = fv(&f, base);
            let prec = match pm {
                0 if prec != 0 => v.digits.max(1).min(u32::MAX as u64) as u32,
                _ => prec,
            };
            Flt { prec, ..f }
        })
        .boxed()
}

const INT_STRINGS: &[&str] = &[
    "", "+", "-", "_", "0", "-0", "+0", "00", "1", "-1", "+1", "7", "123", "-123", "+123", "1_000", "_1", "1_", "__", "1__2", "-_1", "+_", "0x", "0b", "0o", "0x1f", "0X1F", "0b101", "0o17", "-0x1f", "+0b1",
    "0x_", "0x-1", "zz", "ZZ", "-zz", "é", "1é", "é1", "１２３", "٣", "\u{0}", "1\u{0}", " 1", "1 ", "1\n", "\t", "+-1", "--1", "-+1", "1e5", "1.5", "1/2", "18446744073709551615", "18446744073709551616",
    "340282366920938463463374607431768211456", "-340282366920938463463374607431768211456", "ffffffffffffffffffffffffffffffff", "100000000000000000000000000000000000000000000000000000000000000000",
    "0000000000000000000000000000000000000000000000000000000000000000000000000000000000000000000", "🦀", "1🦀", "\u{feff}1", "١٢٣", "1\u{200b}2", "Infinity", "NaN", "0x0", "0b2", "0o8", "08", "-", "+ 1",
];
const FLOAT_STRINGS: &[&str] = &[
    "", ".", "+", "-", "_", "+.", "-.", "0", "0.", ".0", "0.0", "1", "-1", "+1", "1.5", "-1.5", "+1.5", "1.", ".5", "-.5", "1.5e10", "-1.5e10", "1.5E-10", "1e", "e5", "e", "1e+5", "1e-5", "1e+", "1e-", "1.e1",
    ".e1", "+.e", "1e1e1", "1.5e-9223372036854775808", "10e9223372036854775807", "1e9223372036854775807", "1e-9223372036854775808", "0e9223372036854775807", "0.0e-9223372036854775808", "1e99999999999999999999",
    "1e-99999999999999999999", "0x1.8p3", "0x.8p1", "0x1.p1", "0x.p1", "0xp", "0x", "0x.", "0x1p", "0x1p+", "1p3", "1.0p3", "0X1.8P-3", "0x1.8", "0x_.8p1", "0x1_.8p1", "1.5b3", "101b-2", "1.1B+1", "1@5", "1@", "@",
    "@1", "1.5@-3", "1.5o3", "1.5h3", "1.é", "é.1", "é", "1é.5", "1._5", "1.5_", "_1.5", "1_000.000_1", "1.+5", "1.-5", "+-1.5", "1..5", "1.5.5", "inf", "-inf", "+inf", "infinity", "NaN", "nan", "1__2.3__4",
    " 1.5", "1.5 ", "1 .5", "１.５", "1,5", "\u{0}", "1.\u{0}", "🦀", "1.5e🦀", "1.5e٣", "0.000000000000000000000000000000000000000000000000000000000000000000000000001",
    "123456789012345678901234567890123456789012345678901234567890.123456789012345678901234567890", "1_e5", "1e_5", "1e5_", "1e0x5", "-0x1.8p3", "+0x1.8p3", "0x-1.8p3", "1b", "b1", "1b1", "101.101", "2", "9.99",
];
const RATIO_STRINGS: &[&str] = &[
    "", "/", "1/", "/1", "1/0", "0/0", "0/1", "-0/1", "1/1", "1/2", "-1/2", "+1/2", "1/-2", "1/+2", "-1/-2", "2/4", "1//2", "1/2/3", "0x1/0x2", "0x10/2", "1/0x2", "1 / 2", " 1/2", "1/2 ", "é/1", "1/é", "1/00", "1/0x0",
    "-/1", "_/_", "1_/2_", "_1/2", "1/_2", "1", "-1", "+1", "0", "-0", "123456789012345678901234567890/987654321098765432109876543210", "18446744073709551616/18446744073709551615", "1/18446744073709551616",
    "1.5", "1.5/2", "1e5/2", "1/2e5", "zz/zz", "ZZ/1", "1/1_000", "\u{0}", "1/\u{0}", "🦀/🦀", "1/🦀", "/🦀", "1/1/", "//", "1 /2", "1/ 2", "+/+", "-/-", "0b1/0b10", "0o7/0o10", "1/0b0", "0x/1", "1/0x", "١/٢",
];

fn long_strings(k: SK) -> Vec<String> {
    match k {
        SK::Int => vec![
            "9".repeat(10_000),
            format!("1{}", "_".repeat(1000)),
            "0".repeat(5000),
            format!("-{}", "f".repeat(4000)),
            "é".repeat(300),
            format!("{}x", "1".repeat(300)),
            // digit counts on both sides of the chunk sizes of the divide-and-conquer parser
            // (chunk = 256 words' worth of digits, doubled at every level)
            "7".repeat(4864),
            "7".repeat(4865),
            "3".repeat(9728),
            "3".repeat(9729),
            "3".repeat(9730),
            "1".repeat(19457),
            "2".repeat(20481),
            "2".repeat(38913),
        ],
        SK::Float => vec![
            format!("1.{}", "9".repeat(10_000)),
            format!("{}.5", "1".repeat(5000)),
            format!("0.{}1", "0".repeat(3000)),
            format!("1e{}", "9".repeat(300)),
            format!("0x1.{}p5", "f".repeat(2000)),
            "é".repeat(300),
            format!("{}e5", "_".repeat(500)),
        ],
        SK::Ratio => vec![format!("{}/{}", "9".repeat(5000), "7".repeat(5000)), format!("1/{}", "0".repeat(3000)), format!("{}/1", "_".repeat(500)), "/".repeat(400), "é/".repeat(200)],
        SK::None => vec![],
    }
}

fn string_edge(k: SK) -> BoxedStrategy<String> {
    let pool: &'static [&'static str] = match k {
        SK::None => return Just(String::new()).boxed(),
        SK::Int => INT_STRINGS,
        SK::Float => FLOAT_STRINGS,
        SK::Ratio => RATIO_STRINGS,
    };
    let longs = long_strings(k);
    prop_oneof![
        12 => (0..pool.len()).prop_map(move |i| pool[i].to_string()),
        1 => (0..longs.len()).prop_map(move |i| longs[i].clone()),
    ]
    .boxed()
}

/// raw material for every slot; `assemble` keeps what the chosen entry uses
#[derive(Debug, Clone)]
struct Raw4 {
    a: Int,
    b: Int,
    c: Int,
    d: Int,
    e: Int,
    k: Int,
    p: u32,
    l: Int,
}

fn limit_edge() -> BoxedStrategy<Int> {
    prop_oneof![
        8 => prop::sample::select(vec![0u64, 1, 2, 3, 7, 10, 100, 255, 1000]).prop_map(|w| Int { neg: false, mag: Nat(vec![w]) }),
        4 => (1u64..5000).prop_map(|w| Int { neg: false, mag: Nat(vec![w]) }),
        2 => prop::sample::select(vec![1u64 << 16, 1 << 20, (1 << 22) + 1]).prop_map(|w| Int { neg: false, mag: Nat(vec![w]) }),
        1 => int_edge(),
    ]
    .boxed()
}

fn clamp_counts(c: &mut Case, u: &Uses) {
    match u.n {
        NK::Grow => {
            // still fits memory: at most ~2^20 bits unless nothing grows
            let nonzero = (u.a != 0 && !c.a.is_zero()) || u.a == 0;
            if nonzero {
                c.n = c.n.min(1 << 20);
            }
        }
        NK::Pow => {
            let bits = |i: &Int| i.mag.big().bits();
            let mut m = 0u64;
            if u.a != 0 {
                m = m.max(bits(&c.a));
            }
            if u.b != 0 {
                m = m.max(bits(&c.b));
            }
            if m >= 2 {
                c.n = c.n.min((1u64 << 22) / m);
            }
        }
        _ => {}
    }
}

/// strategy over the catalogue entries `ops` (indices): family (uniform) × entry of the family
/// (uniform) × edge tuple.  No shrinking: a failing call is already (catalogue entry, edge values),
/// and every evaluation of a hanging case costs 40 s.
fn call_strategy(ops: Vec<usize>) -> BoxedStrategy<Case> {
    call_strategy_with(ops, false)
}

/// float operands with exponents from 2^21 to 2^59 on both sides of zero
fn flt_far(base: u64) -> BoxedStrategy<Flt> {
    // all beyond 2^20: the expectation functions themselves spell out B^|e| below that line
    let exps: Vec<i64> = vec![1 << 21, 3_000_000, 10_000_000, 1 << 24, 1 << 27, 300_000_000, 1 << 30, 4_000_000_000, 1 << 40, 1 << 50, 1 << 59];
    let sigs: Vec<i64> = vec![1, 3, 5, 7, 12345, -1, -3, -9973, 99, 101, (1 << 53) - 1];
    (prop::sample::select(sigs), prop::sample::select(exps), any::<bool>(), 0i64..8, prec_edge(), 0u8..4)
        .prop_map(move |(s, e, neg, jitter, prec, pm)| {
            let f = Flt { inf: 0, sig: Int::from_i128(s as i128), exp: if neg { -(e + jitter) } else { e + jitter }, prec };
            let v = fv(&f, base);
            let prec = match pm {
                0 if prec != 0 => v.digits.max(1).min(u32::MAX as u64) as u32,
                _ => prec,
            };
            Flt { prec, ..f }
        })
        .boxed()
}

/// `far`: the float operands come from `flt_far`, and a call is kept that way only where its
/// expectation says the exponent costs nothing (must return, cheap exponent); otherwise the exponents
/// are folded back into ±1000 so that the case still says something
fn call_strategy_with(ops: Vec<usize>, far: bool) -> BoxedStrategy<Case> {
    assert!(!ops.is_empty());
    let mut fams: Vec<(&'static str, Vec<usize>)> = Vec::new();
    for i in ops {
        let f = cat()[i].fam;
        match fams.iter_mut().find(|g| g.0 == f) {
            Some(g) => g.1.push(i),
            None => fams.push((f, vec![i])),
        }
    }
    let raw = (int_edge(), int_edge(), int_edge(), int_edge(), exp_edge(), prim_edge(), prec_edge(), limit_edge()).prop_map(|(a, b, c, d, e, k, p, l)| Raw4 { a, b, c, d, e, k, p, l });
    (0..fams.len(), any::<u32>(), raw)
        .prop_flat_map(move |(fi, sel, raw)| {
            let g = &fams[fi].1;
            let op = &cat()[g[sel as usize % g.len()]];
            let u = op.uses;
            let base = if op.base == 0 { 2 } else { op.base };
            let name = op.name.clone();
            let fx = if u.x { if far { flt_far(base) } else { flt_edge(base) } } else { Just(Flt::default()).boxed() };
            let fy = if u.y { if far { prop_oneof![flt_far(base), flt_edge(base)].boxed() } else { flt_edge(base) } } else { Just(Flt::default()).boxed() };
            let pre = op.pre;
            (count_edge(u.n), string_edge(u.s), fx, fy).prop_map(move |(n, s, x, y)| {
                let mut c = Case { op: name.clone(), n, s, x, y, ..Case::default() };
                let pick = |mode: u8, v: &Int| match mode {
                    0 => Int::default(),
                    1 => Int { neg: false, mag: v.mag.clone() },
                    _ => v.clone(),
                };
                c.a = pick(u.a, &raw.a);
                c.b = if u.bexp { raw.e.clone() } else { pick(u.b, &raw.b) };
                c.c = if u.climit { pick(1, &raw.l) } else { pick(u.c, &raw.c) };
                c.d = pick(u.d, &raw.d);
                if u.k {
                    c.k = raw.k.clone();
                }
                if u.p {
                    c.p = raw.p;
                }
                if u.lnx && c.x.sig.neg && (sel >> 20) % 4 != 0 {
                    c.x.sig.neg = false;
                }
                clamp_counts(&mut c, &u);
                if far {
                    let e = pre(&c);
                    if !(matches!(e.kind, Kind::Ret) && e.cheap_exp) {
                        c.x.exp %= 1000;
                        c.y.exp %= 1000;
                    }
                }
                c
            })
        })
        .no_shrink()
        .boxed()
}

/// parsers on arbitrary strings: proptest `.*`, strings over a grammar-near alphabet, pool strings
/// with a random mutation; shrinking is on (a parse call is cheap)
fn parse_strategy(ops: Vec<usize>, kind: SK) -> BoxedStrategy<Case> {
    assert!(!ops.is_empty());
    let alphabet: Vec<char> = match kind {
        SK::Float => "0123456789abcdefABCDEFxXpPeEhHoObB@._+-/ \u{e9}\u{0}zZ\u{661}_".chars().collect(),
        SK::Ratio => "0123456789abcdefxXob/_+- \u{e9}\u{0}zZ\u{661}/_0".chars().collect(),
        _ => "0123456789abcdefABCDEFxXobzZ_+- \u{e9}\u{0}\u{661}._/".chars().collect(),
    };
    let near = proptest::collection::vec(prop::sample::select(alphabet), 0..40).prop_map(|v| v.into_iter().collect::<String>());
    let mutated = (string_edge(kind), any::<u16>(), any::<char>()).prop_map(|(s, pos, ch)| {
        if s.len() > 300 {
            return s;
        }
        let mut cs: Vec<char> = s.chars().collect();
        let i = if cs.is_empty() { 0 } else { pos as usize % (cs.len() + 1) };
        match pos % 3 {
            0 => cs.insert(i, ch),
            1 if i < cs.len() => {
                cs.remove(i);
            }
            _ if i < cs.len() => cs[i] = ch,
            _ => cs.push(ch),
        }
        cs.into_iter().collect()
    });
    let text = prop_oneof![3 => ".*".prop_map(|s| s), 5 => near, 3 => mutated];
    (0..ops.len(), text, count_edge(NK::Radix))
        .prop_map(move |(i, s, n)| {
            let op = &cat()[ops[i]];
            Case { op: op.name.clone(), s, n: if op.uses.n == NK::Radix { n } else { 0 }, ..Case::default() }
        })
        .boxed()
}

fn ops_where(f: impl Fn(&Op) -> bool) -> Vec<usize> {
    cat().iter().enumerate().filter(|(_, o)| f(o)).map(|(i, _)| i).collect()
}

// ================================================================================================
// main
// ================================================================================================

fn main() {
    if std::env::args().nth(1).as_deref() == Some("--worker") {
        worker_main();
    }
    let mut ck = Check::new(
        "C16",
        "catalogue of public operations (macro tables over dashu-base/-int/-float/-ratio: every operator in its ownership / assign / primitive-operand forms, inherent methods, trait methods, Context methods, conversions, formatting, parsing) × edge values of each argument domain (0, ±1, 2^64-1, 2^64, 2^128, a 40-word value, values of 31..33 / 64..65 / 191..193 words (algorithm thresholds), ±infinity, precision 0 and 1, exponents ±1000 / ±2^40 / near isize limits, shift counts to 2^20, powers to 2^22 bits, root orders 0..usize::MAX, radix 0,1,2,36,37,u32::MAX, chunk_bits 0, empty / sign-only / non-ASCII / 10^4-byte strings); every call runs in a supervised worker process (4 GiB address space, 10 s + 30 s deadline) built with debug assertions + overflow checks, and — for every 'must panic' / 'unspecified' case, every case that panicked there and a quarter of the rest — again in a worker built without them; oracle = precondition table computed from the inputs (rustdoc '# Panics' + error.rs helpers): violated => must panic with the documented message, otherwise must return, 'unspecified' where the documentation is silent; parsers on arbitrary strings must return Ok/Err. Non-trivial: the table says 'must panic' or an edge value is involved; distinct by case digest.",
    );
    let _ = index();
    let _ = plain_exe();
    let n_int = cat().iter().filter(|o| o.krate == "int").count();
    let n_float = cat().iter().filter(|o| o.krate == "float").count();
    let n_ratio = cat().iter().filter(|o| o.krate == "ratio").count();
    let n_base = cat().iter().filter(|o| o.krate == "base").count();
    let mut fams: BTreeMap<&str, u64> = BTreeMap::new();
    for o in cat().iter() {
        *fams.entry(o.fam).or_default() += 1;
    }
    ck.extra("catalogue", json!({"entries": cat().len(), "dashu-int": n_int, "dashu-float": n_float, "dashu-ratio": n_ratio, "dashu-base": n_base, "families": fams}));

    ck.sub("int_calls", (30_000, 750_000), || call_strategy(ops_where(|o| o.krate == "int")), judge);
    ck.sub("float_calls", (24_000, 600_000), || call_strategy(ops_where(|o| o.krate == "float")), judge);
    // the operations whose cost must not depend on the exponent, with exponents of 2^21 .. 2^59
    ck.sub("float_calls_far_exponents", (6_000, 150_000), || call_strategy_with(ops_where(|o| o.krate == "float" && o.uses.x), true), judge);
    ck.sub("float_compare_far_exponents", (1_500, 40_000), || call_strategy_with(ops_where(|o| o.krate == "float" && o.uses.x && (o.name.contains("cmp") || o.name.contains("NumOrd") || o.name.contains("=="))), true), judge);
    ck.sub("ratio_calls", (8_000, 200_000), || call_strategy(ops_where(|o| o.krate == "ratio")), judge);
    ck.sub("base_calls", (3_000, 75_000), || call_strategy(ops_where(|o| o.krate == "base")), judge);
    ck.sub("parse_int", (4_000, 100_000), || parse_strategy(ops_where(|o| o.fam == "int: parsing"), SK::Int), judge);
    ck.sub("parse_float", (4_000, 100_000), || parse_strategy(ops_where(|o| o.fam == "float: parsing"), SK::Float), judge);
    ck.sub("parse_ratio", (2_000, 50_000), || parse_strategy(ops_where(|o| o.fam == "ratio: parsing"), SK::Ratio), judge);

    ck.assume("util-linux prlimit (RLIMIT_AS = 4 GiB per worker); /proc/<pid>/stat CPU accounting at 100 ticks/s; a confirmed hang = no answer within 10 s at >= 50 % CPU and none within 30 s in a fresh worker, on a small input");
    ck.assume("debug assertions and overflow checks are ON in the harness build: exponent / index arithmetic that would wrap silently in an ordinary release build is observed here as a panic");
    ck.assume("this property cannot be established by testing: the evidence states the catalogue size and the argument classes actually executed");
    pool_shutdown();
    ck.finish();
}
