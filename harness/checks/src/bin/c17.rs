//! C17 — the hand-managed integer storage is memory-safe and keeps its invariants.
//!
//! Histories of operations over a pool of live integers (dv::vm), checked after every step
//! against a num-bigint model and, through the `dashu_verif` hook, against the documented storage
//! invariants; a guarding global allocator (header + tail canary + per-thread live-byte counter)
//! turns frees with a wrong size, double frees, one-past-the-end writes and leaks into failures.
//! Thorough tier: the same interpreter under Miri and as an ASan libFuzzer target.
use dv::gen::{self, Prof};
use dv::vm::{self, Op};
use dv::*;
use proptest::prelude::*;
use serde::{Deserialize, Serialize};
use std::alloc::{GlobalAlloc, Layout, System};
use std::cell::Cell;

// ------------------------------------------------------------------------------------------
// guarding allocator

const MAGIC_LIVE: u64 = 0xA11C_0DE5_1133_7788;
const MAGIC_DEAD: u64 = 0xDEAD_F4EE_DEAD_F4EE;
const TAIL: u64 = 0x7A11_CA4A_4B1D_5EED;
const HDR: usize = 16;

thread_local! {
    static LIVE: Cell<i64> = const { Cell::new(0) };
    static ALLOCS: Cell<u64> = const { Cell::new(0) };
    static ERR: Cell<u64> = const { Cell::new(0) };
    static ERR_A: Cell<u64> = const { Cell::new(0) };
    static ERR_B: Cell<u64> = const { Cell::new(0) };
}

struct Guard;

fn flag(code: u64, a: u64, b: u64) {
    let _ = ERR.try_with(|e| {
        if e.get() == 0 {
            e.set(code);
            let _ = ERR_A.try_with(|x| x.set(a));
            let _ = ERR_B.try_with(|x| x.set(b));
        }
    });
}

unsafe impl GlobalAlloc for Guard {
    unsafe fn alloc(&self, layout: Layout) -> *mut u8 {
        if layout.align() > HDR {
            return System.alloc(layout);
        }
        let size = layout.size();
        let total = HDR + size + 8;
        let p = System.alloc(Layout::from_size_align_unchecked(total, HDR));
        if p.is_null() {
            return p;
        }
        (p as *mut u64).write(MAGIC_LIVE);
        (p as *mut u64).add(1).write(size as u64);
        (p.add(HDR + size) as *mut u64).write_unaligned(TAIL);
        let _ = LIVE.try_with(|l| l.set(l.get() + size as i64));
        let _ = ALLOCS.try_with(|l| l.set(l.get() + 1));
        p.add(HDR)
    }
    unsafe fn dealloc(&self, ptr: *mut u8, layout: Layout) {
        if layout.align() > HDR {
            return System.dealloc(ptr, layout);
        }
        let p = ptr.sub(HDR);
        let magic = (p as *mut u64).read();
        let size = (p as *mut u64).add(1).read() as usize;
        if magic != MAGIC_LIVE {
            // double free or a pointer that was never handed out: do not touch the system allocator
            flag(if magic == MAGIC_DEAD { 1 } else { 2 }, ptr as u64, layout.size() as u64);
            return;
        }
        if size != layout.size() {
            flag(3, size as u64, layout.size() as u64);
        }
        let tail = (p.add(HDR + size) as *mut u64).read_unaligned();
        if tail != TAIL {
            flag(4, size as u64, tail);
        }
        (p as *mut u64).write(MAGIC_DEAD);
        let _ = LIVE.try_with(|l| l.set(l.get() - size as i64));
        System.dealloc(p, Layout::from_size_align_unchecked(HDR + size + 8, HDR));
    }
}

#[global_allocator]
static GLOBAL: Guard = Guard;

fn take_alloc_error() -> Option<String> {
    let code = ERR.with(|e| e.replace(0));
    if code == 0 {
        return None;
    }
    let (a, b) = (ERR_A.with(|x| x.get()), ERR_B.with(|x| x.get()));
    Some(match code {
        1 => format!("double free of a {b}-byte block"),
        2 => format!("free of a pointer that was never allocated (claimed size {b})"),
        3 => format!("block allocated with {a} bytes was freed as {b} bytes (capacity bookkeeping wrong)"),
        _ => format!("write past the end of a {a}-byte block (tail canary = {b:#x})"),
    })
}

// ------------------------------------------------------------------------------------------

#[derive(Debug, Clone, Hash, Serialize, Deserialize)]
struct History {
    init: Vec<(bool, Nat)>,
    ops: Vec<Op>,
}

fn small_nat() -> BoxedStrategy<Nat> {
    prop_oneof![
        6 => gen::nat(Prof::Tiny),
        3 => gen::nat_len(3, 6),
        2 => gen::nat_len(7, 12),
        1 => gen::nat_len(13, 40),
        1 => gen::nat_len(90, 130),
    ]
    .boxed()
}

fn op_strategy(nat: fn() -> BoxedStrategy<Nat>) -> impl Strategy<Value = Op> {
    // kinds weighted towards the buffer-reusing ones
    let kind = prop_oneof![
        3 => Just(0u8),
        1 => Just(1u8),
        1 => Just(2u8),
        1 => Just(3u8),
        1 => Just(4u8),
        4 => 5u8..=7,
        3 => 8u8..=9,
        2 => 10u8..=12,
        3 => Just(13u8),
        2 => Just(14u8),
        3 => Just(15u8),
        2 => Just(16u8),
        2 => Just(17u8),
        2 => Just(18u8),
        6 => Just(19u8),
        2 => Just(20u8),
        4 => Just(21u8),
        2 => Just(22u8),
        2 => Just(23u8),
        3 => Just(24u8),
        4 => Just(25u8),
        2 => Just(26u8),
        1 => Just(27u8),
    ];
    (kind, any::<u8>(), any::<u8>(), any::<u8>(), any::<u8>(), prop_oneof![3 => 0u32..200, 2 => 0u32..9000, 1 => any::<u32>()], any::<bool>(), nat())
        .prop_map(|(k, a, b, d, form, n, neg, v)| {
            // ops that do not read `v` carry an empty one (keeps cases small and shrinking fast)
            let v = if matches!(k, 0 | 1 | 2 | 4 | 22) { v } else { Nat(vec![]) };
            Op { k, a, b, d, form, n, neg, v }
        })
}

fn history(max_steps: usize) -> impl Strategy<Value = History> {
    (proptest::collection::vec(op_strategy(small_nat), 0..max_steps), proptest::collection::vec((any::<bool>(), small_nat()), 4)).prop_map(|(ops, init)| History { init, ops })
}

/// operands for the histories run under Miri (about 0.3 s per step there): the 2 <-> 3 word
/// boundary, a few words above it, the same structured patterns
fn miri_nat() -> BoxedStrategy<Nat> {
    prop_oneof![
        4 => gen::nat(Prof::Tiny),
        6 => gen::nat_len(3, 5),
        1 => gen::nat_len(6, 9),
    ]
    .boxed()
}

fn miri_history(max_steps: usize) -> impl Strategy<Value = History> {
    (proptest::collection::vec(op_strategy(miri_nat), 1..max_steps), proptest::collection::vec((any::<bool>(), miri_nat()), 4)).prop_map(|(ops, init)| History { init, ops })
}

fn judge(h: &History, _ctx: &Ctx) -> Out {
    // everything the interpreter allocates must be gone when it returns
    let _ = take_alloc_error();
    let before = LIVE.with(|l| l.get());
    let res = catch(|| vm::run(&h.init, &h.ops));
    let after = LIVE.with(|l| l.get());
    let mut out = Out::new();
    let alloc_err = take_alloc_error();
    match res {
        Err(m) => {
            // a panic inside dashu (debug assertion, bounds check) on a valid history; the live-byte
            // balance is meaningless after an unwound panic inside `run`
            out.fail(format!("panic during history: {}", normalise(&m)));
        }
        Ok(Err(e)) => out.fail(e),
        Ok(Ok(rep)) => {
            out.nontrivial((rep.inline_to_heap > 0 || rep.heap_to_inline > 0) && rep.clone_from > 0);
            if rep.inline_to_heap > 0 {
                out.label("history: inline->heap transition");
            }
            if rep.heap_to_inline > 0 {
                out.label("history: heap->inline transition");
            }
            if rep.clone_from_onto_heap > 0 {
                out.label("history: clone_from onto a heap value");
            }
            if rep.self_ops > 0 {
                out.label("history: self-assignment pattern");
            }
            if rep.static_reads > 0 {
                out.label("history: static-words value read");
            }
            out.label(match rep.max_words {
                0..=2 => "max size: inline only",
                3..=12 => "max size: 3-12 words",
                13..=64 => "max size: 13-64 words",
                _ => "max size: >64 words",
            });
            out.label(match rep.steps {
                0..=5 => "steps: 0-5",
                6..=15 => "steps: 6-15",
                _ => "steps: >15",
            });
            if after != before {
                out.fail(format!("leak: {} bytes still allocated after the pool was dropped", after - before));
            }
        }
    }
    if let Some(e) = alloc_err {
        out.fail(format!("allocator monitor: {e}"));
    }
    out
}

// ------------------------------------------------------------------------------------------
// thorough tier: Miri and ASan/libFuzzer over the same interpreter

fn run_cmd(cmd: &mut std::process::Command) -> (i32, String) {
    match cmd.output() {
        Ok(o) => (o.status.code().unwrap_or(-1), format!("{}{}", String::from_utf8_lossy(&o.stdout), String::from_utf8_lossy(&o.stderr))),
        Err(e) => (-1, format!("cannot run: {e}")),
    }
}

fn miri_cmd(path: &str) -> std::process::Command {
    let mut cmd = std::process::Command::new("cargo");
    cmd.current_dir(std::env::var("DV_MIRI").unwrap_or_else(|_| "/verif/miri".into()))
        .args(["+nightly", "miri", "run", "--quiet", "--"])
        .arg(path)
        .env("CARGO_NET_OFFLINE", "true")
        .env("RUSTFLAGS", "--cfg dashu_verif")
        .env("MIRIFLAGS", "-Zmiri-disable-isolation")
        .env("CARGO_TARGET_DIR", std::env::var("DV_MIRI_TARGET").unwrap_or_else(|_| "/verif/target/miri".into()));
    cmd
}

/// `n` histories generated by the small-operand strategy, split over `procs` Miri processes that
/// run side by side (`cargo +nightly miri run`, the same interpreter dv::vm::run)
fn miri_tier(ck: &mut Check, n: usize, procs: usize) {
    // DV_MIRI / DV_MIRI_TARGET / DV_SCRATCH: a scratch copy of the tree under test (tools/mutcheck.sh)
    let scratch = std::env::var("DV_SCRATCH").unwrap_or_else(|_| "/verif/target".into());
    let dir = format!("{scratch}/c17-miri");
    let _ = std::fs::remove_dir_all(&dir);
    let _ = std::fs::create_dir_all(&dir);
    let hs = sample_strategy(&miri_history(14), seed_mix(ck.seed, 0x171717), n);
    // build once (an empty file), then the parts in parallel
    let empty = format!("{dir}/empty.json");
    std::fs::write(&empty, "[]").unwrap();
    let (code, outp) = run_cmd(&mut miri_cmd(&empty));
    if code != 0 {
        infra(&format!("the Miri runner does not build or start: {}", truncate(&outp, 800)));
    }
    let procs = procs.max(1).min(hs.len().max(1));
    let mut parts: Vec<Vec<usize>> = vec![Vec::new(); procs];
    for i in 0..hs.len() {
        parts[i % procs].push(i);
    }
    let results: Vec<(Vec<usize>, i32, String)> = std::thread::scope(|sc| {
        let handles: Vec<_> = parts
            .iter()
            .enumerate()
            .map(|(p, idx)| {
                let path = format!("{dir}/part{p}.json");
                let part: Vec<&History> = idx.iter().map(|&i| &hs[i]).collect();
                std::fs::write(&path, serde_json::to_string(&part).unwrap()).unwrap();
                let idx = idx.clone();
                sc.spawn(move || {
                    let (code, outp) = run_cmd(&mut miri_cmd(&path));
                    (idx, code, outp)
                })
            })
            .collect();
        handles.into_iter().map(|h| h.join().unwrap()).collect()
    });
    let mut ran = 0u64;
    let mut steps = 0u64;
    let mut viol = None;
    for (idx, code, outp) in &results {
        let ok = outp.lines().filter(|l| l.starts_with("MIRI-OK")).count();
        ran += ok as u64;
        steps += idx.iter().take(ok).map(|&i| hs[i].ops.len() as u64).sum::<u64>();
        if *code != 0 && viol.is_none() {
            // which history? the runner prints MIRI-START i before each
            let last = outp.lines().filter(|l| l.starts_with("MIRI-START")).last().and_then(|l| l.split_whitespace().nth(1)).and_then(|s| s.parse::<usize>().ok());
            match last {
                Some(i) if i < idx.len() && (outp.contains("Undefined Behavior") || outp.contains("error:") || outp.contains("VM-VIOLATION")) => {
                    let tail: String = outp.lines().filter(|l| l.contains("Undefined Behavior") || l.contains("error") || l.contains("VM-VIOLATION")).take(3).collect::<Vec<_>>().join(" | ");
                    viol = Some((format!("Miri reported an error in a history: {}", truncate(&tail, 400)), serde_json::to_value(&hs[idx[i]]).unwrap()));
                }
                _ => println!("INCONCLUSIVE: a Miri run ended with status {code} without a diagnosable history: {}", truncate(outp, 600)),
            }
        }
    }
    let mut labels = std::collections::BTreeMap::new();
    labels.insert("miri: histories run", ran);
    labels.insert("miri: steps run", steps);
    let samples = hs.iter().take(1).map(|h| serde_json::to_value(h).unwrap()).collect();
    ck.external("history@miri", ran, ran.min(hs.len() as u64), labels, samples, viol, Some(serde_json::json!({"engine": "cargo +nightly miri run (same interpreter dv::vm::run), operands of 0..9 words", "histories": n, "processes": procs})));
}

fn fuzz_tier(ck: &mut Check, runs: u64) {
    let seed = (ck.seed % 0x7fff_fffe) + 1;
    let scratch = std::env::var("DV_SCRATCH").unwrap_or_else(|_| "/verif/target".into());
    let harness = std::env::var("DV_HARNESS").unwrap_or_else(|_| "/verif/harness".into());
    let corpus = &format!("{scratch}/c17-fuzz-corpus");
    let artifacts = format!("{scratch}/c17-fuzz-artifacts");
    let _ = std::fs::remove_dir_all(corpus);
    let _ = std::fs::create_dir_all(corpus);
    let mut cmd = std::process::Command::new("cargo");
    cmd.current_dir(&harness)
        .args(["+nightly", "fuzz", "run", "int_vm", corpus, &format!("{harness}/fuzz/corpus-seed/int_vm"), "--"])
        .arg(format!("-runs={runs}"))
        .arg(format!("-seed={seed}"))
        .args(["-len_control=0", "-max_len=1200", &format!("-artifact_prefix={artifacts}/"), "-print_final_stats=1"])
        .env("CARGO_NET_OFFLINE", "true")
        .env("RUSTFLAGS", "--cfg dashu_verif");
    let _ = std::fs::create_dir_all(&artifacts);
    let (code, outp) = run_cmd(&mut cmd);
    let execs = outp.lines().find_map(|l| l.strip_prefix("stat::number_of_executed_units:").map(|s| s.trim().parse::<u64>().unwrap_or(0))).unwrap_or(0);
    let mut labels = std::collections::BTreeMap::new();
    labels.insert("fuzz: executions (libFuzzer + ASan)", execs);
    let mut viol = None;
    if code != 0 {
        // artifact = failing input; convert to a replayable history
        let art = outp.lines().find_map(|l| l.find("Test unit written to ").map(|i| l[i + 21..].trim().to_string()));
        match art.and_then(|p| std::fs::read(p).ok()) {
            Some(bytes) => {
                let (init, ops) = vm::decode(&bytes);
                let why: String = outp.lines().filter(|l| l.contains("ERROR: AddressSanitizer") || l.contains("panicked at") || l.contains("VM-VIOLATION")).take(2).collect::<Vec<_>>().join(" | ");
                viol = Some((format!("libFuzzer/ASan target int_vm failed: {}", truncate(&why, 400)), serde_json::to_value(&History { init, ops }).unwrap()));
            }
            None => println!("INCONCLUSIVE: fuzz run ended with status {code} but no artifact was found: {}", truncate(&outp, 600)),
        }
    }
    ck.external("history@libfuzzer-asan", execs, execs.min(1), labels, vec![], viol, Some(serde_json::json!({"engine": "cargo-fuzz libFuzzer + AddressSanitizer, target int_vm (dv::vm::decode + run)", "runs_requested": runs, "seed": seed})));
}

fn main() {
    let mut ck = Check::new(
        "C17",
        "histories of up to 30 (thorough 60) operations over a pool of 4 live integers: construction (words, bytes, primitives, ones, parse), + - * / % & | ^ in by-reference / by-value / compound-assignment forms, self-assignment patterns x op= &x.clone(), shifts, bit edits, clone, clone_from between any two slots, mem::take, shrinking to k words and growing by whole words, byte/word/chunk/text round trips, read-only use of from_static_words values, Zeroize (cargo feature), modular rings (ConstDivisor / Reduced), gcd / division / roots in by-value forms; sizes steered across the 2<->3 word boundary and reallocation thresholds. After every step every slot: value == num-bigint model and hook invariants (inline iff <= 2 words, heap => len >= 3, top word != 0, len <= capacity <= len + len/4 + 4, zero positive); guarding allocator: wrong-size free, double free, tail canary, leaked bytes per history. Non-trivial: history with an inline<->heap transition and a clone_from; distinct by case digest.",
    );
    let th = ck.thorough();
    ck.sub("history", (150_000, 3_000_000), move || history(if th { 60 } else { 30 }), judge);
    if !th && !ck.is_replay() && std::env::var("DV_NO_MIRI").is_err() {
        // small-operand histories under Miri on every change, 16 interpreters side by side
        miri_tier(&mut ck, 192, 16);
    }
    if th && !ck.is_replay() {
        let n = ((4000.0 * ck.scale) as usize).max(16);
        miri_tier(&mut ck, n, 16);
        let runs = (300_000.0 * ck.scale) as u64;
        fuzz_tier(&mut ck, runs.max(1000));
    }
    ck.assume("execution monitors only see the histories actually run: absence of undefined behaviour is not established");
    ck.assume("the guarding allocator detects frees with a wrong size / of unknown or freed pointers, writes into the 8 bytes after a block, and leaks; ASan and Miri (thorough tier) detect other invalid accesses");
    ck.finish();
}
