//! C05 — equality, ordering and hashing follow the mathematical value ("same value, different route").
//!
//! Every case holds three operands; an operand is a target value plus a *route* that produces it
//! (constructor, parser, conversion, arithmetic that returns to the value, clone_from onto a used
//! buffer, static words, ...).  The operands of a case are related (equal, +-1, one bit, one word,
//! sign, ...).  Every produced number is read back through its raw words: it must be the target value
//! and (integers, through the `dashu_verif` hook) have the canonical layout documented on
//! `Repr::capacity`.  Then every ordered pair is judged: `==`, `cmp`, `partial_cmp`, `<`, `AbsOrd`,
//! `AbsEq` and std `Hash` against the order of the model values.
#![allow(deprecated)]
use dashu_base::{Abs, AbsEq, AbsOrd, Approximation, DivRem, Inverse, Sign, Signed, SquareRootRem, UnsignedAbs};
use dashu_float::round::{mode, Round};
use dashu_float::{Context, FBig, Repr};
use dashu_int::{DoubleWord, IBig, UBig, Word};
use dashu_ratio::{RBig, Relaxed};
use dv::fl::*;
use dv::gen::{self, pick};
use dv::nb::NbInt;
use dv::*;
use num_bigint::{BigInt, BigUint};
use num_integer::Roots;
use num_rational::BigRational;
use num_traits::{One, Pow, Signed as NSigned, ToPrimitive, Zero};
use proptest::prelude::*;
use proptest::strategy::Union;
use serde::{Deserialize, Serialize};
use std::cmp::Ordering;
use std::collections::hash_map::DefaultHasher;
use std::hash::{Hash, Hasher};
use std::mem::ManuallyDrop;
use std::str::FromStr;

type Raw = (isize, usize, bool, Vec<Word>);

fn hash_of<T: Hash>(x: &T) -> u64 {
    let mut s = DefaultHasher::new();
    x.hash(&mut s);
    s.finish()
}

// ------------------------------------------------------------------------------------------------
// canonical integer layout (hook)
// ------------------------------------------------------------------------------------------------

/// Asserts the layout documented on `Repr::capacity` and that the stored words are `want`.
/// |capacity| = 1: inline, high word 0; = 2: inline, high word != 0; >= 3: heap, len >= 3, top word
/// != 0, len <= capacity; negative capacity <=> negative number; zero is +1.
fn layout(raw: &Raw, want: &BigInt) -> Result<(), String> {
    let (cap, len, inline, words) = (raw.0, raw.1, raw.2, &raw.3);
    let ac = cap.unsigned_abs();
    let show = || format!("capacity field {cap}, stored len {len}, inline {inline}, words {:x?}{}", &words[..words.len().min(5)], if words.len() > 5 { ".." } else { "" });
    let ok = match ac {
        0 => false,
        1 => inline && words.len() == 2 && words[1] == 0 && len == (words[0] != 0) as usize,
        2 => inline && words.len() == 2 && words[1] != 0 && len == 2,
        _ => !inline && len >= 3 && len <= ac && words.len() == len && words[len - 1] != 0,
    };
    if !ok {
        return Err(format!("non-canonical layout ({}) for the value {}", show(), show_i(want)));
    }
    let mag = words_to_big(words);
    if mag.is_zero() && cap != 1 {
        return Err(format!("zero stored with capacity field {cap} (zero must be +1)"));
    }
    let got = if cap < 0 { -BigInt::from(mag) } else { BigInt::from(mag) };
    if &got != want {
        return Err(format!("wrong value: stored {} ({}), expected {}", show_i(&got), show(), show_i(want)));
    }
    Ok(())
}

fn layout_class(raw: &Raw) -> &'static str {
    match raw.0.unsigned_abs() {
        1 => "layout:inline, capacity 1",
        2 => "layout:inline, capacity 2",
        _ => {
            if raw.0.unsigned_abs() == raw.1 {
                "layout:heap, capacity = len"
            } else {
                "layout:heap"
            }
        }
    }
}

/// collects the first layout / value error over every integer a route produces (intermediates too)
struct Tr {
    err: Option<String>,
    seen: u32,
}
impl Tr {
    fn new() -> Tr {
        Tr { err: None, seen: 0 }
    }
    fn u(&mut self, what: &str, x: &UBig, want: &BigUint) {
        self.seen += 1;
        if self.err.is_none() {
            if let Err(e) = layout(&x.__verif_repr(), &BigInt::from(want.clone())) {
                self.err = Some(format!("{what}: {e}"));
            }
        }
    }
    fn i(&mut self, what: &str, x: &IBig, want: &BigInt) {
        self.seen += 1;
        if self.err.is_none() {
            if let Err(e) = layout(&x.__verif_repr(), want) {
                self.err = Some(format!("{what}: {e}"));
            }
        }
    }
}

// ------------------------------------------------------------------------------------------------
// the comparison suite, shared by all types
// ------------------------------------------------------------------------------------------------

/// Everything a totally ordered type offers for one ordered pair; returns the list of broken facts.
fn suite<T>(a: &T, b: &T, want: Ordering, want_abs: Ordering, hasher: Option<fn(&T) -> u64>) -> Vec<String>
where
    T: PartialEq + Ord + AbsOrd,
{
    let mut bad = Vec::new();
    let (eq, ne) = (a == b, a != b);
    if eq != (want == Ordering::Equal) {
        bad.push(format!("`==` is {eq}"));
    }
    if ne == eq {
        bad.push(format!("`!=` is {ne} while `==` is {eq}"));
    }
    let c = a.cmp(b);
    if c != want {
        bad.push(format!("cmp is {c:?}"));
    }
    let pc = a.partial_cmp(b);
    if pc != Some(want) {
        bad.push(format!("partial_cmp is {pc:?}"));
    }
    let (lt, le, gt, ge) = (a < b, a <= b, a > b, a >= b);
    if lt != (want == Ordering::Less) || gt != (want == Ordering::Greater) || le != (want != Ordering::Greater) || ge != (want != Ordering::Less) {
        bad.push(format!("operators < <= > >= give {lt} {le} {gt} {ge}"));
    }
    let ac = a.abs_cmp(b);
    if ac != want_abs {
        bad.push(format!("abs_cmp is {ac:?}, magnitudes compare {want_abs:?}"));
    }
    if let Some(hf) = hasher {
        if want == Ordering::Equal && hf(a) != hf(b) {
            bad.push("std Hash differs for equal values".to_string());
        }
    }
    bad
}

fn report(out: &mut Out, ty: &str, ia: usize, ra: &str, ib: usize, rb: &str, va: &str, vb: &str, want: Ordering, r: Result<Vec<String>, String>) {
    match r {
        Err(m) => out.fail(format!("{ty}: comparing operand {ia} ({ra}) with operand {ib} ({rb}) panicked: {}", normalise(&m))),
        Ok(bad) => {
            if !bad.is_empty() {
                out.fail(format!("{ty}: operand {ia} ({ra}) = {va} against operand {ib} ({rb}) = {vb}, model order {want:?}: {}", bad.join("; ")));
            }
        }
    }
}

fn order_label(o: Ordering) -> &'static str {
    match o {
        Ordering::Less => "pair:less",
        Ordering::Equal => "pair:equal value",
        Ordering::Greater => "pair:greater",
    }
}

// ------------------------------------------------------------------------------------------------
// integers: case data
// ------------------------------------------------------------------------------------------------

#[derive(Debug, Clone, Copy, PartialEq, Eq, Hash, Serialize, Deserialize)]
enum IR {
    Words,
    Bytes,
    Parse,
    Prim,
    AddSub,
    SubAdd,
    MulDiv,
    DivMul,
    ShlShr,
    Xor,
    NegNeg,
    Clone,
    CloneFromLarge,
    CloneFromSmall,
    Take,
    Serde,
    ViaRatio,
    ViaFloat,
    Pieces,
    SetClear,
    Ones,
    Pow,
    SplitBits,
    Chunks,
    Static,
    SqrtRem,
    Parts,
    NotNot,
}
use IR::*;

/// simplest first; `pick` maps monotonically
const I_ROUTES: &[IR] = &[
    Words, Words, Bytes, Parse, Parse, Prim, AddSub, AddSub, SubAdd, SubAdd, MulDiv, MulDiv, DivMul, ShlShr, ShlShr, Xor, NegNeg, Clone, CloneFromLarge, CloneFromLarge,
    CloneFromSmall, Take, Serde, ViaRatio, ViaFloat, Pieces, SetClear, SetClear, Ones, Pow, SplitBits, SplitBits, Chunks, Static, Static, SqrtRem, Parts, NotNot,
];

fn ir_label(r: IR) -> &'static str {
    match r {
        Words => "route:from_words",
        Bytes => "route:from_le/be_bytes",
        Parse => "route:parse",
        Prim => "route:From<primitive>",
        AddSub => "route:(v+k)-k",
        SubAdd => "route:(v-k)+k",
        MulDiv => "route:(v*k)/k",
        DivMul => "route:q*k+r",
        ShlShr => "route:(v<<s)>>s",
        Xor => "route:(v^k)^k",
        NegNeg => "route:-(-v)",
        Clone => "route:clone",
        CloneFromLarge => "route:clone_from onto large",
        CloneFromSmall => "route:clone_from onto small",
        Take => "route:mem::take + rebuild",
        Serde => "route:serde round trip",
        ViaRatio => "route:via RBig",
        ViaFloat => "route:via FBig",
        Pieces => "route:word pieces shifted together",
        SetClear => "route:set_bit/clear_bit",
        Ones => "route:ones(n) - d",
        Pow => "route:pow",
        SplitBits => "route:split_bits recombined",
        Chunks => "route:to_chunks/from_chunks",
        Static => "route:from_static_words",
        SqrtRem => "route:sqrt_rem recombined",
        Parts => "route:sign/magnitude parts",
        NotNot => "route:!(!v)",
    }
}

#[derive(Debug, Clone, Hash, Serialize, Deserialize)]
struct IOp {
    v: Int,
    route: IR,
    /// addend / factor / divisor / mask
    k: Int,
    /// shift count / bit index / split position / chunk size
    s: u32,
    /// length in words of the value a clone_from / take target held before
    big: u16,
    /// variant inside the route (radix, width, ownership form, padding)
    alt: u8,
}

#[derive(Debug, Clone, Hash, Serialize, Deserialize)]
struct IntCase {
    ops: Vec<IOp>,
}

fn small_len() -> BoxedStrategy<usize> {
    Union::new_weighted(vec![
        (2, Just(0usize).boxed()),
        (4, Just(1usize).boxed()),
        (7, Just(2usize).boxed()),
        (7, Just(3usize).boxed()),
        (3, Just(4usize).boxed()),
        (2, (5usize..=8).boxed()),
        (1, (9usize..=40).boxed()),
    ])
    .boxed()
}

fn small_int() -> BoxedStrategy<Int> {
    (small_len(), 0u8..gen::N_PATTERNS, any::<u64>(), any::<bool>(), 0u8..24)
        .prop_map(|(n, p, s, neg, shape)| {
            let mag = if shape == 0 && n >= 1 {
                // a perfect power b^e of about n words (route `pow`)
                let e = [2u32, 3, 5, 7][(s % 4) as usize];
                let bits = (64 * n as u64 / e as u64).max(2);
                let b = (Nat(gen::expand(n, p, s)).big() >> (64 * n as u64 - bits.min(64 * n as u64))) | BigUint::one();
                Nat::from_big(&Pow::pow(&b, e))
            } else {
                Nat(gen::expand(n, p, s))
            };
            Int { neg: neg && !mag.is_zero(), mag }
        })
        .boxed()
}

/// a value related to `a`: 0 equal, then +-1, one bit, sign, same length, one word shorter / longer,
/// one word changed, independent
fn related(a: &Int, rel: u8, sel: u16, seed: u64, other: &Int) -> Int {
    let v = a.big();
    let len = a.mag.trimmed_len();
    let r = match rel {
        0..=6 => v,
        7 => v + 1,
        8 => v - 1,
        9 => {
            let pos = gen::position(len, sel, seed).min(len * 64 + 70);
            let bit = BigInt::one() << pos;
            let m = v.magnitude().clone();
            let flipped = BigInt::from(m ^ bit.magnitude());
            if a.neg {
                -flipped
            } else {
                flipped
            }
        }
        10 => -v,
        11 => {
            let m = Nat(gen::expand(len, (seed % gen::N_PATTERNS as u64) as u8, seed)).big();
            if a.neg {
                -BigInt::from(m)
            } else {
                BigInt::from(m)
            }
        }
        12 => {
            // top word dropped
            let w = &a.mag.0[..len.saturating_sub(1)];
            let m = BigInt::from(words_to_big(w));
            if a.neg {
                -m
            } else {
                m
            }
        }
        13 => {
            let top = BigInt::one() << (64 * len);
            if a.neg {
                v - top
            } else {
                v + top
            }
        }
        14 => {
            // one word changed by one
            if len == 0 {
                v + 1
            } else {
                let i = (seed as usize) % len;
                let d = BigInt::one() << (64 * i);
                if seed & 1 == 0 {
                    v + d
                } else {
                    v - d
                }
            }
        }
        _ => other.big(),
    };
    Int::from_big(&r)
}

type RawIOp = (u16, Int, u8, u16, u64, u16, u8);
fn raw_iop() -> impl Strategy<Value = RawIOp> {
    (any::<u16>(), small_int(), 0u8..8, any::<u16>(), any::<u64>(), prop_oneof![3 => 3u16..=6, 2 => 7u16..=40, 1 => 41u16..=300], any::<u8>())
}

fn build_iop(v: Int, raw: &RawIOp) -> IOp {
    let (ridx, k, kmode, ssel, seed, big, alt) = raw;
    let route = pick(I_ROUTES, *ridx);
    let len = v.mag.trimmed_len();
    let vb = v.big();
    let k = match kmode {
        0 | 1 => k.clone(),
        2 => Int::from_i128(1),
        3 => {
            // carries exactly to a word boundary
            let j = if seed & 1 == 0 { len.max(1) } else { len + 1 };
            let top = BigInt::one() << (64 * j);
            Int::from_big(&(top - BigInt::from(vb.magnitude().clone())))
        }
        4 => Int::from_big(&vb),
        5 => Int::from_big(&-vb),
        6 => Int { neg: k.neg, mag: Nat(gen::expand(len + 2, (seed % 12) as u8, *seed)) },
        _ => Int { neg: k.neg, mag: Nat(gen::expand(len.max(1), (seed % 12) as u8, *seed)) },
    };
    let s = gen::position(len, *ssel, *seed).min(64 * len + 400) as u32;
    let mut op = IOp { v, route, k, s, big: *big, alt: *alt };
    // fields the route does not read are cleared (readable replays, distinct digests)
    if !matches!(route, AddSub | SubAdd | MulDiv | DivMul | Xor | Static) {
        op.k = Int::default();
    }
    if !matches!(route, ShlShr | SetClear | SplitBits | Chunks) {
        op.s = 0;
    }
    if !matches!(route, CloneFromLarge | Take | Static) {
        op.big = 0;
    }
    op
}

fn int_case() -> impl Strategy<Value = IntCase> {
    (small_int(), small_int(), (0u8..16, any::<u16>(), any::<u64>()), (0u8..16, any::<u16>(), any::<u64>(), any::<bool>()), raw_iop(), raw_iop(), raw_iop()).prop_map(
        |(v0, ind, (r1, s1, d1), (r2, s2, d2, from0), o0, o1, o2)| {
            // when a `pow` route is present the base value is made a perfect power of about the same size
            let v0 = if [&o0, &o1, &o2].iter().any(|o| pick(I_ROUTES, o.0) == Pow) && !v0.mag.is_zero() {
                let e = [2u32, 3, 5, 7][(d1 % 4) as usize];
                let bits = v0.mag.big().bits();
                let b = (v0.mag.big() >> (bits - (bits / e as u64).max(1))) | BigUint::one();
                Int { neg: v0.neg, mag: Nat::from_big(&Pow::pow(&b, e)) }
            } else {
                v0
            };
            let v1 = related(&v0, r1, s1, d1, &ind);
            let v2 = related(if from0 { &v0 } else { &v1 }, r2, s2, d2, &ind);
            IntCase { ops: vec![build_iop(v0, &o0), build_iop(v1, &o1), build_iop(v2, &o2)] }
        },
    )
}

// ------------------------------------------------------------------------------------------------
// integers: routes
// ------------------------------------------------------------------------------------------------

fn large_u(words: u16) -> UBig {
    UBig::from_words(&vec![Word::MAX; words as usize])
}

/// Runs `f` on a `&'static [Word]` backed by a boxed slice which is reclaimed afterwards.  `f` must
/// not let the reference (or a value built by `from_static_words` on it) escape; the callers below
/// keep such values in `ManuallyDrop`, only read them and return owned clones.
fn with_leaked<T>(words: &[Word], f: impl FnOnce(&'static [Word]) -> T) -> T {
    let ptr: *mut [Word] = Box::into_raw(words.to_vec().into_boxed_slice());
    // SAFETY: the allocation lives until the `Box::from_raw` below; if `f` panics it is leaked
    let r = f(unsafe { &*ptr });
    // SAFETY: `ptr` came from Box::into_raw and nothing refers to it any more
    unsafe { drop(Box::from_raw(ptr)) };
    r
}

fn nz(b: BigUint) -> BigUint {
    if b.is_zero() {
        BigUint::one()
    } else {
        b
    }
}

fn parse_text(digits: String, alt: u8) -> String {
    let mut t = digits;
    if alt & 8 != 0 && t.len() > 1 {
        t.insert(1, '_');
    }
    if alt & 16 != 0 {
        t = t.to_uppercase();
    }
    if alt & 32 != 0 {
        t = format!("000{t}");
    }
    t
}

const RADICES: [u32; 5] = [10, 16, 2, 36, 7];

fn perfect_power(m: &BigUint) -> Option<(BigUint, u32)> {
    if m <= &BigUint::one() {
        return None;
    }
    for e in [7u32, 5, 3, 2] {
        let r = m.nth_root(e);
        if &Pow::pow(&r, e) == m {
            return Some((r, e));
        }
    }
    None
}

fn build_u(op: &IOp, tr: &mut Tr, out: &mut Out) -> UBig {
    let want = op.v.mag.big();
    let words: Vec<Word> = op.v.mag.0[..op.v.mag.trimmed_len()].to_vec();
    let base = || UBig::from_words(&words);
    let alt = op.alt;
    let kb = op.k.mag.big();
    match op.route {
        Words => {
            let mut w = words.clone();
            w.extend(std::iter::repeat(0).take((alt % 4) as usize));
            UBig::from_words(&w)
        }
        Bytes => {
            let mut b = want.to_bytes_le();
            if want.is_zero() && alt & 4 != 0 {
                b.clear();
            }
            let pad = ((alt >> 3) % 4) as usize * if alt & 64 != 0 { 8 } else { 1 };
            b.extend(std::iter::repeat(0u8).take(pad));
            if alt & 1 == 0 {
                UBig::from_le_bytes(&b)
            } else {
                b.reverse();
                UBig::from_be_bytes(&b)
            }
        }
        Parse => {
            let radix = RADICES[(alt % 5) as usize];
            let mut t = parse_text(want.to_str_radix(radix), alt);
            if alt & 64 != 0 {
                t = format!("+{t}");
            }
            if radix == 10 && alt & 128 != 0 {
                t.parse::<UBig>().expect("parse")
            } else {
                UBig::from_str_radix(&t, radix).expect("from_str_radix")
            }
        }
        Prim => {
            if let Some(x) = want.to_u128() {
                match alt % 6 {
                    0 => {
                        if let Ok(v) = u8::try_from(x) {
                            UBig::from(v)
                        } else if let Ok(v) = u16::try_from(x) {
                            UBig::from(v)
                        } else if let Ok(v) = u32::try_from(x) {
                            UBig::from(v)
                        } else if let Ok(v) = u64::try_from(x) {
                            UBig::from(v)
                        } else {
                            UBig::from(x)
                        }
                    }
                    1 => UBig::from(x),
                    2 => u64::try_from(x).map(UBig::from).unwrap_or_else(|_| UBig::from(x)),
                    3 => usize::try_from(x).map(UBig::from).unwrap_or_else(|_| UBig::from(x)),
                    4 => UBig::from_dword(x as DoubleWord),
                    _ => Word::try_from(x).map(UBig::from_word).unwrap_or_else(|_| UBig::from_dword(x)),
                }
            } else {
                out.label("route:fallback from_words");
                base()
            }
        }
        AddSub => {
            let k = op.k.mag.ubig();
            let sw = &want + &kb;
            match alt % 3 {
                0 => {
                    let s = base() + k.clone();
                    tr.u("v+k", &s, &sw);
                    s - k
                }
                1 => {
                    let s = &k + &base();
                    tr.u("k+v", &s, &sw);
                    &s - &k
                }
                _ => {
                    let mut t = base();
                    t += &k;
                    tr.u("v+=k", &t, &sw);
                    t -= k;
                    t
                }
            }
        }
        SubAdd => {
            let k = op.k.mag.ubig();
            if want >= kb {
                let d = base() - &k;
                tr.u("v-k", &d, &(&want - &kb));
                if alt & 1 == 0 {
                    d + &k
                } else {
                    let mut t = d;
                    t += k;
                    t
                }
            } else {
                let d = &k - base();
                tr.u("k-v", &d, &(&kb - &want));
                if alt & 1 == 0 {
                    &k - d
                } else {
                    let mut t = k;
                    t -= &d;
                    t
                }
            }
        }
        MulDiv => {
            let kb = nz(kb);
            let k = n2u(&kb);
            let pw = &want * &kb;
            match alt % 3 {
                0 => {
                    let p = base() * &k;
                    tr.u("v*k", &p, &pw);
                    p / &k
                }
                1 => {
                    let p = &k * &base();
                    tr.u("k*v", &p, &pw);
                    &p / &k
                }
                _ => {
                    let mut t = base();
                    t *= &k;
                    tr.u("v*=k", &t, &pw);
                    t /= k;
                    t
                }
            }
        }
        DivMul => {
            let kb = nz(kb);
            let k = n2u(&kb);
            let (q, r) = if alt & 1 == 0 { base().div_rem(&k) } else { (&base()).div_rem(&k) };
            tr.u("quotient", &q, &(&want / &kb));
            tr.u("remainder", &r, &(&want % &kb));
            q * k + r
        }
        ShlShr => {
            let s = op.s as usize;
            let sw = &want << s;
            match alt % 3 {
                0 => {
                    let t = base() << s;
                    tr.u("v<<s", &t, &sw);
                    t >> s
                }
                1 => {
                    let t = &base() << s;
                    tr.u("&v<<s", &t, &sw);
                    &t >> s
                }
                _ => {
                    let mut t = base();
                    t <<= s;
                    tr.u("v<<=s", &t, &sw);
                    t >>= s;
                    t
                }
            }
        }
        Xor => {
            let k = op.k.mag.ubig();
            let x = base() ^ &k;
            tr.u("v^k", &x, &(&want ^ &kb));
            if alt & 1 == 0 {
                x ^ k
            } else {
                let mut t = x;
                t ^= &k;
                t
            }
        }
        NegNeg => {
            let n = -IBig::from(base());
            tr.i("-v", &n, &-BigInt::from(want.clone()));
            UBig::try_from(-n).expect("UBig::try_from(non-negative IBig)")
        }
        Clone => base().clone(),
        CloneFromLarge => {
            let mut t = large_u(op.big);
            if alt & 1 != 0 {
                let small = UBig::from_word(5);
                t.clone_from(&small);
                tr.u("clone_from(small) onto large", &t, &BigUint::from(5u8));
            }
            let src = base();
            t.clone_from(&src);
            t
        }
        CloneFromSmall => {
            let mut t = if alt & 1 == 0 { UBig::from_word(alt as Word) } else { UBig::from_dword((alt as DoubleWord) << 64 | 1) };
            t.clone_from(&base());
            t
        }
        Take => {
            let mut t = if alt & 4 != 0 {
                let mut l = large_u(op.big.max(3));
                l.clone_from(&base());
                l
            } else {
                base()
            };
            let x = std::mem::take(&mut t);
            tr.u("value left behind by mem::take", &t, &BigUint::zero());
            match alt % 3 {
                0 => x + t,
                1 => {
                    t.clone_from(&x);
                    t
                }
                _ => {
                    t = x;
                    t
                }
            }
        }
        Serde => {
            if alt & 1 == 0 {
                serde_json::from_str::<UBig>(&serde_json::to_string(&base()).expect("to json")).expect("from json")
            } else {
                postcard::from_bytes::<UBig>(&postcard::to_allocvec(&base()).expect("to postcard")).expect("from postcard")
            }
        }
        ViaRatio => {
            let parts = if alt & 1 == 0 {
                let r = RBig::from(base());
                match UBig::try_from(r.clone()) {
                    Ok(u) => return u,
                    Err(_) => r.into_parts(),
                }
            } else {
                let r = Relaxed::from(base());
                match UBig::try_from(r.clone()) {
                    Ok(u) => return u,
                    Err(_) => r.into_parts(),
                }
            };
            // C06/ubig-from-rbig-tests-numerator: the conversion refuses integers; take the numerator
            out.label("route:UBig::try_from(rational) refused, numerator taken");
            tr.u("denominator of From<UBig>", &parts.1, &BigUint::one());
            UBig::try_from(parts.0).expect("UBig::try_from(numerator)")
        }
        ViaFloat => match alt % 3 {
            0 => UBig::try_from(FBig::<mode::Zero, 2>::from(base())).expect("UBig::try_from(FBig<2>)"),
            1 => UBig::try_from(FBig::<mode::HalfAway, 10>::from(base()).to_int().value()).expect("UBig::try_from(to_int)"),
            _ => UBig::try_from(FBig::<mode::Down, 16>::from(base())).expect("UBig::try_from(FBig<16>)"),
        },
        Pieces => {
            let mut acc = UBig::ZERO;
            let mut m = BigUint::zero();
            if alt & 1 == 0 {
                for w in words.iter().rev() {
                    acc = (acc << 64usize) | UBig::from_word(*w);
                    m = (m << 64usize) | BigUint::from(*w);
                    tr.u("partial sum of words", &acc, &m);
                }
            } else {
                let mut i = words.len();
                if i % 2 == 1 {
                    i -= 1;
                    acc = UBig::from_word(words[i]);
                    m = BigUint::from(words[i]);
                }
                while i >= 2 {
                    i -= 2;
                    let dw = (words[i + 1] as DoubleWord) << 64 | words[i] as DoubleWord;
                    acc = (acc << 128usize) + UBig::from_dword(dw);
                    m = (m << 128usize) + BigUint::from(dw);
                    tr.u("partial sum of double words", &acc, &m);
                }
            }
            acc
        }
        SetClear => {
            let n = op.s as usize;
            let bit = BigUint::one() << n;
            let mut t = base();
            if want.bit(n as u64) {
                t.clear_bit(n);
                tr.u("clear_bit", &t, &(&want - &bit));
                t.set_bit(n);
            } else {
                t.set_bit(n);
                tr.u("set_bit", &t, &(&want + &bit));
                t.clear_bit(n);
            }
            t
        }
        Ones => {
            let n = want.bits() as usize + [0usize, 0, 1, 64, 65, 128][(alt % 6) as usize];
            let all = (BigUint::one() << n) - BigUint::one();
            let o = UBig::ones(n);
            tr.u("ones(n)", &o, &all);
            let d = &all - &want;
            if d.is_zero() {
                o
            } else if alt & 64 == 0 {
                o - n2u(&d)
            } else {
                o ^ n2u(&d)
            }
        }
        Pow => {
            if want.is_zero() {
                UBig::ZERO.pow((alt % 3) as usize + 1)
            } else if let Some((r, e)) = perfect_power(&want) {
                out.label("route:pow of a perfect power");
                n2u(&r).pow(e as usize)
            } else {
                let t = want.trailing_zeros().unwrap_or(0) as usize;
                let m = &want >> t;
                let p = UBig::from(2u8).pow(t);
                tr.u("2^t", &p, &(BigUint::one() << t));
                p * n2u(&m).pow(1)
            }
        }
        SplitBits => {
            let n = op.s as usize;
            let mask = (BigUint::one() << n) - BigUint::one();
            if alt & 2 == 0 {
                let (lo, hi) = base().split_bits(n);
                tr.u("split_bits low part", &lo, &(&want & &mask));
                tr.u("split_bits high part", &hi, &(&want >> n));
                if alt & 1 == 0 {
                    (hi << n) | lo
                } else {
                    (hi << n) + lo
                }
            } else {
                let mut lo = base();
                lo.clear_high_bits(n);
                tr.u("clear_high_bits", &lo, &(&want & &mask));
                let hi = (base() >> n) << n;
                tr.u("(v>>n)<<n", &hi, &((&want >> n) << n));
                hi + lo
            }
        }
        Chunks => {
            let cb = op.s as usize % 200 + 1;
            let ch = base().to_chunks(cb);
            let mask = (BigUint::one() << cb) - BigUint::one();
            for (i, c) in ch.iter().enumerate() {
                tr.u("chunk", c, &((&want >> (i * cb)) & &mask));
            }
            UBig::from_chunks(ch.iter(), cb)
        }
        Static => with_leaked(&words, |sl| {
            // SAFETY (contract of from_static_words): `sl` is trimmed (top word non-zero); the value is
            // kept in ManuallyDrop, only read, never mutated, and does not outlive this closure
            let st = ManuallyDrop::new(unsafe { UBig::from_static_words(sl) });
            tr.u("from_static_words value", &st, &want);
            let reference = base();
            let bad = suite::<UBig>(&st, &reference, Ordering::Equal, Ordering::Equal, Some(hash_of::<UBig>));
            let bad2 = suite::<UBig>(&reference, &st, Ordering::Equal, Ordering::Equal, Some(hash_of::<UBig>));
            if tr.err.is_none() && !(bad.is_empty() && bad2.is_empty()) {
                tr.err = Some(format!("from_static_words value against from_words of the same words: {}", [bad, bad2].concat().join("; ")));
            }
            let k = op.k.mag.ubig();
            let s = &*st + &k;
            tr.u("static + k", &s, &(&want + &kb));
            if alt & 1 == 0 {
                (*st).clone()
            } else {
                let mut t = large_u(op.big.max(3));
                t.clone_from(&st);
                t
            }
        }),
        SqrtRem => {
            let (r, m) = base().sqrt_rem();
            let rw = want.sqrt();
            tr.u("sqrt_rem root", &r, &rw);
            tr.u("sqrt_rem remainder", &m, &(&want - &rw * &rw));
            &r * &r + m
        }
        Parts => IBig::from(base()).into_parts().1,
        NotNot => {
            let n = !IBig::from(base());
            tr.i("!v", &n, &(-BigInt::from(want.clone()) - 1));
            UBig::try_from(!n).expect("UBig::try_from(!!v)")
        }
    }
}

fn sign_of(neg: bool) -> Sign {
    if neg {
        Sign::Negative
    } else {
        Sign::Positive
    }
}

fn build_i(op: &IOp, tr: &mut Tr, out: &mut Out) -> IBig {
    let want = op.v.big();
    let neg = op.v.neg && !op.v.mag.is_zero();
    let words: Vec<Word> = op.v.mag.0[..op.v.mag.trimmed_len()].to_vec();
    let base = || IBig::from_parts(sign_of(neg), UBig::from_words(&words));
    let alt = op.alt;
    let kb = op.k.big();
    let k = || op.k.ibig();
    match op.route {
        Words => {
            let mut w = words.clone();
            w.extend(std::iter::repeat(0).take((alt % 4) as usize));
            IBig::from_parts(sign_of(neg), UBig::from_words(&w))
        }
        Bytes => {
            let mut b = want.to_signed_bytes_le();
            if want.is_zero() && alt & 4 != 0 {
                b.clear();
            }
            let pad = ((alt >> 3) % 4) as usize * if alt & 64 != 0 { 8 } else { 1 };
            b.extend(std::iter::repeat(if neg { 0xffu8 } else { 0 }).take(pad));
            if alt & 1 == 0 {
                IBig::from_le_bytes(&b)
            } else {
                b.reverse();
                IBig::from_be_bytes(&b)
            }
        }
        Parse => {
            let radix = RADICES[(alt % 5) as usize];
            let mut t = parse_text(want.magnitude().to_str_radix(radix), alt);
            if neg {
                t = format!("-{t}");
            } else if alt & 64 != 0 {
                t = format!("+{t}");
            }
            if radix == 10 && alt & 128 != 0 {
                t.parse::<IBig>().expect("parse")
            } else {
                IBig::from_str_radix(&t, radix).expect("from_str_radix")
            }
        }
        Prim => {
            if let Some(x) = want.to_i128() {
                match alt % 6 {
                    0 => {
                        if let Ok(v) = i8::try_from(x) {
                            IBig::from(v)
                        } else if let Ok(v) = i16::try_from(x) {
                            IBig::from(v)
                        } else if let Ok(v) = i32::try_from(x) {
                            IBig::from(v)
                        } else if let Ok(v) = i64::try_from(x) {
                            IBig::from(v)
                        } else {
                            IBig::from(x)
                        }
                    }
                    1 => IBig::from(x),
                    2 => i64::try_from(x).map(IBig::from).unwrap_or_else(|_| IBig::from(x)),
                    3 => u128::try_from(x).map(IBig::from).unwrap_or_else(|_| IBig::from(x)),
                    4 => IBig::from_parts_const(sign_of(neg), x.unsigned_abs()),
                    _ => isize::try_from(x).map(IBig::from).unwrap_or_else(|_| IBig::from(x)),
                }
            } else if let Some(x) = want.magnitude().to_u128() {
                IBig::from_parts_const(sign_of(neg), x)
            } else {
                out.label("route:fallback from_words");
                base()
            }
        }
        AddSub => {
            let sw = &want + &kb;
            match alt % 3 {
                0 => {
                    let s = base() + k();
                    tr.i("v+k", &s, &sw);
                    s - k()
                }
                1 => {
                    let kk = k();
                    let s = &kk + &base();
                    tr.i("k+v", &s, &sw);
                    &s - &kk
                }
                _ => {
                    let mut t = base();
                    t += &k();
                    tr.i("v+=k", &t, &sw);
                    t -= k();
                    t
                }
            }
        }
        SubAdd => {
            let dw = &want - &kb;
            match alt % 3 {
                0 => {
                    let d = base() - k();
                    tr.i("v-k", &d, &dw);
                    d + k()
                }
                1 => {
                    let kk = k();
                    let d = &kk - &base();
                    tr.i("k-v", &d, &-dw);
                    &kk - &d
                }
                _ => {
                    let mut t = base();
                    t -= &k();
                    tr.i("v-=k", &t, &dw);
                    t += k();
                    t
                }
            }
        }
        MulDiv => {
            let kb = if kb.is_zero() { BigInt::one() } else { kb };
            let kk = n2i(&kb);
            let pw = &want * &kb;
            match alt % 3 {
                0 => {
                    let p = base() * &kk;
                    tr.i("v*k", &p, &pw);
                    p / &kk
                }
                1 => {
                    let p = &kk * &base();
                    tr.i("k*v", &p, &pw);
                    &p / &kk
                }
                _ => {
                    let mut t = base();
                    t *= &kk;
                    tr.i("v*=k", &t, &pw);
                    t /= kk;
                    t
                }
            }
        }
        DivMul => {
            let kb = if kb.is_zero() { BigInt::one() } else { kb };
            let kk = n2i(&kb);
            let (q, r) = if alt & 1 == 0 { base().div_rem(&kk) } else { (&base()).div_rem(&kk) };
            let (qw, rw) = num_integer::Integer::div_rem(&want, &kb);
            tr.i("quotient", &q, &qw);
            tr.i("remainder", &r, &rw);
            q * kk + r
        }
        ShlShr => {
            let s = op.s as usize;
            let sw = &want << s;
            match alt % 3 {
                0 => {
                    let t = base() << s;
                    tr.i("v<<s", &t, &sw);
                    t >> s
                }
                1 => {
                    let t = &base() << s;
                    tr.i("&v<<s", &t, &sw);
                    &t >> s
                }
                _ => {
                    let mut t = base();
                    t <<= s;
                    tr.i("v<<=s", &t, &sw);
                    t >>= s;
                    t
                }
            }
        }
        Xor => {
            let x = base() ^ &k();
            tr.i("v^k", &x, &(&want ^ &kb));
            if alt & 1 == 0 {
                x ^ k()
            } else {
                let mut t = x;
                t ^= &k();
                t
            }
        }
        NegNeg => {
            let n = if alt & 1 == 0 { -base() } else { -&base() };
            tr.i("-v", &n, &-want.clone());
            -n
        }
        Clone => base().clone(),
        CloneFromLarge => {
            let mut t = IBig::from_parts(sign_of(alt & 2 != 0), large_u(op.big));
            if alt & 1 != 0 {
                let small = IBig::from(-5i8);
                t.clone_from(&small);
                tr.i("clone_from(small) onto large", &t, &BigInt::from(-5));
            }
            let src = base();
            t.clone_from(&src);
            t
        }
        CloneFromSmall => {
            let mut t = if alt & 1 == 0 { IBig::from(alt as i8) } else { IBig::from_parts_const(sign_of(alt & 2 != 0), (alt as DoubleWord) << 64 | 1) };
            t.clone_from(&base());
            t
        }
        Take => {
            let mut t = if alt & 4 != 0 {
                let mut l = IBig::from_parts(sign_of(alt & 8 != 0), large_u(op.big.max(3)));
                l.clone_from(&base());
                l
            } else {
                base()
            };
            let x = std::mem::take(&mut t);
            tr.i("value left behind by mem::take", &t, &BigInt::zero());
            match alt % 3 {
                0 => x + t,
                1 => {
                    t.clone_from(&x);
                    t
                }
                _ => {
                    t = x;
                    t
                }
            }
        }
        Serde => {
            if alt & 1 == 0 {
                serde_json::from_str::<IBig>(&serde_json::to_string(&base()).expect("to json")).expect("from json")
            } else {
                postcard::from_bytes::<IBig>(&postcard::to_allocvec(&base()).expect("to postcard")).expect("from postcard")
            }
        }
        ViaRatio => {
            let parts = if alt & 1 == 0 {
                let r = RBig::from(base());
                match IBig::try_from(r.clone()) {
                    Ok(i) => return i,
                    Err(_) => r.into_parts(),
                }
            } else {
                let r = Relaxed::from(base());
                match IBig::try_from(r.clone()) {
                    Ok(i) => return i,
                    Err(_) => r.into_parts(),
                }
            };
            out.label("route:IBig::try_from(rational) refused, numerator taken");
            parts.0
        }
        ViaFloat => match alt % 4 {
            0 => FBig::<mode::Zero, 2>::from(base()).to_int().value(),
            1 => IBig::try_from(FBig::<mode::HalfAway, 10>::from(base())).expect("IBig::try_from(FBig<10>)"),
            2 => FBig::<mode::HalfEven, 10>::from(base()).to_int().value(),
            _ => IBig::try_from(FBig::<mode::Down, 16>::from(base())).expect("IBig::try_from(FBig<16>)"),
        },
        Pieces => {
            let mut acc = IBig::ZERO;
            let mut m = BigInt::zero();
            for w in words.iter().rev() {
                if neg {
                    acc = (acc << 64usize) - IBig::from(*w);
                    m = (m << 64usize) - BigInt::from(*w);
                } else {
                    acc = (acc << 64usize) + IBig::from(*w);
                    m = (m << 64usize) + BigInt::from(*w);
                }
                tr.i("partial sum of words", &acc, &m);
            }
            acc
        }
        Static => with_leaked(&words, |sl| {
            // SAFETY: as in build_u — trimmed words, ManuallyDrop, read-only, confined to the closure
            let st = ManuallyDrop::new(unsafe { IBig::from_static_words(sign_of(neg), sl) });
            tr.i("from_static_words value", &st, &want);
            let reference = base();
            let bad = suite::<IBig>(&st, &reference, Ordering::Equal, Ordering::Equal, Some(hash_of::<IBig>));
            let bad2 = suite::<IBig>(&reference, &st, Ordering::Equal, Ordering::Equal, Some(hash_of::<IBig>));
            if tr.err.is_none() && !(bad.is_empty() && bad2.is_empty()) {
                tr.err = Some(format!("from_static_words value against from_parts of the same words: {}", [bad, bad2].concat().join("; ")));
            }
            let s = &*st - &k();
            tr.i("static - k", &s, &(&want - &kb));
            if alt & 1 == 0 {
                (*st).clone()
            } else {
                let mut t = IBig::from_parts(sign_of(alt & 2 != 0), large_u(op.big.max(3)));
                t.clone_from(&st);
                t
            }
        }),
        Parts => match alt % 4 {
            0 => {
                let (s, m) = base().into_parts();
                IBig::from_parts(s, m)
            }
            1 => {
                let x = base();
                let s = x.sign();
                x.abs() * s
            }
            2 => IBig::from(base().unsigned_abs()) * sign_of(neg),
            _ => {
                let x = base();
                x.signum() * x.abs()
            }
        },
        NotNot => {
            let n = !base();
            tr.i("!v", &n, &(-want.clone() - 1));
            !n
        }
        Pow => {
            // odd exponents keep the sign: (-r)^e
            match perfect_power(want.magnitude()) {
                Some((r, e)) if e % 2 == 1 || !neg => {
                    out.label("route:pow of a perfect power");
                    IBig::from_parts(sign_of(neg), n2u(&r)).pow(e as usize)
                }
                _ => IBig::from_parts(sign_of(neg), build_u(op, tr, out)),
            }
        }
        SetClear | Ones | SplitBits | Chunks | SqrtRem => IBig::from_parts(sign_of(neg), build_u(op, tr, out)),
    }
}

// ------------------------------------------------------------------------------------------------
// integers: oracle
// ------------------------------------------------------------------------------------------------

fn run_int(c: &IntCase, _ctx: &Ctx) -> Out {
    let mut out = Out::new();
    let ops = &c.ops[..c.ops.len().min(3)];
    let mut is: Vec<IBig> = Vec::new();
    let mut us: Vec<Option<UBig>> = Vec::new();
    for (idx, op) in ops.iter().enumerate() {
        out.label(ir_label(op.route));
        out.label(gen::repr_class(op.v.mag.trimmed_len()));
        let want = op.v.big();
        let mut tr = Tr::new();
        match catch(|| build_i(op, &mut tr, &mut out)) {
            Err(m) => {
                out.fail(format!("IBig operand {idx} = {} via {}: panicked: {}", show_i(&want), ir_label(op.route), normalise(&m)));
                return out;
            }
            Ok(x) => {
                tr.i("result", &x, &want);
                if let Some(e) = tr.err {
                    out.fail(format!("IBig operand {idx} via {} (k = {}, s = {}, alt = {}): {e}", ir_label(op.route), show_i(&op.k.big()), op.s, op.alt));
                    return out;
                }
                out.label(layout_class(&x.__verif_repr()));
                is.push(x);
            }
        }
        if op.v.neg && !op.v.mag.is_zero() {
            us.push(None);
            continue;
        }
        let mut tr = Tr::new();
        match catch(|| build_u(op, &mut tr, &mut out)) {
            Err(m) => {
                out.fail(format!("UBig operand {idx} = {} via {}: panicked: {}", show_i(&want), ir_label(op.route), normalise(&m)));
                return out;
            }
            Ok(x) => {
                tr.u("result", &x, want.magnitude());
                if let Some(e) = tr.err {
                    out.fail(format!("UBig operand {idx} via {} (k = {}, s = {}, alt = {}): {e}", ir_label(op.route), show_u(&op.k.mag.big()), op.s, op.alt));
                    return out;
                }
                us.push(Some(x));
            }
        }
    }
    let vals: Vec<BigInt> = ops.iter().map(|o| o.v.big()).collect();
    for a in 0..ops.len() {
        for b in 0..ops.len() {
            let want = vals[a].cmp(&vals[b]);
            let wabs = vals[a].magnitude().cmp(vals[b].magnitude());
            let (ra, rb) = (ir_label(ops[a].route), ir_label(ops[b].route));
            let (sa, sb) = (show_i(&vals[a]), show_i(&vals[b]));
            if a < b {
                out.label(order_label(want));
                let (la, lb) = (ops[a].v.mag.trimmed_len(), ops[b].v.mag.trimmed_len());
                if la.min(lb) <= 2 && la.max(lb) >= 3 {
                    out.label("pair:inline against heap");
                }
                if ops[a].route != ops[b].route && la.max(lb) >= 2 {
                    out.nontrivial(true);
                    if want == Ordering::Equal {
                        out.label("pair:equal value, different routes, >= 2 words");
                    }
                }
            }
            let (x, y) = (&is[a], &is[b]);
            let r = catch(|| {
                let mut bad = suite::<IBig>(x, y, want, wabs, Some(hash_of::<IBig>));
                let ae = x.abs_eq(y);
                if ae != (wabs == Ordering::Equal) {
                    bad.push(format!("abs_eq is {ae}"));
                }
                bad
            });
            report(&mut out, "IBig", a, ra, b, rb, &sa, &sb, want, r);
            if let (Some(x), Some(y)) = (&us[a], &us[b]) {
                let r = catch(|| {
                    let mut bad = suite::<UBig>(x, y, want, wabs, Some(hash_of::<UBig>));
                    let ae = x.abs_eq(y);
                    if ae != (want == Ordering::Equal) {
                        bad.push(format!("abs_eq is {ae}"));
                    }
                    bad
                });
                report(&mut out, "UBig", a, ra, b, rb, &sa, &sb, want, r);
            }
            // mixed UBig / IBig: AbsOrd and AbsEq only (no PartialEq / PartialOrd between the two types)
            if let Some(x) = &us[a] {
                let y = &is[b];
                let r = catch(|| {
                    let mut bad = Vec::new();
                    let (c1, c2) = (AbsOrd::abs_cmp(x, y), AbsOrd::abs_cmp(y, x));
                    if c1 != wabs || c2 != wabs.reverse() {
                        bad.push(format!("UBig.abs_cmp(IBig) is {c1:?}, IBig.abs_cmp(UBig) is {c2:?}, magnitudes compare {wabs:?}"));
                    }
                    let (e1, e2) = (AbsEq::abs_eq(x, y), AbsEq::abs_eq(y, x));
                    if e1 != (wabs == Ordering::Equal) || e2 != e1 {
                        bad.push(format!("UBig.abs_eq(IBig) is {e1}, IBig.abs_eq(UBig) is {e2}"));
                    }
                    bad
                });
                report(&mut out, "UBig against IBig", a, ra, b, rb, &sa, &sb, want, r);
            }
        }
    }
    out
}

// ------------------------------------------------------------------------------------------------
// floats
// ------------------------------------------------------------------------------------------------

#[derive(Debug, Clone, Copy, PartialEq, Eq, Hash, Serialize, Deserialize)]
enum FR {
    FromRepr,
    Padded,
    FromParts,
    PartsConst,
    Parse,
    WithPrecision,
    WithRounding,
    WithBase,
    FAddSub,
    FMulDiv,
    FShlShr,
    FNegNeg,
    FClone,
    FCloneFrom,
    FromInt,
    FromF64,
    Const,
}

const F_ROUTES: &[FR] = &[
    FR::FromRepr,
    FR::FromRepr,
    FR::Padded,
    FR::Padded,
    FR::FromParts,
    FR::FromParts,
    FR::PartsConst,
    FR::Parse,
    FR::Parse,
    FR::WithPrecision,
    FR::WithPrecision,
    FR::WithRounding,
    FR::WithBase,
    FR::WithBase,
    FR::FAddSub,
    FR::FAddSub,
    FR::FMulDiv,
    FR::FShlShr,
    FR::FNegNeg,
    FR::FClone,
    FR::FCloneFrom,
    FR::FromInt,
    FR::FromF64,
    FR::Const,
];

fn fr_label(r: FR) -> &'static str {
    match r {
        FR::FromRepr => "route:from_repr(Repr::new)",
        FR::Padded => "route:Repr::new(sig*B^k, e-k)",
        FR::FromParts => "route:from_parts(sig*B^k, e-k)",
        FR::PartsConst => "route:from_parts_const",
        FR::Parse => "route:from_str",
        FR::WithPrecision => "route:with_precision up and back",
        FR::WithRounding => "route:with_rounding",
        FR::WithBase => "route:with_base there and back",
        FR::FAddSub => "route:(x+y)-y",
        FR::FMulDiv => "route:(x*k)/k",
        FR::FShlShr => "route:(x<<j)>>j",
        FR::FNegNeg => "route:-(-x)",
        FR::FClone => "route:clone",
        FR::FCloneFrom => "route:clone_from onto a large / a one-digit value",
        FR::FromInt => "route:From<IBig>",
        FR::FromF64 => "route:TryFrom<f64>",
        FR::Const => "route:constant",
    }
}

#[derive(Debug, Clone, Hash, Serialize, Deserialize)]
struct FOp {
    /// 0 finite (value `v`), 1 +inf, 2 -inf
    kind: u8,
    v: Fl,
    /// precision = digits(v) + margin, or unlimited
    margin: u32,
    unlimited: bool,
    route: FR,
    /// number of base-B zeros appended to the significand (unnormalised inputs) / shift distance
    pad: u32,
    /// second operand of the arithmetic routes
    y: Fl,
    alt: u8,
}

#[derive(Debug, Clone, Hash, Serialize, Deserialize)]
struct FloatCase {
    ops: Vec<FOp>,
}

fn fdigits() -> BoxedStrategy<u64> {
    prop_oneof![3 => Just(1u64), 3 => Just(2u64), 2 => Just(3u64), 6 => 4u64..=10, 4 => 11u64..=40, 1 => 41u64..=130].boxed()
}

type RawFVal = (u64, u8, u64, bool, i64);
fn raw_fval() -> impl Strategy<Value = RawFVal> {
    (fdigits(), 0u8..9, any::<u64>(), any::<bool>(), prop_oneof![4 => -6i64..=6, 2 => -40i64..=40, 1 => -400i64..=400])
}
fn fval(base: u64, r: &RawFVal) -> Fl {
    let (k, pat, seed, neg, e) = r;
    let m = BigInt::from(sig_pattern(base, *k, *pat, *seed));
    fl_from(&if *neg { -m } else { m }, *e).normalised(base)
}

/// (kind, value) related to x
/// exponent arithmetic of the generator never leaves the isize range
fn ex(e: i128) -> i64 {
    e.clamp(i64::MIN as i128, i64::MAX as i128) as i64
}

/// like `Fl::normalised`, with a clamped exponent
fn norm(v: &Fl, base: u64) -> Fl {
    if v.exp.unsigned_abs() < 1 << 62 {
        return v.normalised(base);
    }
    let t = Fl { sig: v.sig.clone(), exp: 0 }.normalised(base);
    if t.sig.is_zero() {
        t
    } else {
        Fl { sig: t.sig, exp: ex(v.exp as i128 + t.exp as i128) }
    }
}

fn related_f(base: u64, x: &Fl, rel: u8, seed: u64, other: &Fl) -> (u8, Fl) {
    let s = x.sig.big();
    let xe = x.exp as i128;
    let d = x.digits(base) as i64;
    let b = BigInt::from(base);
    let one = if x.sig.neg { -BigInt::one() } else { BigInt::one() };
    let v = match rel {
        0..=6 => x.clone(),
        7 => fl_from(&(&s + 1), x.exp),
        8 => fl_from(&(&s - 1), x.exp),
        9 => fl_from(&s, ex(xe + 1)),
        10 => fl_from(&s, ex(xe - 1)),
        11 => fl_from(&-s, x.exp),
        // one more digit below
        12 => fl_from(&(&s * &b + &one), ex(xe - 1)),
        // the power of the base just above |x|
        13 => fl_from(&one, ex(xe + d as i128)),
        // a difference far below the last digit
        14 => {
            let j = seed % 30 + 2;
            fl_from(&(&s * BigInt::from(bpow(base, j)) + &one), ex(xe - j as i128))
        }
        15 => other.clone(),
        // same magnitude class as x, other digits
        16 => {
            let od = other.digits(base) as i64;
            Fl { sig: other.sig.clone(), exp: ex(xe + (d - od + (seed % 5) as i64 - 2) as i128) }
        }
        // exponent gap relative to the number of digits (precision shortcut of cmp)
        17 => {
            let od = other.digits(base) as i64;
            let g = [od, od + 1, od + 2, od - 1, -d, -d - 1, -d - 2, 2 * od + 3][(seed % 8) as usize];
            Fl { sig: other.sig.clone(), exp: ex(xe + g as i128) }
        }
        18 => Fl { sig: Int::default(), exp: 0 },
        19 => return (1, Fl { sig: Int::default(), exp: 0 }),
        20 => return (2, Fl { sig: Int::default(), exp: 0 }),
        _ => x.clone(),
    };
    (0, norm(&v, base))
}

type RawFOp = (u16, u8, bool, u8, RawFVal, i64, u8);
fn raw_fop() -> impl Strategy<Value = RawFOp> {
    (any::<u16>(), 0u8..8, prop::bool::weighted(0.08), prop_oneof![4 => 0u8..=3, 2 => 4u8..=12, 1 => 13u8..=60], raw_fval(), -12i64..=12, any::<u8>())
}
fn build_fop(base: u64, kind: u8, v: Fl, raw: &RawFOp) -> FOp {
    let (ridx, msel, unlimited, pad, yraw, dy, alt) = raw;
    let route = pick(F_ROUTES, *ridx);
    let margin = [0u32, 0, 1, 2, 5, 20, 100, 1][*msel as usize];
    let mut y = fval(base, &(yraw.0.min(12), yraw.1, yraw.2, yraw.3, 0));
    y.exp = ex(v.exp as i128 + *dy as i128);
    let mut op = FOp { kind, v, margin, unlimited: *unlimited, route, pad: *pad as u32, y, alt: *alt };
    if op.v.exp.unsigned_abs() > 1 << 62 {
        // only routes that do no exponent arithmetic of their own
        if !matches!(op.route, FR::FromRepr | FR::Padded | FR::WithRounding | FR::FClone | FR::FCloneFrom | FR::FNegNeg | FR::WithPrecision) {
            op.route = FR::FromRepr;
        }
        if op.v.exp < 0 {
            op.pad = 0;
        }
    }
    if op.route != FR::FAddSub || kind != 0 {
        op.y = Fl { sig: Int::default(), exp: 0 };
    }
    if kind != 0 || !matches!(op.route, FR::Padded | FR::FromParts | FR::PartsConst | FR::Parse | FR::FShlShr | FR::WithPrecision) {
        op.pad = 0;
    }
    op
}

fn float_case(base: u64) -> impl Strategy<Value = FloatCase> {
    (raw_fval(), raw_fval(), (0u8..24, any::<u64>()), (0u8..24, any::<u64>(), any::<bool>()), raw_fop(), raw_fop(), raw_fop()).prop_map(move |(x0, ind, (r1, s1), (r2, s2, from0), o0, o1, o2)| {
        let mut v0 = fval(base, &x0);
        // exponents next to the ends of the isize range (cmp adds precision / digit counts to them)
        if !v0.sig.is_zero() {
            match o0.6 % 32 {
                0 => v0.exp = isize::MAX as i64 - (s1 % 300) as i64,
                1 => v0.exp = isize::MIN as i64 + (s1 % 300) as i64,
                _ => {}
            }
        }
        let other = fval(base, &ind);
        let (k1, v1) = related_f(base, &v0, r1, s1, &other);
        let (k2, v2) = related_f(base, if from0 || k1 != 0 { &v0 } else { &v1 }, r2, s2, &other);
        FloatCase { ops: vec![build_fop(base, 0, v0, &o0), build_fop(base, k1, v1, &o1), build_fop(base, k2, v2, &o2)] }
    })
}

/// model value of a float
#[derive(Clone, Debug)]
enum FV {
    NegInf,
    /// normalised
    Fin(Fl, u64),
    PosInf,
}

/// |a| against |b| for normalised values: by the position of the leading digit, then exactly
fn fl_abs_cmp(a: &Fl, b: &Fl, base: u64) -> Ordering {
    match (a.sig.is_zero(), b.sig.is_zero()) {
        (true, true) => return Ordering::Equal,
        (true, false) => return Ordering::Less,
        (false, true) => return Ordering::Greater,
        _ => {}
    }
    let (ta, tb) = (a.exp as i128 + a.digits(base) as i128, b.exp as i128 + b.digits(base) as i128);
    if ta != tb {
        return ta.cmp(&tb);
    }
    // same leading position: the exponents differ by less than the longer digit count
    let m = a.exp.min(b.exp);
    let l = a.sig.mag.big() * bpow(base, (a.exp - m) as u64);
    let r = b.sig.mag.big() * bpow(base, (b.exp - m) as u64);
    l.cmp(&r)
}
impl FV {
    fn rank(&self) -> i8 {
        match self {
            FV::NegInf => -1,
            FV::Fin(..) => 0,
            FV::PosInf => 1,
        }
    }
    fn cmp(&self, o: &FV) -> Ordering {
        match (self, o) {
            (FV::Fin(a, base), FV::Fin(b, _)) => {
                let sg = |f: &Fl| if f.sig.is_zero() { 0 } else if f.sig.neg { -1 } else { 1 };
                match sg(a).cmp(&sg(b)) {
                    Ordering::Equal if sg(a) < 0 => fl_abs_cmp(b, a, *base),
                    Ordering::Equal => fl_abs_cmp(a, b, *base),
                    o => o,
                }
            }
            _ => self.rank().cmp(&o.rank()),
        }
    }
    fn abs_cmp(&self, o: &FV) -> Ordering {
        match (self, o) {
            (FV::Fin(a, base), FV::Fin(b, _)) => fl_abs_cmp(a, b, *base),
            _ => self.rank().abs().cmp(&o.rank().abs()),
        }
    }
    fn show(&self) -> String {
        match self {
            FV::NegInf => "-inf".into(),
            FV::PosInf => "+inf".into(),
            FV::Fin(f, base) => f.sci(*base).show(),
        }
    }
}

fn precision_of(op: &FOp, base: u64) -> usize {
    if op.unlimited {
        0
    } else {
        (op.v.digits(base) as usize).max(1) + op.margin as usize
    }
}

fn exact<T>(tr: &mut Tr, what: &str, r: Approximation<T, dashu_float::round::Rounding>) -> T {
    match r {
        Approximation::Exact(v) => v,
        Approximation::Inexact(v, e) => {
            if tr.err.is_none() {
                tr.err = Some(format!("{what} reported Inexact({e:?}) although the value is representable"));
            }
            v
        }
    }
}

fn fcheck_value<R: Round, const B: Word>(tr: &mut Tr, what: &str, f: &FBig<R, B>, want: &Sci) {
    if tr.err.is_some() {
        return;
    }
    match Sci::from_repr(f.repr()) {
        None => tr.err = Some(format!("{what}: infinite instead of {}", want.show())),
        Some(g) => {
            if g.cmp(want) != Ordering::Equal {
                tr.err = Some(format!("{what}: value {} instead of {}", g.show(), want.show()));
            }
        }
    }
}

fn build_f<R: Round, O: Round, const B: Word>(op: &FOp, tr: &mut Tr, out: &mut Out) -> FBig<R, B> {
    let base = B as u64;
    let d = op.v.digits(base) as usize;
    let p = precision_of(op, base);
    let ctx = Context::<R>::new(p);
    let alt = op.alt;
    if op.kind != 0 {
        let inf = || if op.kind == 1 { Repr::<B>::infinity() } else { Repr::<B>::neg_infinity() };
        let opposite = || if op.kind == 1 { FBig::<R, B>::from_repr(Repr::<B>::neg_infinity(), ctx) } else { FBig::<R, B>::from_repr(Repr::<B>::infinity(), ctx) };
        return match alt % 8 {
            // sign operations on the opposite infinity (C05/float-sign-ops-ignore-infinity)
            6 => {
                if alt & 8 == 0 {
                    -opposite()
                } else {
                    -&opposite()
                }
            }
            7 => {
                if op.kind == 1 {
                    opposite().abs()
                } else if alt & 8 == 0 {
                    opposite() * Sign::Negative
                } else {
                    let mut t = opposite();
                    t *= Sign::Negative;
                    t
                }
            }
            0 => {
                if op.kind == 1 {
                    FBig::<R, B>::INFINITY
                } else {
                    FBig::<R, B>::NEG_INFINITY
                }
            }
            1 => FBig::from_repr(inf(), ctx),
            2 => FBig::from_repr_const(inf()),
            3 => FBig::<R, B>::from_repr(inf(), ctx).clone(),
            4 => FBig::<O, B>::from_repr(inf(), Context::new(p)).with_rounding::<R>(),
            _ => {
                let x = FBig::<R, B>::from_repr(inf(), ctx);
                if B == 2 {
                    x.with_base::<16>().value().with_base::<B>().value()
                } else if B == 16 {
                    x.with_base::<2>().value().with_base::<B>().value()
                } else {
                    x.with_base::<B>().value()
                }
            }
        };
    }
    let e = op.v.exp as isize;
    let plain = || FBig::<R, B>::from_repr(Repr::new(op.v.sig.ibig(), e), ctx);
    let padded = |k: u32| -> BigInt { op.v.sig.big() * BigInt::from(bpow(base, k as u64)) };
    let x_sci = op.v.sci(base);
    match op.route {
        FR::FromRepr => plain(),
        FR::Padded => FBig::from_repr(Repr::new(n2i(&padded(op.pad)), e - op.pad as isize), ctx),
        FR::FromParts => FBig::from_parts(n2i(&padded(op.pad)), e - op.pad as isize),
        FR::PartsConst => match padded(op.pad).magnitude().to_u128() {
            Some(m) => {
                // the minimum precision may be absent, the precision of the case, or smaller than the
                // number of digits given (documented: the higher of the given and the inferred one is used)
                let minp = match alt % 4 {
                    0 => None,
                    1 => Some(p),
                    2 => Some(1),
                    _ => Some(d.saturating_sub(1).max(1)),
                };
                FBig::from_parts_const(sign_of(op.v.sig.neg), m, e - op.pad as isize, minp)
            }
            None => {
                out.label("route:fallback from_repr");
                plain()
            }
        },
        FR::Parse => {
            let digits = padded(op.pad).magnitude().to_str_radix(B as u32);
            let mut ee = e as i64 - op.pad as i64;
            let j = (alt >> 2) as usize % 4;
            let body = if alt & 2 != 0 && digits.len() > j {
                ee += j as i64;
                format!("{}.{}", &digits[..digits.len() - j], &digits[digits.len() - j..])
            } else {
                digits
            };
            let text = format!("{}{}@{}", if op.v.sig.neg { "-" } else { "" }, body, ee);
            FBig::<R, B>::from_str(&text).unwrap_or_else(|e| panic!("from_str({text:?}) failed: {e:?}"))
        }
        FR::WithPrecision => {
            let up = if p == 0 { d.max(1) + op.pad as usize } else { p + 1 + op.pad as usize };
            let a = exact(tr, "with_precision (larger)", plain().with_precision(up));
            fcheck_value(tr, "with_precision (larger)", &a, &x_sci);
            exact(tr, "with_precision (back)", a.with_precision(p))
        }
        FR::WithRounding => FBig::<O, B>::from_repr(Repr::new(op.v.sig.ibig(), e), Context::new(p)).with_rounding::<R>(),
        FR::WithBase => {
            let wide = if p == 0 { 0 } else { p.max(d + 24) };
            let x = FBig::<R, B>::from_repr(Repr::new(op.v.sig.ibig(), e), Context::new(wide));
            let back = if B == 2 {
                let h = exact(tr, "with_base::<16> of a base-2 number with spare precision", x.with_base::<16>());
                h.with_base::<B>()
            } else if B == 16 {
                let h = exact(tr, "with_base::<2> of a base-16 number", x.with_base::<2>());
                h.with_base::<B>()
            } else {
                x.with_base::<B>()
            };
            exact(tr, "with_base back to the original base", back)
        }
        FR::FAddSub => {
            let y_sci = op.y.sci(base);
            let dy = op.y.digits(base) as i64;
            let (ex, ey) = (op.v.exp, op.y.exp);
            let need = ((ex + d as i64).max(ey + dy) + 1 - ex.min(ey)).max(1) as usize;
            if need > 3000 {
                out.label("route:fallback from_repr");
                return plain();
            }
            let (px, py) = if p == 0 { (0, 0) } else { (p.max(need), (dy as usize).max(1)) };
            let xa = FBig::<R, B>::from_repr(Repr::new(op.v.sig.ibig(), e), Context::new(px));
            let ya = FBig::<R, B>::from_repr(Repr::new(op.y.sig.ibig(), op.y.exp as isize), Context::new(py));
            let s = match alt % 3 {
                0 => &xa + &ya,
                1 => ya.clone() + xa.clone(),
                _ => {
                    let mut t = xa.clone();
                    t += &ya;
                    t
                }
            };
            fcheck_value(tr, "x+y at a precision that holds the sum", &s, &x_sci.add(&y_sci));
            if alt & 4 == 0 {
                s - ya
            } else {
                let mut t = s;
                t -= &ya;
                t
            }
        }
        FR::FMulDiv => {
            let k = 2 + alt as u64 % (base * base);
            let kd = digits(&BigUint::from(k), base) as usize;
            let pw = d.max(1) + kd + 1;
            let pw = if p == 0 { pw } else { p.max(pw) };
            let xa = FBig::<R, B>::from_repr(Repr::new(op.v.sig.ibig(), e), Context::new(pw));
            let kf = FBig::<R, B>::from(UBig::from(k));
            let m = &xa * &kf;
            fcheck_value(tr, "x*k at a precision that holds the product", &m, &x_sci.mul(&Sci::new(BigInt::from(k), 0, base)));
            m / kf
        }
        FR::FShlShr => {
            let j = op.pad as isize + 1;
            if alt & 1 == 0 {
                let mut t = plain();
                t <<= j;
                fcheck_value(tr, "x <<= j", &t, &x_sci.mul(&Sci::unit(base, j as i64)));
                t >> j
            } else {
                let t = plain() >> j;
                fcheck_value(tr, "x >> j", &t, &x_sci.mul(&Sci::unit(base, -(j as i64))));
                t << j
            }
        }
        FR::FNegNeg => {
            if alt & 1 == 0 {
                let n = -plain();
                fcheck_value(tr, "-x", &n, &x_sci.neg());
                -n
            } else {
                let n = -&plain();
                -&n
            }
        }
        FR::FClone => plain().clone(),
        FR::FCloneFrom => {
            // onto a value with a long significand and a large precision, or onto a one-digit value
            // whose precision is smaller than the number of digits cloned into it
            let mut t = if alt & 2 == 0 { FBig::<R, B>::from_parts(IBig::from_parts(sign_of(alt & 1 != 0), large_u(40)), 7) } else { FBig::<R, B>::from_parts(IBig::from_parts(sign_of(alt & 1 != 0), UBig::from(1u8)), -3) };
            t.clone_from(&plain());
            t
        }
        FR::FromInt => {
            if (0..=60).contains(&e) {
                let n = op.v.sig.big() * BigInt::from(bpow(base, e as u64));
                if alt & 1 == 0 || op.v.sig.neg {
                    FBig::<R, B>::from(n2i(&n))
                } else {
                    FBig::<R, B>::from(n2u(n.magnitude()))
                }
            } else {
                out.label("route:fallback from_repr");
                plain()
            }
        }
        FR::FromF64 => match op.v.sig.big().to_i64() {
            Some(s) if B == 2 && s.unsigned_abs() < (1u64 << 53) && e.abs() < 900 => {
                let f = s as f64 * 2f64.powi(e as i32);
                let g = FBig::<R, 2>::try_from(f).expect("FBig::try_from(finite f64)");
                exact(tr, "with_base to the same base", g.with_base::<B>())
            }
            _ => {
                out.label("route:fallback from_repr");
                plain()
            }
        },
        FR::Const => {
            if op.v.sig.is_zero() {
                FBig::<R, B>::ZERO
            } else if e == 0 && op.v.sig.mag.big().is_one() {
                if op.v.sig.neg {
                    FBig::<R, B>::NEG_ONE
                } else {
                    FBig::<R, B>::ONE
                }
            } else {
                out.label("route:fallback from_repr");
                plain()
            }
        }
    }
}

/// raw reading of a produced float: the unique normal form of the target, canonical significand
/// layout, at most precision + 1 digits
fn fcheck_final<R: Round, const B: Word>(op: &FOp, f: &FBig<R, B>) -> Result<(), String> {
    let base = B as u64;
    let raw = f.repr().significand().__verif_repr();
    let e = f.repr().exponent();
    if op.kind != 0 {
        layout(&raw, &BigInt::zero())?;
        let ok = if op.kind == 1 { e > 0 } else { e < 0 };
        return if ok { Ok(()) } else { Err(format!("infinity of kind {} ({}) stored with significand 0 and exponent {e}, i.e. as the opposite infinity", op.kind, if op.kind == 1 { "+inf" } else { "-inf" })) };
    }
    let t = &op.v;
    layout(&raw, &t.sig.big()).map_err(|m| format!("significand (exponent {e}; normal form of the target is {}·{base}^{}): {m}", show_i(&t.sig.big()), t.exp))?;
    if e as i64 != t.exp {
        return Err(format!("exponent {e} with the significand of the normal form, whose exponent is {}", t.exp));
    }
    let dg = op.v.digits(base) as usize;
    if f.precision() != 0 && dg > f.precision() + 1 {
        return Err(format!("{dg} significant digits at precision {}", f.precision()));
    }
    Ok(())
}

macro_rules! cross_pair {
    ($out:ident, $ctx:ident, $cls:expr, $ia:expr, $ra:expr, $ib:expr, $rb:expr, $xa:expr, $xb:expr, $va:expr, $vb:expr, $want:expr) => {{
        let (xa, xb, want) = ($xa, $xb, $want);
        let r = catch(|| {
            let mut bad: Vec<String> = Vec::new();
            let (eq, ne) = (xa == xb, xa != xb);
            if eq != (want == Ordering::Equal) || ne == eq {
                bad.push(format!("`==` is {eq}, `!=` is {ne}"));
            }
            let pc = xa.partial_cmp(xb);
            if pc != Some(want) {
                bad.push(format!("partial_cmp is {pc:?}"));
            }
            let (lt, le, gt, ge) = (xa < xb, xa <= xb, xa > xb, xa >= xb);
            if lt != (want == Ordering::Less) || gt != (want == Ordering::Greater) || le != (want != Ordering::Greater) || ge != (want != Ordering::Less) {
                bad.push(format!("operators < <= > >= give {lt} {le} {gt} {ge}"));
            }
            bad
        });
        freport(&mut $out, $ctx, $cls, "FBig (different rounding-mode types)", $ia, $ra, $ib, $rb, $va, $vb, want, r);
    }};
}

/// C05/float-cmp-exponent-overflow: repr_cmp_same_base (float/src/cmp.rs, cases 4 and 5) adds the
/// precision resp. the digit estimate to an exponent with plain `+`
fn is_exp_overflow_panic(m: &str) -> bool {
    m.contains("attempt to add with overflow") && m.contains("float/src/cmp.rs")
}

fn freport(out: &mut Out, ctx: &Ctx, in_class: bool, ty: &str, ia: usize, ra: &str, ib: usize, rb: &str, va: &str, vb: &str, want: Ordering, r: Result<Vec<String>, String>) {
    if let Err(m) = &r {
        if in_class && is_exp_overflow_panic(m) {
            // call: ==-independent ordering of two finite non-zero floats (cmp / partial_cmp / abs_cmp / Repr::cmp);
            // input: exponent + max(precision, digits + 1) of an operand exceeds isize::MAX
            ctx.known_or_fail(out, "C05/float-cmp-exponent-overflow", || format!("{ty}: comparing operand {ia} ({ra}) = {va} with operand {ib} ({rb}) = {vb} panicked: {}", normalise(m)));
            return;
        }
    }
    report(out, ty, ia, ra, ib, rb, va, vb, want, r);
}

fn run_float<R1: ModeTag, R2: ModeTag, const B: Word>(c: &FloatCase, ctx: &Ctx) -> Out {
    let mut out = Out::new();
    let base = B as u64;
    if c.ops.len() < 3 {
        out.inconclusive("a float case needs three operands");
        return out;
    }
    let ops = &c.ops[..3];
    for op in ops {
        let nv = norm(&op.v, base);
        if op.kind == 0 && (nv.sig.big() != op.v.sig.big() || (!nv.sig.is_zero() && nv.exp != op.v.exp)) {
            out.inconclusive("replayed float case whose target value is not in normal form");
            return out;
        }
        if op.v.exp.unsigned_abs() > 1 << 62 {
            out.label("exponent next to the end of the isize range");
        }
        out.label(fr_label(op.route));
        out.label(match op.kind {
            0 if op.v.sig.is_zero() => "value:zero",
            0 => "value:finite",
            1 => "value:+inf",
            _ => "value:-inf",
        });
        if op.unlimited {
            out.label("p:unlimited");
        }
    }
    macro_rules! build {
        ($idx:expr, $R:ty, $O:ty) => {{
            let op = &ops[$idx];
            let mut tr = Tr::new();
            match catch(|| build_f::<$R, $O, B>(op, &mut tr, &mut out)) {
                Err(m) => {
                    out.fail(format!("FBig<{}, {base}> operand {} via {}: panicked: {}", <$R as ModeTag>::MODE.name(), $idx, fr_label(op.route), normalise(&m)));
                    return out;
                }
                Ok(f) => {
                    let err = tr.err.or_else(|| fcheck_final(op, &f).err());
                    if let Some(e) = err {
                        if op.kind != 0 && op.alt % 8 >= 6 && e.starts_with("infinity of kind") {
                            // call: Neg / Abs / Mul<Sign> / MulAssign<Sign> for FBig; input: an infinity
                            ctx.known_or_fail(&mut out, "C05/float-sign-ops-ignore-infinity", || format!("FBig<{}, {base}> operand {} (sign operation on the opposite infinity, alt {}): {e}", <$R as ModeTag>::MODE.name(), $idx, op.alt));
                            return out;
                        }
                        out.fail(format!("FBig<{}, {base}> operand {} via {} (precision {}, pad {}, alt {}): {e}", <$R as ModeTag>::MODE.name(), $idx, fr_label(op.route), f.precision(), op.pad, op.alt));
                        return out;
                    }
                    f
                }
            }
        }};
    }
    let x0: FBig<R1, B> = build!(0, R1, R2);
    let x1: FBig<R2, B> = build!(1, R2, R1);
    let x2: FBig<R1, B> = build!(2, R1, R2);
    let vals: Vec<FV> = ops
        .iter()
        .map(|o| match o.kind {
            0 => FV::Fin(o.v.clone(), base),
            1 => FV::PosInf,
            _ => FV::NegInf,
        })
        .collect();
    let shows: Vec<String> = vals.iter().map(|v| v.show()).collect();
    let same: [FBig<R1, B>; 3] = [x0.clone(), x1.clone().with_rounding::<R1>(), x2.clone()];
    let precs = [x0.precision(), x1.precision(), x2.precision()];
    // input class of C05/float-cmp-exponent-overflow for the pair (a, b)
    let near_max = |k: usize| ops[k].kind == 0 && !ops[k].v.sig.is_zero() && ops[k].v.exp as i128 + precs[k].max(ops[k].v.digits(base) as usize + 1) as i128 > isize::MAX as i128;
    let in_class = |a: usize, b: usize| ops[a].kind == 0 && ops[b].kind == 0 && !ops[a].v.sig.is_zero() && !ops[b].v.sig.is_zero() && (near_max(a) || near_max(b));
    for a in 0..3 {
        for b in 0..3 {
            let want = vals[a].cmp(&vals[b]);
            let wabs = vals[a].abs_cmp(&vals[b]);
            let (ra, rb) = (fr_label(ops[a].route), fr_label(ops[b].route));
            if a < b {
                out.label(order_label(want));
                if precs[a] != precs[b] {
                    out.label("pair:precisions differ");
                }
                if precs[a] != precs[b] || ops[a].route != ops[b].route {
                    out.nontrivial(true);
                }
                if let (FV::Fin(na, _), FV::Fin(nb, _)) = (&vals[a], &vals[b]) {
                    if !na.sig.is_zero() && !nb.sig.is_zero() && na.sig.neg == nb.sig.neg {
                        let (ea, eb) = (na.exp as i128, nb.exp as i128);
                        if precs[a] != 0 && precs[b] != 0 && (ea > eb + precs[b] as i128 || eb > ea + precs[a] as i128) {
                            out.label("cmp:decided by the exponent/precision shortcut");
                        } else if ea > eb + nb.digits(base) as i128 + 1 || eb > ea + na.digits(base) as i128 + 1 {
                            out.label("cmp:decided by the exponent/digits shortcut");
                        } else {
                            out.label("cmp:significands aligned and compared");
                        }
                    }
                }
            }
            let (x, y) = (&same[a], &same[b]);
            let r = catch(|| suite::<FBig<R1, B>>(x, y, want, wabs, None));
            freport(&mut out, ctx, in_class(a, b), "FBig", a, ra, b, rb, &shows[a], &shows[b], want, r);
            let r = catch(|| {
                let (p, q) = (x.repr(), y.repr());
                let mut bad = Vec::new();
                let eq = p == q;
                if eq != (want == Ordering::Equal) {
                    bad.push(format!("Repr `==` is {eq}"));
                }
                let (c1, c2) = (p.cmp(q), p.partial_cmp(q));
                if c1 != want || c2 != Some(want) {
                    bad.push(format!("Repr cmp is {c1:?}, partial_cmp is {c2:?}"));
                }
                bad
            });
            freport(&mut out, ctx, in_class(a, b), "float Repr", a, ra, b, rb, &shows[a], &shows[b], want, r);
        }
    }
    // the original types: R1 against R2 in both directions
    let w01 = vals[0].cmp(&vals[1]);
    let w21 = vals[2].cmp(&vals[1]);
    let (l0, l1, l2) = (fr_label(ops[0].route), fr_label(ops[1].route), fr_label(ops[2].route));
    cross_pair!(out, ctx, in_class(0, 1), 0, l0, 1, l1, &x0, &x1, &shows[0], &shows[1], w01);
    cross_pair!(out, ctx, in_class(0, 1), 1, l1, 0, l0, &x1, &x0, &shows[1], &shows[0], w01.reverse());
    cross_pair!(out, ctx, in_class(1, 2), 2, l2, 1, l1, &x2, &x1, &shows[2], &shows[1], w21);
    cross_pair!(out, ctx, in_class(1, 2), 1, l1, 2, l2, &x1, &x2, &shows[1], &shows[2], w21.reverse());
    out
}

// ------------------------------------------------------------------------------------------------
// rationals
// ------------------------------------------------------------------------------------------------

type Q = BigRational;

#[derive(Debug, Clone, Copy, PartialEq, Eq, Hash, Serialize, Deserialize)]
enum QR {
    QParts,
    QPartsSigned,
    QParse,
    QFromInt,
    QAddSub,
    QMulDiv,
    QOtherType,
    QClone,
    QCloneFrom,
    QPartsConst,
    QInvInv,
    QNegNeg,
    QFromF64,
    QIntAddSub,
}

const Q_ROUTES: &[QR] = &[
    QR::QParts,
    QR::QParts,
    QR::QParts,
    QR::QPartsSigned,
    QR::QParse,
    QR::QParse,
    QR::QFromInt,
    QR::QAddSub,
    QR::QAddSub,
    QR::QAddSub,
    QR::QMulDiv,
    QR::QMulDiv,
    QR::QOtherType,
    QR::QOtherType,
    QR::QClone,
    QR::QCloneFrom,
    QR::QPartsConst,
    QR::QInvInv,
    QR::QNegNeg,
    QR::QFromF64,
    QR::QIntAddSub,
    QR::QIntAddSub,
];

fn qr_label(r: QR) -> &'static str {
    match r {
        QR::QParts => "route:from_parts(n*g, d*g)",
        QR::QPartsSigned => "route:from_parts_signed",
        QR::QParse => "route:from_str_radix",
        QR::QFromInt => "route:From<integer>",
        QR::QAddSub => "route:(q+c)-c",
        QR::QMulDiv => "route:(q*c)/c",
        QR::QOtherType => "route:relax / canonicalize",
        QR::QClone => "route:clone",
        QR::QCloneFrom => "route:clone_from onto large",
        QR::QPartsConst => "route:from_parts_const",
        QR::QInvInv => "route:inv(inv(q))",
        QR::QNegNeg => "route:-(-q)",
        QR::QFromF64 => "route:TryFrom<f64>",
        QR::QIntAddSub => "route:(q+k)-k with an integer k",
    }
}

#[derive(Debug, Clone, Hash, Serialize, Deserialize)]
struct QOp {
    n: Int,
    d: Nat,
    route: QR,
    /// common factor put on numerator and denominator
    g: Nat,
    /// second operand c = cn/cd of the arithmetic routes
    cn: Int,
    cd: Nat,
    alt: u8,
}

#[derive(Debug, Clone, Hash, Serialize, Deserialize)]
struct RatioCase {
    ops: Vec<QOp>,
}

fn small_nat_nz() -> BoxedStrategy<Nat> {
    (prop_oneof![4 => Just(1usize), 4 => Just(2usize), 3 => Just(3usize), 2 => Just(4usize), 1 => 5usize..=12], 0u8..gen::N_PATTERNS, any::<u64>(), any::<bool>())
        .prop_map(|(n, p, s, tiny)| if tiny { Nat(vec![s % 30 + 1]) } else { Nat(gen::expand(n, p, s)) })
        .boxed()
}

fn nzi(b: BigInt) -> BigInt {
    if b.is_zero() {
        BigInt::one()
    } else {
        b
    }
}

fn related_q(n: &Int, d: &Nat, rel: u8, on: &Int, od: &Nat) -> (Int, Nat) {
    let (nb, db) = (n.big(), BigInt::from(d.big()));
    let (onb, odb) = (on.big(), BigInt::from(od.big()));
    let (rn, rd) = match rel {
        0..=6 => (nb, db),
        7 => (nb + 1, db),
        8 => (nb - 1, db),
        9 => (nb, db + 1),
        10 => (nb, nzi(db - 1)),
        11 => (-nb, db),
        12 => {
            if nb.is_zero() {
                (nb, db)
            } else if nb.is_negative() {
                (-db, -nb)
            } else {
                (db, nb)
            }
        }
        13 => (onb, odb),
        14 => (nb, BigInt::one()),
        15 => (BigInt::zero(), db),
        // a neighbour at distance 1/(d*od)
        16 => (&nb * &odb + 1, &db * &odb),
        17 => (nb, odb),
        _ => (nb, db),
    };
    (Int::from_big(&rn), Nat::from_big(nzi(rd).magnitude()))
}

type RawQOp = (u16, Nat, bool, Int, Nat, u8);
fn raw_qop() -> impl Strategy<Value = RawQOp> {
    (any::<u16>(), small_nat_nz(), prop::bool::weighted(0.25), small_int(), small_nat_nz(), any::<u8>())
}
fn build_qop(n: Int, d: Nat, raw: &RawQOp) -> QOp {
    let (ridx, g, gone, cn, cd, alt) = raw;
    let route = pick(Q_ROUTES, *ridx);
    let mut op = QOp { n, d, route, g: if *gone { Nat(vec![1]) } else { g.clone() }, cn: cn.clone(), cd: cd.clone(), alt: *alt };
    if !matches!(route, QR::QAddSub | QR::QMulDiv | QR::QIntAddSub) {
        op.cn = Int::default();
        op.cd = Nat(vec![1]);
    }
    op
}

fn ratio_case() -> impl Strategy<Value = RatioCase> {
    (small_int(), small_nat_nz(), small_int(), small_nat_nz(), (0u8..18, 0u8..10), (0u8..18, any::<bool>()), raw_qop(), raw_qop(), raw_qop()).prop_map(|(n0, d0, on, od, (r1, shape), (r2, from0), o0, o1, o2)| {
        // integers and small dyadic values now and then (routes From<integer>, TryFrom<f64>)
        let shape = match pick(Q_ROUTES, o0.0) {
            QR::QFromInt => 0,
            QR::QFromF64 => 1,
            _ => shape,
        };
        let (n0, d0) = match shape {
            0 => (n0, Nat(vec![1])),
            1 => {
                let k = d0.0[0] % 80;
                let w = n0.mag.0.first().copied().unwrap_or(0) >> 12;
                (Int { neg: n0.neg && w != 0, mag: Nat(vec![w]) }, Nat::from_big(&(BigUint::one() << k)))
            }
            _ => (n0, d0),
        };
        let (n1, d1) = related_q(&n0, &d0, r1, &on, &od);
        let (n2, d2) = if from0 { related_q(&n0, &d0, r2, &on, &od) } else { related_q(&n1, &d1, r2, &on, &od) };
        RatioCase { ops: vec![build_qop(n0, d0, &o0), build_qop(n1, d1, &o1), build_qop(n2, d2, &o2)] }
    })
}

fn q_model(op: &QOp) -> Q {
    Q::new(op.n.big(), nzi(BigInt::from(op.d.big())))
}

/// dyadic value that is exactly an f64
fn as_f64(q: &Q) -> Option<f64> {
    let d = q.denom().magnitude();
    if d.count_ones() != 1 {
        return None;
    }
    let k = d.bits() as i64 - 1;
    let n = q.numer().to_i64()?;
    if n.unsigned_abs() >= 1 << 53 || k > 900 {
        return None;
    }
    Some(n as f64 * 2f64.powi(-(k as i32)))
}

fn qcheck(tr: &mut Tr, what: &str, num: &IBig, den: &UBig, want: &Q, canon: bool) {
    if tr.err.is_some() {
        return;
    }
    let (n, d) = (i2n(num), BigInt::from(u2n(den)));
    tr.i(&format!("{what}: numerator"), num, &n);
    tr.u(&format!("{what}: denominator"), den, d.magnitude());
    if tr.err.is_some() {
        return;
    }
    if d.is_zero() {
        tr.err = Some(format!("{what}: denominator 0"));
    } else if &n * want.denom() != want.numer() * &d {
        tr.err = Some(format!("{what}: value {}/{} instead of {}/{}", show_i(&n), show_i(&d), show_i(want.numer()), show_i(want.denom())));
    } else if canon && (&n != want.numer() || &d != want.denom()) {
        tr.err = Some(format!("{what}: RBig stored as {}/{}, lowest terms are {}/{}", show_i(&n), show_i(&d), show_i(want.numer()), show_i(want.denom())));
    }
}

macro_rules! q_routes {
    ($fname:ident, $T:ident, $canon:expr) => {
        fn $fname(op: &QOp, tr: &mut Tr, out: &mut Out) -> $T {
            let want = q_model(op);
            let g = nzi(BigInt::from(op.g.big()));
            let (ng, dg) = (op.n.big() * &g, nzi(BigInt::from(op.d.big())) * &g);
            let alt = op.alt;
            let plain = || <$T>::from_parts(n2i(&ng), n2u(dg.magnitude()));
            let c = Q::new(op.cn.big(), nzi(BigInt::from(op.cd.big())));
            let cv = || <$T>::from_parts(op.cn.ibig(), n2u(nzi(BigInt::from(op.cd.big())).magnitude()));
            match op.route {
                QR::QParts => plain(),
                QR::QPartsSigned => {
                    if alt & 1 == 0 {
                        <$T>::from_parts_signed(n2i(&ng), n2i(&dg))
                    } else {
                        <$T>::from_parts_signed(n2i(&-ng.clone()), n2i(&-dg.clone()))
                    }
                }
                QR::QParse => {
                    let radix = [10u32, 16, 36, 2][(alt % 4) as usize];
                    let text = if alt & 4 != 0 && !ng.is_zero() {
                        format!("{}/-{}", (-ng.clone()).to_str_radix(radix), dg.to_str_radix(radix))
                    } else if alt & 8 != 0 && !ng.is_negative() {
                        format!("+{}/{}", ng.to_str_radix(radix), dg.to_str_radix(radix))
                    } else if want.is_integer() && alt & 16 != 0 {
                        want.numer().to_str_radix(radix)
                    } else {
                        format!("{}/{}", ng.to_str_radix(radix), dg.to_str_radix(radix))
                    };
                    <$T>::from_str_radix(&text, radix).unwrap_or_else(|e| panic!("from_str_radix({text:?}, {radix}) failed: {e:?}"))
                }
                QR::QFromInt => {
                    if want.is_integer() {
                        let n = want.numer();
                        match alt % 3 {
                            0 => <$T>::from(n2i(n)),
                            1 if !n.is_negative() => <$T>::from(n2u(n.magnitude())),
                            _ => match n.to_i64() {
                                Some(x) => <$T>::from(x),
                                None => <$T>::from(n2i(n)),
                            },
                        }
                    } else {
                        out.label("route:fallback from_parts");
                        plain()
                    }
                }
                QR::QAddSub => {
                    let s = match alt % 3 {
                        0 => plain() + cv(),
                        1 => &cv() + &plain(),
                        _ => {
                            let mut t = plain();
                            t += &cv();
                            t
                        }
                    };
                    qcheck(tr, "q+c", s.numerator(), s.denominator(), &(&want + &c), $canon);
                    if alt & 4 == 0 {
                        s - cv()
                    } else {
                        let mut t = s;
                        t -= cv();
                        t
                    }
                }
                QR::QMulDiv => {
                    if c.is_zero() {
                        out.label("route:fallback from_parts");
                        return plain();
                    }
                    let m = match alt % 3 {
                        0 => plain() * cv(),
                        1 => &cv() * &plain(),
                        _ => {
                            let mut t = plain();
                            t *= &cv();
                            t
                        }
                    };
                    qcheck(tr, "q*c", m.numerator(), m.denominator(), &(&want * &c), $canon);
                    if alt & 4 == 0 {
                        m / cv()
                    } else {
                        &m / &cv()
                    }
                }
                QR::QOtherType => other_type::$fname(n2i(&ng), n2u(dg.magnitude()), alt),
                QR::QClone => plain().clone(),
                QR::QCloneFrom => {
                    let mut t = <$T>::from_parts(IBig::from_parts(sign_of(alt & 1 != 0), large_u(30)), (UBig::ONE << 900usize) + UBig::ONE);
                    t.clone_from(&plain());
                    t
                }
                QR::QPartsConst => match (ng.magnitude().to_u128(), dg.magnitude().to_u128()) {
                    (Some(a), Some(b)) => <$T>::from_parts_const(sign_of(ng.is_negative()), a, b),
                    _ => {
                        out.label("route:fallback from_parts");
                        plain()
                    }
                },
                QR::QInvInv => {
                    if want.is_zero() {
                        out.label("route:fallback from_parts");
                        return plain();
                    }
                    let i = if alt & 1 == 0 { Inverse::inv(plain()) } else { Inverse::inv(&plain()) };
                    qcheck(tr, "inv(q)", i.numerator(), i.denominator(), &want.recip(), $canon);
                    Inverse::inv(i)
                }
                QR::QNegNeg => {
                    let n = -plain();
                    qcheck(tr, "-q", n.numerator(), n.denominator(), &-want.clone(), $canon);
                    -&n
                }
                QR::QIntAddSub => {
                    // q + k built directly in unreduced form, then the integer taken off again with
                    // the rational-with-integer operators (a Relaxed result keeps its denominator:
                    // the value 0 comes out as 0/(d·g))
                    let k = op.cn.big();
                    let t = <$T>::from_parts(n2i(&((op.n.big() + &k * nzi(BigInt::from(op.d.big()))) * &g)), n2u(dg.magnitude()));
                    qcheck(tr, "q+k (from_parts)", t.numerator(), t.denominator(), &(&want + Q::from_integer(k.clone())), $canon);
                    let ki = n2i(&k);
                    let unsigned = alt & 8 != 0 && !k.is_negative();
                    match alt % 6 {
                        0 if unsigned => t - n2u(k.magnitude()),
                        0 => t - ki,
                        1 if unsigned => &t - &n2u(k.magnitude()),
                        1 => &t - &ki,
                        2 => t + n2i(&-k.clone()),
                        3 => n2i(&-k.clone()) + &t,
                        4 if unsigned => -(n2u(k.magnitude()) - t),
                        4 => -(ki - t),
                        _ => -(&ki - &t),
                    }
                }
                QR::QFromF64 => match as_f64(&want) {
                    Some(f) => <$T>::try_from(f).expect("try_from(finite f64)"),
                    None => {
                        out.label("route:fallback from_parts");
                        plain()
                    }
                },
            }
        }
    };
}

mod other_type {
    use super::*;
    pub fn build_rbig(n: IBig, d: UBig, _alt: u8) -> RBig {
        Relaxed::from_parts(n, d).canonicalize()
    }
    pub fn build_relaxed(n: IBig, d: UBig, alt: u8) -> Relaxed {
        let r = RBig::from_parts(n, d);
        if alt & 1 == 0 {
            r.relax()
        } else {
            r.as_relaxed().clone()
        }
    }
}
q_routes!(build_rbig, RBig, true);
q_routes!(build_relaxed, Relaxed, false);

fn run_ratio(c: &RatioCase, _ctx: &Ctx) -> Out {
    let mut out = Out::new();
    let ops = &c.ops[..c.ops.len().min(3)];
    let mut rs: Vec<RBig> = Vec::new();
    let mut xs: Vec<Relaxed> = Vec::new();
    let vals: Vec<Q> = ops.iter().map(q_model).collect();
    for (idx, op) in ops.iter().enumerate() {
        out.label(qr_label(op.route));
        if op.d.is_zero() {
            out.inconclusive("replayed case with a zero denominator");
            return out;
        }
        let mut tr = Tr::new();
        match catch(|| build_rbig(op, &mut tr, &mut out)) {
            Err(m) => {
                out.fail(format!("RBig operand {idx} via {}: panicked: {}", qr_label(op.route), normalise(&m)));
                return out;
            }
            Ok(r) => {
                qcheck(&mut tr, "result", r.numerator(), r.denominator(), &vals[idx], true);
                if let Some(e) = tr.err {
                    out.fail(format!("RBig operand {idx} via {} (alt {}): {e}", qr_label(op.route), op.alt));
                    return out;
                }
                rs.push(r);
            }
        }
        let mut tr = Tr::new();
        match catch(|| build_relaxed(op, &mut tr, &mut out)) {
            Err(m) => {
                out.fail(format!("Relaxed operand {idx} via {}: panicked: {}", qr_label(op.route), normalise(&m)));
                return out;
            }
            Ok(r) => {
                qcheck(&mut tr, "result", r.numerator(), r.denominator(), &vals[idx], false);
                if let Some(e) = tr.err {
                    out.fail(format!("Relaxed operand {idx} via {} (alt {}): {e}", qr_label(op.route), op.alt));
                    return out;
                }
                let (n, d) = (i2n(r.numerator()), BigInt::from(u2n(r.denominator())));
                if !n.gcd(&d).is_one() {
                    out.label("Relaxed operand not in lowest terms");
                }
                // the equality predicates answer for the value, not for the stored parts
                let (wz, wo) = (vals[idx].is_zero(), vals[idx].is_one());
                let rb = &rs[idx];
                if (r.is_zero(), r.is_one(), rb.is_zero(), rb.is_one()) != (wz, wo, wz, wo) {
                    out.fail(format!(
                        "operand {idx} via {} = {}/{}: Relaxed is_zero {} is_one {}, RBig is_zero {} is_one {}; the value is {}zero and {}one",
                        qr_label(op.route), show_i(&n), show_i(&d), r.is_zero(), r.is_one(), rb.is_zero(), rb.is_one(), if wz { "" } else { "not " }, if wo { "" } else { "not " }
                    ));
                    return out;
                }
                if wo && !n.is_one() {
                    out.label("Relaxed one stored as k/k");
                }
                if wz && !d.is_one() {
                    out.label("Relaxed zero stored as 0/k");
                }
                xs.push(r);
            }
        }
    }
    let shows: Vec<String> = vals.iter().map(|v| format!("{}/{}", show_i(v.numer()), show_i(v.denom()))).collect();
    for a in 0..ops.len() {
        for b in 0..ops.len() {
            let want = vals[a].cmp(&vals[b]);
            let wabs = vals[a].abs().cmp(&vals[b].abs());
            let (ra, rb) = (qr_label(ops[a].route), qr_label(ops[b].route));
            if a < b {
                out.label(order_label(want));
                let words = |q: &Q| q.numer().bits().max(q.denom().bits());
                if ops[a].route != ops[b].route && words(&vals[a]).max(words(&vals[b])) > 64 {
                    out.nontrivial(true);
                }
                let (pa, pb) = ((i2n(xs[a].numerator()), u2n(xs[a].denominator())), (i2n(xs[b].numerator()), u2n(xs[b].denominator())));
                if want == Ordering::Equal && pa != pb {
                    out.label("pair:equal value, different Relaxed parts");
                    out.nontrivial(true);
                }
            }
            let (x, y) = (&rs[a], &rs[b]);
            let r = catch(|| {
                let mut bad = suite::<RBig>(x, y, want, wabs, Some(hash_of::<RBig>));
                let ae = x.abs_eq(y);
                if ae != (wabs == Ordering::Equal) {
                    bad.push(format!("abs_eq is {ae}"));
                }
                bad
            });
            report(&mut out, "RBig", a, ra, b, rb, &shows[a], &shows[b], want, r);
            let (x, y) = (&xs[a], &xs[b]);
            let r = catch(|| {
                let mut bad = suite::<Relaxed>(x, y, want, wabs, None);
                let ae = x.abs_eq(y);
                if ae != (wabs == Ordering::Equal) {
                    bad.push(format!("abs_eq is {ae}"));
                }
                bad
            });
            report(&mut out, "Relaxed", a, ra, b, rb, &shows[a], &shows[b], want, r);
            let (x, y) = (&rs[a], &xs[b]);
            let r = catch(|| {
                let mut bad = Vec::new();
                let (c1, c2) = (AbsOrd::abs_cmp(x, y), AbsOrd::abs_cmp(y, x));
                if c1 != wabs || c2 != wabs.reverse() {
                    bad.push(format!("RBig.abs_cmp(Relaxed) is {c1:?}, Relaxed.abs_cmp(RBig) is {c2:?}, magnitudes compare {wabs:?}"));
                }
                bad
            });
            report(&mut out, "RBig against Relaxed", a, ra, b, rb, &shows[a], &shows[b], want, r);
        }
    }
    // magnitudes against integers and floats next to the value
    for (a, op) in ops.iter().enumerate() {
        let q = vals[a].abs();
        let fl = q.floor().to_integer();
        let t = match op.alt % 3 {
            0 => fl.clone(),
            1 => &fl + 1,
            _ => q.round().to_integer(),
        };
        let wi = q.cmp(&Q::from_integer(t.clone()));
        out.label(match wi {
            Ordering::Equal => "integer pair:equal",
            _ => "integer pair:different",
        });
        let tu = n2u(t.magnitude());
        let ti = n2i(&if op.alt & 4 != 0 { -t.clone() } else { t.clone() });
        // a binary float next to |q|: numerator scaled by a power of two near 1/denominator
        let e2 = -(vals[a].denom().bits() as i64 - 1) + (op.alt as i64 >> 3) % 3 - 1;
        let fsig = vals[a].numer().clone();
        let wf = q.cmp(&Sci::new(fsig.abs(), e2, 2).to_rational());
        let f = FBig::<mode::Zero, 2>::from_parts(n2i(&fsig), e2 as isize);
        let (r, x) = (&rs[a], &xs[a]);
        let res = catch(|| {
            let mut bad = Vec::new();
            let got = [
                ("RBig.abs_cmp(UBig)", AbsOrd::abs_cmp(r, &tu), wi),
                ("UBig.abs_cmp(RBig)", AbsOrd::abs_cmp(&tu, r), wi.reverse()),
                ("RBig.abs_cmp(IBig)", AbsOrd::abs_cmp(r, &ti), wi),
                ("IBig.abs_cmp(RBig)", AbsOrd::abs_cmp(&ti, r), wi.reverse()),
                ("Relaxed.abs_cmp(UBig)", AbsOrd::abs_cmp(x, &tu), wi),
                ("UBig.abs_cmp(Relaxed)", AbsOrd::abs_cmp(&tu, x), wi.reverse()),
                ("Relaxed.abs_cmp(IBig)", AbsOrd::abs_cmp(x, &ti), wi),
                ("IBig.abs_cmp(Relaxed)", AbsOrd::abs_cmp(&ti, x), wi.reverse()),
                ("RBig.abs_cmp(FBig)", AbsOrd::abs_cmp(r, &f), wf),
                ("FBig.abs_cmp(RBig)", AbsOrd::abs_cmp(&f, r), wf.reverse()),
                ("Relaxed.abs_cmp(FBig)", AbsOrd::abs_cmp(x, &f), wf),
                ("FBig.abs_cmp(Relaxed)", AbsOrd::abs_cmp(&f, x), wf.reverse()),
                ("RBig.abs_cmp(+inf)", AbsOrd::abs_cmp(r, &FBig::<mode::Zero, 2>::INFINITY), Ordering::Less),
                ("-inf.abs_cmp(Relaxed)", AbsOrd::abs_cmp(&FBig::<mode::Zero, 2>::NEG_INFINITY, x), Ordering::Greater),
            ];
            for (what, g, w) in got {
                if g != w {
                    bad.push(format!("{what} is {g:?}, magnitudes compare {w:?}"));
                }
            }
            bad
        });
        let other = format!("integer {} / float {}·2^{}", show_i(&t), show_i(&fsig), e2);
        report(&mut out, "rational against integer / float (AbsOrd)", a, qr_label(op.route), a, "neighbouring integer and float", &shows[a], &other, wi, res);
    }
    out
}

// ------------------------------------------------------------------------------------------------
// integers: histories (in-place updates on a small pool, compared with freshly built equal values)
// ------------------------------------------------------------------------------------------------

#[derive(Debug, Clone, Copy, PartialEq, Eq, Hash, Serialize, Deserialize)]
enum HK {
    HAdd,
    HSub,
    HMul,
    HDiv,
    HRem,
    HShl,
    HShr,
    HAnd,
    HOr,
    HXor,
    HNot,
    HNeg,
    HAbs,
    HCloneFrom,
    HTake,
    HSqr,
    HSetBit,
    HClearBit,
    HAddWord,
    HSubWord,
    HMulWord,
    HDivWord,
}
use HK::*;

const H_KINDS: &[HK] = &[
    HAdd, HAdd, HAdd, HSub, HSub, HSub, HSub, HMul, HMul, HDiv, HDiv, HRem, HRem, HShl, HShl, HShr, HShr, HShr, HAnd, HOr, HXor, HXor, HNot, HNeg, HNeg, HAbs, HCloneFrom, HCloneFrom, HTake,
    HSqr, HSetBit, HClearBit, HClearBit, HAddWord, HSubWord, HSubWord, HMulWord, HDivWord, HDivWord,
];

fn hk_label(k: HK) -> &'static str {
    match k {
        HAdd => "step:add",
        HSub => "step:sub",
        HMul => "step:mul",
        HDiv => "step:div",
        HRem => "step:rem",
        HShl => "step:shl",
        HShr => "step:shr",
        HAnd => "step:and",
        HOr => "step:or",
        HXor => "step:xor",
        HNot => "step:not",
        HNeg => "step:neg",
        HAbs => "step:abs",
        HCloneFrom => "step:clone_from",
        HTake => "step:mem::take",
        HSqr => "step:sqr",
        HSetBit => "step:set_bit",
        HClearBit => "step:clear_bit",
        HAddWord => "step:add word",
        HSubWord => "step:sub word",
        HMulWord => "step:mul word",
        HDivWord => "step:div word",
    }
}

#[derive(Debug, Clone, Hash, Serialize, Deserialize)]
struct HOp {
    kind: HK,
    dst: u8,
    a: u8,
    b: u8,
    /// shift count / bit index
    s: u16,
    /// update slot `a` in place (its buffer is reused and the result moves to `dst`)
    assign: bool,
    w: u64,
}

#[derive(Debug, Clone, Hash, Serialize, Deserialize)]
struct HistCase {
    seeds: Vec<Int>,
    ops: Vec<HOp>,
}

const HPOOL: usize = 4;
const HCAP_BITS: u64 = 64 * 60;

fn hist_case(max_steps: usize) -> impl Strategy<Value = HistCase> {
    let op = (any::<u16>(), 0u8..4, 0u8..4, 0u8..4, prop_oneof![3 => 0u16..=3, 3 => 60u16..=68, 2 => 124u16..=132, 2 => 188u16..=196, 1 => 0u16..=400], any::<bool>(), prop_oneof![Just(1u64), Just(u64::MAX), any::<u64>()])
        .prop_map(|(k, dst, a, b, s, assign, w)| HOp { kind: pick(H_KINDS, k), dst, a, b, s, assign, w });
    (proptest::collection::vec(op, 0..=max_steps), proptest::collection::vec(small_int(), HPOOL)).prop_map(|(ops, seeds)| HistCase { seeds, ops })
}

fn run_hist(c: &HistCase, _ctx: &Ctx) -> Out {
    let mut out = Out::new();
    let mut pool: Vec<IBig> = Vec::new();
    let mut model: Vec<BigInt> = Vec::new();
    for k in 0..HPOOL {
        let s = c.seeds.get(k).cloned().unwrap_or_default();
        pool.push(s.ibig());
        model.push(s.big());
    }
    let mut crossed = false;
    for (idx, op) in c.ops.iter().enumerate() {
        let (dst, a, b) = (op.dst as usize % HPOOL, op.a as usize % HPOOL, op.b as usize % HPOOL);
        let (ma, mb) = (model[a].clone(), model[b].clone());
        let s = op.s as usize;
        let w = BigInt::from(op.w);
        // expected value from the model alone; None = step not applicable
        let exp: Option<BigInt> = match op.kind {
            HAdd => Some(&ma + &mb),
            HSub => Some(&ma - &mb),
            HMul => Some(&ma * &mb),
            HDiv if !mb.is_zero() => Some(&ma / &mb),
            HRem if !mb.is_zero() => Some(&ma % &mb),
            HShl => Some(&ma << s),
            HShr => Some(&ma >> s),
            HAnd => Some(&ma & &mb),
            HOr => Some(&ma | &mb),
            HXor => Some(&ma ^ &mb),
            HNot => Some(-&ma - 1),
            HNeg => Some(-&ma),
            HAbs => Some(ma.abs()),
            HCloneFrom => Some(ma.clone()),
            HTake => Some(ma.clone()),
            HSqr => Some(&ma * &ma),
            HSetBit if !ma.is_negative() => Some(&ma | (BigInt::one() << s)),
            HClearBit if !ma.is_negative() => Some(if ma.magnitude().bit(s as u64) { &ma - (BigInt::one() << s) } else { ma.clone() }),
            HAddWord => Some(&ma + &w),
            HSubWord => Some(&ma - &w),
            HMulWord => Some(&ma * &w),
            HDivWord if op.w != 0 => Some(&ma / &w),
            _ => None,
        };
        let exp = match exp {
            Some(e) if e.bits() <= HCAP_BITS => e,
            _ => {
                out.label("step:skipped");
                continue;
            }
        };
        out.label(hk_label(op.kind));
        let inplace = op.assign;
        let res = catch(|| -> IBig {
            // in-place: the value of slot a is moved out (slot a becomes 0 unless it is dst)
            if op.kind == HCloneFrom {
                let mut t = std::mem::take(&mut pool[dst]);
                let src = if dst == a { t.clone() } else { pool[a].clone() };
                t.clone_from(&src);
                return t;
            }
            if op.kind == HTake {
                return std::mem::take(&mut pool[a]);
            }
            let y = pool[b].clone();
            let mut x = if inplace { std::mem::take(&mut pool[a]) } else { pool[a].clone() };
            match (op.kind, inplace) {
                (HAdd, true) => {
                    x += &y;
                    x
                }
                (HAdd, false) => &x + &y,
                (HSub, true) => {
                    x -= y;
                    x
                }
                (HSub, false) => &x - &y,
                (HMul, true) => {
                    x *= &y;
                    x
                }
                (HMul, false) => &x * &y,
                (HDiv, true) => {
                    x /= &y;
                    x
                }
                (HDiv, false) => &x / &y,
                (HRem, true) => {
                    x %= &y;
                    x
                }
                (HRem, false) => &x % &y,
                (HShl, true) => {
                    x <<= s;
                    x
                }
                (HShl, false) => &x << s,
                (HShr, true) => {
                    x >>= s;
                    x
                }
                (HShr, false) => &x >> s,
                (HAnd, true) => {
                    x &= &y;
                    x
                }
                (HAnd, false) => &x & &y,
                (HOr, true) => {
                    x |= y;
                    x
                }
                (HOr, false) => &x | &y,
                (HXor, true) => {
                    x ^= &y;
                    x
                }
                (HXor, false) => &x ^ &y,
                (HNot, true) => !x,
                (HNot, false) => !&x,
                (HNeg, true) => -x,
                (HNeg, false) => -&x,
                (HAbs, _) => x.abs(),
                (HSqr, _) => IBig::from(x.sqr()),
                (HSetBit, _) => {
                    let mut u = UBig::try_from(x).expect("non-negative");
                    u.set_bit(s);
                    IBig::from(u)
                }
                (HClearBit, _) => {
                    let mut u = UBig::try_from(x).expect("non-negative");
                    u.clear_bit(s);
                    IBig::from(u)
                }
                (HAddWord, true) => {
                    x += op.w;
                    x
                }
                (HAddWord, false) => &x + op.w,
                (HSubWord, true) => {
                    x -= op.w;
                    x
                }
                (HSubWord, false) => &x - op.w,
                (HMulWord, true) => {
                    x *= op.w;
                    x
                }
                (HMulWord, false) => op.w * &x,
                (HDivWord, true) => {
                    x /= op.w;
                    x
                }
                (HDivWord, false) => &x / op.w,
                (HCloneFrom, _) | (HTake, _) => unreachable!(),
            }
        });
        let moved = op.kind == HTake || (inplace && op.kind != HCloneFrom);
        match res {
            Err(m) => {
                out.fail(format!("history step {idx} {:?} (a = {}, b = {}, s = {s}, w = {}, in place {inplace}): panicked: {}", op.kind, show_i(&ma), show_i(&mb), op.w, normalise(&m)));
                return out;
            }
            Ok(v) => {
                if moved && a != dst {
                    model[a] = BigInt::zero();
                }
                let (wa, wd) = (ma.magnitude().iter_u64_digits().len(), exp.magnitude().iter_u64_digits().len());
                if (wa <= 2) != (wd <= 2) {
                    crossed = true;
                    out.label("step:crossed the inline/heap boundary");
                }
                pool[dst] = v;
                model[dst] = exp;
                for k in [dst, a] {
                    if let Err(e) = layout(&pool[k].__verif_repr(), &model[k]) {
                        out.fail(format!("history step {idx} {:?} (a = {}, b = {}, s = {s}, w = {}, in place {inplace}), slot {k}: {e}", op.kind, show_i(&ma), show_i(&mb), op.w));
                        return out;
                    }
                }
            }
        }
    }
    out.nontrivial(crossed);
    // every slot against a freshly built equal value, and all pairs against the model order
    let fresh: Vec<IBig> = model.iter().map(n2i).collect();
    for a in 0..HPOOL {
        for b in 0..HPOOL {
            let want = model[a].cmp(&model[b]);
            let wabs = model[a].magnitude().cmp(model[b].magnitude());
            let (sa, sb) = (show_i(&model[a]), show_i(&model[b]));
            for (what, x, y) in [("pool/pool", &pool[a], &pool[b]), ("pool/fresh", &pool[a], &fresh[b]), ("fresh/pool", &fresh[a], &pool[b])] {
                let r = catch(|| suite::<IBig>(x, y, want, wabs, Some(hash_of::<IBig>)));
                report(&mut out, "IBig after a history", a, what, b, what, &sa, &sb, want, r);
            }
            if !model[a].is_negative() && !model[b].is_negative() {
                let r = catch(|| {
                    let (x, y) = (UBig::try_from(pool[a].clone()).expect("non-negative"), UBig::try_from(fresh[b].clone()).expect("non-negative"));
                    suite::<UBig>(&x, &y, want, wabs, Some(hash_of::<UBig>))
                });
                report(&mut out, "UBig after a history", a, "pool", b, "fresh", &sa, &sb, want, r);
            }
        }
    }
    out.label(match c.ops.len() {
        0 => "steps:0",
        1..=5 => "steps:1-5",
        _ => "steps:>5",
    });
    out
}

// MAIN-BEGIN
fn main() {
    let mut ck = Check::new(
        "C05",
        "same value, different route: a case holds three operands, each a target value plus one of 28 integer / 17 float / 13 rational routes (from_words with zero padding, le/be bytes, parse in radix 10/16/2/36/7, From<primitive>, (v+k)-k, (v-k)+k, (v*k)/k, q*k+r, (v<<s)>>s, xor twice, neg/not twice, clone, clone_from onto a large / small value, mem::take, serde, through RBig / FBig, word pieces, set_bit/clear_bit, ones(n)-d, pow, split_bits / clear_high_bits, chunks, from_static_words on a reclaimed boxed slice, sqrt_rem; floats: Repr::new / from_parts / from_parts_const / from_str with unnormalised significands, with_precision up and back, with_rounding, with_base 2<->16, (x+y)-y, (x*k)/k, shifts, From<IBig>, TryFrom<f64>, constants, +-inf, zero, precisions digits+{0,1,2,5,20,100} or unlimited; rationals: from_parts(n*g, d*g), from_parts_signed, from_str_radix, From<int>, (q+c)-c, (q+k)-k with an integer k on an unreduced start (Relaxed zero as 0/(d·g)), (q*c)/c, relax/canonicalize, from_parts_const, inv twice, TryFrom<f64>, each as RBig and as Relaxed). Operands of a case are equal or differ by +-1, one bit, one word, sign, one digit, one exponent step, a tiny fraction, or are independent; integer values concentrate on 0-4 words. Every produced integer (intermediates included, numerators / denominators / significands too) is read through the dashu_verif hook: target value and canonical layout (|capacity| 1/2 inline, >= 3 heap with len >= 3, top word != 0, len <= capacity, zero = +1); floats must be in normal form with at most precision+1 digits. Every ordered pair (9 per case): ==, !=, cmp, partial_cmp, < <= > >=, AbsOrd::abs_cmp, AbsEq, std Hash (UBig, IBig, RBig) against the order of the model values (num-bigint / BigRational / exact n*B^e with infinities); FBig also across rounding-mode types, float Repr ==/cmp, UBig<->IBig and RBig<->Relaxed abs_cmp, rationals against neighbouring integers and binary floats (AbsOrd). int_history: up to 14 in-place / by-reference steps on a pool of 4 IBig with a BigInt model, layout after every step, then every slot against a freshly built equal value. Non-trivial: a pair with different routes whose value has >= 2 words (floats: different routes or precisions; history: a step crossing the inline/heap boundary); distinct by case digest.",
    );
    ck.assume("the raw-representation hook `__verif_repr` of /repo (cfg dashu_verif) reports the stored fields faithfully");
    let steps = if ck.thorough() { 24 } else { 14 };
    ck.sub("int_routes", (40_000, 1_200_000), int_case, run_int);
    ck.sub("int_history", (12_000, 360_000), move || hist_case(steps), run_hist);
    ck.sub("float_routes_b2", (9_000, 270_000), || float_case(2), run_float::<mode::Zero, mode::HalfAway, 2>);
    ck.sub("float_routes_b10", (9_000, 270_000), || float_case(10), run_float::<mode::HalfAway, mode::Zero, 10>);
    ck.sub("float_routes_b16", (5_000, 150_000), || float_case(16), run_float::<mode::HalfEven, mode::Down, 16>);
    ck.sub("float_routes_b3", (5_000, 150_000), || float_case(3), run_float::<mode::Up, mode::Away, 3>);
    ck.sub("ratio_routes", (22_000, 660_000), ratio_case, run_ratio);
    ck.finish();
}
// MAIN-END
