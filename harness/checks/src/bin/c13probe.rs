use dashu_int::{UBig, IBig};
use dashu_base::Gcd; use dashu_int::fast_div::ConstDivisor;
use dv::gen;
fn main() {
    let LM: u64 = std::env::args().nth(1).unwrap().parse().unwrap();
    let mut best: Option<(usize, UBig, UBig)> = None;
    let mut n_fail = 0u64; let mut n = 0u64;
    let mut r = gen::SplitMix(12345);
    for it in 0..3_000_000u64 {
        let lm = 3 + (r.below(LM) as usize);
        let la = 3 + (r.below((lm - 2) as u64) as usize);
        let m = UBig::from_words(&gen::expand(lm, r.below(12) as u8, r.next()));
        let a0 = UBig::from_words(&gen::expand(la, r.below(12) as u8, r.next()));
        let a = &a0 % &m;
        if a.as_words().len() < 3 { continue; }
        n += 1;
        let (mm, aa) = (m.clone(), a.clone());
        let res = std::panic::catch_unwind(move || { let ring = ConstDivisor::new(mm); let v = ring.reduce(aa).inv().map(|v| v.residue()); v });
        let g1 = (&m).gcd(&a) == UBig::ONE;
        let bad = match res {
            Ok(Some(v)) => !g1 || (&a * &v) % &m != UBig::ONE,
            Ok(None) => g1,
            Err(_) => true,
        };
        if bad {
            n_fail += 1;
            let size = m.as_words().len() * 100 + a.as_words().len();
            if best.as_ref().map(|b| size < b.0).unwrap_or(true) { best = Some((size, m.clone(), a.clone())); }
        }
        let _ = it;
    }
    println!("tried {n} failed {n_fail}");
    if let Some((_, m, a)) = best { println!("m={:x}\na={:x}", m, a); }
}
