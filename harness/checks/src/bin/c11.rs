//! C11 — exp, exp_m1, ln, ln_1p, powi, powf within one ulp (rigorous ball-arithmetic enclosure
//! with a Ziv precision ladder; exact rationals where the true value is rational).
use dashu_base::Approximation;
use dashu_float::round::mode;
use dashu_float::round::Rounded;
use dashu_float::{Context, FBig};
use dashu_int::Word;
use dv::ball::{self, Ball, Tri};
use dv::fl::*;
use dv::gen::pick;
use dv::*;
use num_bigint::{BigInt, BigUint};
use num_traits::{One, Pow, Signed, Zero};
use proptest::prelude::*;
use serde::{Deserialize, Serialize};
use std::cmp::Ordering;

#[derive(Debug, Clone, Hash, Serialize, Deserialize)]
struct Case {
    f: u8, // 0 exp, 1 exp_m1, 2 ln, 3 ln_1p, 4 powi, 5 powf
    p: u32,
    x: Fl,
    y: Fl,  // powf exponent
    n: i64, // powi exponent
}

const FUNS: [&str; 6] = ["exp", "exp_m1", "ln", "ln_1p", "powi", "powf"];

fn precision(max_p: u32) -> BoxedStrategy<u32> {
    let hi = max_p.max(12);
    prop_oneof![
        2 => Just(1u32),
        2 => Just(2u32),
        2 => Just(3u32),
        6 => 4u32..=10,
        5 => 11u32..=hi.min(40),
        1 => (hi.min(41))..=hi,
    ]
    .boxed()
}

fn mk_operand(base: u64, p: u32, ksel: u16, pat: u8, seed: u64, neg: bool, exp: i64) -> Fl {
    let ks = [p as u64, p as u64, 1, (p as u64 + 1) / 2, 1 + seed % p as u64];
    let k = pick(&ks, ksel);
    let m = sig_pattern(base, k, pat, seed);
    let n = if neg { -BigInt::from(m) } else { BigInt::from(m) };
    fl_from(&n, exp)
}

/// exp of arguments between 2^13 and the point where the recorded finding
/// C11/exp-large-argument-guard-digits begins (integer digits of |x| >= series + pow guard digits − 2),
/// capped where the result's exponent would leave the isize range: the reduction x = s·ln B + r has
/// to absorb log_B|s| digits of cancellation there
fn exp_large_case(base: u64) -> impl Strategy<Value = Case> {
    (precision(40), (any::<u16>(), 0u8..9, any::<u64>(), any::<bool>()), any::<u16>()).prop_map(move |(p, (ka, pa, sa, na), tsel)| {
        let lb = (base as f64).log2();
        let tmax = (13.0 / lb).floor() as i64 - 1;
        let series_guard = ((p as f64).log2() / lb).floor() as i64 + 2;
        let bit_len = 64 - (p as u64).leading_zeros() as i64;
        let pow_guard = (bit_len as f64 * lb * 2.0).floor() as i64;
        // dx = top + 1 integer digits; the finding starts at dx = series_guard + pow_guard - 2
        let hi = (series_guard + pow_guard - 2).min((61.0 / lb).floor() as i64) - 1;
        let lo = tmax + 1;
        let top = if hi <= lo { lo } else { lo + (tsel as i64 * (hi - lo + 1) >> 16) };
        let mut x = mk_operand(base, p, ka, pa, sa, na, 0).normalised(base);
        if x.sig.is_zero() {
            x = fl_from(&BigInt::one(), 0);
        }
        let dd = x.digits(base) as i64;
        x.exp = top - dd + 1;
        let f = if !x.sig.neg && top as f64 * lb >= 14.0 && sa % 3 == 0 { 1 } else { 0 };
        Case { p, f, x, y: fl_from(&BigInt::one(), 0), n: 0 }
    })
}

fn case_strategy(base: u64, max_p: u32) -> impl Strategy<Value = Case> {
    case_strategy_with(base, precision(max_p))
}

/// precisions on both sides of every power of two up to 2^12 bits (the working precision, the
/// number of series terms and the argument reduction are functions of the bit length of p)
fn high_precision(base: u64) -> BoxedStrategy<u32> {
    let bits: [u32; 20] = [63, 64, 65, 127, 128, 129, 255, 256, 300, 511, 512, 700, 1023, 1024, 1100, 1500, 2047, 2048, 2100, 3000];
    let lb = (base as f64).log2();
    (0usize..bits.len(), any::<bool>()).prop_map(move |(i, digits)| {
        // the same number either as the precision in digits (capped at 4100 bits) or as its size in bits
        let b = bits[i];
        let p = if digits && (b as f64 * lb) <= 4100.0 { b } else { (b as f64 / lb).round() as u32 };
        p.max(12)
    }).boxed()
}

fn case_strategy_with(base: u64, prec: BoxedStrategy<u32>) -> impl Strategy<Value = Case> {
    (prec, 0u8..6, (any::<u16>(), 0u8..9, any::<u64>(), any::<bool>()), any::<u16>(), (any::<u16>(), 0u8..9, any::<u64>(), any::<bool>()), any::<u16>()).prop_map(
        move |(p, f, (ka, pa, sa, na), cls, (kb, pb, sb, nb), nsel)| {
            let pu = p as i64;
            // magnitude classes: value = sig · B^exp with sig of <= p digits; top digit position t = exp + digits - 1
            let d = |fl: &Fl| fl.digits(base) as i64;
            let one = fl_from(&BigInt::one(), 0);
            let mut x = mk_operand(base, p, ka, pa, sa, na, 0);
            let mut y = one.clone();
            let mut n = 0i64;
            let place = |mut v: Fl, top: i64| -> Fl {
                // move the value so that its leading digit sits at position `top` (value in [B^top, B^(top+1)))
                v = v.normalised(base);
                let dd = v.digits(base) as i64;
                v.exp = top - dd + 1;
                v
            };
            match f {
                0 | 1 => {
                    // exp / exp_m1: tiny, sub-ulp, small, moderate, large arguments of either sign
                    // |x| < B^(top+1) <= 2^13, so that exp(x) keeps an exponent of a few thousand digits
                    let tmax = (13.0 / (base as f64).log2()).floor() as i64 - 1;
                    let tops: [i64; 12] = [-1, 0, -2, 1, -pu, -pu - 1, -pu / 2, 2, -3 * pu - 7, -1000, 3, tmax];
                    let top = pick(&tops, cls).min(tmax);
                    x = place(x, top);
                    if cls % 29 == 0 {
                        x = fl_from(&BigInt::zero(), 0); // exact point
                    }
                }
                2 => {
                    // ln: x > 0; next to 1 (1 ± k ulp), powers of the base, tiny, huge
                    x.sig.neg = false;
                    match cls % 8 {
                        0 => {
                            // 1 + k·B^-(p-1)
                            let k = (sa % 5) as u32;
                            let v = Pow::pow(BigInt::from(base), (pu - 1) as u32) + BigInt::from(k);
                            x = fl_from(&v, -(pu - 1));
                        }
                        1 => {
                            // 1 - k·B^-p  (p digits of B-1 ...)
                            let k = 1 + (sa % 5) as u32;
                            let v = Pow::pow(BigInt::from(base), pu as u32) - BigInt::from(k);
                            x = fl_from(&v, -pu);
                        }
                        2 => x = fl_from(&BigInt::one(), (sa % 2001) as i64 - 1000), // pure power of the base
                        // every fourth of the tiny / huge cases far beyond: |log2 x| up to 2^40 in base 2
                        // (the scaling estimate of ln is an f32, exact only below 2^24)
                        3 if sa % 4 == 0 && base == 2 => x = place(x, -((1i64 << (20 + (sa >> 8) % 21)) + ((sa >> 16) % 1000) as i64)),
                        4 if sa % 4 == 0 && base == 2 => x = place(x, (1i64 << (20 + (sa >> 8) % 21)) + ((sa >> 16) % 1000) as i64),
                        3 => x = place(x, -1000 + (sa % 50) as i64),
                        4 => x = place(x, 1000 - (sa % 50) as i64),
                        5 => x = place(x, 0),
                        6 => x = place(x, -1),
                        _ => x = place(x, (sa % 40) as i64 - 20),
                    }
                }
                3 => {
                    // ln_1p: x > -1; tiny of either sign, next to -1, moderate, large
                    match cls % 8 {
                        0 => x = place(x, -pu - 1 - (sa % 40) as i64),
                        1 => x = place(x, -1000),
                        2 => {
                            // -1 + k·B^-p
                            let k = 1 + (sa % 5) as u32;
                            let v = -(Pow::pow(BigInt::from(base), pu as u32) - BigInt::from(k));
                            x = fl_from(&v, -pu);
                        }
                        3 => {
                            x.sig.neg = false;
                            x = place(x, (sa % 30) as i64);
                        }
                        4 => x = place(x, -1),
                        5 => x = place(x, -2),
                        6 => x = place(x, -pu / 2 - 1),
                        _ => {
                            x.sig.neg = false;
                            x = place(x, 0);
                        }
                    }
                    // keep inside the domain x > -1
                    if x.sig.neg && x.exp + d(&x) > 0 {
                        x.sig.neg = false;
                    }
                    if cls % 31 == 0 {
                        x = fl_from(&BigInt::zero(), 0);
                    }
                }
                4 => {
                    // powi: bases near 1 with big exponents, small integer bases with small exponents, x^0, x^1
                    let ns: [i64; 16] = [0, 1, 2, 3, -1, -2, 5, 7, 10, -10, 33, 100, -100, 1000, 1 << 14, -(1 << 17)];
                    n = pick(&ns, nsel);
                    match cls % 6 {
                        0 | 1 if pu >= 2 => {
                            // 1 ± k·B^-(p-1)
                            let k = 1 + (sa % 7) as i64;
                            let v = Pow::pow(BigInt::from(base), (pu - 1) as u32) + BigInt::from(if na { -k } else { k });
                            x = fl_from(&v, -(pu - 1));
                        }
                        2 => {
                            x = fl_from(&BigInt::from(2 + (sa % 11) as i64), 0);
                            if n.abs() > 100 {
                                n = n.signum() * (n.abs() % 100);
                            }
                        }
                        _ => {
                            x = place(x, (sa % 5) as i64 - 2);
                            if n.abs() > 1000 {
                                n = n.signum() * (n.abs() % 1000);
                            }
                        }
                    }
                    // operand must fit p digits
                    if d(&x) > pu {
                        x = fl_from(&BigInt::from(1 + (sa % (base - 1)) as i64), 0);
                    }
                }
                _ => {
                    // powf: base >= 0, exponent of either sign
                    x.sig.neg = false;
                    x = place(x, (sa % 7) as i64 - 3);
                    y = mk_operand(base, p, kb, pb, sb, nb, 0);
                    y = place(y, (sb % 5) as i64 - 3);
                    match cls % 10 {
                        0 => y = fl_from(&BigInt::zero(), 0),
                        1 => y = one.clone(),
                        2 => x = fl_from(&BigInt::zero(), 0),
                        3 => x = one.clone(),
                        4 => y = fl_from(&BigInt::from(2), 0),
                        5 if base % 2 == 0 => {
                            // exponent 1/2 with a perfect-square base
                            y = fl_from(&BigInt::from(base / 2), -1);
                            let r = BigInt::from(2 + sa % 30);
                            x = fl_from(&(&r * &r), 0);
                            if d(&x) > pu {
                                x = fl_from(&BigInt::from(4), 0);
                                if d(&x) > pu {
                                    x = one.clone();
                                }
                            }
                        }
                        _ => {}
                    }
                }
            }
            // operands must fit the precision (FBig::from_repr requires it)
            if d(&x) > pu {
                let top = x.exp + d(&x) - 1;
                let neg = x.sig.neg;
                x = place(mk_operand(base, p, 0, pa, sa, neg, 0), top);
            }
            if d(&y) > pu {
                y = one.clone();
            }
            Case { f, p, x, y, n }
        },
    )
}

/// exact rational value of the function when it is rational; None when it is irrational
/// (exp/ln of a non-trivial rational, b^(n/d) of a non-d-th-power) — decided exactly.
enum Exactness {
    Rational(Sci),
    Irrational,
    /// rational but too large to materialise (powi with a big exponent): judged by enclosure,
    /// the Exact flag is then not judged
    RationalHuge,
}

fn nth_root_exact(v: &BigUint, d: u32) -> Option<BigUint> {
    let r = v.nth_root(d);
    if Pow::pow(&r, d) == *v {
        Some(r)
    } else {
        None
    }
}

fn exactness(c: &Case, base: u64) -> Exactness {
    let x = c.x.sci(base);
    match c.f {
        0 | 1 => {
            if x.is_zero() {
                Exactness::Rational(if c.f == 0 { Sci::new(BigInt::one(), 0, base) } else { Sci::zero(base) })
            } else {
                Exactness::Irrational
            }
        }
        2 => {
            // ln x rational only for x = 1
            if x.cmp(&Sci::new(BigInt::one(), 0, base)) == Ordering::Equal {
                Exactness::Rational(Sci::zero(base))
            } else {
                Exactness::Irrational
            }
        }
        3 => {
            if x.is_zero() {
                Exactness::Rational(Sci::zero(base))
            } else {
                Exactness::Irrational
            }
        }
        4 => {
            let n = c.n;
            if n == 0 {
                return Exactness::Rational(Sci::new(BigInt::one(), 0, base));
            }
            if x.is_zero() {
                return Exactness::Rational(Sci::zero(base)); // n > 0 guaranteed by the caller (0^negative excluded)
            }
            let dig = c.x.digits(base).max(1);
            if dig.saturating_mul(n.unsigned_abs()) > 4000 {
                return Exactness::RationalHuge;
            }
            let m: BigInt = Pow::pow(&x.n, n.unsigned_abs() as u32);
            let e = x.e * n.abs();
            if n > 0 {
                Exactness::Rational(Sci::new(m, e, base))
            } else {
                let neg = m.is_negative();
                Exactness::Rational(Sci { n: if neg { -BigInt::one() } else { BigInt::one() }, d: m.magnitude().clone(), e: -e, base })
            }
        }
        _ => {
            let y = c.y.sci(base);
            if y.is_zero() {
                return Exactness::Rational(Sci::new(BigInt::one(), 0, base));
            }
            if x.is_zero() {
                return Exactness::Rational(Sci::zero(base));
            }
            if x.cmp(&Sci::new(BigInt::one(), 0, base)) == Ordering::Equal {
                return Exactness::Rational(Sci::new(BigInt::one(), 0, base));
            }
            // x^(a/b) with a/b in lowest terms: rational iff x is a perfect b-th power of a rational
            let q = y.to_rational();
            let (a, b) = (q.numer().clone(), q.denom().clone());
            let xr = x.to_rational();
            let b32 = match u32::try_from(b.clone()) {
                Ok(v) if v <= 64 => v,
                _ => return Exactness::Irrational_or_unknown(),
            };
            let a_abs = match u32::try_from(a.magnitude().clone()) {
                Ok(v) if (v as u64) * (xr.numer().bits().max(xr.denom().bits())) <= 40_000 => v,
                _ => {
                    // exponent too big to materialise; irrational unless x is a perfect b-th power
                    if nth_root_exact(xr.numer().magnitude(), b32).is_some() && nth_root_exact(xr.denom().magnitude(), b32).is_some() {
                        return Exactness::RationalHuge;
                    }
                    return Exactness::Irrational;
                }
            };
            match (nth_root_exact(xr.numer().magnitude(), b32), nth_root_exact(xr.denom().magnitude(), b32)) {
                (Some(rn), Some(rd)) => {
                    let (pn, pd) = (Pow::pow(&rn, a_abs), Pow::pow(&rd, a_abs));
                    if a.is_negative() {
                        Exactness::Rational(Sci { n: BigInt::from(pd), d: pn, e: 0, base })
                    } else {
                        Exactness::Rational(Sci { n: BigInt::from(pn), d: pd, e: 0, base })
                    }
                }
                _ => Exactness::Irrational,
            }
        }
    }
}

impl Exactness {
    #[allow(non_snake_case)]
    fn Irrational_or_unknown() -> Exactness {
        // denominators beyond 64 cannot come out of our generator (exponent has few fractional digits
        // only in bases whose powers exceed 64 quickly); treat as irrational is unsound, so judge by
        // enclosure without judging the flag
        Exactness::RationalHuge
    }
}

/// Known class C11/exp-large-argument-guard-digits: exp / exp_m1 whose argument has (almost) as
/// many integer digits as the guard digits of `exp_internal` (series_guard_digits +
/// pow_guard_digits, formulas copied from float/src/exp.rs): the reduction x = s·ln B + r is then
/// computed with too few digits and the result is off by many ulps.
fn exp_arg_exceeds_guard(c: &Case, base: u64) -> bool {
    if !matches!(c.f, 0 | 1) {
        return false;
    }
    let xs = c.x.sci(base);
    if xs.is_zero() {
        return false;
    }
    let dx = xs.floor_log() + 1; // integer digits of |x|
    let p = c.p as f64;
    let lb = (base as f64).log2();
    let series_guard = (p.log2() / lb).floor() as i64 + 2;
    let bit_len = 64 - (c.p as u64).leading_zeros() as i64;
    let pow_guard = (bit_len as f64 * lb * 2.0).floor() as i64;
    dx >= series_guard + pow_guard - 2
}

fn enclosure(c: &Case, base: u64, w: u64) -> Option<Ball> {
    // the oracle is built for results whose exponent stays within a few thousand digits
    let xs = c.x.sci(base);
    if matches!(c.f, 0 | 1) && !xs.is_zero() && (xs.floor_log() + 1) as f64 * (base as f64).log2() > 20.0 {
        return None;
    }
    if c.f == 5 && !xs.is_zero() && !c.y.sci(base).is_zero() {
        // |y · ln x| must stay moderate
        let ly = (c.y.sci(base).floor_log() + 1) as f64 * (base as f64).log2();
        let lx = (((xs.floor_log().abs() + 1) as f64) * (base as f64).ln()).log2().max(0.0);
        if ly + lx > 20.0 {
            return None;
        }
    }
    let x = Ball::from_sci(&c.x.sci(base), w + 64);
    match c.f {
        0 => Some(ball::exp(&x, w)),
        1 => Some(ball::exp_m1(&x, w)),
        2 => ball::ln(&x, w),
        3 => ball::ln_1p(&x, w),
        4 => ball::powi(&Ball::from_sci(&c.x.sci(base), w + 2 * (64 - c.n.unsigned_abs().leading_zeros() as u64) + 64), c.n, w),
        _ => {
            let y = Ball::from_sci(&c.y.sci(base), w + 64);
            ball::powf(&x, &y, w)
        }
    }
}

/// exp of an argument too large for `enclosure` (|x| >= 2^20): exp(x) = B^s · exp(r) with the integer
/// s ≈ x / ln B and r = x − s·ln B, both enclosed rigorously (ln B to w + bits(x) + 64 bits). Returns
/// the enclosure of exp(r) and the result scaled by B^-s (an exact exponent shift in base B), so
/// that every ulp-relative judgement carries over unchanged.
fn scaled_exp_enclosure(c: &Case, base: u64, w: u64, got: &Sci) -> Option<(Ball, Sci)> {
    let xs = c.x.sci(base);
    // exp_m1 only for positive arguments: exp_m1(x)·B^-s = exp(r) − B^-s with 0 < B^-s < 2^-11000
    // (x >= 2^13), far below any working precision of the ladder; added to the radius below
    if !(c.f == 0 || (c.f == 1 && xs.signum() > 0 && xs.floor_log() >= 0)) {
        return None;
    }
    let xbits = ((xs.floor_log() + 1) as f64 * (base as f64).log2()).ceil() as u64;
    if xbits > 70 {
        return None;
    }
    let ww = w + xbits + 64;
    let x = Ball::from_sci(&xs, ww);
    let lnb = ball::ln(&Ball::from_u64(base), ww)?;
    let q = x.div(&lnb, 80)?;
    let s_big: BigInt = if q.e >= 0 { &q.m << (q.e as usize) } else { &q.m >> ((-q.e) as usize) };
    let s = num_traits::ToPrimitive::to_i64(&s_big)?;
    let r = x.sub(&lnb.mul_int(&s_big, ww), ww);
    let mut enc = ball::exp(&r, w);
    if c.f == 1 {
        if xbits < 14 || w > 10_000 {
            return None;
        }
        enc = enc.sub(&Ball { m: BigInt::zero(), r: BigUint::one(), e: -11_000 }, w + 8);
    }
    let mut scaled = got.clone();
    scaled.e = scaled.e.checked_sub(s)?;
    Some((enc, scaled))
}

fn run<R: ModeTag, const B: Word>(c: &Case, ctx: &Ctx) -> Out {
    let mut out = Out::new();
    let base = B as u64;
    let p = c.p as u64;
    let fname = FUNS[c.f as usize % 6];
    out.label(match c.f {
        0 => "f:exp",
        1 => "f:exp_m1",
        2 => "f:ln",
        3 => "f:ln_1p",
        4 => "f:powi",
        _ => "f:powf",
    });
    out.label(match c.p {
        1 => "p:1",
        2 => "p:2",
        3 => "p:3",
        4..=10 => "p:4-10",
        11..=40 => "p:11-40",
        _ => "p:>40",
    });
    let xs = c.x.sci(base);
    // stay inside the mathematical domain (the edges belong to C16)
    match c.f {
        2 if xs.signum() <= 0 => return out,
        3 if xs.cmp(&Sci::new(-BigInt::one(), 0, base)) != Ordering::Greater => return out,
        4 if xs.is_zero() && c.n <= 0 => return out,
        5 if xs.signum() < 0 => return out,
        5 if xs.is_zero() && c.y.sig.neg => return out,
        _ => {}
    }
    if matches!(c.f, 1 | 3) {
        out.label(if !xs.is_zero() && xs.floor_log() < -1 { "small-argument branch (|x| < 1/B)" } else { "regular branch" });
    }
    let cx = Context::<R>::new(c.p as usize);
    let rx = c.x.repr::<B>();
    let ry = c.y.repr::<B>();
    let n_ibig = dashu_int::IBig::from(c.n);
    let got: Result<Rounded<FBig<R, B>>, String> = catch(|| match c.f {
        0 => cx.exp(&rx),
        1 => cx.exp_m1(&rx),
        2 => cx.ln(&rx),
        3 => cx.ln_1p(&rx),
        4 => cx.powi(&rx, n_ibig.clone()),
        _ => cx.powf(&rx, &ry),
    });
    let r = match got {
        Err(m) => {
            out.fail(format!("Context::{fname} (base {base}, {}, p={p}) panicked inside its domain: {}", R::MODE.name(), normalise(&m)));
            return out;
        }
        Ok(r) => r,
    };
    // the FBig method must return the same value as the Context method at the same precision
    {
        let fx: FBig<R, B> = c.x.fbig(c.p as usize);
        let fy: FBig<R, B> = c.y.fbig(c.p as usize);
        let via = catch(|| match c.f {
            0 => fx.exp(),
            1 => fx.exp_m1(),
            2 => fx.ln(),
            3 => fx.ln_1p(),
            4 => fx.powi(n_ibig.clone()),
            _ => fx.powf(&fy),
        });
        match via {
            Err(m) => out.fail(format!("FBig::{fname} panicked inside its domain: {}", normalise(&m))),
            Ok(v) => {
                let a = Sci::from_repr(v.repr());
                let b = Sci::from_repr(match &r {
                    Approximation::Exact(f) => f.repr(),
                    Approximation::Inexact(f, _) => f.repr(),
                });
                match (a, b) {
                    (Some(a), Some(b)) => out.check(a.cmp(&b) == Ordering::Equal, || format!("FBig::{fname} = {} differs from Context::{fname} = {} at the same precision", a.show(), b.show())),
                    _ => out.fail(format!("{fname}: infinite result inside the domain")),
                }
            }
        }
    }
    let res = match res_of(&r) {
        Ok(r) => r,
        Err(e) => {
            out.fail(format!("Context::{fname}: {e}"));
            return out;
        }
    };
    if res.sig >= bpow(base, p + 1) {
        out.fail(format!("Context::{fname} (base {base}, p={p}): result has more than p+1 digits: {}", res.val.show()));
    }
    let describe = |what: &str| format!("Context::{fname}({}{}) base {base} {} p={p}: {what}; got {} flag {:?}", c.x.sci(base).show(), if c.f == 5 { format!(", {}", c.y.sci(base).show()) } else if c.f == 4 { format!(", {}", c.n) } else { String::new() }, R::MODE.name(), res.val.show(), res.flag);

    let ex = exactness(c, base);
    match &ex {
        Exactness::Rational(x) => {
            out.label("truth:rational (exact point)");
            // |r - x| < 1 ulp, exactly; Exact only if equal
            let eq = x.cmp(&res.val) == Ordering::Equal;
            if res.flag.is_none() && !eq {
                let msg = describe(&format!("flagged Exact but the true value is {}", x.show()));
                if c.f == 4 && c.n < 0 {
                    // powi with a negative exponent computes base^|n| first and drops its Inexact flag
                    ctx.known_or_fail(&mut out, "C11/exact-flag-powi-negative-exponent", || msg);
                } else {
                    out.fail(msg);
                }
            }
            if !x.is_zero() {
                let e = x.floor_log();
                let within = |k: i64, num: i64, strict: bool| -> bool {
                    let b = Sci { n: BigInt::from(num), d: BigUint::one(), e: k, base };
                    let (lo, hi) = (res.val.sub(&b), res.val.add(&b));
                    if strict {
                        x.cmp(&lo) == Ordering::Greater && x.cmp(&hi) == Ordering::Less
                    } else {
                        x.cmp(&lo) != Ordering::Less && x.cmp(&hi) != Ordering::Greater
                    }
                };
                // "within 1 ulp": equality is tolerated here (it can only occur for rational truths)
                if !within(e - p as i64 + 1, 1, false) {
                    let er = if res.val.is_zero() { i64::MIN } else { res.val.floor_log() };
                    let k = e.max(er) - p as i64 + 1;
                    let msg = describe(&format!("error > 1 ulp; true value {}", x.show()));
                    if exp_arg_exceeds_guard(c, base) {
                        ctx.known_or_fail(&mut out, "C11/exp-large-argument-guard-digits", || msg);
                    } else if !R::MODE.is_half() && (within(k, 2, true) || (c.p <= 2 && within(k, 4, true))) {
                        ctx.known_or_fail(&mut out, "C11/directed-modes-error-1-to-2-ulp", || msg);
                    } else {
                        out.fail(msg);
                    }
                }
            } else if !eq {
                out.fail(describe("true value is 0"));
            }
            out.label(if eq { "rational truth: returned exactly" } else { "rational truth: rounded" });
            out.nontrivial(false);
            return out;
        }
        Exactness::Irrational => {
            out.label("truth:irrational");
            out.nontrivial(true);
            if res.flag.is_none() {
                // an irrational value can never be exact
                let small_p = c.p <= 12;
                let _ = small_p;
                ctx.known_or_fail(&mut out, "C11/exact-flag-on-irrational-result", || describe("flagged Exact although the true value is irrational"));
            }
        }
        Exactness::RationalHuge => {
            out.label("truth:rational, judged by enclosure");
            out.nontrivial(true);
        }
    }

    // Ziv ladder
    // working precision of the first rung: enough for p digits, plus what is needed to tell the
    // true value from the nearby "round" number it hugs (1 for exp of a tiny argument, -1 for
    // exp_m1 of a very negative one)
    let lb = (base as f64).log2();
    let extra: u64 = match c.f {
        0 | 1 | 3 if !xs.is_zero() && xs.floor_log() < 0 => ((-(xs.floor_log() + 1)) as f64 * lb).ceil() as u64,
        1 if xs.signum() < 0 && xs.floor_log() >= 0 => {
            // |x| · log2(e) bits
            let mag = ((xs.floor_log() + 1) as f64 * lb).exp2();
            (mag * 1.4427).min(16000.0) as u64
        }
        _ => 0,
    };
    let w0 = (p as f64 * lb).ceil() as u64 + 64 + extra.min(16000);
    let mut verdict = Tri::Unknown;
    let mut last_enc: Option<Ball> = None;
    // the value that is compared with the enclosure: the result itself, or the result scaled by
    // B^-s for exp of a huge argument
    let mut judged = res.val.clone();
    for rung in 0..4 {
        let w = w0 << rung;
        let enc = match enclosure(c, base, w) {
            Some(e) => e,
            None => match scaled_exp_enclosure(c, base, w, &res.val) {
                Some((e, v)) => {
                    if rung == 0 {
                        out.label("exp of an argument >= 2^20: judged as B^s·exp(r)");
                    }
                    judged = v;
                    e
                }
                None => break,
            },
        };
        verdict = ball::within_ulps(&enc, &judged, p, 1, 1);
        last_enc = Some(enc);
        if verdict != Tri::Unknown {
            out.label(match rung {
                0 => "ladder:rung 0",
                1 => "ladder:rung 1",
                2 => "ladder:rung 2",
                _ => "ladder:rung 3",
            });
            break;
        }
    }
    match verdict {
        Tri::Yes => {}
        Tri::Unknown => out.inconclusive(describe("enclosure could not decide after 4 rungs")),
        Tri::No => {
            let enc = last_enc.unwrap();
            let err = ball::err_ulps_f64(&enc, &judged, p);
            // classification of the error magnitude by rigorous tests: >= 2 ulp? >= 4 ulp?
            // known class: directed modes, error below 2 units of the last place of the larger of
            // |true value| and |result| (below 4 at p <= 2)
            let emax = ball::floor_log_range(&enc, base).map(|v| v.1).unwrap_or(i64::MIN);
            let er = if judged.is_zero() { i64::MIN } else { judged.floor_log() };
            let k = emax.max(er) - p as i64 + 1;
            let lt2 = ball::within_abs(&enc, &judged, k, 2, 1) == Tri::Yes;
            let lt4 = ball::within_abs(&enc, &judged, k, 4, 1) == Tri::Yes;
            let directed = !R::MODE.is_half();
            let msg = describe(&format!("error >= 1 ulp (about {err:.3} ulp of the true value's binade)"));
            if exp_arg_exceeds_guard(c, base) {
                ctx.known_or_fail(&mut out, "C11/exp-large-argument-guard-digits", || msg);
            } else if directed && (lt2 || (c.p <= 2 && lt4)) {
                ctx.known_or_fail(&mut out, "C11/directed-modes-error-1-to-2-ulp", || msg);
            } else {
                out.fail(msg);
            }
        }
    }
    out
}

/// unlimited precision must be refused (panic) for the transcendental functions
fn unlimited<R: ModeTag, const B: Word>(c: &Case, _ctx: &Ctx) -> Out {
    let mut out = Out::new();
    let base = B as u64;
    out.nontrivial(true);
    let xs = c.x.sci(base);
    let cx = Context::<R>::new(0);
    let rx = c.x.repr::<B>();
    let ry = c.y.repr::<B>();
    let name = FUNS[c.f as usize % 6];
    let r = catch(|| match c.f {
        0 => cx.exp(&rx),
        1 => cx.exp_m1(&rx),
        2 => cx.ln(&rx),
        3 => cx.ln_1p(&rx),
        4 => cx.powi(&rx, dashu_int::IBig::from(-(c.n.abs().max(1)))),
        _ => cx.powf(&rx, &ry),
    });
    // domain edges are not the subject here
    let in_domain = match c.f {
        2 => xs.signum() > 0,
        3 => xs.cmp(&Sci::new(-BigInt::one(), 0, base)) == Ordering::Greater,
        4 => !xs.is_zero(),
        5 => xs.signum() >= 0,
        _ => true,
    };
    if !in_domain {
        return out;
    }
    out.label(match c.f {
        0 => "unlimited:exp",
        1 => "unlimited:exp_m1",
        2 => "unlimited:ln",
        3 => "unlimited:ln_1p",
        4 => "unlimited:powi(negative exponent)",
        _ => "unlimited:powf",
    });
    match r {
        Err(m) => out.check(m.contains("precision"), || format!("{name} at unlimited precision panicked with an unrelated message: {}", normalise(&m))),
        Ok(v) => {
            // answering is only acceptable when the answer is exact
            let ex = exactness(&Case { n: if c.f == 4 { -(c.n.abs().max(1)) } else { c.n }, ..c.clone() }, base);
            match (ex, res_of(&v)) {
                (Exactness::Rational(x), Ok(res)) => out.check(x.cmp(&res.val) == Ordering::Equal, || format!("{name} at unlimited precision returned an inexact value")),
                _ => out.fail(format!("{name} at unlimited precision returned a value for an argument whose result cannot be exact")),
            }
        }
    }
    out
}

/// powi with the exponents 0 and 1 and an argument that has MORE digits than the context
/// precision (the Context methods take any Repr): x^1 is x rounded to p digits by the six-clause
/// contract, x^0 is exactly 1
#[derive(Debug, Clone, Hash, Serialize, Deserialize)]
struct LongCase {
    p: u32,
    x: Fl,
    n: u8,
}

fn long_case(base: u64) -> impl Strategy<Value = LongCase> {
    (1u32..40, 1u64..30, 0u8..9, any::<u64>(), any::<bool>(), -60i64..60, 0u8..4).prop_map(move |(p, extra, pat, seed, neg, e, n)| {
        let k = p as u64 + extra;
        let m = sig_pattern(base, k, pat, seed);
        let v = if neg { -BigInt::from(m) } else { BigInt::from(m) };
        LongCase { p, x: fl_from(&v, e), n: n % 2 }
    })
}

fn long_powi<R: ModeTag, const B: Word>(c: &LongCase, _ctx: &Ctx) -> Out {
    let mut out = Out::new();
    let base = B as u64;
    let p = c.p as u64;
    out.nontrivial(true);
    out.label(if c.n == 0 { "long operand: x^0" } else { "long operand: x^1" });
    let xs = c.x.sci(base);
    if xs.is_zero() {
        return out;
    }
    let cx = Context::<R>::new(c.p as usize);
    let rx = c.x.repr::<B>();
    let truth = Truth::Val(if c.n == 0 { Sci::new(BigInt::one(), 0, base) } else { xs.clone() });
    match catch(|| cx.powi(&rx, dashu_int::IBig::from(c.n))) {
        Err(m) => out.fail(format!("Context::powi({}, {}) base {base} p={p} panicked: {}", xs.show(), c.n, normalise(&m))),
        Ok(r) => match res_of(&r) {
            Err(e) => out.fail(format!("Context::powi: {e}")),
            Ok(res) => {
                let broken = contract(&truth, &res, p, R::MODE);
                if !broken.is_empty() {
                    report(&mut out, &format!("Context::powi(x of {} digits, {})", c.x.digits(base), c.n), &truth, &res, p, R::MODE, &broken);
                }
            }
        },
    }
    out
}

macro_rules! subs {
    ($ck:ident, $maxp:expr, $($b:literal $bn:literal),*) => {$(
        subs!(@m $ck, $maxp, $b, $bn, Zero, Away, Up, Down, HalfEven, HalfAway);
    )*};
    (@m $ck:ident, $maxp:expr, $b:literal, $bn:literal, $($m:ident),*) => {$(
        $ck.sub(concat!("fn_b", $bn, "_", stringify!($m)), (1_000, 35_000), move || case_strategy($b, $maxp), run::<mode::$m, $b>);
    )*};
}

/// sanity of the enclosure kernel itself (not of dashu): known constants and exp(ln x) ∋ x
fn oracle_selfcheck() {
    use std::str::FromStr;
    let w = 300;
    let digits = |b: &Ball| -> (String, String) {
        // lo/hi · 10^80 as integers
        let sc = BigInt::from_str(&format!("1{}", "0".repeat(80))).unwrap();
        let f = |n: BigInt, e: i64| -> BigInt { let v = n * &sc; if e >= 0 { v << e as u64 } else { v >> (-e) as u64 } };
        let (lo, le) = b.lo();
        let (hi, he) = b.hi();
        (f(lo, le).to_string(), f(hi, he).to_string())
    };
    let ln2 = "69314718055994530941723212145817656807550013436025525412068000949339362196969471";
    let e = "271828182845904523536028747135266249775724709369995957496696762772407663035354759";
    let (lo, hi) = digits(&ball::ln2(w));
    if !(lo.as_str() <= ln2 && ln2 <= hi.as_str() && lo.len() == ln2.len() && hi.len() == ln2.len()) {
        infra(&format!("oracle self-check failed: ln2 enclosure [{lo}, {hi}]"));
    }
    let (lo, hi) = digits(&ball::exp(&Ball::one(), w));
    if !(lo.as_str() <= e && e <= hi.as_str() && lo.len() == e.len() && hi.len() == e.len()) {
        infra(&format!("oracle self-check failed: e enclosure [{lo}, {hi}]"));
    }
    // exp(ln x) ∋ x, ln_1p / exp_m1 inverse, for a spread of rationals
    for (n, d) in [(1u64, 3u64), (2, 1), (1000003, 7), (1, 1 << 40), (123456789, 1000), (999_999, 1_000_000), (1_000_001, 1_000_000)] {
        let x = Ball::from_u64(n).div(&Ball::from_u64(d), 400).unwrap();
        let back = ball::exp(&ball::ln(&x, 350).unwrap(), 350);
        let q = Sci { n: BigInt::from(n), d: BigUint::from(d), e: 0, base: 10 };
        if ball::side(&back, &q) != ball::Side::Inside || back.rel_accuracy_bits() < 250 {
            infra(&format!("oracle self-check failed: exp(ln({n}/{d}))"));
        }
        let xm1 = x.sub(&Ball::one(), 400);
        let back2 = ball::exp_m1(&ball::ln_1p(&xm1, 350).unwrap(), 350);
        let q2 = Sci { n: BigInt::from(n) - BigInt::from(d), d: BigUint::from(d), e: 0, base: 10 };
        if ball::side(&back2, &q2) != ball::Side::Inside {
            infra(&format!("oracle self-check failed: exp_m1(ln_1p({n}/{d} - 1))"));
        }
    }
}

fn main() {
    oracle_selfcheck();
    let mut ck = Check::new(
        "C11",
        "exp, exp_m1, ln, ln_1p, powi, powf (Context methods; the FBig methods must agree with them) in bases {2,3,10,16,36} × 6 modes, precisions 1..60 (thorough: to 400) plus precisions on both sides of every power of two up to 2^12 bits (63 … 3000 bits, in bases 2, 3, 10, 16), arguments with <= p digits placed by magnitude class (B^-1000 … B^5 for exp, B^±1000 for ln, next to 0, next to 1 (1 ± k ulp), next to -1 for ln_1p, bases 1 ± k ulp with integer exponents to ±2^17 for powi, exact points; powi with exponent 0 / 1 also on arguments with more digits than the precision); oracle: rigorous midpoint-radius ball arithmetic enclosure of the true value with outward rounding and a 4-rung Ziv precision ladder — violation only if the whole enclosure is >= 1 ulp from the result, pass only if the whole enclosure is < 1 ulp away, otherwise inconclusive; exact rational truth (trivial points, small powi, perfect-power powf) compared exactly; Exact flag on an irrational result is a violation. Non-trivial: true value irrational or judged by enclosure; distinct by case digest.",
    );
    let maxp: u32 = if ck.thorough() { 400 } else { 60 };
    subs!(ck, maxp, 2 "2", 3 "3", 10 "10", 16 "16", 36 "36");
    // high precisions: few cases, each expensive (dashu at p bits, the enclosure at up to 4p)
    ck.sub("highp_b2_Zero", (160, 3_000), || case_strategy_with(2, high_precision(2)), run::<mode::Zero, 2>);
    ck.sub("highp_b2_HalfEven", (160, 3_000), || case_strategy_with(2, high_precision(2)), run::<mode::HalfEven, 2>);
    ck.sub("highp_b3_Up", (100, 2_000), || case_strategy_with(3, high_precision(3)), run::<mode::Up, 3>);
    ck.sub("highp_b10_HalfAway", (100, 2_000), || case_strategy_with(10, high_precision(10)), run::<mode::HalfAway, 10>);
    ck.sub("highp_b16_Down", (100, 2_000), || case_strategy_with(16, high_precision(16)), run::<mode::Down, 16>);
    ck.sub("exp_large_b10_HalfEven", (500, 10_000), || exp_large_case(10), run::<mode::HalfEven, 10>);
    ck.sub("exp_large_b10_Zero", (300, 6_000), || exp_large_case(10), run::<mode::Zero, 10>);
    ck.sub("exp_large_b3_HalfAway", (300, 6_000), || exp_large_case(3), run::<mode::HalfAway, 3>);
    ck.sub("exp_large_b16_Up", (300, 6_000), || exp_large_case(16), run::<mode::Up, 16>);
    ck.sub("exp_large_b2_HalfEven", (300, 6_000), || exp_large_case(2), run::<mode::HalfEven, 2>);
    ck.sub("long_powi_b10_HalfAway", (2_000, 50_000), || long_case(10), long_powi::<mode::HalfAway, 10>);
    ck.sub("long_powi_b2_Zero", (2_000, 50_000), || long_case(2), long_powi::<mode::Zero, 2>);
    ck.sub("long_powi_b3_Up", (1_000, 25_000), || long_case(3), long_powi::<mode::Up, 3>);
    ck.sub("unlimited_b10_HalfEven", (600, 6_000), || case_strategy(10, 20), unlimited::<mode::HalfEven, 10>);
    ck.sub("unlimited_b2_Zero", (600, 6_000), || case_strategy(2, 20), unlimited::<mode::Zero, 2>);
    ck.assume("the ball arithmetic kernel in dv/src/ball.rs (outward rounding, Taylor tail bounds, |ln(1+t)-t| <= t^2); irrationality of exp/ln at non-trivial rational points (Lindemann–Weierstrass) and of non-perfect-power roots");
    ck.finish();
}
