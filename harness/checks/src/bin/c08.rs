//! C08 — float text I/O is lossless; base / precision changes are faithfully rounded.
#![allow(deprecated)]
use dashu_base::ParseError;
use dashu_float::round::{mode, Round, Rounded};
use dashu_float::{Context, FBig, Repr};
use dashu_int::Word;
use dv::fl::*;
use dv::gen::{pick, SplitMix};
use dv::*;
use num_bigint::{BigInt, BigUint};
use num_integer::Integer;
use num_rational::BigRational;
use num_traits::{One, Signed, ToPrimitive, Zero};
use proptest::prelude::*;
use serde::{Deserialize, Serialize};
use std::cmp::Ordering;
use std::convert::TryFrom;
use std::fmt::{Binary, Display, LowerExp, LowerHex, Octal, UpperExp, UpperHex};
use std::str::FromStr;

macro_rules! by_mode {
    ($m:expr, $R:ident => $e:expr) => {
        match $m {
            Mode::Zero => {
                type $R = mode::Zero;
                $e
            }
            Mode::Away => {
                type $R = mode::Away;
                $e
            }
            Mode::Up => {
                type $R = mode::Up;
                $e
            }
            Mode::Down => {
                type $R = mode::Down;
                $e
            }
            Mode::HalfEven => {
                type $R = mode::HalfEven;
                $e
            }
            Mode::HalfAway => {
                type $R = mode::HalfAway;
                $e
            }
        }
    };
}

fn any_mode() -> BoxedStrategy<Mode> {
    (0u8..6)
        .prop_map(|i| [Mode::Zero, Mode::Away, Mode::Up, Mode::Down, Mode::HalfEven, Mode::HalfAway][i as usize])
        .boxed()
}

fn clip(s: &str) -> String {
    let e: String = s.escape_debug().collect();
    truncate(&e, 90)
}

// ------------------------------------------------------------------------------------------------
// reference grammar (written from the rustdoc of FBig::from_str_native, float/src/parse.rs)
// ------------------------------------------------------------------------------------------------

fn digit_val(c: char) -> Option<u32> {
    match c {
        '0'..='9' => Some(c as u32 - '0' as u32),
        'a'..='z' => Some(c as u32 - 'a' as u32 + 10),
        'A'..='Z' => Some(c as u32 - 'A' as u32 + 10),
        _ => None,
    }
}
fn digit_char(d: u8, upper: bool) -> char {
    let c = std::char::from_digit(d as u32, 36).unwrap();
    if upper {
        c.to_ascii_uppercase()
    } else {
        c
    }
}

/// sig · base^exp, not normalised; nd = number of written digits counted in base `base`
#[derive(Clone, Debug, PartialEq, Eq)]
struct Num {
    sig: BigInt,
    exp: i128,
    nd: u64,
}

#[derive(Clone, Debug)]
enum Want {
    Val(Num),
    /// the rustdoc is silent (0X prefix, '@' after a 0x mantissa): Err or this value
    Either(Num, &'static str),
    /// `inner_plus`: would be valid if a '+' at the start of the integral part (after the sign /
    /// prefix) or of the fractional part were dropped; `no_digits`: would be valid if a mantissa
    /// made only of '_' (and '.') counted as zero
    Invalid { why: &'static str, inner_plus: bool, no_digits: bool },
}

fn norm_val(sig: &BigInt, exp: i128, base: u64) -> (BigInt, i128) {
    if sig.is_zero() {
        return (BigInt::zero(), 0);
    }
    let b = BigInt::from(base);
    let mut s = sig.clone();
    let mut e = exp;
    loop {
        let (q, r) = s.div_rem(&b);
        if r.is_zero() {
            s = q;
            e += 1;
        } else {
            break;
        }
    }
    (s, e)
}

fn markers(base: u64, hexform: bool) -> &'static [char] {
    if hexform {
        return &['p', 'P', '@'];
    }
    match base {
        10 => &['e', 'E', '@'],
        2 => &['b', 'B', '@'],
        8 => &['o', 'O', '@'],
        16 => &['h', 'H', '@'],
        _ => &['@'],
    }
}

/// split off sign, prefix and scale: (negative, hexform, upper-case prefix, mantissa, Some((marker, exponent text)))
fn split_text(text: &str, base: u64) -> (bool, bool, bool, &str, Option<(char, &str)>) {
    let mut s = text;
    let mut neg = false;
    if let Some(t) = s.strip_prefix('-') {
        neg = true;
        s = t;
    } else if let Some(t) = s.strip_prefix('+') {
        s = t;
    }
    let upper_prefix = base == 2 && s.starts_with("0X");
    let hexform = base == 2 && (s.starts_with("0x") || upper_prefix);
    if hexform {
        s = &s[2..];
    }
    match s.find(markers(base, hexform)) {
        Some(pos) => {
            let m = s[pos..].chars().next().unwrap();
            (neg, hexform, upper_prefix, &s[..pos], Some((m, &s[pos + 1..])))
        }
        None => (neg, hexform, upper_prefix, s, None),
    }
}

/// the decimal integer after the scale marker, if it is one
fn scale_value(t: &str) -> Result<BigInt, &'static str> {
    let (eneg, d) = if let Some(d) = t.strip_prefix('-') {
        (true, d)
    } else if let Some(d) = t.strip_prefix('+') {
        (false, d)
    } else {
        (false, t)
    };
    if d.is_empty() {
        return Err("exponent has no digits");
    }
    if !d.bytes().all(|b| b.is_ascii_digit()) {
        return Err("exponent is not a decimal integer");
    }
    let v = BigInt::parse_bytes(d.as_bytes(), 10).unwrap();
    Ok(if eneg { -v } else { v })
}

fn parse_core(text: &str, base: u64, len_plus: bool, len_nodigits: bool) -> Result<(Num, Option<&'static str>), &'static str> {
    let (neg, hexform, upper_prefix, mant, scale) = split_text(text, base);
    let mut either = None;
    if upper_prefix {
        either = Some("upper-case 0X prefix");
    }
    let dbase = if hexform { 16 } else { base as u32 };
    let cc: BigInt = match scale {
        None => BigInt::zero(),
        Some((m, t)) => {
            if hexform && m == '@' {
                either = Some("'@' scale after a 0x mantissa");
            }
            let v = scale_value(t)?;
            if v < BigInt::from(isize::MIN) || v > BigInt::from(isize::MAX) {
                return Err("exponent does not fit isize");
            }
            v
        }
    };
    let (a, b) = match mant.find('.') {
        Some(p) => (&mant[..p], Some(&mant[p + 1..])),
        None => (mant, None),
    };
    if let Some(b) = b {
        if b.contains('.') {
            return Err("two radix points");
        }
    }
    let mut digits: Vec<u8> = Vec::new();
    let mut nfrac = 0u64;
    for (part, frac) in [(Some(a), false), (b, true)] {
        let part = match part {
            Some(p) => p,
            None => continue,
        };
        let part = if len_plus { part.strip_prefix('+').unwrap_or(part) } else { part };
        if !part.is_empty() && part.bytes().all(|b| b == b'_') {
            // "_.5", "1._": the docs never mention such a part (the integer parser rejects "_")
            either = Some("integral or fractional part made of underscores only");
        }
        for ch in part.chars() {
            if ch == '_' {
                continue;
            }
            match digit_val(ch) {
                Some(d) if d < dbase => {
                    digits.push(d as u8);
                    if frac {
                        nfrac += 1;
                    }
                }
                _ => return Err("invalid digit"),
            }
        }
    }
    if digits.is_empty() {
        let tolerated = len_nodigits && hexform && mant == ".";
        if !tolerated {
            return Err("no digits");
        }
    }
    let k: u64 = if hexform { 4 } else { 1 };
    let mag = if digits.is_empty() { BigUint::zero() } else { BigUint::from_radix_be(&digits, dbase).unwrap() };
    let sig = if neg { -BigInt::from(mag) } else { BigInt::from(mag) };
    let exp = cc.to_i128().unwrap() - (nfrac * k) as i128;
    let nd = digits.len() as u64 * k;
    let (_, ne) = norm_val(&sig, exp, base);
    if ne < isize::MIN as i128 || ne > isize::MAX as i128 {
        return Err("value exponent does not fit isize");
    }
    Ok((Num { sig, exp, nd }, either))
}

fn ref_parse(text: &str, base: u64) -> Want {
    match parse_core(text, base, false, false) {
        Ok((n, None)) => Want::Val(n),
        Ok((n, Some(w))) => Want::Either(n, w),
        Err(why) => {
            if parse_core(text, base, true, true).is_ok() {
                let inner_plus = parse_core(text, base, false, true).is_err();
                let no_digits = parse_core(text, base, true, false).is_err();
                Want::Invalid { why, inner_plus, no_digits }
            } else {
                Want::Invalid { why, inner_plus: false, no_digits: false }
            }
        }
    }
}

/// the scale is a decimal integer that fits isize but lies within a few units (at most the number
/// of written digits) of isize::MIN / isize::MAX
fn extreme_exponent(text: &str, base: u64) -> bool {
    let (_, _, _, _, scale) = split_text(text, base);
    match scale.map(|(_, t)| scale_value(t)) {
        Some(Ok(v)) => {
            let margin = BigInt::from(4 * text.len() + 8);
            v >= BigInt::from(isize::MIN) && v <= BigInt::from(isize::MAX) && (v.abs() + margin) > BigInt::from(isize::MAX)
        }
        _ => false,
    }
}

// ------------------------------------------------------------------------------------------------
// parsing
// ------------------------------------------------------------------------------------------------

#[derive(Debug, Clone, Hash, Serialize, Deserialize)]
struct WantRec {
    sig: Int,
    exp: i64,
    nd: u32,
}

#[derive(Debug, Clone, Hash, Serialize, Deserialize)]
struct ParseCase {
    text: String,
    /// value intended by the generator (valid strings only)
    want: Option<WantRec>,
}

type Parsed = Result<Result<(BigInt, i64, usize), ParseError>, String>;

fn call_parse<const B: Word>(text: &str) -> Parsed {
    catch(|| FBig::<mode::Zero, B>::from_str(text).map(|f| (i2n(f.repr().significand()), f.repr().exponent() as i64, f.precision())))
}
fn call_parse_repr<const B: Word>(text: &str) -> Parsed {
    catch(|| Repr::<B>::from_str_native(text).map(|(r, n)| (i2n(r.significand()), r.exponent() as i64, n)))
}

fn same_value(n: &Num, g: &(BigInt, i64, usize), base: u64) -> Result<(), String> {
    let (ws, we) = norm_val(&n.sig, n.exp, base);
    // the representation is documented to be always normalised
    let (gs, ge) = norm_val(&g.0, g.1 as i128, base);
    if gs != g.0 || ge != g.1 as i128 {
        return Err(format!("result {}·{base}^{} is not normalised", show_i(&g.0), g.1));
    }
    if ws != gs || we != ge {
        return Err(format!("value {}·{base}^{} instead of {}·{base}^{}", show_i(&gs), ge, show_i(&ws), we));
    }
    if g.2 as u64 != n.nd {
        return Err(format!("precision {} instead of the {} written digits", g.2, n.nd));
    }
    Ok(())
}

fn judge_parse(out: &mut Out, ctx: &Ctx, what: &str, base: u64, text: &str, got: Parsed, want: &Want) {
    let t = clip(text);
    match (want, got) {
        (_, Err(m)) => {
            if m.contains("overflow") && (m.contains("parse.rs") || m.contains("repr.rs")) && extreme_exponent(text, base) {
                ctx.known_or_fail(out, "C08/parse-exponent-overflow-panics", || format!("{what}(\"{t}\") (base {base}) panicked: {}", normalise_msg(&m)));
            } else {
                out.fail(format!("{what}(\"{t}\") (base {base}) panicked: {}", normalise_msg(&m)));
            }
        }
        (Want::Val(n), Ok(Ok(g))) | (Want::Either(n, _), Ok(Ok(g))) => {
            if let Err(e) = same_value(n, &g, base) {
                out.fail(format!("{what}(\"{t}\") (base {base}): {e}"));
            }
        }
        (Want::Val(n), Ok(Err(e))) => out.fail(format!("{what}(\"{t}\") (base {base}): text in the documented grammar rejected with {e:?}; value {}·{base}^{}", show_i(&n.sig), n.exp)),
        (Want::Either(..), Ok(Err(_))) | (Want::Invalid { .. }, Ok(Err(_))) => {}
        (Want::Invalid { why, inner_plus, no_digits }, Ok(Ok(g))) => {
            if *inner_plus {
                ctx.known_or_fail(out, "C08/parse-inner-plus-sign-accepted", || {
                    format!("{what}(\"{t}\") (base {base}) = Ok({}·{base}^{}, precision {}) although a '+' inside the mantissa is not in the grammar ({why})", show_i(&g.0), g.1, g.2)
                });
            } else if *no_digits && g.0.is_zero() && g.2 == 0 {
                ctx.known_or_fail(out, "C08/parse-no-digits-accepted", || format!("{what}(\"{t}\") (base {base}) = Ok(0, precision 0 = unlimited) although the text contains no digit"));
            } else {
                out.fail(format!("{what}(\"{t}\") (base {base}): malformed text ({why}) accepted as {}·{base}^{}, precision {}", show_i(&g.0), g.1, g.2));
            }
        }
    }
}

fn normalise_msg(m: &str) -> String {
    normalise(m)
}

fn parse_oracle<const B: Word>(c: &ParseCase, ctx: &Ctx) -> Out {
    let mut out = Out::new();
    let base = B as u64;
    let want = ref_parse(&c.text, base);
    if let Some(w) = &c.want {
        // the generator's own idea of the value must agree with the reference parser
        let n = Num { sig: w.sig.big(), exp: w.exp as i128, nd: w.nd as u64 };
        match &want {
            Want::Val(r) if norm_val(&r.sig, r.exp, base) == norm_val(&n.sig, n.exp, base) && r.nd == n.nd => {}
            other => {
                out.fail(format!("oracle self-check: generator built \"{}\" for {}·{base}^{} ({} digits) but the reference parser says {other:?}", clip(&c.text), show_i(&n.sig), n.exp, n.nd));
                return out;
            }
        }
    }
    let (_, hexform, _, mant, scale) = split_text(&c.text, base);
    match &want {
        Want::Val(n) => {
            out.label("reference: valid");
            out.nontrivial(mant.contains('.') || scale.is_some());
            out.label(match (mant.find('.'), mant.len()) {
                (None, _) => "form: aaa",
                (Some(0), _) => "form: .bbb",
                (Some(p), l) if p + 1 == l => "form: aaa.",
                _ => "form: aaa.bbb",
            });
            out.label(match scale {
                None => "scale: none",
                Some(('@', _)) => "scale: @",
                Some(('p', _)) | Some(('P', _)) => "scale: p (hex float)",
                Some(_) => "scale: base letter (e/b/o/h)",
            });
            if hexform {
                out.label("0x mantissa");
            }
            if mant.contains('_') {
                out.label("underscores");
            }
            if n.sig.is_zero() {
                out.label("value zero");
            }
            out.label(match n.nd {
                0..=19 => "digits: <= 19",
                20..=38 => "digits: 20-38",
                39..=200 => "digits: 39-200",
                _ => "digits: > 200",
            });
            let (ns, _) = norm_val(&n.sig, n.exp, base);
            if digits(ns.magnitude(), base) < n.nd {
                out.label("leading/trailing zeros count towards precision");
            }
        }
        Want::Either(_, why) => {
            out.label("reference: unspecified (Err or value)");
            debug_assert!(!why.is_empty());
            out.nontrivial(true);
        }
        Want::Invalid { inner_plus, no_digits, .. } => {
            out.label("reference: invalid");
            out.nontrivial(!c.text.is_empty());
            if *inner_plus {
                out.label("invalid: '+' inside mantissa");
            }
            if *no_digits {
                out.label("invalid: mantissa without digits");
            }
            if !c.text.is_ascii() {
                out.label("invalid: non-ASCII");
            }
        }
    }
    if extreme_exponent(&c.text, base) {
        out.label("scale near isize limits");
    }
    judge_parse(&mut out, ctx, "FBig::from_str", base, &c.text, call_parse::<B>(&c.text), &want);
    judge_parse(&mut out, ctx, "Repr::from_str_native", base, &c.text, call_parse_repr::<B>(&c.text), &want);
    out
}

fn part_len() -> BoxedStrategy<usize> {
    prop_oneof![3 => 0usize..=1, 5 => 1usize..=3, 5 => 4usize..=12, 3 => 13usize..=45, 1 => 46usize..=130, 1 => 131usize..=700].boxed()
}

fn gen_digits(len: usize, shape: u8, seed: u64, dbase: u64) -> Vec<u8> {
    let mut r = SplitMix(seed);
    let mut v: Vec<u8> = (0..len).map(|_| r.below(dbase) as u8).collect();
    if len == 0 {
        return v;
    }
    let k = 1 + r.below(len as u64) as usize;
    match shape % 8 {
        1 => v[..k].iter_mut().for_each(|d| *d = 0),
        2 => v[len - k..].iter_mut().for_each(|d| *d = 0),
        3 => v.iter_mut().for_each(|d| *d = 0),
        4 => v.iter_mut().for_each(|d| *d = (dbase - 1) as u8),
        5 => {
            v.iter_mut().for_each(|d| *d = 0);
            v[0] = 1;
        }
        6 => {
            v[0] = 0;
            v[len - 1] = 0;
        }
        _ => {}
    }
    v
}

fn scale_strategy() -> BoxedStrategy<i64> {
    prop_oneof![
        5 => -6i64..=6,
        3 => -45i64..=45,
        2 => -400i64..=400,
        1 => prop_oneof![Just(10_000i64), Just(-10_000), Just(1_000_000_000), Just(-999_999_999_999), Just(4_611_686_018_427_387_904), Just(-4_611_686_018_427_387_904)],
        1 => any::<i32>().prop_map(|v| v as i64),
    ]
    .boxed()
}

fn with_underscores(ds: &[u8], upper: u64, n_us: u8, us: [u16; 3]) -> String {
    let mut v: Vec<char> = ds.iter().enumerate().map(|(i, d)| digit_char(*d, (upper >> (i % 64)) & 1 == 1)).collect();
    if !v.is_empty() {
        for j in 0..(n_us as usize).min(3) {
            let pos = (us[j] as usize * (v.len() + 1)) >> 16;
            v.insert(pos, '_');
        }
    }
    v.into_iter().collect()
}

/// strings of the documented grammar, together with the value they were built for
fn valid_case(base: u64) -> impl Strategy<Value = ParseCase> {
    (
        (0u8..4, part_len(), part_len(), 0u8..8, 0u8..8, any::<u64>(), any::<u64>()),
        (any::<bool>(), 0u8..6, scale_strategy(), any::<bool>(), 0u8..3, 0u8..3),
        (any::<u64>(), prop_oneof![3 => Just(0u8), 1 => 1u8..=3], any::<[u16; 3]>(), any::<[u16; 3]>()),
    )
        .prop_map(move |((sign, li, lf, si, sf, seed_i, seed_f), (dot, marker, cc, cc_plus, cc_zeros, hexsel), (upper, n_us, us_i, us_f))| {
            let hexform = base == 2 && hexsel == 0;
            let dbase = if hexform { 16 } else { base };
            let (li, lf) = if hexform { (li.min(180), lf.min(180)) } else { (li, lf) };
            let mut int = gen_digits(li, si, seed_i, dbase);
            let frac = gen_digits(lf, sf, seed_f, dbase);
            if int.is_empty() && frac.is_empty() {
                int.push((seed_i % dbase) as u8);
            }
            let dot = dot || !frac.is_empty() || int.is_empty();
            let mut text = String::new();
            match sign {
                1 => text.push('+'),
                2 | 3 => text.push('-'),
                _ => {}
            }
            if hexform {
                text.push_str("0x");
            }
            text.push_str(&with_underscores(&int, upper, n_us, us_i));
            if dot {
                text.push('.');
            }
            text.push_str(&with_underscores(&frac, upper >> 17, n_us / 2, us_f));
            let ms = markers(base, hexform);
            let m: Option<char> = match marker {
                0 | 1 => None,
                2 => Some('@'),
                3 | 5 => Some(ms[0]),
                _ => Some(ms[1.min(ms.len() - 1)]),
            };
            // '@' after a 0x mantissa is not in the documented grammar
            let m = if hexform && m == Some('@') { Some('p') } else { m };
            let mut exp = 0i64;
            if let Some(m) = m {
                text.push(m);
                if cc < 0 {
                    text.push('-');
                } else if cc_plus {
                    text.push('+');
                }
                for _ in 0..cc_zeros {
                    text.push('0');
                }
                text.push_str(&cc.unsigned_abs().to_string());
                exp = cc;
            }
            let k = if hexform { 4 } else { 1 };
            let mut all = int.clone();
            all.extend_from_slice(&frac);
            let mag = BigUint::from_radix_be(&all, dbase as u32).unwrap();
            let sig = if sign >= 2 { -BigInt::from(mag) } else { BigInt::from(mag) };
            let want = WantRec { sig: Int::from_big(&sig), exp: exp - (frac.len() as i64) * k, nd: (all.len() as u32) * k as u32 };
            ParseCase { text, want: Some(want) }
        })
}

const ALPHABET: &[char] = &[
    '0', '1', '2', '7', '9', 'a', 'b', 'e', 'f', 'z', 'A', 'E', 'F', 'Z', 'x', 'X', 'p', 'P', 'h', 'H', 'o', 'O', 'B', '@', '.', '_', '+', '-', ' ', '\t', '\n', '\0', 'é', '一', '٣', '１', '🦀',
    '\u{200b}', 'İ', 'e', '.', '_', '+', '-', '@', '0',
];

fn mutate(text: &str, base: u64, kind: u8, psel: u16, csel: u16) -> String {
    let mut v: Vec<char> = text.chars().collect();
    let n = v.len();
    let at = |len: usize| (psel as usize * len) >> 16; // 0..len-1 (0 if len = 0)
    let ch = pick(ALPHABET, csel);
    match kind % 8 {
        0 => v.insert(at(n + 1), ch),
        1 => {
            if n > 0 {
                v.remove(at(n));
            }
        }
        2 => {
            if n > 0 {
                let i = at(n);
                v[i] = ch;
            } else {
                v.push(ch);
            }
        }
        3 => {
            if n > 0 {
                let i = at(n);
                let c = v[i];
                v.insert(i, c);
            }
        }
        4 => {
            if n > 1 {
                let i = at(n - 1);
                v.swap(i, i + 1);
            }
        }
        5 => v.truncate(at(n + 1)),
        6 => {
            v.drain(..at(n + 1));
        }
        _ => {
            // a sign at a structural position: start, after the prefix, after '.', after the marker
            let ms = markers(base, text.contains("0x"));
            let mut spots = vec![0usize];
            for (i, c) in v.iter().enumerate() {
                if *c == '.' || ms.contains(c) || ((*c == 'x' || *c == '+' || *c == '-') && i <= 2) {
                    spots.push(i + 1);
                }
            }
            let i = pick(&spots, psel);
            v.insert(i, if csel & 1 == 0 { '+' } else { '-' });
        }
    }
    v.into_iter().collect()
}

fn mutated_case(base: u64) -> impl Strategy<Value = ParseCase> {
    (valid_case(base), 0u8..8, any::<u16>(), any::<u16>()).prop_map(move |(c, kind, psel, csel)| ParseCase { text: mutate(&c.text, base, kind, psel, csel), want: None })
}

fn arbitrary_case() -> impl Strategy<Value = ParseCase> {
    // the first 32 entries of ALPHABET are ASCII
    let ch = prop_oneof![8 => any::<u16>().prop_map(|s| pick(&ALPHABET[..28], s)), 2 => any::<u16>().prop_map(|s| pick(ALPHABET, s)), 1 => any::<char>()];
    let fixed: Vec<&'static str> = vec![
        "", "+", "-", ".", "_", "+_", "-_", "0x", "0x.", "0x_", "e", "@", "e5", "1e", "1e+", "1.+5", "1._5", "-+1", "+-1", "--1", "1.-5", "._", "_.", "_._", "1__2", "1..2", "1.2.3", "0x1.8p3", "0X1.8P3",
        "0x1.8@3", "1p3", "inf", "-inf", "NaN", "nan", " 1", "1 ", "1e 5", "1e5 ", "١", "1.5é", "é1.5", "1é.5", "1.5e5é", "1.5eé5", "0xé", "0é", "0", "00", "-0", "+.0", "1_e5", "1e_5", "1e5_", "1@+5", "1@-5",
        "1@@5", "1e5e5", "1.e5", ".e5", ".5e", "1e99999999999999999999", "1e-99999999999999999999", "1e9223372036854775807", "10e9223372036854775807", "1.5e-9223372036854775808",
        "1.0e-9223372036854775808", "0.1e-9223372036854775808",
    ];
    prop_oneof![
        5 => proptest::collection::vec(ch, 0..14).prop_map(|v| v.into_iter().collect::<String>()),
        1 => (0..fixed.len()).prop_map(move |i| fixed[i].to_string()),
    ]
    .prop_map(|text| ParseCase { text, want: None })
}

/// scales at and around the ends of the isize range (both sides), short mantissas
fn extreme_case(base: u64) -> impl Strategy<Value = ParseCase> {
    (0u8..3, 0usize..=4, 0usize..=4, 0u8..8, 0u8..8, any::<u64>(), any::<bool>(), -8i64..=8, 0u8..4).prop_map(move |(sign, li, lf, si, sf, seed, neg, delta, msel)| {
        let mut int = gen_digits(li, si, seed, base);
        let frac = gen_digits(lf, sf, seed ^ 0x5555, base);
        if int.is_empty() && frac.is_empty() {
            int.push(1);
        }
        let mut text = String::new();
        match sign {
            1 => text.push('+'),
            2 => text.push('-'),
            _ => {}
        }
        text.push_str(&with_underscores(&int, 0, 0, [0; 3]));
        if !frac.is_empty() || msel == 0 {
            text.push('.');
        }
        text.push_str(&with_underscores(&frac, 0, 0, [0; 3]));
        let ms = markers(base, false);
        text.push(ms[(msel as usize) % ms.len()]);
        let end: BigInt = if neg { BigInt::from(isize::MIN) } else { BigInt::from(isize::MAX) };
        text.push_str(&(end + BigInt::from(delta)).to_string());
        ParseCase { text, want: None }
    })
}

// ------------------------------------------------------------------------------------------------
// printing
// ------------------------------------------------------------------------------------------------

macro_rules! fmt_one {
    ($fl:literal, $ty:literal, $x:expr, $w:expr, $p:expr) => {
        match ($w, $p) {
            (None, None) => format!(concat!("{:", $fl, $ty, "}"), $x),
            (Some(w), None) => format!(concat!("{:", $fl, "w$", $ty, "}"), $x, w = w),
            (None, Some(p)) => format!(concat!("{:", $fl, ".p$", $ty, "}"), $x, p = p),
            (Some(w), Some(p)) => format!(concat!("{:", $fl, "w$.p$", $ty, "}"), $x, w = w, p = p),
        }
    };
}

/// (flags, fill, alignment 0 default / 1 left / 2 centre / 3 right, sign-aware zero padding, plus)
const SPECS: [(&str, char, u8, bool, bool); 12] = [
    ("", ' ', 0, false, false),
    ("+", ' ', 0, false, true),
    ("<", ' ', 1, false, false),
    ("^", ' ', 2, false, false),
    (">", ' ', 3, false, false),
    ("*<", '*', 1, false, false),
    ("*^", '*', 2, false, false),
    ("~>", '~', 3, false, false),
    ("0", ' ', 0, true, false),
    ("+0", ' ', 0, true, true),
    ("*<+", '*', 1, false, true),
    ("~^+", '~', 2, false, true),
];

macro_rules! render_fn {
    ($name:ident, $tr:ident, $ty:literal) => {
        fn $name<T: $tr>(x: &T, spec: usize, w: Option<usize>, p: Option<usize>) -> String {
            match spec {
                0 => fmt_one!("", $ty, x, w, p),
                1 => fmt_one!("+", $ty, x, w, p),
                2 => fmt_one!("<", $ty, x, w, p),
                3 => fmt_one!("^", $ty, x, w, p),
                4 => fmt_one!(">", $ty, x, w, p),
                5 => fmt_one!("*<", $ty, x, w, p),
                6 => fmt_one!("*^", $ty, x, w, p),
                7 => fmt_one!("~>", $ty, x, w, p),
                8 => fmt_one!("0", $ty, x, w, p),
                9 => fmt_one!("+0", $ty, x, w, p),
                10 => fmt_one!("*<+", $ty, x, w, p),
                _ => fmt_one!("~^+", $ty, x, w, p),
            }
        }
    };
}
render_fn!(render_display, Display, "");
render_fn!(render_lexp, LowerExp, "e");
render_fn!(render_uexp, UpperExp, "E");
render_fn!(render_binary, Binary, "b");
render_fn!(render_octal, Octal, "o");
render_fn!(render_lhex, LowerHex, "x");
render_fn!(render_uhex, UpperHex, "X");

type Extra<const B: Word> = fn(&FBig<mode::Zero, B>, u8, usize, Option<usize>, Option<usize>) -> Option<(String, &'static str)>;

fn extra_none<const B: Word>(_: &FBig<mode::Zero, B>, _: u8, _: usize, _: Option<usize>, _: Option<usize>) -> Option<(String, &'static str)> {
    None
}
fn extra2(x: &FBig<mode::Zero, 2>, k: u8, s: usize, w: Option<usize>, p: Option<usize>) -> Option<(String, &'static str)> {
    Some(match k % 3 {
        0 => (render_binary(x, s, w, p), "fmt: Binary (base 2, 'b' scale)"),
        1 => (render_lhex(x, s, w, p), "fmt: LowerHex (base 2, 0x..p)"),
        _ => (render_uhex(x, s, w, p), "fmt: UpperHex (base 2, 0x..p)"),
    })
}
fn extra8(x: &FBig<mode::Zero, 8>, _: u8, s: usize, w: Option<usize>, p: Option<usize>) -> Option<(String, &'static str)> {
    Some((render_octal(x, s, w, p), "fmt: Octal (base 8, 'o' scale)"))
}
fn extra16(x: &FBig<mode::Zero, 16>, k: u8, s: usize, w: Option<usize>, p: Option<usize>) -> Option<(String, &'static str)> {
    Some(match k % 2 {
        0 => (render_lhex(x, s, w, p), "fmt: LowerHex (base 16, 'h' scale)"),
        _ => (render_uhex(x, s, w, p), "fmt: UpperHex (base 16, 'h' scale)"),
    })
}

fn render_any<const B: Word>(x: &FBig<mode::Zero, B>, tr: u8, extra: Extra<B>, s: usize, w: Option<usize>, p: Option<usize>) -> (String, &'static str) {
    match tr % 8 {
        0 | 1 => (render_display(x, s, w, p), "fmt: Display"),
        2 => (render_lexp(x, s, w, p), "fmt: LowerExp"),
        3 => (render_uexp(x, s, w, p), "fmt: UpperExp"),
        k => extra(x, k - 4, s, w, p).unwrap_or_else(|| (render_display(x, s, w, p), "fmt: Display")),
    }
}

/// the padded text must be the unpadded one plus fill characters as std::fmt describes
fn check_pad(natural: &str, padded: &str, w: usize, spec: usize) -> Result<(), String> {
    let (_, fill, align, zero, _) = SPECS[spec];
    let nat: Vec<char> = natural.chars().collect();
    let d = w.saturating_sub(nat.len());
    let want: String = if zero {
        let mut head = 0;
        if matches!(nat.first(), Some('+') | Some('-')) {
            head = 1;
        }
        if nat.len() >= head + 2 && nat[head] == '0' && (nat[head + 1] == 'x' || nat[head + 1] == 'X') {
            head += 2;
        }
        nat[..head].iter().copied().chain(std::iter::repeat('0').take(d)).chain(nat[head..].iter().copied()).collect()
    } else {
        let (l, r) = match align {
            1 => (0, d),
            2 => (d / 2, d - d / 2),
            _ => (d, 0),
        };
        std::iter::repeat(fill).take(l).chain(nat.iter().copied()).chain(std::iter::repeat(fill).take(r)).collect()
    };
    if padded != want {
        return Err(want);
    }
    Ok(())
}

#[derive(Debug, Clone, Hash, Serialize, Deserialize)]
struct RtCase {
    p: u32,
    x: Fl,
    tr: u8,
    spec: u8,
    width: u16,
}

fn small_precision() -> BoxedStrategy<u32> {
    prop_oneof![2 => Just(1u32), 2 => Just(2u32), 2 => Just(3u32), 6 => 4u32..=10, 5 => 11u32..=40, 2 => 41u32..=60, 1 => 61u32..=200].boxed()
}

fn fl_value(base: u64, p: u32, ksel: u16, pat: u8, seed: u64, neg: bool, exp: i64, zero: bool) -> Fl {
    if zero {
        return fl_from(&BigInt::zero(), 0);
    }
    let pu = p as u64;
    let ks = [pu, pu, pu.saturating_sub(1).max(1), 1, 1 + seed % pu, (pu + 1) / 2];
    let k = pick(&ks, ksel);
    let m = sig_pattern(base, k, pat, seed);
    fl_from(&if neg { -BigInt::from(m) } else { BigInt::from(m) }, exp)
}

fn rt_case(base: u64) -> impl Strategy<Value = RtCase> {
    (
        small_precision(),
        (any::<u16>(), 0u8..9, any::<u64>(), any::<bool>(), 0u8..40),
        prop_oneof![8 => -12i64..=12, 4 => -70i64..=70, 2 => -400i64..=400, 1 => -10_000i64..=10_000],
        0u8..8,
        0u8..12,
        (any::<bool>(), 0u16..60, 0u16..8),
        0u8..3,
    )
        .prop_map(move |(p, (ksel, pat, seed, neg, z), exp, tr, spec, (rel, wabs, wd), inside)| {
            let mut x = fl_value(base, p, ksel, pat, seed, neg, exp, z == 0);
            if inside == 0 && !x.sig.is_zero() {
                // radix point inside the digit string
                x.exp = -(((seed >> 7) % (x.digits(base) + 1)) as i64);
            }
            let exp = x.exp;
            // widths around the natural length of the positional form
            let nat = x.digits(base) as i64 + exp.abs().min(80);
            let width = if rel { (nat + wd as i64 - 3).max(0) as u16 } else { wabs };
            RtCase { p, x, tr, spec, width }
        })
}

fn print_roundtrip<const B: Word>(c: &RtCase, ctx: &Ctx, extra: Extra<B>) -> Out {
    let mut out = Out::new();
    let base = B as u64;
    let f: FBig<mode::Zero, B> = c.x.fbig(c.p as usize);
    let spec = c.spec as usize % SPECS.len();
    let w = c.width as usize;
    let (natural, label) = match catch(|| render_any(&f, c.tr, extra, spec, None, None)) {
        Ok(v) => v,
        Err(m) => {
            out.fail(format!("formatting {}·{base}^{} panicked: {}", c.x.sig.big(), c.x.exp, normalise_msg(&m)));
            return out;
        }
    };
    out.label(label);
    let (ws, we) = norm_val(&c.x.sig.big(), c.x.exp as i128, base);
    out.label(if ws.is_zero() {
        "value: zero"
    } else if we >= 0 {
        "value: integer (exponent >= 0)"
    } else if (digits(ws.magnitude(), base) as i128) + we <= 0 {
        "value: |x| < 1 (leading zeros)"
    } else {
        "value: integral and fractional digits"
    });
    out.nontrivial(natural.contains('.') || natural.contains(markers(base, natural.contains("0x"))));
    let what = format!("{} of {}·{base}^{}", &label[5..], ws, we);
    // 1. the text denotes the value (reference grammar) and parses back to it
    let num = Num { sig: ws.clone(), exp: we, nd: 0 };
    match ref_parse(&natural, base) {
        Want::Val(n) => {
            if norm_val(&n.sig, n.exp, base) != (ws.clone(), we) {
                out.fail(format!("{what} printed \"{}\", which denotes {}·{base}^{}", clip(&natural), n.sig, n.exp));
            }
        }
        other => out.fail(format!("{what} printed \"{}\", which is not in the documented input grammar ({other:?})", clip(&natural))),
    }
    match call_parse::<B>(&natural) {
        Err(m) => out.fail(format!("parsing the printed text \"{}\" panicked: {}", clip(&natural), normalise_msg(&m))),
        Ok(Err(e)) => out.fail(format!("{what} printed \"{}\", which FBig::from_str rejects with {e:?}", clip(&natural))),
        Ok(Ok(g)) => {
            let n2 = Num { nd: g.2 as u64, ..num };
            if let Err(e) = same_value(&n2, &g, base) {
                out.fail(format!("{what} printed \"{}\"; parsed back: {e}", clip(&natural)));
            }
        }
    }
    // 2. flags only add a '+' / padding
    let plain = match catch(|| render_any(&f, c.tr, extra, 0, None, None)) {
        Ok((s, _)) => s,
        Err(_) => natural.clone(),
    };
    let want_nat = if SPECS[spec].4 && !plain.starts_with('-') { format!("+{plain}") } else { plain };
    if natural != want_nat {
        out.fail(format!("{what} with flags \"{}\" (no width) gave \"{}\" instead of \"{}\"", SPECS[spec].0, clip(&natural), clip(&want_nat)));
    }
    match catch(|| render_any(&f, c.tr, extra, spec, Some(w), None)) {
        Err(m) => out.fail(format!("{what} with width {w} panicked: {}", normalise_msg(&m))),
        Ok((padded, _)) => {
            out.label(if w > natural.chars().count() { "width: pads" } else { "width: no padding needed" });
            if SPECS[spec].3 {
                out.label("width: sign-aware zero padding");
            }
            if let Err(want) = check_pad(&natural, &padded, w, spec) {
                let detail = format!("{what} with width {w}, flags \"{}\": got \"{}\", the unpadded text is \"{}\" so \"{}\" was expected", SPECS[spec].0, clip(&padded), clip(&natural), clip(&want));
                // fmt.rs counts a radix point for a value with exponent 0 when no precision is given
                let one_short = padded.chars().count() + 1 == want.chars().count() && check_pad(&natural, &padded, w - 1, spec).is_ok();
                if label == "fmt: Display" && we == 0 && one_short {
                    ctx.known_or_fail(&mut out, "C08/display-width-exponent-zero-one-short", || detail);
                } else {
                    out.fail(detail);
                }
            }
        }
    }
    out
}

#[derive(Debug, Clone, Hash, Serialize, Deserialize)]
struct PpCase {
    x: Fl,
    n: u32,
    mode: Mode,
    spec: u8,
    width: u16,
    tr: u8,
}

/// values whose digits straddle the N-th fractional position: m·B^d + low at exponent −(N+d)
fn pp_case(base: u64) -> impl Strategy<Value = PpCase> {
    (0u32..40, any_mode(), (0u64..=12, 0u8..9, any::<u64>(), any::<bool>()), (-3i64..=14, 0u8..8, any::<u64>()), (0u8..12, 0u16..70), 0u8..4).prop_map(
        move |(n, mode, (kh, pat, seed, neg), (d, low_class, lseed), (spec, width), tr)| {
            // scientific forms keep N+1 significant digits: small N so that digits are dropped
            let n = if tr >= 2 { n % 14 } else { n };
            let m = if kh == 0 { BigUint::zero() } else { sig_pattern(base, kh, pat, seed) };
            let (sig, exp) = if d <= 0 {
                // nothing to round: the last digit sits at or above the N-th fractional position
                (m, -(n as i64) - d)
            } else {
                let du = d as u64;
                let unit = bpow(base, du);
                let half = &unit / BigUint::from(2u8);
                let mut r = SplitMix(lseed);
                let low = match low_class {
                    0 => BigUint::zero(),
                    1 => half.clone(),
                    2 => &half + BigUint::one(),
                    3 => {
                        if half.is_zero() {
                            half.clone()
                        } else {
                            &half - BigUint::one()
                        }
                    }
                    4 => BigUint::one(),
                    5 => &unit - BigUint::one(),
                    _ => {
                        let words: Vec<u64> = (0..(unit.bits() / 64 + 2)).map(|_| r.next()).collect();
                        words_to_big(&words) % &unit
                    }
                };
                let low = if low >= unit { BigUint::zero() } else { low };
                (m * &unit + low, -(n as i64) - d)
            };
            let s = if neg { -BigInt::from(sig) } else { BigInt::from(sig) };
            PpCase { x: fl_from(&s, exp), n, mode, spec, width, tr }
        },
    )
}

fn frac_digit_count(text: &str) -> Option<usize> {
    text.find('.').map(|p| text[p + 1..].chars().take_while(|c| c.is_ascii_alphanumeric()).count())
}

fn print_precision<R: ModeTag, const B: Word>(c: &PpCase, _ctx: &Ctx) -> Out {
    let mut out = Out::new();
    let base = B as u64;
    let n = c.n as usize;
    let sig = c.x.sig.big();
    let (ws, we) = norm_val(&sig, c.x.exp as i128, base);
    let prec = digits(sig.magnitude(), base).max(1) as usize;
    let f: FBig<R, B> = c.x.fbig(prec);
    let spec = c.spec as usize % SPECS.len();
    let w = c.width as usize;
    let value = Sci::new(sig.clone(), c.x.exp, base).to_rational();
    let judge = |out: &mut Out, what: &str, text: &str, padded: Result<String, String>, want_sig: &BigInt, want_exp: i128, frac: Option<usize>| {
        match padded {
            Err(m) => out.fail(format!("{what} with width {w} panicked: {}", normalise_msg(&m))),
            Ok(padded) => {
                if let Err(want) = check_pad(text, &padded, w, spec) {
                    out.fail(format!("{what} of {}·{base}^{} with width {w}, flags \"{}\": got \"{}\", the unpadded text is \"{}\" so \"{}\" was expected", ws, we, SPECS[spec].0, clip(&padded), clip(text), clip(&want)));
                }
            }
        }
        match ref_parse(text, base) {
            Want::Val(t) => {
                let got = norm_val(&t.sig, t.exp, base);
                let want = norm_val(want_sig, want_exp, base);
                if got != want {
                    out.fail(format!(
                        "{what} of {}·{base}^{} ({}) printed \"{}\" = {}·{base}^{}, the correctly rounded value is {}·{base}^{}",
                        ws,
                        we,
                        R::MODE.name(),
                        clip(text),
                        got.0,
                        got.1,
                        want.0,
                        want.1
                    ));
                }
                if t.sig.is_zero() && text.contains('-') {
                    out.label("negative value rounded to -0");
                }
            }
            other => out.fail(format!("{what} printed \"{}\", not in the documented grammar ({other:?})", clip(text))),
        }
        if let Some(nf) = frac {
            let got = frac_digit_count(text);
            let ok = if nf == 0 { got.is_none() } else { got == Some(nf) };
            if !ok {
                out.fail(format!("{what} of {}·{base}^{} printed \"{}\" with {:?} fractional digits instead of {nf}", ws, we, clip(text), got));
            }
        }
    };
    match c.tr % 4 {
        0 | 1 => {
            // Display: N digits after the radix point, value rounded with the type's mode
            let scaled = &value * BigRational::from_integer(BigInt::from(bpow(base, n as u64)));
            let e = round_rational(&scaled, R::MODE);
            out.nontrivial(!scaled.is_integer());
            out.label(if scaled.is_integer() { "Display .N: no rounding needed" } else { "Display .N: digits dropped" });
            if !scaled.is_integer() {
                let twice = &scaled * BigRational::from_integer(BigInt::from(2));
                if twice.is_integer() {
                    out.label("Display .N: exact tie");
                }
                if e.is_zero() {
                    out.label("Display .N: rounds to zero");
                }
            }
            match catch(|| render_display(&f, spec, None, Some(n))) {
                Err(m) => out.fail(format!("Display .{n} of {}·{base}^{} panicked: {}", ws, we, normalise_msg(&m))),
                Ok(text) => judge(&mut out, &format!("Display .{n}"), &text, catch(|| render_display(&f, spec, Some(w), Some(n))), &e, -(n as i128), Some(n)),
            }
            // Repr's Display is documented (fmt.rs) to round towards zero
            let ez = round_rational(&scaled, Mode::Zero);
            match catch(|| render_display(f.repr(), spec, None, Some(n))) {
                Err(m) => out.fail(format!("Repr Display .{n} panicked: {}", normalise_msg(&m))),
                Ok(text) => judge(&mut out, &format!("Repr Display .{n} (mode Zero)"), &text, catch(|| render_display(f.repr(), spec, Some(w), Some(n))), &ez, -(n as i128), Some(n)),
            }
        }
        _ => {
            // scientific: one digit before the point and N after it = N+1 significant digits
            let d = digits(ws.magnitude(), base);
            let keep = n as u64 + 1;
            let (es, ee) = if d > keep {
                let drop = d - keep;
                let q = BigRational::new(ws.clone(), BigInt::from(bpow(base, drop)));
                (round_rational(&q, R::MODE), we + drop as i128)
            } else {
                (ws.clone(), we)
            };
            out.nontrivial(d > keep);
            out.label(if d > keep { "LowerExp .N: digits dropped" } else { "LowerExp .N: no rounding needed" });
            let upper = c.tr % 4 == 3;
            match catch(|| if upper { render_uexp(&f, spec, None, Some(n)) } else { render_lexp(&f, spec, None, Some(n)) }) {
                Err(m) => out.fail(format!("LowerExp .{n} of {}·{base}^{} panicked: {}", ws, we, normalise_msg(&m))),
                Ok(text) => judge(
                    &mut out,
                    &format!("{} .{n}", if upper { "UpperExp" } else { "LowerExp" }),
                    &text,
                    catch(|| if upper { render_uexp(&f, spec, Some(w), Some(n)) } else { render_lexp(&f, spec, Some(w), Some(n)) }),
                    &es,
                    ee,
                    None,
                ),
            }
        }
    }
    out
}

/// base 2 LowerHex/UpperHex with a precision: N hex digits after the point = 4N+4 significant bits
fn print_precision_hex<R: ModeTag>(c: &PpCase, _ctx: &Ctx) -> Out {
    let mut out = Out::new();
    let n = (c.n % 6) as usize;
    let sig = c.x.sig.big();
    let (ws, we) = norm_val(&sig, c.x.exp as i128, 2);
    let prec = digits(sig.magnitude(), 2).max(1) as usize;
    let f: FBig<R, 2> = c.x.fbig(prec);
    let spec = c.spec as usize % SPECS.len();
    let w = c.width as usize;
    let d = digits(ws.magnitude(), 2);
    let keep = 4 * n as u64 + 4;
    let (es, ee) = if d > keep {
        let drop = d - keep;
        (round_rational(&BigRational::new(ws.clone(), BigInt::from(bpow(2, drop))), R::MODE), we + drop as i128)
    } else {
        (ws.clone(), we)
    };
    out.nontrivial(d > keep);
    out.label(if d > keep { "LowerHex .N: bits dropped" } else { "LowerHex .N: no rounding needed" });
    let upper = c.tr % 2 == 1;
    let what = format!("{} .{n} of {}·2^{} ({})", if upper { "UpperHex" } else { "LowerHex" }, ws, we, R::MODE.name());
    let r = |w: Option<usize>| catch(|| if upper { render_uhex(&f, spec, w, Some(n)) } else { render_lhex(&f, spec, w, Some(n)) });
    match r(None) {
        Err(m) => out.fail(format!("{what} panicked: {}", normalise_msg(&m))),
        Ok(text) => {
            match ref_parse(&text, 2) {
                Want::Val(t) => {
                    let got = norm_val(&t.sig, t.exp, 2);
                    let want = norm_val(&es, ee, 2);
                    if got != want {
                        out.fail(format!("{what} printed \"{}\" = {}·2^{}, the correctly rounded value is {}·2^{}", clip(&text), got.0, got.1, want.0, want.1));
                    }
                }
                other => out.fail(format!("{what} printed \"{}\", not in the documented grammar ({other:?})", clip(&text))),
            }
            match r(Some(w)) {
                Err(m) => out.fail(format!("{what} with width {w} panicked: {}", normalise_msg(&m))),
                Ok(padded) => {
                    if let Err(want) = check_pad(&text, &padded, w, spec) {
                        out.fail(format!("{what} with width {w}, flags \"{}\": got \"{}\", the unpadded text is \"{}\" so \"{}\" was expected", SPECS[spec].0, clip(&padded), clip(&text), clip(&want)));
                    }
                }
            }
        }
    }
    out
}

// ------------------------------------------------------------------------------------------------
// precision and base changes
// ------------------------------------------------------------------------------------------------

/// smallest k in {1, 2, 4, ...} with |r − x| < k ulp_p(x) (ulp of the true value's binade); 0 if equal
fn err_class(x: &Sci, r: &Sci, p: u64) -> u64 {
    if x.cmp(r) == Ordering::Equal {
        return 0;
    }
    if x.is_zero() {
        return u64::MAX;
    }
    let e = x.floor_log();
    let ulp = Sci::unit(x.base, e - p as i64 + 1);
    let diff = r.sub(x).abs();
    let mut k = 1u64;
    while k < (1 << 40) {
        let ku = Sci { n: &ulp.n * BigInt::from(k), d: ulp.d.clone(), e: ulp.e, base: ulp.base };
        if diff.cmp(&ku) == Ordering::Less {
            return k;
        }
        k *= 2;
    }
    u64::MAX
}

fn ilog_exact(n: u64, base: u64) -> u32 {
    let (mut pow, mut exp) = (base, 1);
    while pow < n {
        pow *= base;
        exp += 1;
    }
    if pow == n {
        exp
    } else {
        0
    }
}

/// the documented target precision of with_base: the max integer k with new^k <= old^p
fn doc_target_precision(old: u64, new: u64, p: u64) -> u64 {
    digits(&bpow(old, p), new) - 1
}

#[derive(Debug, Clone, Hash, Serialize, Deserialize)]
struct ConvCase {
    /// source precision, 0 = unlimited
    p: u32,
    x: Fl,
    /// explicit target precision (with_precision / with_base_and_precision)
    p2: u32,
    mode: Mode,
}

fn conv_precision() -> BoxedStrategy<u32> {
    prop_oneof![1 => Just(0u32), 2 => Just(1u32), 2 => Just(2u32), 2 => Just(3u32), 6 => 4u32..=10, 5 => 11u32..=40, 2 => 41u32..=60].boxed()
}

fn conv_value(base: u64, p: u32, ksel: u16, pat: u8, seed: u64, neg: bool, exp: i64, zero: bool) -> Fl {
    // an unlimited-precision source may carry any number of digits
    let eff = if p == 0 { 1 + (seed % 24) as u32 } else { p };
    fl_value(base, eff, ksel, pat, seed, neg, exp, zero)
}

fn chg_prec_case(base: u64) -> impl Strategy<Value = ConvCase> {
    (conv_precision(), (any::<u16>(), 0u8..9, any::<u64>(), any::<bool>(), 0u8..40), -50i64..=50, any_mode(), 0u8..10, 0u32..=64).prop_map(
        move |(p, (ksel, pat, seed, neg, z), exp, mode, rel, raw)| {
            let x = conv_value(base, p, ksel, pat, seed, neg, exp, z == 0);
            let d = x.digits(base) as u32;
            let p2 = match rel {
                0 => 0,
                1 => d,
                2 => d.saturating_sub(1),
                3 => d + 1,
                4 => 1,
                5 => (d / 2).max(1),
                6 => p,
                _ => raw,
            };
            ConvCase { p, x, p2, mode }
        },
    )
}

fn change_precision<R: ModeTag, const B: Word>(c: &ConvCase, ctx: &Ctx) -> Out {
    let mut out = Out::new();
    let base = B as u64;
    let src: FBig<R, B> = c.x.fbig(c.p as usize);
    let truth = Truth::Val(c.x.sci(base));
    let d = c.x.digits(base);
    out.label(if c.p == 0 { "source: unlimited precision" } else { "source: limited precision" });
    out.label(if c.p2 == 0 {
        "target: unlimited"
    } else if (c.p2 as u64) < d {
        "target: fewer digits than the value has"
    } else {
        "target: enough digits"
    });
    out.nontrivial(c.p2 != 0 && (c.p2 as u64) < d);
    match catch(|| src.clone().with_precision(c.p2 as usize)) {
        Err(m) => out.fail(format!("with_precision({}) of {} (precision {}) panicked: {}", c.p2, c.x.sci(base).show(), c.p, normalise_msg(&m))),
        Ok(r) => match res_of(&r) {
            Err(e) => out.fail(format!("with_precision: {e}")),
            Ok(res) => {
                if res.precision != c.p2 as usize {
                    out.fail(format!("with_precision({}) returned a number with precision {}", c.p2, res.precision));
                }
                if c.p2 == 0 {
                    if res.flag.is_some() || truth.cmp(&res.val) != Ordering::Equal {
                        out.fail(format!("with_precision(0) of {}: got {} flag {:?}", c.x.sci(base).show(), res.val.show(), res.flag));
                    }
                } else {
                    let broken = contract(&truth, &res, c.p2 as u64, R::MODE);
                    if !broken.is_empty() {
                        let unrounded = res.flag.is_none() && truth.cmp(&res.val) == Ordering::Equal && broken.iter().all(|b| b.clause == "digits");
                        if c.p == 0 && unrounded {
                            ctx.known_or_fail(&mut out, "C08/with-precision-unlimited-source-not-rounded", || {
                                format!("with_precision({}) of the unlimited-precision {} returned it unchanged as Exact ({} digits)", c.p2, c.x.sci(base).show(), d)
                            });
                        } else {
                            report(&mut out, &format!("with_precision({}) from precision {}", c.p2, c.p), &truth, &res, c.p2 as u64, R::MODE, &broken);
                        }
                    }
                    out.label(if res.flag.is_some() { "inexact" } else { "exact" });
                }
            }
        },
    }
    out
}

fn conv_exponent() -> BoxedStrategy<i64> {
    prop_oneof![
        5 => -12i64..=12,
        3 => -38i64..=38,
        2 => prop_oneof![Just(38i64), Just(39), Just(-38), Just(-39), Just(40), Just(-40)],
        3 => (39i64..=120, any::<bool>()).prop_map(|(e, s)| if s { -e } else { e }),
        2 => (121i64..=400, any::<bool>()).prop_map(|(e, s)| if s { -e } else { e }),
    ]
    .boxed()
}

/// exponents far beyond the exact/ln-exp switch: the error of the scaled logarithm e·ln(B)/ln(NewB)
/// grows with |e|, so a working precision that is adequate at |e| = 400 need not be at 10^5
fn conv_exponent_far() -> BoxedStrategy<i64> {
    (prop_oneof![3 => 401i64..=4_000, 3 => 4_001i64..=40_000, 3 => 40_001i64..=120_000], any::<bool>()).prop_map(|(e, s)| if s { -e } else { e }).boxed()
}

fn chg_base_case(base: u64, new: u64) -> impl Strategy<Value = ConvCase> {
    chg_base_case_exp(base, new, conv_exponent())
}

fn chg_base_case_exp(base: u64, new: u64, exps: BoxedStrategy<i64>) -> impl Strategy<Value = ConvCase> {
    (conv_precision(), (any::<u16>(), 0u8..9, any::<u64>(), any::<bool>(), 0u8..40), exps, any_mode(), 0u8..10, 1u32..=60).prop_map(
        move |(p, (ksel, pat, seed, neg, z), exp, mode, rel, raw)| {
            let x = conv_value(base, p, ksel, pat, seed, neg, exp, z == 0);
            let doc = doc_target_precision(base, new, p as u64) as u32;
            let p2 = match rel {
                0 => 0,
                1 => doc,
                2 => doc + 1,
                3 => doc.saturating_sub(1),
                4 => 1,
                5 => 2,
                _ => raw,
            };
            ConvCase { p, x, p2, mode }
        },
    )
}

#[derive(Clone, Copy, PartialEq, Eq, Debug)]
enum Rel {
    /// NewB = B^n: exponent divided, result rounded
    PowerUp,
    /// B = NewB^n: exponent multiplied
    PowerDown,
    Unrelated,
}

struct ConvInfo {
    rel: Rel,
    /// exponent of the normalised source representation (selects the branch of convert_base)
    src_exp: i64,
    src_precision: u32,
    /// the target precision was requested explicitly (with_base_and_precision)
    explicit: bool,
    /// B^precision >= 2^128 (UBig::log2_bounds switches to its widened large-number estimate)
    big_limit: bool,
    b: u64,
}

const THRESHOLD_SMALL_EXP: i64 = 38; // (Word::BITS as f32 * 0.60206) as isize for 64-bit words

#[allow(non_upper_case_globals, clippy::too_many_arguments)]
fn judge_conv<R2: Round, const NB: Word>(out: &mut Out, ctx: &Ctx, what: &str, src: &Sci, got: Result<Rounded<FBig<R2, NB>>, String>, target: u64, mode_: Mode, info: &ConvInfo) {
    let nb = NB as u64;
    let truth_sci = Sci::from_rational(&src.to_rational(), nb);
    let truth = Truth::Val(truth_sci.clone());
    match got {
        Err(m) => {
            let unlimited_msg = m.contains("precision cannot be 0");
            if info.rel == Rel::Unrelated && target == 0 && unlimited_msg {
                if info.src_precision == 0 || info.explicit {
                    // documented: unlimited precision and bases that are not powers of each other
                    out.label("documented panic: unlimited precision");
                } else {
                    ctx.known_or_fail(out, "C08/with-base-tiny-precision-panics", || {
                        format!("{what} of {} (precision {}, limited): the target precision computes to 0 and the call panics: {}", src.show(), info.src_precision, normalise_msg(&m))
                    });
                }
            } else if info.rel == Rel::Unrelated && (-THRESHOLD_SMALL_EXP..0).contains(&info.src_exp) && m.contains("lhs.digits() <= self.precision + rhs.digits()") {
                ctx.known_or_fail(out, "C08/convert-base-small-neg-exponent-long-significand", || {
                    format!("{what} of {} (source precision {}, target precision {target}): {}", src.show(), info.src_precision, normalise_msg(&m))
                });
            } else {
                out.fail(format!("{what} of {} (precision {}) panicked: {}", src.show(), info.src_precision, normalise_msg(&m)));
            }
        }
        Ok(r) => match res_of(&r) {
            Err(e) => out.fail(format!("{what}: {e}")),
            Ok(res) => {
                let mut target = target;
                if res.precision as u64 != target {
                    if !info.explicit && res.precision as u64 + 1 == target && info.big_limit {
                        // f32 log2 bounds of a > 128-bit B^p are widened on purpose: the quotient is floored one too low
                        ctx.known_or_fail(out, "C08/with-base-precision-not-maximal", || format!("{what} of a precision-{} number: result precision {} instead of the documented maximum {target}", info.src_precision, res.precision));
                        target = res.precision as u64;
                    } else {
                        out.fail(format!("{what} of a precision-{} number: result precision {} instead of {target}", info.src_precision, res.precision));
                    }
                }
                if res.flag.is_some() {
                    out.label("inexact");
                    out.nontrivial(true);
                } else {
                    out.label("exact");
                }
                if target == 0 {
                    if res.flag.is_some() || truth.cmp(&res.val) != Ordering::Equal {
                        out.fail(format!("{what} of {} with unlimited target precision: got {} flag {:?}, must be exact", src.show(), res.val.show(), res.flag));
                    }
                    return;
                }
                if truth.representable(target) {
                    out.label("true value representable in the target precision");
                }
                let broken = contract(&truth, &res, target, mode_);
                if broken.is_empty() {
                    return;
                }
                let unrounded = res.flag.is_none() && truth.cmp(&res.val) == Ordering::Equal && broken.iter().all(|b| b.clause == "digits");
                let large = info.src_exp.abs() > THRESHOLD_SMALL_EXP;
                if info.rel == Rel::Unrelated && unrounded && (0..=THRESHOLD_SMALL_EXP).contains(&info.src_exp) {
                    ctx.known_or_fail(out, "C08/convert-base-small-nonneg-exponent-not-rounded", || {
                        format!("{what} of {} (target precision {target}): returned Exact with {} digits", src.show(), digits(&res.sig, nb))
                    });
                } else if info.rel == Rel::PowerDown && unrounded {
                    ctx.known_or_fail(out, "C08/convert-base-to-root-base-not-rounded", || {
                        format!("{what} of {} (target precision {target}): returned Exact with {} digits", src.show(), digits(&res.sig, nb))
                    });
                } else if info.rel == Rel::Unrelated && large && large_exp_allowed(info.src_exp, info.b, nb, target).map_or(true, |k| err_class(&truth_sci, &res.val, target) <= k) {
                    ctx.known_or_fail(out, "C08/convert-base-large-exponent-unfaithful", || {
                        let all: Vec<&str> = broken.iter().map(|b| b.clause).collect();
                        format!(
                            "{what} of {} (target precision {target}, {}): [{}] error class < {} ulp; true = {}, got = {} flag {:?}",
                            src.show(),
                            mode_.name(),
                            all.join(","),
                            err_class(&truth_sci, &res.val, target),
                            truth.show(),
                            res.val.show(),
                            res.flag
                        )
                    });
                } else {
                    report(out, what, &truth, &res, target, mode_, &broken);
                }
            }
        },
    }
}

/// Error model of the ln/exp branch of convert_base (known finding): the new exponent e·ln(B)/ln(NewB)
/// is computed with 2p digits in total, so its fractional part carries an error of about
/// |e|·log(B)·NewB^(1−2p), i.e. |e|·log(B)·NewB^(1−p) ulps of the result, on top of the 1-2 ulps
/// of the directed-mode ln/exp themselves. Returns the power of two below which an error (in
/// ulps of the target precision) belongs to the finding; None when the model error reaches the
/// size of the whole significand (the result is then arbitrary).  Larger errors are reported.
fn large_exp_allowed(src_exp: i64, b: u64, nb: u64, p: u64) -> Option<u64> {
    let a = BigUint::from(4u64 * src_exp.unsigned_abs() * (64 - b.leading_zeros() as u64) * nb);
    let np = bpow(nb, p);
    let bound: BigUint = BigUint::from(2u8) + (&a + &np - BigUint::one()) / &np;
    if bound >= bpow(nb, p.saturating_sub(1)).max(BigUint::from(2u8) * BigUint::from(nb)) {
        return None;
    }
    Some(bound.to_u64().unwrap().next_power_of_two())
}

#[allow(non_upper_case_globals)]
fn change_base<R: ModeTag, const B: Word, const NB: Word>(c: &ConvCase, ctx: &Ctx) -> Out {
    let mut out = Out::new();
    let (b, nb) = (B as u64, NB as u64);
    let src: FBig<R, B> = c.x.fbig(c.p as usize);
    let sci = c.x.sci(b);
    let src_exp = src.repr().exponent() as i64;
    let rel = if ilog_exact(nb, b) > 1 {
        Rel::PowerUp
    } else if ilog_exact(b, nb) > 1 {
        Rel::PowerDown
    } else {
        Rel::Unrelated
    };
    out.label(match rel {
        Rel::PowerUp => "branch: NewB is a power of B (round)",
        Rel::PowerDown => "branch: B is a power of NewB (exact)",
        Rel::Unrelated => {
            if src_exp.abs() > THRESHOLD_SMALL_EXP {
                "branch: |exponent| > 38 (ln/exp)"
            } else if src_exp >= 0 {
                "branch: 0 <= exponent <= 38 (multiply)"
            } else {
                "branch: -38 <= exponent < 0 (divide)"
            }
        }
    });
    out.label(if c.p == 0 { "source: unlimited precision" } else { "source: limited precision" });
    // with_base: documented target precision
    let doc = doc_target_precision(b, nb, c.p as u64);
    if doc == 0 {
        out.label("with_base: target precision computes to 0 (unlimited)");
    }
    let mut info = ConvInfo { rel, src_exp, src_precision: c.p, explicit: false, big_limit: bpow(b, c.p as u64).bits() > 128, b };
    judge_conv(&mut out, ctx, &format!("with_base::<{nb}> (from base {b})"), &sci, catch(|| src.clone().with_base::<NB>()), doc, R::MODE, &info);
    if nb == 10 {
        judge_conv(&mut out, ctx, &format!("to_decimal (from base {b})"), &sci, catch(|| src.to_decimal()), doc_target_precision(b, 10, c.p as u64), Mode::HalfAway, &info);
    }
    if nb == 2 {
        judge_conv(&mut out, ctx, &format!("to_binary (from base {b})"), &sci, catch(|| src.to_binary()), doc_target_precision(b, 2, c.p as u64), Mode::Zero, &info);
    }
    info.explicit = true;
    judge_conv(&mut out, ctx, &format!("with_base_and_precision::<{nb}>({}) (from base {b})", c.p2), &sci, catch(|| src.clone().with_base_and_precision::<NB>(c.p2 as usize)), c.p2 as u64, R::MODE, &info);
    out
}

#[derive(Debug, Clone, Hash, Serialize, Deserialize)]
struct FormulaCase {
    p: u32,
}

/// with_base on the value 1 carrying precision p: only the documented precision formula matters
#[allow(non_upper_case_globals)]
fn precision_formula<const B: Word, const NB: Word>(c: &FormulaCase, ctx: &Ctx) -> Out {
    let mut out = Out::new();
    let (b, nb) = (B as u64, NB as u64);
    let doc = doc_target_precision(b, nb, c.p as u64);
    out.nontrivial(c.p > 0);
    out.label(match c.p {
        0 => "p: 0 (unlimited)",
        1..=10 => "p: 1-10",
        11..=100 => "p: 11-100",
        101..=1000 => "p: 101-1000",
        _ => "p: > 1000",
    });
    let src: FBig<mode::Zero, B> = FBig::from_repr(Repr::one(), Context::new(c.p as usize));
    let unrelated = ilog_exact(nb, b) <= 1 && ilog_exact(b, nb) <= 1;
    if c.p % 8 == 0 {
        // "Infinities are mapped to infinities inexactly, the error will be NoOp"
        out.label("infinity");
        for neg in [false, true] {
            let inf: FBig<mode::Zero, B> = if neg { FBig::NEG_INFINITY } else { FBig::INFINITY };
            match catch(|| inf.with_base_and_precision::<NB>(c.p as usize)) {
                Err(m) => out.fail(format!("with_base_and_precision::<{nb}> of an infinity (base {b}) panicked: {}", normalise_msg(&m))),
                Ok(dashu_base::Approximation::Inexact(f, dashu_float::round::Rounding::NoOp)) if f.repr().is_infinite() && (f.repr().exponent() < 0) == neg => {}
                Ok(other) => out.fail(format!("with_base_and_precision::<{nb}> of {}inf (base {b}) = {other:?}, documented: Inexact(same infinity, NoOp)", if neg { "-" } else { "+" })),
            }
        }
    }
    match catch(|| src.with_base::<NB>()) {
        Err(m) => {
            if unrelated && doc == 0 && m.contains("precision cannot be 0") {
                if c.p == 0 {
                    out.label("documented panic: unlimited precision");
                } else {
                    ctx.known_or_fail(&mut out, "C08/with-base-tiny-precision-panics", || format!("with_base::<{nb}> of 1 (base {b}, precision {}): target precision computes to 0 and the call panics", c.p));
                }
            } else {
                out.fail(format!("with_base::<{nb}> of 1 (base {b}, precision {}) panicked: {}", c.p, normalise_msg(&m)));
            }
        }
        Ok(r) => match res_of(&r) {
            Err(e) => out.fail(format!("with_base: {e}")),
            Ok(res) => {
                if res.precision as u64 + 1 == doc && bpow(b, c.p as u64).bits() > 128 {
                    out.label("precision one below the documented maximum");
                    ctx.known_or_fail(&mut out, "C08/with-base-precision-not-maximal", || format!("with_base::<{nb}> from base {b}, precision {}: result precision {} but the max k with {nb}^k <= {b}^{} is {doc}", c.p, res.precision, c.p));
                } else if res.precision as u64 != doc {
                    let holds = bpow(nb, res.precision as u64) <= bpow(b, c.p as u64);
                    out.fail(format!(
                        "with_base::<{nb}> from base {b}, precision {}: result precision {} but the max k with {nb}^k <= {b}^{} is {doc} ({})",
                        c.p,
                        res.precision,
                        c.p,
                        if holds { "inequality holds, not maximal" } else { "inequality violated" }
                    ));
                }
                if res.flag.is_some() || !res.val.n.is_one() || res.val.e != 0 {
                    out.fail(format!("with_base::<{nb}> of 1 returned {} flag {:?}", res.val.show(), res.flag));
                }
            }
        },
    }
    out
}

// ------------------------------------------------------------------------------------------------
// IEEE import
// ------------------------------------------------------------------------------------------------

#[derive(Debug, Clone, Hash, Serialize, Deserialize)]
struct IeeeCase {
    bits: u64,
    wide: bool,
}

fn ieee_case() -> impl Strategy<Value = IeeeCase> {
    (any::<bool>(), 0u8..14, any::<u64>(), any::<bool>()).prop_map(|(wide, class, seed, neg)| {
        let (mbits, ebits) = if wide { (52u32, 11u32) } else { (23, 8) };
        let emax = (1u64 << ebits) - 1;
        let mmask = (1u64 << mbits) - 1;
        let mut r = SplitMix(seed);
        let (e, m): (u64, u64) = match class {
            0 => (0, 0),
            1 => (0, 1),
            2 => (0, mmask),
            3 => (0, r.next() & mmask),
            4 => (0, 1 << r.below(mbits as u64)),
            5 => (1, 0),
            6 => (1 + r.below(emax - 1), 0),
            7 => (emax - 1, mmask),
            8 => (emax, 0),
            9 => (emax, 1 | (r.next() & mmask)),
            10 => (emax, 1 << (mbits - 1)),
            11 => (1 + r.below(emax - 1), (r.next() & mmask) & !((1 << r.below(mbits as u64)) - 1)),
            _ => (1 + r.below(emax - 1), r.next() & mmask),
        };
        let bits = ((neg as u64) << (mbits + ebits)) | (e << mbits) | m;
        IeeeCase { bits, wide }
    })
}

fn from_ieee(c: &IeeeCase, _ctx: &Ctx) -> Out {
    let mut out = Out::new();
    let (mbits, ebits, bias) = if c.wide { (52u32, 11u32, 1075i64) } else { (23, 8, 150) };
    let emax = (1u64 << ebits) - 1;
    let m = c.bits & ((1u64 << mbits) - 1);
    let e = (c.bits >> mbits) & emax;
    let neg = (c.bits >> (mbits + ebits)) & 1 == 1;
    let name = if c.wide { "f64" } else { "f32" };
    type Got = Result<Result<(Option<(BigInt, i64)>, i32, usize), ()>, String>;
    // (finite (sig, exp) or None for an infinity, sign of an infinity, precision)
    let view = |r: &Repr<2>, prec: usize| -> (Option<(BigInt, i64)>, i32, usize) {
        if r.is_infinite() {
            (None, if r.exponent() > 0 { 1 } else { -1 }, prec)
        } else {
            (Some((i2n(r.significand()), r.exponent() as i64)), 0, prec)
        }
    };
    let (got_f, got_r): (Got, Got) = if c.wide {
        let v = f64::from_bits(c.bits);
        (
            catch(|| FBig::<mode::HalfAway, 2>::try_from(v).map(|f| view(f.repr(), f.precision())).map_err(|_| ())),
            catch(|| Repr::<2>::try_from(v).map(|r| view(&r, 0)).map_err(|_| ())),
        )
    } else {
        let v = f32::from_bits(c.bits as u32);
        (
            catch(|| FBig::<mode::HalfAway, 2>::try_from(v).map(|f| view(f.repr(), f.precision())).map_err(|_| ())),
            catch(|| Repr::<2>::try_from(v).map(|r| view(&r, 0)).map_err(|_| ())),
        )
    };
    let class = if e == emax {
        if m == 0 {
            "ieee: infinity"
        } else {
            "ieee: NaN"
        }
    } else if e == 0 {
        if m == 0 {
            "ieee: zero"
        } else {
            "ieee: subnormal"
        }
    } else if m == 0 {
        "ieee: power of two"
    } else {
        "ieee: normal"
    };
    out.label(class);
    out.label(if c.wide { "f64" } else { "f32" });
    out.nontrivial(e != emax && (e != 0 || m != 0));
    for (what, got, is_fbig) in [("FBig::<_,2>::try_from", got_f, true), ("Repr::<2>::try_from", got_r, false)] {
        let got = match got {
            Err(p) => {
                out.fail(format!("{what}({name} bits {:#x}) panicked: {}", c.bits, normalise_msg(&p)));
                continue;
            }
            Ok(g) => g,
        };
        if e == emax && m != 0 {
            if got.is_ok() {
                out.fail(format!("{what}({name} NaN bits {:#x}) returned Ok; the docs promise Err", c.bits));
            }
            continue;
        }
        let (val, inf_sign, prec) = match got {
            Err(()) => {
                out.fail(format!("{what}({name} bits {:#x}, {class}) returned Err", c.bits));
                continue;
            }
            Ok(g) => g,
        };
        if e == emax {
            if val.is_some() || inf_sign != if neg { -1 } else { 1 } {
                out.fail(format!("{what}({name} {}inf) = {val:?}, infinity sign {inf_sign}", if neg { "-" } else { "+" }));
            }
            continue;
        }
        let mant = if e == 0 { m } else { m | (1u64 << mbits) };
        let exp = if e == 0 { 1 - bias } else { e as i64 - bias };
        let sig = if neg { -BigInt::from(mant) } else { BigInt::from(mant) };
        let want = norm_val(&sig, exp as i128, 2);
        match val {
            None => out.fail(format!("{what}({name} bits {:#x}) returned an infinity for a finite value", c.bits)),
            Some((gs, ge)) => {
                if (gs.clone(), ge as i128) != want {
                    out.fail(format!("{what}({name} bits {:#x}) = {}·2^{} instead of {}·2^{}", c.bits, gs, ge, want.0, want.1));
                }
            }
        }
        if is_fbig {
            // precision = bit length of the decoded integer mantissa (24 / 53 for normal numbers,
            // fewer for subnormals; 0 = unlimited for ±0, like FBig::ZERO)
            let want_prec = 64 - mant.leading_zeros() as usize;
            if prec != want_prec {
                out.fail(format!("{what}({name} bits {:#x}): precision {prec} instead of {want_prec}", c.bits));
            }
        }
    }
    out
}

fn main() {
    let mut ck = Check::new(
        "C08",
        "strings built from the rustdoc grammar of FBig::from_str_native per base {2,3,8,10,16,36} (sign, aaa / aaa. / aaa.bbb / .bbb, underscores, upper/lower digits, leading/trailing zeros, scale markers @ e/E b/B o/O h/H, 0x..p hex floats, scales to ±4.6e18) with the value and digit count they were built for, cross-checked by an independent reference parser; single-edit mutations (insert/delete/replace/duplicate/swap/truncate, signs at structural positions, multi-byte characters) and arbitrary Unicode judged by that reference parser (Err, or the value of the grammar; never a panic); scales at the ends of the isize range; finite values (<= p digits of patterns 1 0..0, B-1 repeated, half, random, trailing zeros; |exponent| <= 10^4, radix point inside / outside the digits) printed with Display, LowerExp, UpperExp, Binary, Octal, LowerHex, UpperHex under 12 flag combinations and widths, read back by the reference parser and by FBig::from_str; `.N` (N < 40) for 6 modes against round_rational(value·B^N) with digits straddling position N (exact ties, tie±1, 0…01, B^d−1), scientific `.N` against N+1 significant digits (4N+4 bits for hex floats); with_precision, with_base, with_base_and_precision, to_decimal, to_binary for the 12 ordered pairs of {2,3,10,16} × 6 modes, source precisions 0(unlimited),1,2,3,4-60, exponents in −400..400 across the ±38 branch threshold of convert_base, explicit target precisions 0, 1, 2, documented±1, random, judged by the six-clause faithful-rounding contract in exact rational arithmetic in the target base, and the documented precision formula max k: NewB^k <= B^p for p <= 4000; TryFrom<f32/f64> for every IEEE class against a bit-level decode. Non-trivial: text with a radix point or scale marker / malformed non-empty text / rounding or padding happened / inexact conversion / finite non-zero IEEE value; distinct by case digest.",
    );
    ck.assume("the reference float grammar in c08.rs (written from the rustdoc of FBig::from_str_native; where the rustdoc is silent — 0X prefix, '@' after a 0x mantissa, a part made of underscores only — both Err and the natural value are accepted)");
    macro_rules! parse_subs {
        ($($b:literal),*) => {$(
            ck.sub(concat!("parse_valid_b", $b), (6_000, 120_000), || valid_case($b), parse_oracle::<$b>);
            ck.sub(concat!("parse_mutated_b", $b), (5_000, 100_000), || mutated_case($b), parse_oracle::<$b>);
            ck.sub(concat!("parse_arbitrary_b", $b), (2_500, 50_000), arbitrary_case, parse_oracle::<$b>);
            ck.sub(concat!("parse_extreme_scale_b", $b), (400, 8_000), || extreme_case($b), parse_oracle::<$b>);
        )*};
    }
    parse_subs!(2, 3, 8, 10, 16, 36);
    ck.sub("print_parse_roundtrip_b2", (3_000, 60_000), || rt_case(2), |c, ctx| print_roundtrip::<2>(c, ctx, extra2));
    ck.sub("print_parse_roundtrip_b3", (3_000, 60_000), || rt_case(3), |c, ctx| print_roundtrip::<3>(c, ctx, extra_none::<3>));
    ck.sub("print_parse_roundtrip_b8", (3_000, 60_000), || rt_case(8), |c, ctx| print_roundtrip::<8>(c, ctx, extra8));
    ck.sub("print_parse_roundtrip_b10", (3_000, 60_000), || rt_case(10), |c, ctx| print_roundtrip::<10>(c, ctx, extra_none::<10>));
    ck.sub("print_parse_roundtrip_b16", (3_000, 60_000), || rt_case(16), |c, ctx| print_roundtrip::<16>(c, ctx, extra16));
    ck.sub("print_parse_roundtrip_b36", (3_000, 60_000), || rt_case(36), |c, ctx| print_roundtrip::<36>(c, ctx, extra_none::<36>));
    macro_rules! pp_subs {
        ($($b:literal),*) => {$(
            ck.sub(concat!("print_precision_b", $b), (4_000, 80_000), || pp_case($b), |c: &PpCase, ctx: &Ctx| by_mode!(c.mode, R => print_precision::<R, $b>(c, ctx)));
        )*};
    }
    pp_subs!(2, 3, 10, 16);
    macro_rules! cp_subs {
        ($($b:literal),*) => {$(
            ck.sub(concat!("change_precision_b", $b), (2_500, 50_000), || chg_prec_case($b), |c: &ConvCase, ctx: &Ctx| by_mode!(c.mode, R => change_precision::<R, $b>(c, ctx)));
        )*};
    }
    cp_subs!(2, 3, 10, 16);
    macro_rules! cb_subs {
        ($($b:literal $nb:literal),*) => {$(
            ck.sub(concat!("change_base_", $b, "_to_", $nb), (2_000, 40_000), || chg_base_case($b, $nb), |c: &ConvCase, ctx: &Ctx| by_mode!(c.mode, R => change_base::<R, $b, $nb>(c, ctx)));
            ck.sub(concat!("with_base_precision_formula_", $b, "_to_", $nb), (600, 6_000), || prop_oneof![2 => 0u32..=70, 2 => 0u32..=700, 1 => 0u32..=4000].prop_map(|p| FormulaCase { p }), precision_formula::<$b, $nb>);
        )*};
    }
    cb_subs!(2 3, 2 10, 2 16, 3 2, 3 10, 3 16, 10 2, 10 3, 10 16, 16 2, 16 3, 16 10);
    macro_rules! cb_far_subs {
        ($($b:literal $nb:literal),*) => {$(
            ck.sub(concat!("change_base_far_", $b, "_to_", $nb), (160, 6_000), || chg_base_case_exp($b, $nb, conv_exponent_far()), |c: &ConvCase, ctx: &Ctx| by_mode!(c.mode, R => change_base::<R, $b, $nb>(c, ctx)));
        )*};
    }
    cb_far_subs!(10 2, 2 10, 3 10, 16 3);
    ck.sub("from_ieee", (6_000, 120_000), ieee_case, from_ieee);
    ck.sub("print_precision_hexfloat_b2", (2_000, 40_000), || pp_case(2), |c: &PpCase, ctx: &Ctx| by_mode!(c.mode, R => print_precision_hex::<R>(c, ctx)));
    ck.finish();
}
