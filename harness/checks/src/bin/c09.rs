//! C09 — bit operations follow infinite two's-complement semantics
//! (differential against num-bigint `BigInt`, cross-checked by a word-level two's-complement model).
use dashu_base::{BitTest, PowerOfTwo};
use dashu_int::{IBig, UBig};
use dv::gen::{self, Prof};
use dv::*;
use num_bigint::{BigInt, BigUint};
use num_integer::Integer;
use num_traits::{One, Signed, ToPrimitive, Zero};
use proptest::prelude::*;
use proptest::strategy::Union;
use serde::{Deserialize, Serialize};

// ------------------------------------------------------------------------------------------------
// cases
// ------------------------------------------------------------------------------------------------

#[derive(Debug, Clone, Hash, Serialize, Deserialize)]
struct UPair {
    a: Nat,
    b: Nat,
}

#[derive(Debug, Clone, Hash, Serialize, Deserialize)]
struct IPair {
    a: Int,
    b: Int,
}

#[derive(Debug, Clone, Hash, Serialize, Deserialize)]
struct PrimCase {
    a: Int,
    p: i128,
    width: u8, // 0..6: 8,16,32,64,128,size
}

/// an operand together with a shift count / bit position
#[derive(Debug, Clone, Hash, Serialize, Deserialize)]
struct At {
    a: Int,
    n: usize,
}

/// a primitive value (as its 128-bit sign extension) of one width, and a bit position
#[derive(Debug, Clone, Hash, Serialize, Deserialize)]
struct PrimBit {
    v: i128,
    width: u8, // 0..6: 8,16,32,64,128,size
    signed: bool,
    n: usize,
}

#[derive(Debug, Clone, Hash, Serialize, Deserialize)]
struct OnesCase {
    n: usize,
    b: Nat,
    k: usize,
}

// ------------------------------------------------------------------------------------------------
// generators
// ------------------------------------------------------------------------------------------------

fn trim(mut v: Vec<u64>) -> Nat {
    while v.last() == Some(&0) {
        v.pop();
    }
    Nat(v)
}

/// magnitudes: the shared structured operands (lengths 0,1,2,3,4,... × 12 patterns) plus the
/// patterns this property names explicitly
fn operand(prof: Prof) -> BoxedStrategy<Nat> {
    let v: Vec<(u32, BoxedStrategy<Nat>)> = vec![
        (12, gen::nat(prof)),
        // magnitudes of exactly 1, 2 and 3 words (inline word, inline double word, first heap size)
        (6, gen::nat_len(1, 3)),
        // 2^(64k) exactly, and its two neighbours
        (
            2,
            (0usize..=5, 0u8..3)
                .prop_map(|(k, d)| {
                    let p = BigUint::one() << (64 * k);
                    Nat::from_big(&match d {
                        0 => p,
                        1 => p - 1u32,
                        _ => p + 1u32,
                    })
                })
                .boxed(),
        ),
        // 2^j and 2^j - 1 for every j up to a little beyond 5 words
        (
            2,
            (0usize..=330, any::<bool>())
                .prop_map(|(j, ones)| {
                    let p = BigUint::one() << j;
                    Nat::from_big(&if ones { p - 1u32 } else { p })
                })
                .boxed(),
        ),
        // low word(s) zero, a single high word with s trailing zero bits
        (
            3,
            (1usize..=3, any::<u64>(), 0u32..64)
                .prop_map(|(z, w, s)| {
                    let mut v = vec![0u64; z];
                    v.push((w | 1) << s);
                    Nat(v)
                })
                .boxed(),
        ),
        // k low words all ones, then a word with exactly t trailing ones, optionally a top word
        (
            3,
            (0usize..=3, 0u32..63, any::<u64>(), any::<bool>(), any::<u64>())
                .prop_map(|(k, t, w, top, tw)| {
                    let mut v = vec![u64::MAX; k];
                    let ones = if t == 0 { 0 } else { u64::MAX >> (64 - t) };
                    v.push(((w << 1) << t) | ones);
                    if top {
                        v.push(tw);
                    }
                    trim(v)
                })
                .boxed(),
        ),
    ];
    Union::new_weighted(v).boxed()
}

fn signed(neg: bool, mag: Nat) -> Int {
    Int { neg: neg && !mag.is_zero(), mag }
}

fn int_operand(prof: Prof) -> impl Strategy<Value = Int> {
    (any::<bool>(), operand(prof)).prop_map(|(neg, mag)| signed(neg, mag))
}

/// pairs: independent, equal, complement (b = !a), negation, same length, one bit flipped, unbalanced
fn ipair(prof: Prof) -> impl Strategy<Value = IPair> {
    (operand(prof), operand(prof), 0u8..12, any::<bool>(), any::<bool>(), any::<u64>()).prop_map(|(ma, mb, rel, sa, sb, s)| {
        let a = signed(sa, ma);
        let b = match rel {
            0..=5 => signed(sb, mb),
            6 => signed(sb, a.mag.clone()),
            7 => Int::from_big(&(-a.big() - BigInt::one())),
            8 => Int::from_big(&(-a.big())),
            9 => signed(sb, Nat(gen::expand(a.mag.trimmed_len(), (s % gen::N_PATTERNS as u64) as u8, s))),
            10 => {
                let l = a.mag.trimmed_len();
                let pos = (s % (64 * l as u64 + 70)) as u64;
                let mut m = a.mag.big();
                let cur = m.bit(pos);
                m.set_bit(pos, !cur);
                signed(sb, Nat::from_big(&m))
            }
            _ => {
                let n = mb.trimmed_len();
                let m = (n / 4).max(1).min(n);
                signed(sb, trim(mb.0[..m].to_vec()))
            }
        };
        IPair { a, b }
    })
}

fn upair(prof: Prof) -> impl Strategy<Value = UPair> {
    ipair(prof).prop_map(|p| UPair { a: p.a.mag, b: p.b.mag })
}

/// shift counts / positions: the classes of gen::position (0,1,63,64,65,127,128,129,191..193,
/// 64·len−65.., 64·len−1, 64·len, 64·len+1, +63,+64,+65,+200, random) plus "far beyond"
fn at_case(prof: Prof) -> impl Strategy<Value = At> {
    (operand(prof), any::<bool>(), 0u16..=u16::MAX, 0u8..16, any::<u64>()).prop_map(|(mag, neg, sel, far, seed)| {
        let l = mag.trimmed_len();
        let n = match far {
            0..=13 => gen::position(l, sel, seed),
            14 => 64 * l + 1000 + (seed % 3000) as usize,
            _ => match seed % 3 {
                0 => 1usize << 40,
                1 => usize::MAX - 63,
                _ => usize::MAX,
            },
        };
        At { a: signed(neg, mag), n }
    })
}

fn ones_case() -> impl Strategy<Value = OnesCase> {
    (0u16..=u16::MAX, 0usize..=70, 0usize..3, any::<u64>(), operand(Prof::Small), 0u16..=u16::MAX).prop_map(|(sel, k, d, seed, b, ksel)| {
        let fixed = [0usize, 1, 2, 63, 64, 65, 127, 128, 129, 191, 192, 193, 255, 256, 257];
        let n = match sel % 8 {
            0..=2 => gen::pick(&fixed, sel),
            3..=5 => (64 * k + d).saturating_sub(1),
            _ => (seed % 4600) as usize,
        };
        let kk = gen::position((n + 63) / 64, ksel, seed >> 8);
        OnesCase { n, b, k: kk }
    })
}

// ------------------------------------------------------------------------------------------------
// word-level two's-complement model (independent of num-bigint's signed bit operations)
// ------------------------------------------------------------------------------------------------

fn neg_words(v: &mut [u64]) {
    let mut carry = 1u64;
    for w in v.iter_mut() {
        let (s, c) = (!*w).overflowing_add(carry);
        *w = s;
        carry = c as u64;
    }
}

/// words 0..n of the infinite two's-complement expansion of x; n must exceed the magnitude length
/// so that word n-1 consists of sign bits only
fn tc(x: &Int, n: usize) -> Vec<u64> {
    let l = x.mag.trimmed_len();
    assert!(n > l);
    let mut v: Vec<u64> = (0..n).map(|i| if i < l { x.mag.0[i] } else { 0 }).collect();
    if x.neg {
        neg_words(&mut v);
    }
    v
}

fn from_tc(v: &[u64]) -> BigInt {
    let top = *v.last().unwrap();
    assert!(top == 0 || top == u64::MAX, "model: top word must be a sign word");
    if top == 0 {
        BigInt::from(words_to_big(v))
    } else {
        let mut m = v.to_vec();
        neg_words(&mut m);
        -BigInt::from(words_to_big(&m))
    }
}

fn tc_bit(x: &Int, n: usize) -> bool {
    let l = x.mag.trimmed_len();
    if n / 64 > l {
        x.neg
    } else {
        tc(x, l + 1)[n / 64] >> (n % 64) & 1 == 1
    }
}

fn model_binop(a: &Int, b: &Int, f: impl Fn(u64, u64) -> u64) -> BigInt {
    let n = a.mag.trimmed_len().max(b.mag.trimmed_len()) + 1;
    let (ta, tb) = (tc(a, n), tc(b, n));
    let r: Vec<u64> = ta.iter().zip(tb.iter()).map(|(x, y)| f(*x, *y)).collect();
    from_tc(&r)
}

fn trimmed(n: &Nat) -> &[u64] {
    &n.0[..n.trimmed_len()]
}

fn bits_of(n: &Nat) -> usize {
    let w = trimmed(n);
    match w.last() {
        None => 0,
        Some(t) => 64 * w.len() - t.leading_zeros() as usize,
    }
}

fn pow2(n: usize) -> BigUint {
    BigUint::one() << n
}

/// x mod 2^n and x div 2^n without materialising 2^n for n beyond the operand
fn split_ref(x: &BigUint, bits: usize, n: usize) -> (BigUint, BigUint) {
    if n >= bits {
        (x.clone(), BigUint::zero())
    } else {
        let hi = x >> n;
        let lo = x - (&hi << n);
        (lo, hi)
    }
}

/// floor(x / 2^n)
fn floor_shr(x: &BigInt, bits: usize, n: usize) -> BigInt {
    if n >= bits {
        if x.is_negative() {
            -BigInt::one()
        } else {
            BigInt::zero()
        }
    } else {
        let r = x.div_floor(&BigInt::from(pow2(n)));
        assert_eq!(r, x >> n, "oracle self-check: num-bigint >> disagrees with div_floor");
        r
    }
}

// ------------------------------------------------------------------------------------------------
// comparison helpers
// ------------------------------------------------------------------------------------------------

fn cmp_u(out: &mut Out, what: &str, form: &str, got: &Result<UBig, String>, want: &BigUint) {
    match got {
        Ok(g) => {
            if &u2n(g) != want {
                out.fail(format!("{what} [{form}] wrong value: got {} want {}", show_u(&u2n(g)), show_u(want)));
            }
        }
        Err(m) => out.fail(format!("{what} [{form}] unexpected panic: {}", normalise(m))),
    }
}
fn cmp_i(out: &mut Out, what: &str, form: &str, got: &Result<IBig, String>, want: &BigInt) {
    match got {
        Ok(g) => {
            if &i2n(g) != want {
                out.fail(format!("{what} [{form}] wrong value: got {} want {}", show_i(&i2n(g)), show_i(want)));
            }
        }
        Err(m) => out.fail(format!("{what} [{form}] unexpected panic: {}", normalise(m))),
    }
}
fn cmp_p(out: &mut Out, what: &str, form: &str, got: &Result<u128, String>, want: u128) {
    match got {
        Ok(g) => {
            if *g != want {
                out.fail(format!("{what} [{form}] wrong value: got {g:#x} want {want:#x}"));
            }
        }
        Err(m) => out.fail(format!("{what} [{form}] unexpected panic: {}", normalise(m))),
    }
}
fn cmp_v<T: PartialEq + std::fmt::Debug>(out: &mut Out, what: &str, got: Result<T, String>, want: T) {
    match got {
        Ok(g) => {
            if g != want {
                out.fail(format!("{what}: got {g:?} want {want:?}"));
            }
        }
        Err(m) => out.fail(format!("{what}: unexpected panic: {}", normalise(&m))),
    }
}
/// the mathematical result of an operation whose dashu output type is unsigned
fn nonneg(x: &BigInt) -> BigUint {
    assert!(!x.is_negative(), "oracle: result expected to be representable as unsigned");
    x.magnitude().clone()
}

macro_rules! forms6 {
    // `a op b` in the four ownership forms plus the two assign forms, each under catch
    ($a:expr, $b:expr, $op:tt, $opa:tt) => {{
        let (a, b) = (&$a, &$b);
        let mut v = Vec::new();
        v.push(("val.val", catch(|| a.clone() $op b.clone())));
        v.push(("val.ref", catch(|| a.clone() $op b)));
        v.push(("ref.val", catch(|| a $op b.clone())));
        v.push(("ref.ref", catch(|| a $op b)));
        v.push(("assign.val", catch(|| { let mut x = a.clone(); x $opa b.clone(); x })));
        v.push(("assign.ref", catch(|| { let mut x = a.clone(); x $opa b; x })));
        v
    }};
}
macro_rules! forms4 {
    ($a:expr, $b:expr, $op:tt) => {{
        let (a, b) = (&$a, &$b);
        let mut v = Vec::new();
        v.push(("val.val", catch(|| a.clone() $op b.clone())));
        v.push(("val.ref", catch(|| a.clone() $op b)));
        v.push(("ref.val", catch(|| a $op b.clone())));
        v.push(("ref.ref", catch(|| a $op b)));
        v
    }};
}
macro_rules! aforms {
    ($a:expr, $b:expr, $opa:tt) => {{
        let (a, b) = (&$a, &$b);
        let mut v = Vec::new();
        v.push(("assign.val", catch(|| { let mut x = a.clone(); x $opa b.clone(); x })));
        v.push(("assign.ref", catch(|| { let mut x = a.clone(); x $opa b; x })));
        v
    }};
}

fn repr_pair(la: usize, lb: usize) -> &'static str {
    match (la <= 2, lb <= 2) {
        (true, true) => "repr:small.small",
        (true, false) => "repr:small.large",
        (false, true) => "repr:large.small",
        (false, false) => {
            if la == lb {
                "repr:large.large same length"
            } else {
                "repr:large.large different length"
            }
        }
    }
}
fn sign_pair(a: bool, b: bool) -> &'static str {
    match (a, b) {
        (false, false) => "sign:++",
        (false, true) => "sign:+-",
        (true, false) => "sign:-+",
        (true, true) => "sign:--",
    }
}

// ------------------------------------------------------------------------------------------------
// & | ^ on UBig
// ------------------------------------------------------------------------------------------------

fn ubig_bitops(c: &UPair, _ctx: &Ctx) -> Out {
    let mut out = Out::new();
    let (a, b) = (c.a.ubig(), c.b.ubig());
    let (na, nb) = (c.a.big(), c.b.big());
    let (la, lb) = (c.a.trimmed_len(), c.b.trimmed_len());
    // operand-only call: a set bit at a position >= 64
    out.nontrivial(la >= 2 || lb >= 2);
    out.label(repr_pair(la, lb));
    out.label(gen::repr_class(la.max(lb)));
    let (ia, ib) = (Int { neg: false, mag: c.a.clone() }, Int { neg: false, mag: c.b.clone() });
    let and = nonneg(&model_binop(&ia, &ib, |x, y| x & y));
    let or = nonneg(&model_binop(&ia, &ib, |x, y| x | y));
    let xor = nonneg(&model_binop(&ia, &ib, |x, y| x ^ y));
    assert!(and == &na & &nb && or == &na | &nb && xor == &na ^ &nb, "oracle self-check: model vs num-bigint (unsigned)");
    if la.max(lb) >= 3 && and.to_u64_digits().len() <= 2 {
        out.label("and:result heap->inline");
    }
    if la.max(lb) >= 3 && xor.to_u64_digits().len() <= 2 {
        out.label("xor:result heap->inline");
    }
    for (form, r) in forms6!(a, b, &, &=) {
        cmp_u(&mut out, "UBig & UBig", form, &r, &and);
    }
    for (form, r) in forms6!(a, b, |, |=) {
        cmp_u(&mut out, "UBig | UBig", form, &r, &or);
    }
    for (form, r) in forms6!(a, b, ^, ^=) {
        cmp_u(&mut out, "UBig ^ UBig", form, &r, &xor);
    }
    // commuted (the longer operand's buffer is reused, so the other side takes the other branch)
    cmp_u(&mut out, "UBig & UBig", "commuted ref.ref", &catch(|| &b & &a), &and);
    cmp_u(&mut out, "UBig | UBig", "commuted val.ref", &catch(|| b.clone() | &a), &or);
    cmp_u(&mut out, "UBig ^ UBig", "commuted ref.val", &catch(|| &b ^ a.clone()), &xor);
    out
}

// ------------------------------------------------------------------------------------------------
// & | ^ ! on IBig and the mixed UBig/IBig forms
// ------------------------------------------------------------------------------------------------

fn ibig_bitops(c: &IPair, _ctx: &Ctx) -> Out {
    let mut out = Out::new();
    let (a, b) = (c.a.ibig(), c.b.ibig());
    let (na, nb) = (c.a.big(), c.b.big());
    let (la, lb) = (c.a.mag.trimmed_len(), c.b.mag.trimmed_len());
    out.nontrivial(c.a.neg || c.b.neg || la >= 2 || lb >= 2);
    out.label(sign_pair(c.a.neg, c.b.neg));
    out.label(repr_pair(la, lb));
    // (magnitude - 1) drops a word for negative 2^(64k)
    for x in [&c.a, &c.b] {
        if x.neg && x.mag.big().count_ones() == 1 && bits_of(&x.mag) % 64 == 1 {
            out.label("negative with magnitude 2^(64k) (mag-1 loses a word)");
        }
    }
    let and = model_binop(&c.a, &c.b, |x, y| x & y);
    let or = model_binop(&c.a, &c.b, |x, y| x | y);
    let xor = model_binop(&c.a, &c.b, |x, y| x ^ y);
    assert!(and == &na & &nb && or == &na | &nb && xor == &na ^ &nb, "oracle self-check: model vs num-bigint (signed)");
    for (form, r) in forms6!(a, b, &, &=) {
        cmp_i(&mut out, "IBig & IBig", form, &r, &and);
    }
    for (form, r) in forms6!(a, b, |, |=) {
        cmp_i(&mut out, "IBig | IBig", form, &r, &or);
    }
    for (form, r) in forms6!(a, b, ^, ^=) {
        cmp_i(&mut out, "IBig ^ IBig", form, &r, &xor);
    }
    // !x = -x - 1
    for (x, nx, ix) in [(&a, &na, &c.a), (&b, &nb, &c.b)] {
        let want = -nx - BigInt::one();
        let l = ix.mag.trimmed_len() + 1;
        let model: Vec<u64> = tc(ix, l).iter().map(|w| !*w).collect();
        assert!(from_tc(&model) == want && !(nx.clone()) == want, "oracle self-check: not");
        cmp_i(&mut out, "!IBig", "val", &catch(|| !x.clone()), &want);
        cmp_i(&mut out, "!IBig", "ref", &catch(|| !x), &want);
    }

    // ---- mixed forms: the unsigned side is |a| resp. |b|; value = convert both to IBig first
    let (ua, ub) = (c.a.mag.ubig(), c.b.mag.ubig());
    let (pa, pb) = (Int { neg: false, mag: c.a.mag.clone() }, Int { neg: false, mag: c.b.mag.clone() });
    // UBig op IBig
    {
        let and = model_binop(&pa, &c.b, |x, y| x & y);
        let or = model_binop(&pa, &c.b, |x, y| x | y);
        let xor = model_binop(&pa, &c.b, |x, y| x ^ y);
        let nua = BigInt::from(c.a.mag.big());
        assert!(and == &nua & &nb && or == &nua | &nb && xor == &nua ^ &nb, "oracle self-check: model vs num-bigint (UBig op IBig)");
        let and_u = nonneg(&and); // output type UBig: x & y with x >= 0 is in [0, x]
        for (form, r) in forms4!(ua, b, &) {
            cmp_u(&mut out, "UBig & IBig -> UBig", form, &r, &and_u);
        }
        for (form, r) in aforms!(ua, b, &=) {
            cmp_u(&mut out, "UBig &= IBig", form, &r, &and_u);
        }
        for (form, r) in forms4!(ua, b, |) {
            cmp_i(&mut out, "UBig | IBig -> IBig", form, &r, &or);
        }
        for (form, r) in forms4!(ua, b, ^) {
            cmp_i(&mut out, "UBig ^ IBig -> IBig", form, &r, &xor);
        }
    }
    // IBig op UBig
    {
        let and = model_binop(&c.a, &pb, |x, y| x & y);
        let or = model_binop(&c.a, &pb, |x, y| x | y);
        let xor = model_binop(&c.a, &pb, |x, y| x ^ y);
        let nub = BigInt::from(c.b.mag.big());
        assert!(and == &na & &nub && or == &na | &nub && xor == &na ^ &nub, "oracle self-check: model vs num-bigint (IBig op UBig)");
        let and_u = nonneg(&and);
        for (form, r) in forms4!(a, ub, &) {
            cmp_u(&mut out, "IBig & UBig -> UBig", form, &r, &and_u);
        }
        for (form, r) in aforms!(a, ub, &=) {
            cmp_i(&mut out, "IBig &= UBig", form, &r, &and);
        }
        for (form, r) in forms6!(a, ub, |, |=) {
            cmp_i(&mut out, "IBig | UBig -> IBig", form, &r, &or);
        }
        for (form, r) in forms6!(a, ub, ^, ^=) {
            cmp_i(&mut out, "IBig ^ UBig -> IBig", form, &r, &xor);
        }
    }
    out
}

// ------------------------------------------------------------------------------------------------
// primitive operands on both sides
// ------------------------------------------------------------------------------------------------

macro_rules! pforms8 {
    ($x:expr, $p:expr, $op:tt) => {{
        let (x, p) = (&$x, $p);
        let mut v = Vec::new();
        v.push(("big.prim", catch(|| x.clone() $op p)));
        v.push(("&big.prim", catch(|| x $op p)));
        v.push(("big.&prim", catch(|| x.clone() $op &p)));
        v.push(("&big.&prim", catch(|| x $op &p)));
        v.push(("prim.big", catch(|| p $op x.clone())));
        v.push(("&prim.big", catch(|| &p $op x.clone())));
        v.push(("prim.&big", catch(|| p $op x)));
        v.push(("&prim.&big", catch(|| &p $op x)));
        v
    }};
}
macro_rules! pforms_assign {
    ($x:expr, $p:expr, $opa:tt) => {{
        let (x, p) = (&$x, $p);
        let mut v = Vec::new();
        v.push(("assign.prim", catch(|| { let mut y = x.clone(); y $opa p; y })));
        v.push(("assign.&prim", catch(|| { let mut y = x.clone(); y $opa &p; y })));
        v
    }};
}

macro_rules! prim_unsigned {
    ($out:ident, $c:ident, $t:ty) => {{
        let p: $t = $c.p as $t;
        let tn = stringify!($t);
        let ip = Int { neg: false, mag: trim(vec![p as u128 as u64, ((p as u128) >> 64) as u64]) };
        let np = BigInt::from(p);
        // ---- UBig (x) unsigned primitive:  & -> primitive,  | ^ -> UBig
        {
            let ua = $c.a.mag.ubig();
            let pa = Int { neg: false, mag: $c.a.mag.clone() };
            let nua = BigInt::from($c.a.mag.big());
            let and = model_binop(&pa, &ip, |x, y| x & y);
            let or = model_binop(&pa, &ip, |x, y| x | y);
            let xor = model_binop(&pa, &ip, |x, y| x ^ y);
            assert!(and == &nua & &np && or == &nua | &np && xor == &nua ^ &np, "oracle self-check: UBig (x) unsigned primitive");
            let and_p = and.to_u128().expect("and fits the primitive");
            assert!(and_p <= p as u128);
            for (form, r) in pforms8!(ua, p, &) {
                cmp_p(&mut $out, &format!("UBig & {tn} -> {tn}"), form, &r.map(|v| v as u128), and_p);
            }
            for (form, r) in pforms8!(ua, p, |) {
                cmp_u(&mut $out, &format!("UBig | {tn}"), form, &r, or.magnitude());
            }
            for (form, r) in pforms8!(ua, p, ^) {
                cmp_u(&mut $out, &format!("UBig ^ {tn}"), form, &r, xor.magnitude());
            }
            for (form, r) in pforms_assign!(ua, p, &=) {
                cmp_u(&mut $out, &format!("UBig &= {tn}"), form, &r, and.magnitude());
            }
            for (form, r) in pforms_assign!(ua, p, |=) {
                cmp_u(&mut $out, &format!("UBig |= {tn}"), form, &r, or.magnitude());
            }
            for (form, r) in pforms_assign!(ua, p, ^=) {
                cmp_u(&mut $out, &format!("UBig ^= {tn}"), form, &r, xor.magnitude());
            }
        }
        // ---- IBig (x) unsigned primitive:  & -> primitive,  | ^ -> IBig
        {
            let a = $c.a.ibig();
            let na = $c.a.big();
            let and = model_binop(&$c.a, &ip, |x, y| x & y);
            let or = model_binop(&$c.a, &ip, |x, y| x | y);
            let xor = model_binop(&$c.a, &ip, |x, y| x ^ y);
            assert!(and == &na & &np && or == &na | &np && xor == &na ^ &np, "oracle self-check: IBig (x) unsigned primitive");
            let and_p = and.to_u128().expect("and with a non-negative operand is non-negative and fits");
            assert!(and_p <= p as u128);
            for (form, r) in pforms8!(a, p, &) {
                cmp_p(&mut $out, &format!("IBig & {tn} -> {tn}"), form, &r.map(|v| v as u128), and_p);
            }
            for (form, r) in pforms8!(a, p, |) {
                cmp_i(&mut $out, &format!("IBig | {tn}"), form, &r, &or);
            }
            for (form, r) in pforms8!(a, p, ^) {
                cmp_i(&mut $out, &format!("IBig ^ {tn}"), form, &r, &xor);
            }
            for (form, r) in pforms_assign!(a, p, &=) {
                cmp_i(&mut $out, &format!("IBig &= {tn}"), form, &r, &and);
            }
            for (form, r) in pforms_assign!(a, p, |=) {
                cmp_i(&mut $out, &format!("IBig |= {tn}"), form, &r, &or);
            }
            for (form, r) in pforms_assign!(a, p, ^=) {
                cmp_i(&mut $out, &format!("IBig ^= {tn}"), form, &r, &xor);
            }
        }
    }};
}
macro_rules! prim_signed {
    ($out:ident, $c:ident, $t:ty) => {{
        let p: $t = $c.p as $t;
        let tn = stringify!($t);
        let ip = Int::from_i128(p as i128);
        let ip = Int { neg: ip.neg, mag: trim(ip.mag.0) };
        let np = BigInt::from(p);
        let a = $c.a.ibig();
        let na = $c.a.big();
        let and = model_binop(&$c.a, &ip, |x, y| x & y);
        let or = model_binop(&$c.a, &ip, |x, y| x | y);
        let xor = model_binop(&$c.a, &ip, |x, y| x ^ y);
        assert!(and == &na & &np && or == &na | &np && xor == &na ^ &np, "oracle self-check: IBig (x) signed primitive");
        for (form, r) in pforms8!(a, p, &) {
            cmp_i(&mut $out, &format!("IBig & {tn}"), form, &r, &and);
        }
        for (form, r) in pforms8!(a, p, |) {
            cmp_i(&mut $out, &format!("IBig | {tn}"), form, &r, &or);
        }
        for (form, r) in pforms8!(a, p, ^) {
            cmp_i(&mut $out, &format!("IBig ^ {tn}"), form, &r, &xor);
        }
        for (form, r) in pforms_assign!(a, p, &=) {
            cmp_i(&mut $out, &format!("IBig &= {tn}"), form, &r, &and);
        }
        for (form, r) in pforms_assign!(a, p, |=) {
            cmp_i(&mut $out, &format!("IBig |= {tn}"), form, &r, &or);
        }
        for (form, r) in pforms_assign!(a, p, ^=) {
            cmp_i(&mut $out, &format!("IBig ^= {tn}"), form, &r, &xor);
        }
        p < 0
    }};
}

fn prim_bitops(c: &PrimCase, _ctx: &Ctx) -> Out {
    let mut out = Out::new();
    let la = c.a.mag.trimmed_len();
    out.label(gen::repr_class(la));
    out.label(if c.a.neg { "big:negative" } else { "big:non-negative" });
    let pneg = match c.width {
        0 => {
            out.label("prim:8");
            prim_unsigned!(out, c, u8);
            prim_signed!(out, c, i8)
        }
        1 => {
            out.label("prim:16");
            prim_unsigned!(out, c, u16);
            prim_signed!(out, c, i16)
        }
        2 => {
            out.label("prim:32");
            prim_unsigned!(out, c, u32);
            prim_signed!(out, c, i32)
        }
        3 => {
            out.label("prim:64");
            prim_unsigned!(out, c, u64);
            prim_signed!(out, c, i64)
        }
        4 => {
            out.label("prim:128");
            prim_unsigned!(out, c, u128);
            prim_signed!(out, c, i128)
        }
        _ => {
            out.label("prim:size");
            prim_unsigned!(out, c, usize);
            prim_signed!(out, c, isize)
        }
    };
    out.label(if pneg { "prim:negative (as signed)" } else { "prim:non-negative (as signed)" });
    out.nontrivial(c.a.neg || pneg || la >= 2);
    out
}

// ------------------------------------------------------------------------------------------------
// << >>
// ------------------------------------------------------------------------------------------------

/// shl / set_bit are only run when the result stays small
const ALLOC_SLACK: usize = 8192;

fn n_class(n: usize, l: usize) -> &'static str {
    if n == 0 {
        "n:0"
    } else if n < 64 {
        "n:1-63"
    } else if n == 64 {
        "n:64"
    } else if n < 128 {
        "n:65-127"
    } else if n == 128 {
        "n:128"
    } else if n > 64 * l + ALLOC_SLACK {
        "n:huge (2^40..usize::MAX)"
    } else if n < 64 * l {
        "n:129..64*len-1"
    } else if n == 64 * l {
        "n:=64*len"
    } else if n <= 64 * l + 65 {
        "n:64*len+1..+65"
    } else {
        "n:far beyond len"
    }
}

macro_rules! shift_forms {
    ($a:expr, $n:expr, $op:tt, $opa:tt) => {{
        let (a, n) = (&$a, $n);
        let mut v = Vec::new();
        v.push(("val.usize", catch(|| a.clone() $op n)));
        v.push(("ref.usize", catch(|| a $op n)));
        v.push(("val.&usize", catch(|| a.clone() $op &n)));
        v.push(("ref.&usize", catch(|| a $op &n)));
        v.push(("assign.usize", catch(|| { let mut x = a.clone(); x $opa n; x })));
        v.push(("assign.&usize", catch(|| { let mut x = a.clone(); x $opa &n; x })));
        v
    }};
}

/// Root-cause class of finding C09/ibig-shr-neg-dword-lowword0: negative, inline two-word magnitude
/// whose low word is 0, shift count > 64 reaching a set bit of the high word. The floor correction
/// is then lost, so the observed value is exactly want + 1.
fn shr_defect_class(x: &Int, n: usize) -> bool {
    let w = trimmed(&x.mag);
    x.neg && w.len() == 2 && w[0] == 0 && n > 64 && {
        let k = (n - 64).min(64);
        let mask = if k == 64 { u64::MAX } else { (1u64 << k) - 1 };
        w[1] & mask != 0
    }
}

fn shifts(c: &At, ctx: &Ctx) -> Out {
    let mut out = Out::new();
    let n = c.n;
    let l = c.a.mag.trimmed_len();
    let bits = bits_of(&c.a.mag);
    out.nontrivial(c.a.neg || n >= 64);
    out.label(n_class(n, l));
    out.label(if c.a.neg { "sign:-" } else { "sign:+" });
    out.label(if l <= 2 { "repr:small" } else { "repr:large" });
    if n % 64 == 0 && n > 0 {
        out.label("n:word-aligned");
    }
    let (ua, a) = (c.a.mag.ubig(), c.a.ibig());
    let (nua, na) = (c.a.mag.big(), c.a.big());

    // ---- >>
    let (_, uq) = split_ref(&nua, bits, n);
    let want_shr = floor_shr(&na, bits, n);
    // independent statement of "floor division by 2^n": q·2^n <= a < (q+1)·2^n
    if n < bits + 64 {
        let lo = &want_shr << n;
        assert!(lo <= na && na < &lo + BigInt::from(pow2(n)), "oracle self-check: floor");
    }
    if l >= 3 {
        out.label(match uq.to_u64_digits().len() {
            0 => "shr:large -> 0",
            1 | 2 => "shr:large -> inline",
            _ => "shr:large -> large",
        });
    } else if n >= 128 {
        out.label("shr:dword, n >= 128");
    }
    if c.a.neg {
        let exact = n < bits && (&nua & (pow2(n) - 1u32)).is_zero();
        out.label(if n >= bits {
            "shr neg: everything shifted out (-1)"
        } else if exact {
            "shr neg: exact, no correction"
        } else {
            "shr neg: floor correction"
        });
    }
    for (form, r) in shift_forms!(ua, n, >>, >>=) {
        cmp_u(&mut out, "UBig >> n", form, &r, &uq);
    }
    let defect_class = shr_defect_class(&c.a, n);
    if defect_class {
        out.label("shr neg: 2-word magnitude, low word 0, n > 64");
    }
    for (form, r) in shift_forms!(a, n, >>, >>=) {
        match &r {
            Ok(g) if defect_class && i2n(g) == &want_shr + BigInt::one() => {
                ctx.known_or_fail(&mut out, "C09/ibig-shr-neg-dword-lowword0", || {
                    format!("IBig >> n [{form}] lost the floor correction: {} >> {n} = {} want {}", show_i(&na), show_i(&i2n(g)), show_i(&want_shr))
                });
            }
            _ => cmp_i(&mut out, "IBig >> n", form, &r, &want_shr),
        }
    }

    // ---- <<
    if n <= 64 * l + ALLOC_SLACK {
        let want_u = &nua << n;
        let want_i = &na << n;
        assert!(want_i == &na * BigInt::from(pow2(n)) && want_i.magnitude() == &want_u, "oracle self-check: shl");
        if l == 0 {
            out.label("shl:zero");
        } else if l <= 2 {
            let dw = c.a.mag.0[0] as u128 | ((c.a.mag.0.get(1).copied().unwrap_or(0) as u128) << 64);
            out.label(if n <= dw.leading_zeros() as usize {
                "shl:dword stays inline"
            } else if dw == 1 {
                "shl:one spilled"
            } else {
                "shl:dword spilled"
            });
        } else {
            out.label("shl:large");
        }
        for (form, r) in shift_forms!(ua, n, <<, <<=) {
            cmp_u(&mut out, "UBig << n", form, &r, &want_u);
        }
        for (form, r) in shift_forms!(a, n, <<, <<=) {
            cmp_i(&mut out, "IBig << n", form, &r, &want_i);
        }
        // round trip: (a << n) >> n = a, also for negatives (exact, no floor correction)
        cmp_i(&mut out, "(IBig << n) >> n", "val", &catch(|| (a.clone() << n) >> n), &na);
    } else {
        out.label("shl:skipped (result too large)");
    }
    out
}

// ------------------------------------------------------------------------------------------------
// bit, set_bit, clear_bit, split_bits, clear_high_bits
// ------------------------------------------------------------------------------------------------

fn bit_position(c: &At, _ctx: &Ctx) -> Out {
    let mut out = Out::new();
    let n = c.n;
    let l = c.a.mag.trimmed_len();
    let bits = bits_of(&c.a.mag);
    out.nontrivial(c.a.neg || n >= 64);
    out.label(n_class(n, l));
    out.label(if c.a.neg { "sign:-" } else { "sign:+" });
    out.label(if l <= 2 { "repr:small" } else { "repr:large" });
    let (ua, a) = (c.a.mag.ubig(), c.a.ibig());
    let (nua, na) = (c.a.mag.big(), c.a.big());

    // ---- bit(n)
    let ubit = n < bits && (trimmed(&c.a.mag)[n / 64] >> (n % 64)) & 1 == 1;
    let ibit = tc_bit(&c.a, n);
    assert!(ubit == nua.bit(n as u64) && ibit == na.bit(n as u64), "oracle self-check: bit");
    if c.a.neg {
        let tz = nua.trailing_zeros().unwrap() as usize;
        out.label(if n < tz {
            "bit(neg): below the lowest set bit"
        } else if n == tz {
            "bit(neg): at the lowest set bit"
        } else if n < bits {
            "bit(neg): inverted region"
        } else {
            "bit(neg): sign extension"
        });
    }
    cmp_v(&mut out, "UBig::bit(n)", catch(|| ua.bit(n)), ubit);
    cmp_v(&mut out, "IBig::bit(n)", catch(|| a.bit(n)), ibit);

    // ---- clear_bit(n)
    {
        let mut want = nua.clone();
        if n < bits {
            want.set_bit(n as u64, false);
        }
        if l >= 3 && want.to_u64_digits().len() <= 2 {
            out.label("clear_bit: heap -> inline");
        }
        cmp_u(&mut out, "UBig::clear_bit(n)", "-", &catch(|| { let mut x = ua.clone(); x.clear_bit(n); x }), &want);
    }
    // ---- set_bit(n)
    if n <= 64 * l + ALLOC_SLACK {
        let mut want = nua.clone();
        want.set_bit(n as u64, true);
        assert!(want == &nua | pow2(n), "oracle self-check: set_bit");
        out.label(if l <= 2 && n < 128 {
            "set_bit: dword"
        } else if l <= 2 {
            "set_bit: dword spilled"
        } else if n / 64 < l {
            "set_bit: large in place"
        } else {
            "set_bit: large extended"
        });
        cmp_u(&mut out, "UBig::set_bit(n)", "-", &catch(|| { let mut x = ua.clone(); x.set_bit(n); x }), &want);
    }
    // ---- split_bits(n) = (self & (2^n - 1), self >> n);  clear_high_bits(n) = low part
    {
        let (lo, hi) = split_ref(&nua, bits, n);
        if n <= bits + 64 {
            assert!(lo == &nua & (pow2(n) - 1u32) && hi == &nua >> n, "oracle self-check: split");
        }
        if l >= 3 {
            out.label(if n == 0 {
                "split: large, n = 0"
            } else if n >= bits {
                "split: large, n >= bit_len"
            } else if n % 64 == 0 {
                "split: large, word-aligned"
            } else {
                "split: large, inside a word"
            });
        }
        match catch(|| ua.clone().split_bits(n)) {
            Ok((glo, ghi)) => {
                if u2n(&glo) != lo || u2n(&ghi) != hi {
                    out.fail(format!("UBig::split_bits({n}): got ({}, {}) want ({}, {})", show_u(&u2n(&glo)), show_u(&u2n(&ghi)), show_u(&lo), show_u(&hi)));
                }
            }
            Err(m) => out.fail(format!("UBig::split_bits(n): unexpected panic: {}", normalise(&m))),
        }
        cmp_u(&mut out, "UBig::clear_high_bits(n)", "-", &catch(|| { let mut x = ua.clone(); x.clear_high_bits(n); x }), &lo);
    }
    out
}

// ------------------------------------------------------------------------------------------------
// bit_len, trailing_zeros/ones, count_ones/zeros, is_power_of_two, next_power_of_two
// ------------------------------------------------------------------------------------------------

fn trailing_ones_words(w: &[u64]) -> usize {
    let mut t = 0;
    for x in w {
        if *x == u64::MAX {
            t += 64;
        } else {
            return t + x.trailing_ones() as usize;
        }
    }
    t
}

/// `trailing_ones` of a non-negative value given by its (trimmed) words.
///
/// Finding C09/trailing-ones-large-skips-word0: for heap values (>= 3 words) the scan of
/// `trailing_ones_large` starts at word 1. Word 0 is never looked at, so the result is wrong
/// whenever word 0 is not all ones, and the scan runs off the end when every word is all ones.
fn check_trailing_ones(out: &mut Out, ctx: &Ctx, what: &str, w: &[u64], got: Result<Option<usize>, String>) {
    let want = trailing_ones_words(w);
    if matches!(&got, Ok(Some(g)) if *g == want) {
        return;
    }
    let in_class = w.len() >= 3 && (w[0] != u64::MAX || w.iter().all(|x| *x == u64::MAX));
    if in_class {
        let k = (1..w.len()).find(|i| w[*i] != u64::MAX);
        let explained = match (k, &got) {
            (Some(k), Ok(Some(g))) => *g == 64 * k + w[k].trailing_ones() as usize,
            (None, Err(m)) => m.contains("index out of bounds"),
            _ => false,
        };
        if explained {
            ctx.known_or_fail(out, "C09/trailing-ones-large-skips-word0", || format!("{what}: got {got:?} want Some({want}) ({} words, low word {:#x})", w.len(), w[0]));
            return;
        }
    }
    match got {
        Ok(g) => out.fail(format!("{what}: got {g:?} want Some({want})")),
        Err(m) => out.fail(format!("{what}: unexpected panic: {}", normalise(&m))),
    }
}

fn bit_scan(c: &Int, ctx: &Ctx) -> Out {
    let mut out = Out::new();
    let w = trimmed(&c.mag);
    let l = w.len();
    let bits = bits_of(&c.mag);
    out.nontrivial(c.neg || bits > 64);
    out.label(if c.neg { "sign:-" } else { "sign:+" });
    out.label(gen::repr_class(l));
    let (ua, a) = (c.mag.ubig(), c.ibig());
    let (nua, na) = (c.mag.big(), c.big());
    assert!(bits as u64 == nua.bits(), "oracle self-check: bits");

    // ---- bit_len: for negatives the bit length of the magnitude (doc example (-17).bit_len() = 5, primitive impl)
    cmp_v(&mut out, "UBig::bit_len", catch(|| ua.bit_len()), bits);
    cmp_v(&mut out, "IBig::bit_len", catch(|| a.bit_len()), bits);

    // ---- trailing_zeros: largest n with 2^n | x, None for 0 (same for the two's complement of a negative)
    let tz = if l == 0 {
        None
    } else {
        let i = w.iter().position(|x| *x != 0).unwrap();
        Some(64 * i + w[i].trailing_zeros() as usize)
    };
    assert!(tz.map(|t| t as u64) == nua.trailing_zeros() && tz.map(|t| t as u64) == na.trailing_zeros(), "oracle self-check: trailing_zeros");
    if let Some(t) = tz {
        out.label(if t >= 64 { "trailing zeros >= 64" } else { "trailing zeros < 64" });
    }
    cmp_v(&mut out, "UBig::trailing_zeros", catch(|| ua.trailing_zeros()), tz);
    cmp_v(&mut out, "IBig::trailing_zeros", catch(|| a.trailing_zeros()), tz);

    // ---- trailing_ones
    let to_u = trailing_ones_words(w);
    assert!(to_u as u64 == nua.trailing_ones(), "oracle self-check: trailing_ones");
    out.label(if to_u >= 64 { "trailing ones (magnitude) >= 64" } else { "trailing ones (magnitude) < 64" });
    check_trailing_ones(&mut out, ctx, "UBig::trailing_ones", w, catch(|| ua.trailing_ones()));
    if !c.neg {
        check_trailing_ones(&mut out, ctx, "IBig::trailing_ones (non-negative)", w, catch(|| a.trailing_ones()));
    } else {
        // two's complement: trailing ones of x = trailing zeros of !x = trailing zeros of x + 1; None for -1
        let want = (&na + BigInt::one()).trailing_zeros().map(|t| t as usize);
        // model: scan the two's-complement words
        let t = tc(c, l + 1);
        let model = if t.iter().all(|x| *x == u64::MAX) { None } else { Some(trailing_ones_words(&t)) };
        assert!(want == model, "oracle self-check: trailing_ones of a negative");
        out.label(match want {
            None => "trailing_ones(-1) = None",
            Some(0) => "trailing ones (negative): 0 (even)",
            Some(t) if t < 64 => "trailing ones (negative) 1-63",
            _ => "trailing ones (negative) >= 64",
        });
        cmp_v(&mut out, "IBig::trailing_ones (negative)", catch(|| a.trailing_ones()), want);
    }

    // ---- count_ones / count_zeros (zeros after the leading 1 bit; None for 0)
    let ones: usize = w.iter().map(|x| x.count_ones() as usize).sum();
    assert!(ones as u64 == nua.count_ones(), "oracle self-check: count_ones");
    cmp_v(&mut out, "UBig::count_ones", catch(|| ua.count_ones()), ones);
    cmp_v(&mut out, "UBig::count_zeros", catch(|| ua.count_zeros()), if l == 0 { None } else { Some(bits - ones) });

    // ---- powers of two
    let is_p2 = ones == 1;
    if is_p2 {
        out.label("power of two");
    }
    cmp_v(&mut out, "UBig::is_power_of_two", catch(|| ua.is_power_of_two()), is_p2);
    // smallest power of two >= self
    let np2 = if l == 0 || is_p2 { nua.clone().max(BigUint::one()) } else { pow2(bits) };
    assert!(np2.count_ones() == 1 && np2 >= nua && (np2 == BigUint::one() || (&np2 >> 1usize) < nua), "oracle self-check: next_power_of_two");
    if np2.bits() as usize > 64 * l && l >= 2 {
        out.label("next_power_of_two grows by a word");
    }
    cmp_u(&mut out, "UBig::next_power_of_two", "val", &catch(|| ua.clone().next_power_of_two()), &np2);
    out
}

// ------------------------------------------------------------------------------------------------
// UBig::ones(n)
// ------------------------------------------------------------------------------------------------

fn ones(c: &OnesCase, ctx: &Ctx) -> Out {
    let mut out = Out::new();
    let n = c.n;
    out.nontrivial(n >= 64);
    out.label(if n < 64 {
        "ones: n < 64 (word)"
    } else if n < 128 {
        "ones: 64 <= n < 128 (dword)"
    } else if n == 128 {
        "ones: n = 128"
    } else if n % 64 == 0 {
        "ones: n > 128, multiple of 64"
    } else {
        "ones: n > 128"
    });
    let want = pow2(n) - 1u32;
    // every observation builds a fresh ones(n): the value is examined as dashu returned it
    cmp_u(&mut out, "UBig::ones(n)", "value through raw words", &catch(|| UBig::ones(n)), &want);
    match catch(|| UBig::ones(n).as_words().to_vec()) {
        Ok(w) => out.check(w.last() != Some(&0), || format!("UBig::ones({n}).as_words() has a zero top word")),
        Err(m) => out.fail(format!("UBig::ones(n).as_words(): unexpected panic: {}", normalise(&m))),
    }

    // Follow-up operations on the returned value. Finding C09/ones-128-noncanonical: ones(128) is
    // a two-word value stored as a heap buffer (n < DWORD_BITS instead of <=), which breaks the
    // "heap means >= 3 words" invariant that later operations rely on.
    let follow = |out: &mut Out, what: &str, ok: Result<bool, String>| {
        if matches!(ok, Ok(true)) {
            return;
        }
        let detail = match &ok {
            Ok(_) => "wrong result".to_string(),
            Err(m) => format!("panic: {}", normalise(m)),
        };
        // the two consequences seen: `add_large_dword` trips its `buffer.len() >= 3` assertion, and
        // `trailing_ones_large` (which also assumes >= 3 words) indexes past the two words
        let consequence = match &ok {
            Err(m) => (what.starts_with("+ ONE") && m.contains("buffer.len() >=")) || (what.starts_with("trailing_ones") && m.contains("index out of bounds")),
            Ok(_) => false,
        };
        if n == 128 && consequence {
            ctx.known_or_fail(out, "C09/ones-128-noncanonical", || format!("{what} on UBig::ones(128): {detail}"));
        } else {
            out.fail(format!("{what} on UBig::ones({n}): {detail}"));
        }
    };
    let p2 = pow2(n);
    let b = c.b.ubig();
    let nb = c.b.big();
    let k = c.k;
    // the rustdoc example: ones(n) == (1 << n) - 1
    follow(&mut out, "== (ONE << n) - ONE (doc example)", catch(|| UBig::ones(n) == (UBig::ONE << n) - UBig::ONE));
    follow(&mut out, "+ ONE = 2^n", catch(|| u2n(&(UBig::ones(n) + UBig::ONE)) == p2));
    follow(&mut out, "ones & b", catch(|| u2n(&(UBig::ones(n) & &b)) == &nb & &want));
    follow(&mut out, "b & ones", catch(|| u2n(&(&b & UBig::ones(n))) == &nb & &want));
    follow(&mut out, "ones | b", catch(|| u2n(&(UBig::ones(n) | &b)) == &nb | &want));
    follow(&mut out, "b ^ ones", catch(|| u2n(&(b.clone() ^ UBig::ones(n))) == &nb ^ &want));
    follow(&mut out, "ones >> k", catch(|| u2n(&(UBig::ones(n) >> k)) == &want >> k));
    follow(&mut out, "&ones >> k", catch(|| u2n(&(&UBig::ones(n) >> k)) == &want >> k));
    follow(&mut out, "ones << k", catch(|| u2n(&(UBig::ones(n) << k)) == &want << k));
    follow(&mut out, "!IBig::from(ones) = -2^n", catch(|| i2n(&!IBig::from(UBig::ones(n))) == -BigInt::from(p2.clone())));
    follow(&mut out, "IBig::from(ones) & IBig(-b)", catch(|| i2n(&(IBig::from(UBig::ones(n)) & -IBig::from(b.clone()))) == BigInt::from(want.clone()) & -BigInt::from(nb.clone())));
    follow(&mut out, "bit_len = n", catch(|| UBig::ones(n).bit_len() == n));
    follow(&mut out, "count_ones = n", catch(|| UBig::ones(n).count_ones() == n));
    follow(&mut out, "count_zeros", catch(|| UBig::ones(n).count_zeros() == if n == 0 { None } else { Some(0) }));
    follow(&mut out, "trailing_zeros", catch(|| UBig::ones(n).trailing_zeros() == if n == 0 { None } else { Some(0) }));
    follow(&mut out, "bit(n-1), bit(n)", catch(|| { let x = UBig::ones(n); (n == 0 || x.bit(n - 1)) && !x.bit(n) }));
    follow(&mut out, "is_power_of_two", catch(|| UBig::ones(n).is_power_of_two() == (n == 1)));
    follow(&mut out, "next_power_of_two", catch(|| u2n(&UBig::ones(n).next_power_of_two()) == if n == 1 { BigUint::one() } else { p2.clone() }));
    follow(&mut out, "set_bit(n)", catch(|| { let mut x = UBig::ones(n); x.set_bit(n); u2n(&x) == &want + &p2 }));
    follow(&mut out, "clear_bit(0)", catch(|| { let mut x = UBig::ones(n); x.clear_bit(0); u2n(&x) == if n == 0 { BigUint::zero() } else { &want - 1u32 } }));
    follow(&mut out, "split_bits(k)", catch(|| { let (lo, hi) = UBig::ones(n).split_bits(k); u2n(&lo) == pow2(k.min(n)) - 1u32 && u2n(&hi) == &want >> k }));
    follow(&mut out, "clear_high_bits(k)", catch(|| { let mut x = UBig::ones(n); x.clear_high_bits(k); u2n(&x) == pow2(k.min(n)) - 1u32 }));
    // trailing_ones = n (for n >= 192, multiple of 64, this is the all-ones instance of the trailing_ones finding)
    if n == 128 {
        follow(&mut out, "trailing_ones = n", catch(|| UBig::ones(n).trailing_ones() == Some(n)));
    } else {
        check_trailing_ones(&mut out, ctx, "UBig::ones(n).trailing_ones()", &want.to_u64_digits(), catch(|| UBig::ones(n).trailing_ones()));
    }
    out
}

fn prim_bit_case() -> impl Strategy<Value = PrimBit> {
    (any::<u128>(), 0u8..6, any::<bool>(), 0u8..12, 0usize..20, any::<u16>()).prop_map(|(raw, width, signed, pat, k, pos)| {
        let bits = [8u32, 16, 32, 64, 128, usize::BITS][width as usize];
        // patterns: random, 0, -1 / MAX, MIN, 2^k, -(2^k), 2^k - 1, single cleared bit
        let k = (k as u32 * 7 + raw as u32 % 7) % bits;
        let raw = match pat {
            0 => 0,
            1 => u128::MAX,
            2 => 1u128 << (bits - 1),
            3 => (1u128 << (bits - 1)) - 1,
            4 => 1u128 << k,
            5 => (1u128 << k).wrapping_neg(),
            6 => (1u128 << k) - 1,
            7 => !(1u128 << k),
            _ => raw,
        };
        let mask = if bits == 128 { u128::MAX } else { (1u128 << bits) - 1 };
        let low = raw & mask;
        let v = if signed && (low >> (bits - 1)) & 1 == 1 { (low | !mask) as i128 } else { low as i128 };
        // positions: around every width, the top bit of this width, beyond
        let near = [0usize, 1, 6, 7, 8, 15, 16, 31, 32, 63, 64, 127, 128, 129, 200];
        let n = match pos % 4 {
            0 => near[(pos as usize / 4) % near.len()],
            1 => (bits as usize - 1 + (pos as usize / 4) % 3).saturating_sub(1),
            2 => k as usize,
            _ => (pos as usize / 4) % 140,
        };
        PrimBit { v, width, signed, n }
    })
}

/// `BitTest` / `PowerOfTwo` of the primitive integers (dashu-base): same semantics as the big types
fn prim_bittest(c: &PrimBit, _ctx: &Ctx) -> Out {
    let mut out = Out::new();
    let bits = [8u32, 16, 32, 64, 128, usize::BITS][c.width as usize];
    const TY: [[&str; 6]; 2] = [["prim-bit:u8", "prim-bit:u16", "prim-bit:u32", "prim-bit:u64", "prim-bit:u128", "prim-bit:usize"], ["prim-bit:i8", "prim-bit:i16", "prim-bit:i32", "prim-bit:i64", "prim-bit:i128", "prim-bit:isize"]];
    out.label(TY[c.signed as usize][c.width as usize]);
    // the mathematical value: unsigned 128-bit values are carried in the i128 bit pattern
    let val: BigInt = if c.signed { BigInt::from(c.v) } else { BigInt::from(c.v as u128) };
    let want_bit = ((&val >> c.n) & BigInt::one()) == BigInt::one();
    let want_len = val.magnitude().bits() as usize;
    if val.is_negative() {
        out.nontrivial(true);
        out.label("prim-bit: negative value");
    }
    if c.n + 1 >= bits as usize {
        out.nontrivial(true);
        out.label(if c.n + 1 == bits as usize { "prim-bit: position = top bit of the type" } else { "prim-bit: position beyond the type" });
    }
    macro_rules! run {
        ($t:ty) => {{
            let x = c.v as $t;
            (catch(|| x.bit(c.n)), catch(|| x.bit_len()), format!("{}{}", x, stringify!($t)))
        }};
    }
    let (bit, len, shown) = match (c.signed, c.width) {
        (false, 0) => run!(u8),
        (false, 1) => run!(u16),
        (false, 2) => run!(u32),
        (false, 3) => run!(u64),
        (false, 4) => run!(u128),
        (false, _) => run!(usize),
        (true, 0) => run!(i8),
        (true, 1) => run!(i16),
        (true, 2) => run!(i32),
        (true, 3) => run!(i64),
        (true, 4) => run!(i128),
        (true, _) => run!(isize),
    };
    cmp_v(&mut out, &format!("BitTest::bit({shown}, {})", c.n), bit, want_bit);
    cmp_v(&mut out, &format!("BitTest::bit_len({shown})"), len, want_len);
    // the big types agree by construction of the property: same value, same answer
    let big = n2i(&val);
    cmp_v(&mut out, &format!("IBig::bit({shown} as IBig, {})", c.n), catch(|| big.bit(c.n)), want_bit);
    // PowerOfTwo of the unsigned primitives (trait form; the next power is asked for only where
    // the type can hold it — beyond that the primitive's own overflow behaviour applies)
    if !c.signed {
        let mag = val.magnitude().clone();
        let want_is = !mag.is_zero() && (&mag & (&mag - BigUint::one())).is_zero();
        let want_next: BigUint = if mag.is_zero() { BigUint::one() } else { BigUint::one() << ((&mag - BigUint::one()).bits() as usize) };
        let fits = want_next.bits() <= bits as u64;
        macro_rules! pot {
            ($t:ty) => {{
                let x = c.v as $t;
                (catch(|| PowerOfTwo::is_power_of_two(&x)), if fits { Some(catch(|| BigUint::from(PowerOfTwo::next_power_of_two(x)))) } else { None })
            }};
        }
        let (is, next) = match c.width {
            0 => pot!(u8),
            1 => pot!(u16),
            2 => pot!(u32),
            3 => pot!(u64),
            4 => pot!(u128),
            _ => pot!(usize),
        };
        cmp_v(&mut out, &format!("PowerOfTwo::is_power_of_two({shown})"), is, want_is);
        if let Some(next) = next {
            cmp_v(&mut out, &format!("PowerOfTwo::next_power_of_two({shown})"), next, want_next.clone());
            cmp_v(&mut out, &format!("UBig::next_power_of_two({shown} as UBig)"), catch(|| u2n(&n2u(&mag).next_power_of_two())), want_next);
        }
    }
    out
}

fn main() {
    let mut ck = Check::new(
        "C09",
        "structured integers of every sign (magnitudes of exactly 0,1,2,3,4 words and larger; patterns all-ones, 2^k, 2^(64k) and neighbours, low words zero, runs of trailing ones across word boundaries; pairs independent / equal / b = !a / b = -a / same length / one bit flipped / unbalanced) through & | ^ ! in every ownership, assign, mixed UBig/IBig and primitive form, << >> (+assign, &usize) and the bit queries with shift counts / positions from {0,1,63,64,65,127,128,129,191..193, 64·len−1, 64·len, 64·len+1, +63..+65, +200, far beyond, 2^40, usize::MAX}; BitTest::bit / bit_len of the primitive integers of every width and sign (patterns 0, -1, MIN, MAX, ±2^k, 2^k-1; positions around the type's top bit and beyond); oracle = num-bigint BigInt (two's-complement bit ops, floor >>) which must agree with a word-level two's-complement model written in the check. Non-trivial: at least one negative operand, or a shift count / bit position >= 64 (calls without a position: an operand with a set bit at position >= 64); distinct = distinct case digest.",
    );
    ck.assume("num-bigint's signed bit operations are cross-checked in every case against a word-level two's-complement model in c09.rs; a disagreement aborts the case as 'unexpected panic' (oracle self-check)");
    ck.sub("ubig_bitops", (20_000, 500_000), || upair(Prof::Small), ubig_bitops);
    ck.sub("ubig_bitops_large", (3_000, 75_000), || upair(Prof::Large), ubig_bitops);
    ck.sub("ibig_bitops", (40_000, 1_000_000), || ipair(Prof::Small), ibig_bitops);
    ck.sub("ibig_bitops_large", (5_000, 125_000), || ipair(Prof::Large), ibig_bitops);
    ck.sub(
        "prim_bitops",
        (25_000, 625_000),
        || {
            (int_operand(Prof::Small), any::<i128>(), 0u8..6, 0u8..10).prop_map(|(a, p, width, shape)| {
                // boundary values of the primitive: 0, 1, -1 (all ones), MAX, MIN, a power of two, low word zero
                let p = match shape {
                    0 => 0,
                    1 => 1,
                    2 => -1,
                    3 => i128::MAX,
                    4 => i128::MIN,
                    5 => 1i128 << (p as u32 % 127),
                    6 => p & !0xffff_ffff_ffff_ffffi128,
                    _ => p,
                };
                PrimCase { a, p, width }
            })
        },
        prim_bitops,
    );
    ck.sub("shifts", (40_000, 1_000_000), || at_case(Prof::Small), shifts);
    ck.sub("shifts_large", (4_000, 100_000), || at_case(Prof::Large), shifts);
    ck.sub("bit_position", (30_000, 750_000), || at_case(Prof::Small), bit_position);
    ck.sub("bit_position_large", (3_000, 75_000), || at_case(Prof::Large), bit_position);
    ck.sub("bit_scan", (25_000, 625_000), || int_operand(Prof::Medium), bit_scan);
    ck.sub("ones", (8_000, 200_000), ones_case, ones);
    ck.sub("prim_bittest", (20_000, 500_000), prim_bit_case, prim_bittest);
    ck.finish();
}
